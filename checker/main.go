// egocheck: repository-specific static checker for the ego properties.
//
// Usage: egocheck -p C15 [-tier quick|thorough] [-repo /repo] [-out /verif]
//
// Every run snapshots the repository's working tree, runs the two offline
// `go generate` steps the tree needs to type-check, loads the resolved program
// (go/packages, go/types, optionally go/ssa) and evaluates the rules of one
// property.  Nothing of ego is executed.
package main

import (
	"flag"
	"fmt"
	"os"
	"runtime/debug"
	"sort"
	"strconv"
	"time"
)

type propertyCheck struct {
	id    string
	level string // evidence level
	needs loadNeeds
	run   func(w *World, r *Report)
	// decides / misses text, repeated in the evidence explanation.
	decides string
	misses  string
}

var registry = map[string]*propertyCheck{}

func register(p *propertyCheck) {
	if _, dup := registry[p.id]; dup {
		panic("duplicate property " + p.id)
	}

	registry[p.id] = p
}

func main() {
	prop := flag.String("p", "", "property id (C02 ...) or 'list'")
	tier := flag.String("tier", "quick", "quick|thorough")
	repo := flag.String("repo", envOr("EGO_REPO", "/repo"), "repository working tree to analyse")
	out := flag.String("out", envOr("VERIF_DIR", "/verif"), "directory holding evidence/ and known_findings.json")
	noEvidence := flag.Bool("no-evidence", false, "do not write evidence/replay files (used for scratch variants)")
	dump := flag.Bool("v", false, "print every obligation")
	flag.Parse()

	if *prop == "list" {
		ids := []string{}
		for id := range registry {
			ids = append(ids, id)
		}

		sort.Strings(ids)

		for _, id := range ids {
			fmt.Println(id)
		}

		return
	}

	pc, ok := registry[*prop]
	if !ok {
		fmt.Fprintf(os.Stderr, "unknown property %q\n", *prop)
		os.Exit(2)
	}

	seed := 0
	if s := os.Getenv("VERIF_SEED"); s != "" {
		seed, _ = strconv.Atoi(s)
	}

	if t := os.Getenv("VERIF_TIER"); t != "" && *tier == "" {
		*tier = t
	}

	start := time.Now()
	rep := newReport(pc, *tier, seed, *out)
	rep.verbose = *dump
	rep.noEvidence = *noEvidence

	code := func() (code int) {
		defer func() {
			if x := recover(); x != nil {
				// A checker panic is a failure of the check, never a pass.
				rep.Violate("checker-panic", "checker-panic|"+pc.id, "", fmt.Sprintf("checker panicked: %v\n%s", x, debug.Stack()))
			}
		}()

		w, err := loadWorld(*repo, pc.needs)
		if w != nil {
			defer w.cleanup()
		}

		if err != nil {
			rep.Violate("load", "load|"+pc.id, "", "cannot load repository: "+err.Error())

			return
		}

		rep.world = w
		pc.run(w, rep)

		if *tier == "thorough" && !*noEvidence {
			rep.Rule("selftest", "thorough tier: every recorded variant of the repository that this check is expected to catch (selftest/mutations.tsv, seeded/) is still caught when applied to a scratch copy of the current tree", 0)
			runVariants(pc, *repo, *out, rep)
		}

		return
	}()
	_ = code

	rep.wall = time.Since(start).Seconds()
	os.Exit(rep.finish())
}

func envOr(k, d string) string {
	if v := os.Getenv(k); v != "" {
		return v
	}

	return d
}
