package main

import (
	"go/token"
	"go/types"
	"strings"

	"golang.org/x/tools/go/ssa"
)

// C09 Finished executions leave nothing running.

func init() {
	register(&propertyCheck{
		id: "C09", level: "other", needs: loadNeeds{ssa: true},
		decides: "that every goroutine the interpreter or server starts is accounted for and, where it is started per execution, has a structural termination witness tied to the end of that execution: (1) census — every `go` statement in the repository's non-test code is classified in a frozen table (the Ego program's own goroutines; per-execution helpers; process-wide once-only workers; one-shot tasks of the command line); an unclassified one fails; " +
			"(2) per-execution helpers: W1 (done channel) — the body blocks only in selects that have a receive on the spawner's `done` channel, and the spawner registers a deferred close(done) such that no return is reachable from the `go` statement without it (so return, error and panic all release it); W2 (buffered result) — the body's only channel operation is one send on a channel the spawner made with a constant capacity of at least one; " +
			"(3) once-only workers are started inside sync.Once.Do or behind a test-and-set of a package-level flag; (4) RunFromAddress is the only function that indexes the dispatch table, so callbacks (sort comparators, String methods, deferred calls) run through the same paired code.",
		misses: "goroutines blocked for ever inside user programs, timers and child processes; that the blocking call inside a W2 body (cmd.Wait, the socket exchange, the debugger session) returns is an assumption bounded by the run timeout, not verified.",
		run:    runC09,
	})
}

type c09Class struct {
	class   string // "user" | "per-execution:W1" | "per-execution:W2" | "once:Do" | "once:flag" | "startup" | "task" | "cli"
	comment string
}

var c09Census = map[string]c09Class{
	"bytecode.goByteCode|go bytecode.goRoutine":              {"user", "the Ego program's own go statement; excluded by the property"},
	"bytecode.Context.RunFromAddress|go closure":             {"per-execution:W1", "signal watcher of one run"},
	"rest.Exchange|go closure":                               {"per-execution:W1", "progress message while a REST call is in flight"},
	"services.runChildViaPipe|go closure":                    {"per-execution:W2", "socket exchange with the child of one request"},
	"services.runChildProcess|go closure":                    {"per-execution:W2", "cmd.Wait of one child process"},
	"debugger.Resume|go closure":                             {"per-execution:W2", "runs one debugged program; reports on a buffered channel"},
	"oauth.Initialize|go closure":                            {"once:Do", "OAuth state purger"},
	"router.startRateLimitScan|go closure":                   {"once:Do", "login-attempt pruning"},
	"ui.OpenLogFile|go ui.rollOverTask":                      {"once:Do", "log roll-over"},
	"tables.BeginHandler|go closure":                         {"once:flag", "expired-transaction cleanup, started behind transactionsCleanupStarted under transactionsLock"},
	"caches.newCache|go caches.expire":                       {"once:flag", "one sweeper per cache class, behind expirationThreadRunning[id]"},
	"auth.Initialize|go auth.ageCredentials":                 {"startup", "started by the server's one-time authentication set-up"},
	"commands.RunServer|go router.LogMemoryStatistics":       {"startup", "server start"},
	"commands.RunServer|go router.LogRequestCounts":          {"startup", "server start"},
	"commands.RunServer|go cluster.StartHealthChecker":       {"startup", "server start"},
	"commands.RunServer|go closure":                          {"startup", "server start: signal handling for shutdown"},
	"commands.startSecureServer|go commands.redirectToHTTPS": {"startup", "server start: HTTP to HTTPS redirector"},
	"router.RequestShutdown|go closure":                      {"task", "server shutdown in progress; ends the process"},
	"caches.purge|go value":                                  {"task", "OnPurge broadcast of one purge; bounded by BroadcastCacheFlush's loop over peers (C29)"},
	"app.TimeoutAction|go closure":                           {"cli", "command-line --timeout: exits the process"},
	"app.startCallbackServer|go closure":                     {"cli", "interactive OAuth logon of the command line client"},
	"app.startCallbackServer|go closure#2":                   {"cli", "interactive OAuth logon of the command line client"},
}

func runC09(w *World, r *Report) {
	r.Rule("R-C09-1", "goroutine census: every go statement is classified in the frozen table", 20)
	r.Rule("R-C09-2", "per-execution goroutines have a termination witness (W1 deferred close of the done channel on every exit after the go statement; W2 single send on a buffered channel made by the spawner)", 5)
	r.Rule("R-C09-3", "once-only goroutines start inside sync.Once.Do or behind a test-and-set of a package-level flag", 5)
	r.Rule("R-C09-4", "dispatchTable is indexed only by Context.RunFromAddress", 1)
	c09SessionInputLoops(w, r)
	c09TransactionHandles(w, r)
	r.Rule("R-C09-5", "a per-execution goroutine that is handed a listener its spawner opened (net.Listen) is always released: the spawner closes the listener on every path from the go statement to a return, or deferred the close before the go statement — a goroutine blocked in Accept has no other way out", 1)

	type goSite struct {
		fn  *ssa.Function
		g   *ssa.Go
		key string
	}

	var sites []goSite

	count := map[string]int{}

	for _, p := range w.pkgs {
		for _, fn := range w.srcFuncs(p) {

			allInstrs(fn, func(in ssa.Instruction) {
				g, ok := in.(*ssa.Go)
				if !ok {
					return
				}

				target := "value"

				switch v := g.Call.Value.(type) {
				case *ssa.Function:
					target = fnKey(v)

					if v.Parent() != nil {
						target = "closure" // a function literal that captures nothing
					}
				case *ssa.MakeClosure:
					target = "closure"
				}

				// the go statement is attributed to the outermost named function
				outer := fn
				for outer.Parent() != nil {
					outer = outer.Parent()
				}

				key := fnKey(outer) + "|go " + target
				count[key]++

				if n := count[key]; n > 1 {
					key += "#" + sprintInt(n)
				}

				sites = append(sites, goSite{fn, g, key})
			})
		}
	}

	r.Unit("go_statements", len(sites))

	seen := map[string]bool{}

	for _, s := range sites {
		seen[s.key] = true

		cl, ok := c09Census[s.key]
		if !ok {
			r.Violate("R-C09-1", s.key, w.pos(s.g.Pos()), "a goroutine is started here that the census does not know: classify it (user / per-execution with a termination witness / once-only / start-up / task) or it may outlive the execution that started it")

			continue
		}

		r.Discharge("R-C09-1", s.key, w.pos(s.g.Pos()), cl.class+": "+cl.comment)

		if strings.HasPrefix(cl.class, "per-execution") {
			c09ListenerReleased(w, r, s.fn, s.g, s.key)
		}

		switch cl.class {
		case "per-execution:W1":
			c09W1(w, r, s.fn, s.g, s.key)
		case "per-execution:W2":
			c09W2(w, r, s.fn, s.g, s.key)
		case "once:Do":
			c09OnceDo(w, r, s.fn, s.g, s.key)
		case "once:flag":
			c09OnceFlag(w, r, s.fn, s.g, s.key)
		}
	}

	for _, k := range sortedKeys(c09Census) {
		if !seen[k] {
			r.Violate("R-C09-1", k, "", "the census lists a go statement that no longer exists: the table (and the witness checks attached to it) must follow the code")
		}
	}

	// ---- R-C09-4
	bp := w.pkg("internal/language/bytecode")
	if bp == nil {
		r.Anchor("R-C09-4", "package language/bytecode")

		return
	}

	users := map[string]string{}

	for _, fn := range w.srcFuncs(bp) {
		allInstrs(fn, func(in ssa.Instruction) {
			ia, ok := in.(*ssa.IndexAddr)
			if !ok {
				return
			}

			loadsTable := false

			switch x := ia.X.(type) {
			case *ssa.Global:
				loadsTable = x.Name() == "dispatchTable"
			case *ssa.UnOp:
				if g, ok := x.X.(*ssa.Global); ok {
					loadsTable = g.Name() == "dispatchTable"
				}
			}

			if !loadsTable {
				return
			}

			// writes (the table's initialisation) are not dispatches
			for _, ref := range *ia.Referrers() {
				if u, ok := ref.(*ssa.UnOp); ok && u.Op == token.MUL {
					users[fnKey(fn)] = w.pos(in.Pos())
				}
			}
		})
	}

	if len(users) == 0 {
		r.Anchor("R-C09-4", "a read of dispatchTable[…]")
	}

	for _, k := range sortedKeys(users) {
		key := k + "|dispatches opcodes"
		if k == "bytecode.Context.RunFromAddress" {
			r.Discharge("R-C09-4", key, users[k], "the one run loop (paired start and stop of the watcher)")
		} else {
			r.Violate("R-C09-4", key, users[k], "a second place executes opcodes: code run through it has no signal watcher pairing and no per-execution cleanup")
		}
	}
}

// chanName: the source name of a channel value inside a closure (free variable / parameter) or spawner (local).
func c09ChanIs(v ssa.Value, name string) bool {
	if u, ok := v.(*ssa.UnOp); ok && u.Op == token.MUL {
		switch x := u.X.(type) {
		case *ssa.FreeVar:
			if x.Name() == name {
				return true
			}
		case *ssa.Alloc:
			if x.Comment == name {
				return true
			}
		}
	}

	return derivesFrom(v, func(s ssa.Value) bool {
		switch x := s.(type) {
		case *ssa.FreeVar:
			return x.Name() == name
		case *ssa.Parameter:
			return x.Name() == name
		case *ssa.Alloc:
			return x.Comment == name
		case *ssa.MakeChan:
			for _, ref := range *x.Referrers() {
				if st, ok := ref.(*ssa.Store); ok {
					if a, ok := st.Addr.(*ssa.Alloc); ok && a.Comment == name {
						return true
					}
				}

				if d, ok := ref.(*ssa.DebugRef); ok {
					if id, ok := d.Expr.(interface{ String() string }); ok && id.String() == name {
						return true
					}
				}
			}
		}

		return false
	}, nil)
}

func c09Closure(g *ssa.Go) *ssa.Function {
	switch v := g.Call.Value.(type) {
	case *ssa.MakeClosure:
		f, _ := v.Fn.(*ssa.Function)

		return f
	case *ssa.Function:
		return v
	}

	return nil
}

// c09W1: body blocks only in selects with a receive on `done`; spawner defers close(done) on every exit after the go.
func c09W1(w *World, r *Report, fn *ssa.Function, g *ssa.Go, key string) {
	body := c09Closure(g)
	if body == nil {
		r.Violate("R-C09-2", key+"|W1", w.pos(g.Pos()), "the goroutine's body cannot be resolved")

		return
	}

	// the channel made by the spawner that the body receives on in every select
	var problems []string

	nSelect := 0

	allInstrs(body, func(in ssa.Instruction) {
		switch x := in.(type) {
		case *ssa.Select:
			nSelect++

			has := false

			for _, st := range x.States {
				if st.Dir == types.RecvOnly && c09ChanIs(st.Chan, "done") {
					has = true
				}
			}

			if !has {
				problems = append(problems, "a select at "+w.pos(x.Pos())+" has no receive on done: the goroutine can wait there after the execution has ended")
			}
		case *ssa.UnOp:
			if x.Op == token.ARROW && !c09ChanIs(x.X, "done") {
				problems = append(problems, "a bare channel receive at "+w.pos(x.Pos())+" is not on done")
			}
		case *ssa.Send:
			problems = append(problems, "the watcher sends on a channel at "+w.pos(x.Pos())+" (it may block after the execution has ended)")
		}
	})

	if nSelect == 0 {
		problems = append(problems, "the body has no select on the done channel")
	}

	conditionalClose := ""

	// in the spawner: a Defer that closes done, unavoidable from the go statement to any return
	closesDone := func(in ssa.Instruction) bool {
		d, ok := in.(*ssa.Defer)
		if !ok {
			return false
		}

		if b, isB := d.Call.Value.(*ssa.Builtin); isB && b.Name() == "close" {
			return len(d.Call.Args) == 1
		}

		cf := calleeFunction(d.Common())
		if cf == nil {
			return false
		}

		found := false

		isClose := func(ci ssa.Instruction) bool {
			if c, ok := ci.(*ssa.Call); ok {
				if b, isB := c.Call.Value.(*ssa.Builtin); isB && b.Name() == "close" && len(c.Call.Args) == 1 && c09ChanIs(c.Call.Args[0], "done") {
					return true
				}
			}

			return false
		}

		allInstrs(cf, func(ci ssa.Instruction) {
			if isClose(ci) {
				found = true
			}
		})

		// the deferred function closes the channel on every one of its own paths: an
		// early return inside it keeps the goroutine alive on exactly the exits it skips
		if found {
			if skip := pathFromEntryAvoiding(cf, nil, isClose, func(ci ssa.Instruction) bool {
				_, isRet := ci.(*ssa.Return)

				return isRet
			}); skip != nil {
				conditionalClose = w.pos(skip.Pos())
				if !skip.Pos().IsValid() {
					conditionalClose = w.pos(cf.Pos())
				}

				return false
			}
		}

		return found
	}

	dominated := false

	allInstrs(fn, func(in ssa.Instruction) {
		if closesDone(in) && instrDominates(in, g) {
			dominated = true
		}
	})

	if !dominated {
		exit := pathAvoiding(g, nil, closesDone, func(i ssa.Instruction) bool {
			_, isRet := i.(*ssa.Return)

			return isRet
		})
		if exit != nil && conditionalClose != "" {
			problems = append(problems, "the deferred function that closes done can return without closing it (path ending at "+conditionalClose+"): on the exits where it does, the goroutine, its context and its signal registration stay behind")
		} else if exit != nil {
			problems = append(problems, "the return at "+w.pos(exit.Pos())+" is reachable from the go statement without a deferred close(done): an exit on that path (or a panic anywhere after the go) leaves the goroutine running")
		}
	}

	if len(problems) > 0 {
		r.Violate("R-C09-2", key+"|W1 done channel", w.pos(g.Pos()), problems[0])
	} else {
		r.Discharge("R-C09-2", key+"|W1 done channel", w.pos(g.Pos()), "blocks only on selects with <-done; close(done) is deferred on every exit after the go statement")
	}
}

// c09W2: the body's only channel operation is a send on a channel made in the spawner with constant capacity >= 1.
func c09W2(w *World, r *Report, fn *ssa.Function, g *ssa.Go, key string) {
	body := c09Closure(g)
	if body == nil {
		r.Violate("R-C09-2", key+"|W2", w.pos(g.Pos()), "the goroutine's body cannot be resolved")

		return
	}

	var problems []string

	nSend := 0

	mc, _ := g.Call.Value.(*ssa.MakeClosure)

	allInstrs(body, func(in ssa.Instruction) {
		switch x := in.(type) {
		case *ssa.Select:
			problems = append(problems, "the body waits in a select at "+w.pos(x.Pos()))
		case *ssa.UnOp:
			if x.Op == token.ARROW {
				problems = append(problems, "the body receives from a channel at "+w.pos(x.Pos()))
			}
		case *ssa.Send:
			nSend++

			if !c09BufferedFromSpawner(x.Chan, body, mc) {
				problems = append(problems, "the send at "+w.pos(x.Pos())+" is not on a channel the spawner made with a constant capacity of at least one: when the spawner has returned (timeout), the send blocks for ever")
			}
		}
	})

	if nSend != 1 {
		problems = append(problems, "expected exactly one send in the body, found "+sprintInt(nSend))
	}

	if len(problems) > 0 {
		r.Violate("R-C09-2", key+"|W2 buffered result", w.pos(g.Pos()), problems[0])
	} else {
		r.Discharge("R-C09-2", key+"|W2 buffered result", w.pos(g.Pos()), "one send on a buffered channel; cannot block")
		r.Assume("the blocking call inside " + key + " (cmd.Wait / socket exchange / debugged program) returns; bounded by ego.server.child.timeout or the session's Close")
	}
}

func c09BufferedFromSpawner(ch ssa.Value, body *ssa.Function, mc *ssa.MakeClosure) bool {
	isBuffered := func(v ssa.Value) bool {
		m, ok := v.(*ssa.MakeChan)
		if !ok {
			return false
		}

		k, isC := constInt(m.Size)

		return isC && k >= 1
	}

	// through the closure's free variable to the spawner's binding
	var check func(v ssa.Value, depth int) bool

	check = func(v ssa.Value, depth int) bool {
		if depth > 6 {
			return false
		}

		v = resolveLocal(v)

		if isBuffered(v) {
			return true
		}

		switch x := v.(type) {
		case *ssa.FreeVar:
			if mc == nil {
				return false
			}

			for i, fv := range body.FreeVars {
				if fv == x && i < len(mc.Bindings) {
					return check(mc.Bindings[i], depth+1)
				}
			}
		case *ssa.UnOp:
			if x.Op == token.MUL {
				// load of a captured cell or of a struct field assigned in the spawner
				if fa, ok := x.X.(*ssa.FieldAddr); ok {
					return c09FieldBuffered(fa, mc)
				}

				return check(x.X, depth+1)
			}
		case *ssa.Alloc:
			if vals, ok := storedValues(x); ok && len(vals) > 0 {
				for _, sv := range vals {
					if !check(sv, depth+1) {
						return false
					}
				}

				return true
			}
		}

		return false
	}

	return check(ch, 0)
}

// c09FieldBuffered: x.f where the spawner built x with a composite literal that sets f to a buffered channel.
func c09FieldBuffered(fa *ssa.FieldAddr, mc *ssa.MakeClosure) bool {
	if mc == nil {
		return false
	}

	spawner := mc.Parent()
	name := fieldName(fa.X.Type(), fa.Field)
	ok := false
	all := true

	allInstrs(spawner, func(in ssa.Instruction) {
		st, isSt := in.(*ssa.Store)
		if !isSt {
			return
		}

		f2, isFA := st.Addr.(*ssa.FieldAddr)
		if !isFA || fieldName(f2.X.Type(), f2.Field) != name || !types.Identical(f2.X.Type(), fa.X.Type()) {
			return
		}

		if m, isMC := st.Val.(*ssa.MakeChan); isMC {
			if k, isC := constInt(m.Size); isC && k >= 1 {
				ok = true

				return
			}
		}

		all = false
	})

	return ok && all
}

// c09OnceDo: the go statement is inside a closure passed to sync.Once.Do.
func c09OnceDo(w *World, r *Report, fn *ssa.Function, g *ssa.Go, key string) {
	found := false

	if parent := fn.Parent(); parent != nil {
		allInstrs(parent, func(in ssa.Instruction) {
			c, ok := in.(*ssa.Call)
			if !ok || callID(c.Common()) != "sync.Once.Do" {
				return
			}

			if mc, ok := c.Call.Args[1].(*ssa.MakeClosure); ok && mc.Fn == ssa.Value(fn) {
				found = true
			}

			if f, ok := c.Call.Args[1].(*ssa.Function); ok && f == fn {
				found = true
			}
		})
	}

	if found {
		r.Discharge("R-C09-3", key+"|inside sync.Once.Do", w.pos(g.Pos()), "")
	} else {
		r.Violate("R-C09-3", key+"|inside sync.Once.Do", w.pos(g.Pos()), "this worker is meant to exist once per process, but its go statement is not inside a sync.Once.Do: every call starts another one")
	}
}

// c09OnceFlag: the go statement is reachable only on the false edge of a package-level flag that the same block then sets.
func c09OnceFlag(w *World, r *Report, fn *ssa.Function, g *ssa.Go, key string) {
	isFlagLoad := func(v ssa.Value) bool {
		switch x := v.(type) {
		case *ssa.UnOp:
			if _, ok := x.X.(*ssa.Global); ok {
				return true
			}
		case *ssa.Lookup:
			if u, ok := x.X.(*ssa.UnOp); ok {
				_, isG := u.X.(*ssa.Global)

				return isG
			}
		}

		return false
	}

	cuts := cutEdges(fn, func(f Fact) bool { return f.Kind == "false" && isFlagLoad(f.V) })

	// the flag is set in the same function
	sets := false

	allInstrs(fn, func(in ssa.Instruction) {
		switch x := in.(type) {
		case *ssa.Store:
			if _, ok := x.Addr.(*ssa.Global); ok {
				if b, isC := constBool(x.Val); isC && b {
					sets = true
				}
			}
		case *ssa.MapUpdate:
			if b, isC := constBool(x.Value); isC && b {
				sets = true
			}
		}
	})

	if len(cuts) > 0 && sets && !instrReachableAfterCut(fn, g, cuts) {
		r.Discharge("R-C09-3", key+"|behind a test-and-set flag", w.pos(g.Pos()), "")
	} else {
		r.Violate("R-C09-3", key+"|behind a test-and-set flag", w.pos(g.Pos()), "this worker is meant to exist once, but its go statement is not behind a package-level flag that is tested and then set: repeated calls start more workers")
	}
}
