package main

import (
	"go/token"
	"go/types"
	"strings"

	"golang.org/x/tools/go/ssa"
)

// C05 ego fmt keeps programs and comments intact.

func init() {
	register(&propertyCheck{
		id: "C05", level: "other", needs: loadNeeds{ssa: true},
		decides: "that the formatter's own grammar and printer are structurally complete with respect to the compiler's statement grammar and their own syntax tree: (1) every reserved word the compiler's statement dispatcher tests is a key of the parser's statement / declaration tables or is tested by the parser itself; (2) every assignment operator the compiler accepts is in the parser's operator set; (3) every node type the parser constructs has a case in the printer's type switches, and every field the parser fills is read by the printer (or the resolver); (4) no slice that has been stored into a syntax-tree node is afterwards emptied in place for reuse (x = x[:0]), which makes later nodes share storage with earlier ones.",
		misses: "the behavioural equivalence of the formatted program, idempotence, comment placement, and constructs on which the two grammars disagree in structure rather than in vocabulary.",
		run:    runC05,
	})
}

var c05KeywordOK = map[string]string{
	"AssertToken":     "the tokenizer never classifies `assert` as a reserved word outside the @assert directive (confirmed by running `ego run` on a program using it); the compiler's case is unreachable",
	"DirectiveToken":  "directives (@…) are parsed by parse/directive.go, reached from parseStatement through the special-token path",
	"BlockBeginToken": "a nested block is a special token, handled by parseBlock",
	"EmptyBlockToken": "`{}` is a special token, handled by the block parser",
	"RecoverToken":    "`recover()` as a statement is parsed as an expression statement; the recover atom is handled in parse/atom.go",
}

func runC05(w *World, r *Report) {
	r.Rule("R-C05-1", "statement vocabulary: every tokenizer.*Token the compiler's statement dispatcher tests is known to the parser's statement level (dispatch tables or explicit tests)", 15)
	r.Rule("R-C05-2", "assignment operators accepted by the compiler are keys of parse.assignOps (++ and -- are handled separately)", 4)
	r.Rule("R-C05-3", "printer coverage: every parse/ast node type the parser constructs has a case in package format; every field the parser assigns is read in package format or resolve", 60)
	r.Rule("R-C05-4", "no in-place truncation (x = x[:0]) of a slice that was stored into a syntax-tree node", 0)

	c05TrailingCommentEndsLine(w, r)
	c05ParserKeepsOperands(w, r)
	c05LiteralInHeader(w, r)
	c05StackedUnary(w, r)

	cp := w.pkg("internal/language/compiler")
	pp := w.pkg("internal/language/parse")
	ap := w.pkg("internal/language/parse/ast")
	fp := w.pkg("internal/language/parse/format")
	rp := w.pkg("internal/language/parse/resolve")
	tp := w.pkg("internal/language/tokenizer")

	if cp == nil || pp == nil || ap == nil || fp == nil || tp == nil {
		r.Anchor("R-C05-1", "packages compiler, parse, parse/ast, parse/format, tokenizer")

		return
	}

	tokenGlobalsIn := func(fns []*ssa.Function) map[string]string {
		out := map[string]string{}

		for _, fn := range fns {
			if fn == nil {
				continue
			}

			allInstrs(fn, func(in ssa.Instruction) {
				u, ok := in.(*ssa.UnOp)
				if !ok {
					return
				}

				g, ok := u.X.(*ssa.Global)
				if !ok || g.Pkg == nil || g.Pkg.Pkg != tp.Types || !strings.HasSuffix(g.Name(), "Token") {
					return
				}

				if _, seen := out[g.Name()]; !seen {
					out[g.Name()] = w.pos(in.Pos())
				}
			})
		}

		return out
	}

	// ---- R-C05-1
	cs := w.ssaFunc(cp, "Compiler.compileStatement")
	if cs == nil {
		r.Anchor("R-C05-1", "compiler.Compiler.compileStatement")

		return
	}

	compilerVerbs := tokenGlobalsIn([]*ssa.Function{cs})

	var parserFns []*ssa.Function

	for _, fn := range w.srcFuncs(pp) {
		switch {
		case fn.Name() == "parseStatement" || fn.Name() == "parseSimpleStatement" || fn.Name() == "parseBlock" || fn.Name() == "parseTopLevel":
			parserFns = append(parserFns, fn)
		case strings.HasPrefix(fn.Name(), "init"):
			parserFns = append(parserFns, fn)
		}
	}

	parserKnows := tokenGlobalsIn(parserFns)
	r.Unit("compiler_statement_tokens", len(compilerVerbs))

	// only tokens that start a statement matter: those compileStatement passes to Is / IsNext on the first token.
	// Tokens used for look-ahead inside the function (colon, parentheses, end of tokens) are listed but not required.
	structural := map[string]bool{"ColonToken": true, "StartOfListToken": true, "EndOfListToken": true, "StartOfArrayToken": true, "EndOfArrayToken": true,
		"DotToken": true, "SemicolonToken": true, "EndOfTokens": true, "CommaToken": true, "AssignToken": true, "DefineToken": true}

	for _, name := range sortedKeys(compilerVerbs) {
		if structural[name] {
			continue
		}

		key := "compiler.Compiler.compileStatement|" + name + " known to the parser"

		switch {
		case parserKnows[name] != "":
			r.Discharge("R-C05-1", key, compilerVerbs[name], "parser: "+parserKnows[name])
		case c05KeywordOK[name] != "":
			r.Except("R-C05-1", key, compilerVerbs[name], c05KeywordOK[name])
		default:
			r.Violate("R-C05-1", key, compilerVerbs[name], "the compiler accepts a statement that starts with this token, but the formatter's parser has neither a table entry nor a test for it: `ego fmt` fails (or mangles the statement) on a file the compiler accepts")
		}
	}

	// ---- R-C05-2: constants compared with / looked up among assignment operator tokens in compileAssignment
	ca := w.ssaFunc(cp, "Compiler.compileAssignment")
	at := w.ssaFunc(cp, "Compiler.assignmentTarget")

	assignToks := tokenGlobalsIn([]*ssa.Function{ca, at})

	// spellings of the tokenizer's special tokens
	spelling := map[string]string{}

	for _, f := range w.srcFuncs(tp) {
		allInstrs(f, func(in ssa.Instruction) {
			st, ok := in.(*ssa.Store)
			if !ok {
				return
			}

			g, ok := st.Addr.(*ssa.Global)
			if !ok {
				return
			}

			if c, ok := st.Val.(*ssa.Call); ok && len(c.Call.Args) == 1 {
				if sp, isC := constString(c.Call.Args[0]); isC {
					spelling[g.Name()] = sp
				}
			}
		})
	}

	// keys of parse.assignOps
	ops := map[string]bool{}

	for _, f := range w.srcFuncs(pp) {
		if !strings.HasPrefix(f.Name(), "init") {
			continue
		}

		allInstrs(f, func(in ssa.Instruction) {
			mu, ok := in.(*ssa.MapUpdate)
			if !ok {
				return
			}

			if k, isC := constString(mu.Key); isC {
				if b, isB := constBool(mu.Value); isB && b {
					ops[k] = true
				}
			}
		})
	}

	nOps := 0

	for _, name := range sortedKeys(assignToks) {
		sp := spelling[name]
		if sp == "" || !strings.HasSuffix(sp, "=") {
			continue
		}

		nOps++

		key := "compiler.Compiler.compileAssignment|operator " + sp
		if ops[sp] {
			r.Discharge("R-C05-2", key, assignToks[name], "in parse.assignOps")
		} else {
			r.Violate("R-C05-2", key, assignToks[name], "the compiler accepts the assignment operator "+sp+" but the formatter's parser does not know it: `ego fmt` fails on a file the compiler accepts")
		}
	}

	if nOps == 0 {
		r.Anchor("R-C05-2", "assignment operator tokens in compileAssignment")
	}

	// ---- R-C05-3: node types and fields
	nodeIface := ifaceOf(ap, "Node")
	if nodeIface == nil {
		r.Anchor("R-C05-3", "ast.Node")

		return
	}

	// node types constructed in package parse: &ast.T{…} composite literals (Allocs of a named struct of package ast)
	constructed := map[string]string{}
	fieldsSet := map[string]string{}

	for _, fn := range w.srcFuncs(pp) {
		allInstrs(fn, func(in ssa.Instruction) {
			switch x := in.(type) {
			case *ssa.Alloc:
				n := namedOf(x.Type())
				if n != nil && n.Obj().Pkg() == ap.Types {
					if _, isStruct := n.Underlying().(*types.Struct); isStruct && types.Implements(types.NewPointer(n), nodeIface) {
						if _, seen := constructed[n.Obj().Name()]; !seen {
							constructed[n.Obj().Name()] = w.pos(x.Pos())
						}
					}
				}
			case *ssa.Store:
				fa, ok := x.Addr.(*ssa.FieldAddr)
				if !ok {
					return
				}

				n := namedOf(fa.X.Type())
				if n == nil || n.Obj().Pkg() != ap.Types {
					return
				}

				k := n.Obj().Name() + "." + fieldName(fa.X.Type(), fa.Field)
				if _, seen := fieldsSet[k]; !seen {
					fieldsSet[k] = w.pos(x.Pos())
				}
			}
		})
	}

	// types handled by the printer: comma-ok asserts / type-switch cases to *ast.T and parameters of type *ast.T in package format
	printed := map[string]bool{}
	printedPart := map[string]bool{}
	fieldsRead := map[string]bool{}

	readers := []*ssa.Function{}
	readers = append(readers, w.srcFuncs(fp)...)

	if rp != nil {
		readers = append(readers, w.srcFuncs(rp)...)
	}

	for _, fn := range readers {
		inFormat := fn.Pkg != nil && fn.Pkg.Pkg == fp.Types || (fn.Parent() != nil && fn.Parent().Pkg != nil && fn.Parent().Pkg.Pkg == fp.Types)

		if inFormat {
			for _, p := range fn.Params {
				if n := namedOf(p.Type()); n != nil && n.Obj().Pkg() == ap.Types {
					printed[n.Obj().Name()] = true
				}
			}
		}

		allInstrs(fn, func(in ssa.Instruction) {
			switch x := in.(type) {
			case *ssa.TypeAssert:
				if n := namedOf(x.AssertedType); n != nil && n.Obj().Pkg() == ap.Types && inFormat {
					printed[n.Obj().Name()] = true
				}
			case *ssa.FieldAddr:
				if n := namedOf(x.X.Type()); n != nil && n.Obj().Pkg() == ap.Types {
					for _, ref := range *x.Referrers() {
						if u, ok := ref.(*ssa.UnOp); ok && u.Op == token.MUL {
							fieldsRead[n.Obj().Name()+"."+fieldName(x.X.Type(), x.Field)] = true
						}
					}
				}
			case *ssa.Field:
				if n := namedOf(x.X.Type()); n != nil && n.Obj().Pkg() == ap.Types {
					fieldsRead[n.Obj().Name()+"."+fieldName(x.X.Type(), x.Field)] = true
				}
			}
		})
	}

	// a node whose fields the printer reads is printed as part of its parent
	for f := range fieldsRead {
		printedPart[f[:strings.Index(f, ".")]] = true
	}

	for _, t := range sortedKeys(constructed) {
		key := "parse|node " + t + " has a printer"
		if printed[t] || printedPart[t] {
			r.Discharge("R-C05-3", key, constructed[t], "")
		} else if why, ok := c05NodeOK[t]; ok {
			r.Except("R-C05-3", key, constructed[t], why)
		} else {
			r.Violate("R-C05-3", key, constructed[t], "the parser builds "+t+" nodes but package format has no case for them: a construct of this kind disappears from (or aborts) the formatted output")
		}
	}

	for _, f := range sortedKeys(fieldsSet) {
		key := "parse|field " + f + " is printed"

		name := f[strings.Index(f, ".")+1:]

		switch {
		case fieldsRead[f]:
			r.Discharge("R-C05-3", key, fieldsSet[f], "")
		case name == "Span" || name == "Pos" || name == "End" || strings.HasSuffix(name, "Pos") || name == "Start" || name == "Finish" || name == "Column" && strings.HasPrefix(f, "Position."):
			r.Discharge("R-C05-3", key, fieldsSet[f], "position field")
		case c05FieldOK[f] != "":
			r.Except("R-C05-3", key, fieldsSet[f], c05FieldOK[f])
		default:
			r.Violate("R-C05-3", key, fieldsSet[f], "the parser records "+f+" but neither the printer nor the resolver reads it: that part of the source is lost when the file is formatted")
		}
	}

	// ---- R-C05-4: in-place truncation of a slice that escaped into a node
	nTrunc := 0

	for _, fn := range w.srcFuncs(pp) {
		n := 0

		allInstrs(fn, func(in ssa.Instruction) {
			sl, ok := in.(*ssa.Slice)
			if !ok || sl.High == nil || sl.Low != nil {
				return
			}

			if k, isC := constInt(sl.High); !isC || k != 0 {
				return
			}

			nTrunc++

			// the cell the truncated slice is loaded from
			u, ok := sl.X.(*ssa.UnOp)

			var cell *ssa.Alloc

			if ok {
				cell = localCell(u.X)
			}

			escaped := ""

			check := func(v ssa.Value) {
				if v.Referrers() == nil {
					return
				}

				// v (a value of the slice variable, or append(v, …)) is stored into a field
				for _, ref := range *v.Referrers() {
					switch y := ref.(type) {
					case *ssa.Store:
						if _, isFA := y.Addr.(*ssa.FieldAddr); isFA && y.Val == v {
							escaped = w.pos(y.Pos())
						}
					case *ssa.Call:
						if b, isB := y.Call.Value.(*ssa.Builtin); isB && b.Name() == "append" && len(y.Call.Args) > 0 && y.Call.Args[0] == v {
							for _, r2 := range *y.Referrers() {
								if st, ok := r2.(*ssa.Store); ok {
									if _, isFA := st.Addr.(*ssa.FieldAddr); isFA {
										escaped = w.pos(st.Pos())
									}
								}
							}
						}
					}
				}
			}

			if cell != nil {
				for _, ref := range *cell.Referrers() {
					if ld, ok := ref.(*ssa.UnOp); ok {
						check(ld)
					}
				}
			} else {
				// SSA register: follow the phi web of the sliced value
				seen := map[ssa.Value]bool{}

				var walk func(v ssa.Value)

				walk = func(v ssa.Value) {
					if v == nil || seen[v] {
						return
					}

					seen[v] = true
					check(v)

					switch y := v.(type) {
					case *ssa.Phi:
						for _, e := range y.Edges {
							walk(e)
						}
					case *ssa.Call:
						if b, isB := y.Call.Value.(*ssa.Builtin); isB && b.Name() == "append" {
							walk(y.Call.Args[0])
						}
					case *ssa.Slice:
						walk(y.X)
					}

					if v.Referrers() != nil {
						for _, ref := range *v.Referrers() {
							if ph, ok := ref.(*ssa.Phi); ok {
								walk(ph)
							}
						}
					}
				}

				walk(sl.X)
			}

			if escaped != "" {
				n++

				key := fnKey(fn) + "|slice reused after it was stored in a node"
				if n > 1 {
					key += "#" + sprintInt(n)
				}

				r.Violate("R-C05-4", key, w.pos(sl.Pos()), "the slice is emptied in place (x[:0]) although an earlier value of it (or append of it) was stored into a syntax-tree node at "+escaped+": the next elements overwrite the earlier node's storage whenever the capacity allows, so names of one construct show up in another")
			}
		})
	}

	r.Unit("in_place_truncations_examined", nTrunc)
}

var c05NodeOK = map[string]string{}

var c05FieldOK = map[string]string{
	"Comment.Block":  "the comment's Text keeps its own delimiters (// or /* */), which is what the printer writes; the flag is informational",
	"Comment.Column": "comments are re-indented by the printer; the original column is not meant to survive",
	"Block.Empty":    "records that the source spelled the block `{}`; the printer writes every block in one canonical form",
}
