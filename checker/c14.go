package main

import (
	"go/token"
	"go/types"
	"sort"
	"strings"

	"golang.org/x/tools/go/packages"
	"golang.org/x/tools/go/ssa"
)

// C14 Table REST requests cannot inject SQL.

func init() {
	register(&propertyCheck{
		id: "C14", level: "other", needs: loadNeeds{ssa: true},
		decides: "the taint discipline of the table REST code: every request-derived string that becomes part of SQL text executed by server/tables, its scripting package or the query generators has passed a declared sanitizer (egostrings.SQLIdentifier, parsing.SQLEscape, integer conversion) or is bound as a parameter; computed interprocedurally with per-function summaries (which parameters reach a result unsanitised, which parameters reach a statement text).",
		misses: "the sanitizers' own correctness (SQLEscape accepts some single lexemes unquoted), filter semantics ('exactly the rows that satisfy the filter'), the raw-SQL endpoints (exempt sinks, governed by C15), second-order injection through stored data.",
		run:    runC14,
	})
}

// Sanitizers: the result is clean whatever the arguments.
var c14Sanitizers = map[string]string{
	"internal/util/strings.SQLIdentifier":          "quotes an identifier, doubling embedded quotes",
	"internal/server/tables/parsing.SQLEscape":     "rejects embedded quotes and ';' (result used on its nil-error edge)",
	"strconv.Itoa":                                 "integer",
	"strconv.FormatInt":                            "integer",
	"strconv.Quote":                                "Go-quoted (ego dialect only)",
	"internal/util/strings.Atoi":                   "integer",
	"internal/language/data.Int":                   "integer",
	"internal/language/data.IntOrZero":             "integer",
	"internal/server/tables/parsing.MapColumnType": "maps to a fixed vocabulary of SQL type names",
	"internal/server/tables/parsing.KeywordMatch":  "boolean",
	"internal/server/tables/parsing.sortColumn":    "returns its argument unchanged only when isPlainIdentifier accepts it, otherwise SQLIdentifier (shape checked by R-C14-3)",
}

// Exempt sinks: functions whose statement text is caller-supplied SQL by contract.
var c14ExemptSinkFuncs = map[string]string{
	"tables.SQLTransaction":    "@sql endpoint: the request body is SQL by contract; each statement is authorized and reformatted (C15)",
	"tables.executeStatements": "@sql endpoint: executes the statements authorizeAndFormatStatements returned (C15)",
	"tables.readRowDataTx":     "@sql endpoint SELECT branch (C15)",
}

type c14State struct {
	lastOut map[int]bool
	w     *World
	scope map[*ssa.Function]bool
	fns   []*ssa.Function
	dirty map[*ssa.Function]map[int]map[int]bool // param index -> result index -> reaches it unsanitised
	sinkP map[*ssa.Function]map[int]string // param index -> reaches statement text (description)
	outEff map[*ssa.Function]map[int]map[int]bool // param index -> pointer param index written with it
}

func runC14(w *World, r *Report) {
	r.Rule("R-C14-1", "no request-derived value (URL query/path parts, request body, transaction task fields) flows unsanitised into the statement text of Database.Exec/Query/QueryRow, directly or through helper functions (interprocedural summaries)", 40)
	r.Rule("R-C14-2", "every exported query generator of tables/parsing returns text into which none of its string / []string / *url.URL parameters flows unsanitised", 8)

	c14SanitizerShape(w, r)
	c14TemplatesQuoteTheirNames(w, r)

	pkgs := []*packages.Package{w.pkg("internal/server/tables"), w.pkg("internal/server/tables/scripting"), w.pkg("internal/server/tables/parsing")}
	for _, p := range pkgs {
		if p == nil {
			r.Anchor("R-C14-1", "packages server/tables, scripting, parsing")

			return
		}
	}

	st := &c14State{w: w, scope: map[*ssa.Function]bool{}, dirty: map[*ssa.Function]map[int]map[int]bool{}, sinkP: map[*ssa.Function]map[int]string{}, outEff: map[*ssa.Function]map[int]map[int]bool{}}

	for _, p := range pkgs {
		for _, fn := range w.srcFuncs(p) {
			st.scope[fn] = true
			st.fns = append(st.fns, fn)
		}
	}

	// ---- summaries to a fixpoint
	for iter := 0; iter < 12; iter++ {
		changed := false

		for _, fn := range st.fns {
			for i, p := range fn.Params {
				if !carriesText(p.Type()) {
					continue
				}

				resTainted, sink := st.analyze(fn, []ssa.Value{p}, nil)

				for j := range st.lastOut {
					if j == i {
						continue
					}

					if !st.outEff[fn][i][j] {
						if st.outEff[fn] == nil {
							st.outEff[fn] = map[int]map[int]bool{}
						}

						if st.outEff[fn][i] == nil {
							st.outEff[fn][i] = map[int]bool{}
						}

						st.outEff[fn][i][j] = true
						changed = true
					}
				}

				for ri := range resTainted {
					if !st.dirty[fn][i][ri] {
						if st.dirty[fn] == nil {
							st.dirty[fn] = map[int]map[int]bool{}
						}

						if st.dirty[fn][i] == nil {
							st.dirty[fn][i] = map[int]bool{}
						}

						st.dirty[fn][i][ri] = true
						changed = true
					}
				}

				if _, exempt := c14ExemptSinkFuncs[fnKey(fn)]; exempt {
					sink = ""
				}

				if sink != "" && st.sinkP[fn][i] == "" {
					if st.sinkP[fn] == nil {
						st.sinkP[fn] = map[int]string{}
					}

					st.sinkP[fn][i] = sink
					changed = true
				}
			}
		}

		if !changed {
			break
		}
	}

	// ---- R-C14-2: exported generators
	pp := pkgs[2]

	for _, fn := range w.srcFuncs(pp) {
		if fn.Parent() != nil || fn.Object() == nil || !fn.Object().Exported() {
			continue
		}

		if fn.Signature.Results().Len() == 0 || !carriesText(fn.Signature.Results().At(0).Type()) {
			continue
		}

		sqlProducer := false

		switch fn.Name() {
		case "FormSelectorDeleteQuery", "FormUpdateQuery", "FormInsertQuery", "FormCreateQuery", "WhereClause", "SortList", "ColumnList", "PagingClauses", "FullName", "QueryParameters":
			sqlProducer = true
		}

		if !sqlProducer {
			continue
		}

		for i, p := range fn.Params {
			if !carriesText(p.Type()) {
				continue
			}

			key := "parsing." + fn.Name() + "|param " + p.Name()

			if allCallersPassConstants(w, fn, i) {
				r.Discharge("R-C14-2", key, w.pos(fn.Pos()), "every call site in the repository passes a compile-time constant")

				continue
			}

			if st.dirty[fn][i][0] {
				r.Violate("R-C14-2", key, w.pos(fn.Pos()), "text from parameter "+p.Name()+" reaches the SQL fragment this generator returns without passing SQLIdentifier / SQLEscape / an integer conversion: a request can splice SQL into the statement")
			} else {
				r.Discharge("R-C14-2", key, w.pos(fn.Pos()), "sanitised or not used in the result")
			}
		}
	}

	// ---- R-C14-1: request sources in handlers
	nSources := 0

	for _, p := range pkgs[:2] {
		for _, fn := range w.srcFuncs(p) {
			seeds := requestSources(fn)
			if len(seeds) == 0 {
				continue
			}

			nSources += len(seeds)

			var hits []string

			_, _ = st.analyzeWith(fn, seeds, func(desc string, at ssa.Instruction) {
				hits = append(hits, desc+" at "+w.pos(at.Pos()))
			})

			key := fnKey(fn) + "|request data → statement text"

			if why, ex := c14ExemptSinkFuncs[fnKey(fn)]; ex {
				r.Except("R-C14-1", key, w.pos(fn.Pos()), why)

				continue
			}

			sort.Strings(hits)

			if len(hits) > 0 {
				r.Violate("R-C14-1", key, w.pos(fn.Pos()), "request-derived text reaches executed SQL unsanitised: "+strings.Join(hits, "; "))
			} else {
				r.Discharge("R-C14-1", key, w.pos(fn.Pos()), sprintInt(len(seeds))+" request-derived values; none reaches statement text unsanitised")
			}
		}
	}

	// ---- R-C14-4: shape of the identifier sanitizer: quote + escaped text + quote, nothing cut out of the escaped text
	r.Rule("R-C14-4", "egostrings.SQLIdentifier returns a constant quote, the result of strings.ReplaceAll(name, quote, doubled quote), and a constant quote, joined by concatenation: the escaped text is never sliced (a cut can split a doubled quote) and the raw parameter reaches the result only through the ReplaceAll; a rewrite in another style is reported as not decided", 0)

	if ep := w.pkg("internal/util/strings"); ep == nil {
		r.Anchor("R-C14-4", "package internal/util/strings")
	} else if sf := w.ssaFunc(ep, "SQLIdentifier"); sf == nil {
		r.Anchor("R-C14-4", "egostrings.SQLIdentifier")
	} else {
		key := "strings.SQLIdentifier|quote + ReplaceAll + quote"
		problem := ""
		unknown := ""
		sawEscape := false

		var leaf func(v ssa.Value, depth int)

		leaf = func(v ssa.Value, depth int) {
			if depth > 12 || problem != "" {
				return
			}

			switch x := v.(type) {
			case *ssa.Const:
			case *ssa.BinOp:
				if x.Op != token.ADD {
					problem = "the result is computed with " + x.Op.String()

					return
				}

				leaf(x.X, depth+1)
				leaf(x.Y, depth+1)
			case *ssa.Phi:
				for _, e := range x.Edges {
					leaf(e, depth+1)
				}
			case *ssa.Call:
				if callID(x.Common()) != "strings.ReplaceAll" {
					unknown = "the result contains the value of " + callID(x.Common())

					return
				}

				from, ok1 := constString(x.Call.Args[1])
				to, ok2 := constString(x.Call.Args[2])

				if !ok1 || !ok2 || from != `"` || to != `""` {
					problem = "ReplaceAll does not double the double quote"

					return
				}

				if _, isParam := x.Call.Args[0].(*ssa.Parameter); !isParam {
					problem = "ReplaceAll is not applied to the whole parameter"

					return
				}

				sawEscape = true
			case *ssa.Slice:
				problem = "the escaped text is sliced at " + w.pos(x.Pos()) + ": a cut between the two halves of a doubled quote leaves the identifier unterminated, and the text after it becomes SQL"
			case *ssa.Parameter:
				problem = "the raw parameter reaches the result without being escaped"
			default:
				unknown = "the result contains a value the rule does not model (" + sprintType(v) + ")"
			}
		}

		for _, ret := range returnsOf(sf) {
			leaf(resolveLocal(retResult(ret, 0)), 0)
		}

		switch {
		case problem != "":
			r.Violate("R-C14-4", key, w.pos(sf.Pos()), problem)
		case unknown != "":
			// a rewrite in another style (a Builder, a loop): not one of the known-bad shapes, and not judged
			r.Info("R-C14-4", key, w.pos(sf.Pos()), "not decided: "+unknown)
		case !sawEscape:
			r.Violate("R-C14-4", key, w.pos(sf.Pos()), "no strings.ReplaceAll(name, `\"`, `\"\"`) in the result")
		default:
			r.Discharge("R-C14-4", key, w.pos(sf.Pos()), "")
		}
	}

	// ---- R-C14-3: shape of the conditional sanitizer
	r.Rule("R-C14-3", "parsing.sortColumn returns its parameter unquoted only behind the true edge of isPlainIdentifier on that same value; every other return is SQLIdentifier(...)", 1)

	if sc := w.ssaFunc(pp, "sortColumn"); sc == nil {
		r.Anchor("R-C14-3", "parsing.sortColumn")
	} else {
		bad := ""

		for _, ret := range returnsOf(sc) {
			v := retResult(ret, 0)
			if c, ok := v.(*ssa.Call); ok && callID(c.Common()) == "internal/util/strings.SQLIdentifier" {
				continue
			}

			// only a test of the very value that is returned counts
			cuts := cutEdges(sc, func(f Fact) bool {
				c, ok := f.V.(*ssa.Call)
				if !ok || f.Kind != "true" || !strings.HasSuffix(callID(c.Common()), "parsing.isPlainIdentifier") {
					return false
				}

				return len(c.Call.Args) == 1 && stripValue(c.Call.Args[0]) == stripValue(v)
			})

			if len(cuts) == 0 || reach(sc.Blocks[0], cuts, nil)[ret.Block()] {
				bad = w.pos(ret.Pos())
			}
		}

		if bad != "" {
			r.Violate("R-C14-3", "parsing.sortColumn|raw-return", bad, "sortColumn can return request text unquoted without isPlainIdentifier having accepted it")
		} else {
			r.Discharge("R-C14-3", "parsing.sortColumn|raw-return", w.pos(sc.Pos()), "raw return only behind isPlainIdentifier")
		}
	}

	r.Unit("request_source_values", nSources)
	r.Unit("functions_in_scope", len(st.fns))
}

func carriesText(t types.Type) bool {
	switch u := t.Underlying().(type) {
	case *types.Basic:
		return u.Info()&types.IsString != 0
	case *types.Slice:
		return carriesText(u.Elem())
	case *types.Map:
		return true
	case *types.Pointer:
		if n := namedOf(t); n != nil && n.Obj().Pkg() != nil && n.Obj().Pkg().Path() == "net/url" {
			return true
		}

		if n := namedOf(t); n != nil && n.Obj().Name() == "TXOperation" {
			return true
		}
	case *types.Struct:
		if n := namedOf(t); n != nil && (n.Obj().Name() == "TXOperation" || n.Obj().Name() == "DBColumn") {
			return true
		}
	case *types.Interface:
		return true
	}

	return false
}

// requestSources: values in fn that come straight from the HTTP request.
func requestSources(fn *ssa.Function) []ssa.Value {
	var out []ssa.Value

	allInstrs(fn, func(in ssa.Instruction) {
		switch x := in.(type) {
		case *ssa.FieldAddr:
			n := namedOf(x.X.Type())
			if n == nil || n.Obj().Pkg() == nil {
				return
			}

			f := fieldName(x.X.Type(), x.Field)

			switch {
			case n.Obj().Pkg().Path() == "net/http" && n.Obj().Name() == "Request" && f != "Method" && f != "TLS" && f != "RemoteAddr":
				out = append(out, x)
			case n.Obj().Name() == "Session" && (f == "URLParts" || f == "Parameters" || f == "Body" || f == "URL"):
				out = append(out, x)
			}
		}
	})

	// transaction task fields
	for _, p := range fn.Params {
		if n := namedOf(p.Type()); n != nil && n.Obj().Name() == "TXOperation" {
			out = append(out, p)
		}
	}

	return out
}

func (st *c14State) analyze(fn *ssa.Function, seeds []ssa.Value, _ any) (map[int]bool, string) {
	sink := ""

	res, _ := st.analyzeWith(fn, seeds, func(desc string, at ssa.Instruction) {
		if sink == "" {
			sink = desc
		}
	})

	return res, sink
}

// allCallersPassConstants: parameter i of fn receives a compile-time constant at every call site in the repository.
func allCallersPassConstants(w *World, fn *ssa.Function, i int) bool {
	n := 0

	for _, p := range w.pkgs {
		for _, f := range w.srcFuncs(p) {
			bad := false

			allCalls(f, func(ci ssa.CallInstruction) {
				if calleeFunction(ci.Common()) != fn {
					return
				}

				n++

				args := ci.Common().Args
				if i >= len(args) {
					bad = true

					return
				}

				if cs, dyn := constStringsOf(args[i]); dyn || len(cs) == 0 {
					bad = true
				}
			})

			if bad {
				return false
			}
		}
	}

	return n > 0
}

// analyzeWith runs the forward flow from seeds in fn; onSink is called for each
// statement-text sink reached. It returns whether a text-carrying result is tainted.
func (st *c14State) analyzeWith(fn *ssa.Function, seeds []ssa.Value, onSink func(desc string, at ssa.Instruction)) (map[int]bool, *flowResult) {
	fl := flowForward(fn, seeds, flowOpts{
		sanitized: func(v ssa.Value) bool {
			// TXOperation.SQL is raw SQL by contract (authorized per statement, C15)
			switch x := v.(type) {
			case *ssa.FieldAddr:
				n := namedOf(x.X.Type())

				return n != nil && n.Obj().Name() == "TXOperation" && fieldName(x.X.Type(), x.Field) == "SQL"
			case *ssa.Field:
				n := namedOf(x.X.Type())

				return n != nil && n.Obj().Name() == "TXOperation" && fieldName(x.X.Type(), x.Field) == "SQL"
			}

			return false
		},
		cleanScalars: true,
		outParams:    true,
		intoClosures: true,
		callPolicy: func(c *ssa.CallCommon, ta []bool) (bool, bool) {
			id := callID(c)
			if _, ok := c14Sanitizers[id]; ok {
				return false, true
			}

			if g := calleeFunction(c); g != nil && st.scope[g] {
				res := false

				for i := range ta {
					if ta[i] && len(st.dirty[g][i]) > 0 {
						res = true
					}
				}

				return res, true
			}

			switch id {
			case "strings.ReplaceAll", "strings.Replace":
				// the pattern being replaced is not inserted
				return (len(ta) > 0 && ta[0]) || (len(ta) > 2 && ta[2]), true
			case "strings.HasPrefix", "strings.HasSuffix", "strings.Contains", "strings.EqualFold", "strings.Index", "strings.Count":
				return false, true
			}

			// database methods: nothing comes back from the text
			if strings.HasPrefix(id, dbType) {
				return false, true
			}

			return false, false
		},
		extraTaint: func(c *ssa.CallCommon, ta []bool) []ssa.Value {
			g := calleeFunction(c)
			if g == nil || !st.scope[g] {
				return nil
			}

			var out []ssa.Value

			args := callArgs(c)

			for i := range ta {
				if !ta[i] {
					continue
				}

				for j := range st.outEff[g][i] {
					if j < len(args) {
						out = append(out, args[j])
					}
				}
			}

			return out
		},
		extractPolicy: func(e *ssa.Extract, tainted func(ssa.Value) bool) (bool, bool) {
			c, ok := e.Tuple.(*ssa.Call)
			if !ok {
				return false, false
			}

			g := calleeFunction(c.Common())
			if g == nil || !st.scope[g] {
				return false, false
			}

			for i, a := range callArgs(c.Common()) {
				if tainted(a) && st.dirty[g][i][e.Index] {
					return true, true
				}
			}

			return false, true
		},
		onCall: func(ci ssa.CallInstruction, ta []bool) {
			c := ci.Common()
			id := callID(c)

			switch id {
			case dbType + "Exec", dbType + "Query", dbType + "QueryRow":
				if len(ta) > 1 && ta[1] {
					onSink(lastSeg(id)+" text", ci)
				}
			}

			if g := calleeFunction(c); g != nil && st.scope[g] {
				for i := range ta {
					if ta[i] && st.sinkP[g][i] != "" {
						onSink(g.Name()+"("+g.Params[i].Name()+") → "+st.sinkP[g][i], ci)
					}
				}
			}
		},
	})

	// out-parameter effects: pointer/reference parameters that end up tainted
	st.lastOut = map[int]bool{}

	isSeed := map[ssa.Value]bool{}
	for _, sd := range seeds {
		isSeed[sd] = true
	}

	for j, q := range fn.Params {
		if isSeed[q] {
			continue
		}

		switch q.Type().Underlying().(type) {
		case *types.Pointer, *types.Map, *types.Slice:
			if fl.has(q) {
				st.lastOut[j] = true
			}
		}
	}

	res := map[int]bool{}

	for _, ret := range returnsOf(fn) {
		vals := retResults(ret)

		// an error return discards its other results
		if n := len(vals); n > 1 && isErrorType(vals[n-1].Type()) {
			if absValueErr(vals[n-1], pathFacts{}) == 'Z' {
				continue
			}
		}

		for i, v := range vals {
			if carriesText(v.Type()) && !isErrorType(v.Type()) && fl.has(v) {
				res[i] = true
			}
		}
	}

	return res, fl
}
