package main

import (
	"go/token"
	"sort"
	"strings"

	"golang.org/x/tools/go/ssa"
)

// Lockset engine (E5): forward must-hold dataflow over one function's CFG.
//
// A lock is identified by the syntactic path of the mutex value: a package
// global ("caches.cacheLock"), a field path from a parameter or receiver
// ("c.mux", "f.lock"), or a local.  Modes: 'W' exclusive, 'R' shared.
// Deferred unlocks do not release before the function returns.  At merges the
// held sets are intersected (a lock counts as held only when held on every
// incoming path); a lock held in different modes on different paths is kept
// in the weaker mode 'R'.

type lockOp struct {
	id   string
	kind string // "Lock" "RLock" "Unlock" "RUnlock"
}

// mutexOp decodes a call of sync.Mutex / sync.RWMutex methods.
func mutexOp(c *ssa.CallCommon) (lockOp, bool) {
	id := callID(c)

	var kind string

	switch id {
	case "sync.Mutex.Lock", "sync.RWMutex.Lock":
		kind = "Lock"
	case "sync.Mutex.Unlock", "sync.RWMutex.Unlock":
		kind = "Unlock"
	case "sync.RWMutex.RLock":
		kind = "RLock"
	case "sync.RWMutex.RUnlock":
		kind = "RUnlock"
	default:
		return lockOp{}, false
	}

	if len(c.Args) == 0 {
		return lockOp{}, false
	}

	return lockOp{id: lockPath(c.Args[0]), kind: kind}, true
}

// lockPath renders the identity of a mutex address.
func lockPath(v ssa.Value) string {
	switch x := v.(type) {
	case *ssa.Global:
		return x.Pkg.Pkg.Name() + "." + x.Name()
	case *ssa.FieldAddr:
		return lockPath(x.X) + "." + fieldName(x.X.Type(), x.Field)
	case *ssa.Field:
		return lockPath(x.X) + "." + fieldName(x.X.Type(), x.Field)
	case *ssa.Parameter:
		return x.Name()
	case *ssa.FreeVar:
		return x.Name()
	case *ssa.UnOp:
		if x.Op == token.MUL {
			// load of a pointer held in a local/param cell
			if _, ok := x.X.(*ssa.Alloc); ok {
				return lockPath(x.X)
			}

			return lockPath(x.X)
		}
	case *ssa.Alloc:
		return x.Comment
	case *ssa.IndexAddr:
		return lockPath(x.X) + "[]"
	case *ssa.Phi:
		return "phi:" + x.Comment
	case *ssa.Call:
		return callID(x.Common()) + "()"
	case *ssa.Extract:
		return lockPath(x.Tuple)
	}

	return "?" + valueName(v)
}

type lockState map[string]byte

func (s lockState) clone() lockState {
	o := lockState{}
	for k, v := range s {
		o[k] = v
	}

	return o
}

func meetLocks(a, b lockState) lockState {
	o := lockState{}

	for k, va := range a {
		if vb, ok := b[k]; ok {
			if va == vb {
				o[k] = va
			} else {
				o[k] = 'R'
			}
		}
	}

	return o
}

func sameLocks(a, b lockState) bool {
	if len(a) != len(b) {
		return false
	}

	for k, v := range a {
		if b[k] != v {
			return false
		}
	}

	return true
}

type locksets struct {
	fn *ssa.Function
	in map[*ssa.BasicBlock]lockState
	// extra: repository-specific lock operations (e.g. SymbolTable.Lock()).
	extra func(in ssa.Instruction) (lockOp, bool)
	// entry: locks assumed held on entry (callee-with-lock-held helpers)
	entry lockState
}

func applyLockOp(s lockState, op lockOp) {
	switch op.kind {
	case "Lock":
		s[op.id] = 'W'
	case "RLock":
		if s[op.id] != 'W' {
			s[op.id] = 'R'
		}
	case "Unlock", "RUnlock":
		delete(s, op.id)
	}
}

func (l *locksets) opOf(in ssa.Instruction) (lockOp, bool) {
	if _, isDefer := in.(*ssa.Defer); isDefer {
		return lockOp{}, false // releases at return only
	}

	if _, isGo := in.(*ssa.Go); isGo {
		return lockOp{}, false
	}

	if ci, ok := in.(ssa.CallInstruction); ok {
		if op, ok := mutexOp(ci.Common()); ok {
			return op, true
		}
	}

	if l.extra != nil {
		return l.extra(in)
	}

	return lockOp{}, false
}

func computeLocksets(fn *ssa.Function, entry lockState, extra func(in ssa.Instruction) (lockOp, bool)) *locksets {
	l := &locksets{fn: fn, in: map[*ssa.BasicBlock]lockState{}, extra: extra, entry: entry}
	if len(fn.Blocks) == 0 {
		return l
	}

	if entry == nil {
		entry = lockState{}
	}

	l.in[fn.Blocks[0]] = entry.clone()
	work := []*ssa.BasicBlock{fn.Blocks[0]}

	for len(work) > 0 {
		b := work[0]
		work = work[1:]

		s := l.in[b].clone()
		for _, in := range b.Instrs {
			if op, ok := l.opOf(in); ok {
				applyLockOp(s, op)
			}
		}

		for _, succ := range b.Succs {
			old, seen := l.in[succ]

			var nw lockState
			if !seen {
				nw = s.clone()
			} else {
				nw = meetLocks(old, s)
			}

			if !seen || !sameLocks(old, nw) {
				l.in[succ] = nw
				work = append(work, succ)
			}
		}
	}

	return l
}

// heldAt returns the must-hold lock state just before instr executes.
func (l *locksets) heldAt(instr ssa.Instruction) lockState {
	b := instr.Block()

	s, ok := l.in[b]
	if !ok {
		return lockState{} // unreachable block
	}

	s = s.clone()

	for _, in := range b.Instrs {
		if in == instr {
			break
		}

		if op, ok := l.opOf(in); ok {
			applyLockOp(s, op)
		}
	}

	return s
}

func (s lockState) String() string {
	var parts []string
	for k, v := range s {
		parts = append(parts, k+":"+string(v))
	}

	sort.Strings(parts)

	if len(parts) == 0 {
		return "{}"
	}

	return "{" + strings.Join(parts, ",") + "}"
}

// unbalancedLocks (lock pairing): for every Lock/RLock call in fn, a path to a
// return that neither passes the matching Unlock/RUnlock nor lies after a
// Defer of it. Returns (lock instruction, offending return) pairs.
type lockLeak struct {
	lock ssa.Instruction
	op   lockOp
	exit ssa.Instruction
}

func unbalancedLocks(fn *ssa.Function, extra func(in ssa.Instruction) (lockOp, bool)) []lockLeak {
	l := &locksets{fn: fn, extra: extra}

	var out []lockLeak

	allInstrs(fn, func(in ssa.Instruction) {
		op, ok := l.opOf(in)
		if !ok || (op.kind != "Lock" && op.kind != "RLock") {
			return
		}

		want := "Unlock"
		if op.kind == "RLock" {
			want = "RUnlock"
		}

		releases := func(i ssa.Instruction) bool {
			// direct release
			if o, ok := l.opOf(i); ok && o.id == op.id && o.kind == want {
				return true
			}

			// deferred release (call or closure containing it)
			if d, isDefer := i.(*ssa.Defer); isDefer {
				if o, ok := mutexOp(d.Common()); ok && o.id == op.id && o.kind == want {
					return true
				}

				if extra != nil {
					// let the extra decoder look at the deferred call as if direct
					if o, ok := extra(deferAsCall{d}); ok && o.id == op.id && o.kind == want {
						return true
					}
				}

				if cf := calleeFunction(d.Common()); cf != nil && cf.Parent() == fn {
					found := false

					allInstrs(cf, func(ci ssa.Instruction) {
						if cc, ok := ci.(ssa.CallInstruction); ok {
							if o, ok := mutexOp(cc.Common()); ok && o.kind == want && sameLockTail(o.id, op.id) {
								found = true
							}
						}
					})

					return found
				}
			}

			return false
		}

		if exit := pathAvoiding(in, nil, releases, func(i ssa.Instruction) bool {
			switch i.(type) {
			case *ssa.Return:
				return true
			}

			return false
		}); exit != nil {
			out = append(out, lockLeak{lock: in, op: op, exit: exit})
		}
	})

	return out
}

// deferAsCall lets an `extra` decoder inspect a deferred call.
type deferAsCall struct{ *ssa.Defer }

// sameLockTail compares lock identities seen from a closure (free variable
// names) and from the enclosing function: the final path element must agree.
func sameLockTail(a, b string) bool {
	if a == b {
		return true
	}

	ta := a[strings.LastIndex(a, ".")+1:]
	tb := b[strings.LastIndex(b, ".")+1:]

	return ta == tb
}
