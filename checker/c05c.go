package main

import (
	"go/token"
	"strings"

	"golang.org/x/tools/go/ssa"
)

// fieldLoadBase: for a load of X.f returns (X, "f").
func fieldLoadBase(v ssa.Value) (ssa.Value, string) {
	u, ok := stripValue(v).(*ssa.UnOp)
	if !ok || u.Op != token.MUL {
		return nil, ""
	}

	fa, ok := u.X.(*ssa.FieldAddr)
	if !ok {
		return nil, ""
	}

	return fa.X, fieldName(fa.X.Type(), fa.Field)
}

// c05ParserKeepsOperands: R-C05-6. The formatter prints the tree the second
// parser built; whatever that parser read and did not put into the tree is gone
// from the formatted file. parseSimpleStatement collects a comma-separated
// operand list before it knows which statement it is looking at; only the
// assignment keeps the list.
func c05ParserKeepsOperands(w *World, r *Report) {
	r.Rule("R-C05-6", "operands read are operands kept: in Parser.parseSimpleStatement every successful return whose node is not built from the comma-separated operand list lies behind a test of that list's length", 3)

	pp := w.pkg("internal/language/parse")
	if pp == nil {
		return
	}

	fn := w.ssaFunc(pp, "Parser.parseSimpleStatement")
	if fn == nil {
		r.Anchor("R-C05-6", "parse.Parser.parseSimpleStatement")

		return
	}

	// the operand list: the slice appended to inside a loop
	inLoop := map[*ssa.BasicBlock]bool{}

	for _, li := range naturalLoops(fn) {
		for b := range li.body {
			inLoop[b] = true
		}
	}

	isListAppend := func(v ssa.Value) bool {
		c, ok := v.(*ssa.Call)
		if !ok || !inLoop[c.Block()] {
			return false
		}

		b, isB := c.Call.Value.(*ssa.Builtin)

		return isB && b.Name() == "append"
	}

	isList := func(v ssa.Value) bool {
		return derivesFrom(v, isListAppend, nil)
	}

	found := false

	allInstrs(fn, func(in ssa.Instruction) {
		if v, ok := in.(ssa.Value); ok && isListAppend(v) {
			found = true
		}
	})

	if !found {
		r.Anchor("R-C05-6", "the operand list loop of parseSimpleStatement")

		return
	}

	boundsList := func(b *ssa.BasicBlock) bool {
		for _, f := range dominatingFacts(b) {
			for _, side := range []ssa.Value{f.X, f.Y, f.V} {
				c, ok := side.(*ssa.Call)
				if !ok {
					continue
				}

				if bi, isB := c.Call.Value.(*ssa.Builtin); isB && bi.Name() == "len" && isList(c.Call.Args[0]) {
					return true
				}
			}
		}

		return false
	}

	for _, ret := range returnsOf(fn) {
		if len(ret.Results) != 2 || !isNilConst(stripValue(retResult(ret, 1))) {
			continue
		}

		node := stripValue(retResult(ret, 0))
		key := "parse.Parser.parseSimpleStatement|return " + strings.TrimPrefix(node.Type().String(), "*github.com/tucats/ego/internal/language/parse/")

		// does the node hold the list?
		holds := false

		if al, ok := node.(*ssa.Alloc); ok && al.Referrers() != nil {
			for _, ref := range *al.Referrers() {
				fa, ok := ref.(*ssa.FieldAddr)
				if !ok || fa.Referrers() == nil {
					continue
				}

				for _, rr := range *fa.Referrers() {
					if st, ok := rr.(*ssa.Store); ok && st.Addr == ssa.Value(fa) && isList(st.Val) {
						holds = true
					}
				}
			}
		}

		switch {
		case holds:
			r.Discharge("R-C05-6", key, w.pos(ret.Pos()), "the node is built from the operand list")
		case boundsList(ret.Block()):
			r.Discharge("R-C05-6", key, w.pos(ret.Pos()), "behind a test of the list's length")
		default:
			r.Violate("R-C05-6", key, w.pos(ret.Pos()), "the statement is built from the first operand and the rest of a comma-separated list is dropped without an error: the formatter re-parses directive arguments with this function, and `@assert x == 3, \"oops\"` is written back as `@assert x == 3`")
		}
	}
}

// c05LiteralInHeader: R-C05-7. In a control-flow header the parser does not
// read `name {` as a composite literal (the brace opens the body). A brace
// after a type literal can only be a composite literal, and the compiler reads
// it so; a parser that never recognises a composite literal in a header ends
// `for _, v := range []int{1, 2, 3} {` at `[]int` and prints a different
// program.
func c05LiteralInHeader(w *World, r *Report) {
	r.Rule("R-C05-7", "a composite literal can be recognised inside a control-flow header: in Parser.parseReference the composite-suffix parse stays reachable when the edges that establish exprLev >= 0 are cut", 1)

	pp := w.pkg("internal/language/parse")
	if pp == nil {
		return
	}

	fn := w.ssaFunc(pp, "Parser.parseReference")
	if fn == nil {
		r.Anchor("R-C05-7", "parse.Parser.parseReference")

		return
	}

	var suffix ssa.Instruction

	allInstrs(fn, func(in ssa.Instruction) {
		if c, ok := in.(*ssa.Call); ok && strings.HasSuffix(callID(c.Common()), "parse.Parser.parseCompositeSuffix") {
			suffix = in
		}
	})

	if suffix == nil {
		r.Anchor("R-C05-7", "the call of parseCompositeSuffix in parseReference")

		return
	}

	cuts := cutEdges(fn, func(f Fact) bool {
		if f.Kind != "cmp" {
			return false
		}

		if isFieldNamed(f.X, "exprLev") {
			return f.Op == token.GEQ || f.Op == token.GTR
		}

		if isFieldNamed(f.Y, "exprLev") {
			return f.Op == token.LEQ || f.Op == token.LSS
		}

		return false
	})

	key := "parse.Parser.parseReference|composite literal in a header"

	if len(cuts) == 0 {
		r.Anchor("R-C05-7", "the exprLev test in parseReference")

		return
	}

	if instrReachableAfterCut(fn, suffix, cuts) {
		r.Discharge("R-C05-7", key, w.pos(suffix.Pos()), "reachable with exprLev < 0 (for a type-literal operand)")
	} else {
		r.Violate("R-C05-7", key, w.pos(suffix.Pos()), "inside an if/for/switch header no `{` is ever read as a composite literal: `for _, v := range []int{1, 2, 3} {`, which the compiler accepts, is parsed as a loop over `[]int` followed by two blocks, and ego fmt writes a program that no longer compiles")
	}
}

// c05StackedUnary: R-C05-8, the Ego printer's form of R-C16-7: `- -k` written
// as `--k` is a decrement.
func c05StackedUnary(w *World, r *Report) {
	r.Rule("R-C05-8", "stacked unary operators are kept apart: in format.printer.printExpr, on the path where the operand of a unary expression is itself an *ast.UnaryExpr with the same operator, a blank is written between the operator and the operand", 1)

	fp := w.pkg("internal/language/parse/format")
	if fp == nil {
		return
	}

	fn := w.ssaFunc(fp, "printer.printExpr")
	if fn == nil {
		r.Anchor("R-C05-8", "format.printer.printExpr")

		return
	}

	isUnary := func(t *ssa.TypeAssert) bool {
		return strings.HasSuffix(t.AssertedType.String(), "parse/ast.UnaryExpr")
	}

	// the unary case of the type switch, and the call that prints its operand
	var outer ssa.Value

	var operand *ssa.Call

	allInstrs(fn, func(in ssa.Instruction) {
		c, ok := in.(*ssa.Call)
		if !ok || !strings.HasSuffix(callID(c.Common()), "format.printer.printExpr") || len(c.Call.Args) < 2 {
			return
		}

		base, name := fieldLoadBase(c.Call.Args[1])
		if base == nil || name != "X" {
			return
		}

		if e, ok := base.(*ssa.Extract); ok {
			if t, ok := e.Tuple.(*ssa.TypeAssert); ok && isUnary(t) {
				outer, operand = base, c
			}
		}
	})

	key := "format.printer.printExpr|separator between stacked operators"

	if operand == nil {
		r.Anchor("R-C05-8", "the call that prints the operand of an *ast.UnaryExpr in printExpr")

		return
	}

	// the test "the operand is itself a unary expression"
	var inner *ssa.TypeAssert

	allInstrs(fn, func(in ssa.Instruction) {
		t, ok := in.(*ssa.TypeAssert)
		if !ok || !t.CommaOk || !isUnary(t) {
			return
		}

		if base, name := fieldLoadBase(t.X); base == outer && name == "X" {
			inner = t
		}
	})

	if inner == nil {
		r.Violate("R-C05-8", key, w.pos(operand.Pos()), "the operator is written flush against its operand whatever the operand is: `x := - -k` is written as `x := --k`, which is a decrement and does not compile as an expression")

		return
	}

	// follow only the path on which the operand is a unary expression with
	// the same operator (two different signs do not combine into a token)
	cuts := cutEdges(fn, func(f Fact) bool {
		if f.Kind == "cmp" && f.Op == token.NEQ {
			_, nx := fieldLoadBase(f.X)
			_, ny := fieldLoadBase(f.Y)

			return nx == "Op" && ny == "Op"
		}

		e, ok := f.V.(*ssa.Extract)

		return f.Kind == "false" && ok && e.Tuple == ssa.Value(inner) && e.Index == 1
	})

	isSeparator := func(i ssa.Instruction) bool {
		c, ok := i.(*ssa.Call)
		if !ok || !strings.HasSuffix(callID(c.Common()), "format.printer.write") || len(c.Call.Args) < 2 {
			return false
		}

		s, isC := constString(c.Call.Args[1])

		return isC && strings.TrimSpace(s) == "" && s != ""
	}

	if hit := pathAvoiding(inner, cuts, isSeparator, func(i ssa.Instruction) bool { return i == ssa.Instruction(operand) }); hit != nil {
		r.Violate("R-C05-8", key, w.pos(operand.Pos()), "the operand of a unary operator that is itself a unary expression is printed without a separator after the outer operator")
	} else {
		r.Discharge("R-C05-8", key, w.pos(inner.Pos()), "a blank is written before a unary operand")
	}
}
