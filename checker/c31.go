package main

import (
	"go/types"
	"strings"

	"golang.org/x/tools/go/ssa"
)

// C31 User stores agree and persist.

func init() {
	register(&propertyCheck{
		id: "C31", level: "other", needs: loadNeeds{ssa: true},
		decides: "structural necessary conditions only: (1) in the file-backed store every access to the user map is made with the store's lock held, every method that changes the map marks the store dirty on every path from the change to its return, and Flush clears the dirty mark only on the success edge of the file write (otherwise a change is silently never persisted); " +
			"(2) no method of the file store hands out the guarded map itself (the database store returns copies; an aliased result lets a caller read or change the store outside its lock); " +
			"(3) the database store puts a user in the authentication cache only on the success edge of the database operation that produced or stored it (otherwise lookups answer from a record the database does not hold, and the answer changes after reopen); " +
			"(4) both ReadUser implementations report a missing user with errors.ErrNoSuchUser and both ListUsers implementations mask suppressed passwords with the same constant.",
		misses: "the agreement of the two backends on every history and the content that is persisted — the bulk of the property — are relations between runtime values of two implementations and are not decided.",
		run:    runC31,
	})
}

func runC31(w *World, r *Report) {
	r.Rule("R-C31-1", "file store: every access to fileService.data outside the constructor holds f.lock; every change of the map is followed (or dominated) by dirty = true on each path to a return; dirty = false is reachable only on the nil-error edge of the file Write", 8)
	r.Rule("R-C31-2", "file store: no method returns the guarded map itself", 1)
	r.Rule("R-C31-3", "database store: caches.Add(AuthCache, …) is reachable only on the success edge of the database call whose result it records", 2)
	r.Rule("R-C31-4", "sibling agreement: both ReadUser implementations produce errors.ErrNoSuchUser for a missing user; both ListUsers implementations mask suppressed passwords with the same constant", 3)

	c31DirtyStoreIsWritten(w, r)

	ap := w.pkg("internal/server/auth")
	if ap == nil {
		r.Anchor("R-C31-1", "package internal/server/auth")

		return
	}

	var fileT, dbT *types.Named

	if o := ap.Types.Scope().Lookup("fileService"); o != nil {
		fileT, _ = o.Type().(*types.Named)
	}

	if o := ap.Types.Scope().Lookup("databaseService"); o != nil {
		dbT, _ = o.Type().(*types.Named)
	}

	if fileT == nil || dbT == nil {
		r.Anchor("R-C31-1", "auth.fileService / auth.databaseService")

		return
	}

	methodsOf := func(n *types.Named) []*ssa.Function {
		var out []*ssa.Function

		for _, fn := range w.srcFuncs(ap) {
			if fn.Signature.Recv() == nil {
				// closures inside methods
				if p := fn.Parent(); p == nil || p.Signature.Recv() == nil || namedOf(p.Signature.Recv().Type()) == nil || namedOf(p.Signature.Recv().Type()).Obj() != n.Obj() {
					continue
				}
			} else if rn := namedOf(fn.Signature.Recv().Type()); rn == nil || rn.Obj() != n.Obj() {
				continue
			}

			out = append(out, fn)
		}

		return out
	}

	fileFns := methodsOf(fileT)
	dbFns := methodsOf(dbT)
	r.Unit("file_store_methods", len(fileFns))
	r.Unit("database_store_methods", len(dbFns))

	isField := func(v ssa.Value, n *types.Named, name string) bool {
		fa, ok := v.(*ssa.FieldAddr)
		if !ok {
			return false
		}

		tn := namedOf(fa.X.Type())

		return tn != nil && tn.Obj() == n.Obj() && fieldName(fa.X.Type(), fa.Field) == name
	}

	isDataLoad := func(v ssa.Value) bool {
		u, ok := v.(*ssa.UnOp)

		return ok && isField(u.X, fileT, "data")
	}

	dirtyStore := func(in ssa.Instruction, val bool) bool {
		st, ok := in.(*ssa.Store)
		if !ok || !isField(st.Addr, fileT, "dirty") {
			return false
		}

		b, isC := constBool(st.Val)

		return isC && b == val
	}

	entry := entryLocksets(fileFns, nil)

	for _, fn := range fileFns {
		ls := computeLocksets(fn, entry[fn], nil)
		count := map[string]int{}

		mkKey := func(what string) string {
			key := fnKey(fn) + "|" + what
			count[key]++

			if n := count[key]; n > 1 {
				key += "#" + sprintInt(n)
			}

			return key
		}

		held := func(in ssa.Instruction) bool {
			for id, mode := range ls.heldAt(in) {
				if strings.HasSuffix(id, ".lock") && mode == 'W' {
					return true
				}
			}

			return false
		}

		var dirtyTrue []ssa.Instruction

		allInstrs(fn, func(in ssa.Instruction) {
			if dirtyStore(in, true) {
				dirtyTrue = append(dirtyTrue, in)
			}
		})

		allInstrs(fn, func(in ssa.Instruction) {
			write := false
			access := false

			switch x := in.(type) {
			case *ssa.UnOp:
				if isField(x.X, fileT, "data") {
					access = true
				}
			case *ssa.Store:
				if isField(x.Addr, fileT, "data") {
					access, write = true, true
				}
			case *ssa.MapUpdate:
				if isDataLoad(x.Map) {
					write = true
				}
			case *ssa.Call:
				if b, ok := x.Call.Value.(*ssa.Builtin); ok && (b.Name() == "delete" || b.Name() == "clear") && isDataLoad(x.Call.Args[0]) {
					write = true
				}
			}

			if access {
				key := mkKey("user map access")
				if held(in) {
					r.Discharge("R-C31-1", key, w.pos(in.Pos()), "f.lock held")
				} else {
					r.Violate("R-C31-1", key, w.pos(in.Pos()), "the user map is touched without the store's lock")
				}
			}

			if write {
				key := mkKey("user map change marks dirty")
				dominated := false

				for _, d := range dirtyTrue {
					if instrDominates(d, in) {
						dominated = true
					}
				}

				var escape ssa.Instruction

				if !dominated {
					escape = pathAvoiding(in, nil, func(i ssa.Instruction) bool { return dirtyStore(i, true) }, func(i ssa.Instruction) bool {
						_, isRet := i.(*ssa.Return)

						return isRet
					})
				}

				if escape != nil {
					r.Violate("R-C31-1", key, w.pos(in.Pos()), "a path from this change of the user map reaches the return at "+w.pos(escape.Pos())+" without setting dirty: Flush skips the write and the change is lost at restart")
				} else {
					r.Discharge("R-C31-1", key, w.pos(in.Pos()), "dirty = true on every path to a return")
				}
			}
		})

		// dirty = false only after a successful write of the file
		isFileWrite := func(c *ssa.CallCommon) bool {
			// a call that puts bytes in the file (any of the os / io / bufio writers)
			id := callID(c)
			if !strings.HasPrefix(id, "os.") && !strings.HasPrefix(id, "io.") && !strings.HasPrefix(id, "bufio.") {
				return false
			}

			return strings.Contains(id, "Write") || strings.HasSuffix(id, ".Rename") || strings.HasSuffix(id, ".Sync") || strings.HasSuffix(id, ".Flush")
		}

		var fileWrites []ssa.Instruction

		allInstrs(fn, func(in ssa.Instruction) {
			if c, ok := in.(*ssa.Call); ok && isFileWrite(c.Common()) {
				fileWrites = append(fileWrites, in)
			}
		})

		cuts := cutEdges(fn, func(f Fact) bool {
			if f.Kind != "nil" {
				return false
			}

			v := resolveLocal(f.V)

			c, _ := resultOf(v)
			if c == nil {
				c, _ = v.(*ssa.Call)
			}

			return c != nil && types.Identical(v.Type(), types.Universe.Lookup("error").Type()) && isFileWrite(c.Common())
		})

		allInstrs(fn, func(in ssa.Instruction) {
			if !dirtyStore(in, false) {
				return
			}

			key := mkKey("dirty cleared after successful write")
			afterAll := true

			for _, fw := range fileWrites {
				if !instrDominates(fw, in) {
					afterAll = false
				}
			}

			if len(cuts) == 0 || !afterAll || instrReachableAfterCut(fn, in, cuts) {
				r.Violate("R-C31-1", key, w.pos(in.Pos()), "the dirty mark is cleared on a path where the user file was not (yet) written successfully: after a failed write the pending changes are never written again")
			} else {
				r.Discharge("R-C31-1", key, w.pos(in.Pos()), "only on the err == nil edge of the file write")
			}
		})

		// R-C31-2
		if fn.Signature.Recv() != nil {
			for i := 0; i < fn.Signature.Results().Len(); i++ {
				if _, isMap := fn.Signature.Results().At(i).Type().Underlying().(*types.Map); !isMap {
					continue
				}

				key := fnKey(fn) + "|result " + sprintInt(i) + " does not alias the user map"
				bad := ""

				for _, ret := range returnsOf(fn) {
					if derivesFrom(retResult(ret, i), isDataLoad, nil) && (bad == "" || ret.Pos().IsValid()) {
						bad = w.pos(ret.Pos())
					}
				}

				if bad != "" {
					r.Violate("R-C31-2", key, bad, "the method returns the store's own map: the caller reads (or changes) it outside the lock, and unlike the database store the result changes under the caller's feet")
				} else {
					r.Discharge("R-C31-2", key, w.pos(fn.Pos()), "a copy on every return")
				}
			}
		}
	}

	// ---- R-C31-3: cache population in the database store
	dbOps := map[string]bool{"Read": true, "Update": true, "Insert": true, "Delete": true}

	isDBResultErr := func(v ssa.Value) bool {
		return derivesFrom(v, func(s ssa.Value) bool {
			c, _ := resultOf(s)
			if c == nil {
				if cc, ok := s.(*ssa.Call); ok {
					c = cc
				}
			}

			if c == nil {
				return false
			}

			id := callID(c.Common())

			return strings.HasPrefix(id, "internal/resources.ResHandle.") && dbOps[strings.TrimPrefix(id, "internal/resources.ResHandle.")]
		}, nil)
	}

	for _, fn := range dbFns {
		n := 0

		cuts := cutEdges(fn, func(f Fact) bool {
			return f.Kind == "nil" && types.Identical(f.V.Type(), types.Universe.Lookup("error").Type()) && isDBResultErr(f.V)
		})

		allInstrs(fn, func(in ssa.Instruction) {
			c := callTo(in, "internal/caches.Add")
			if c == nil {
				return
			}

			n++

			key := fnKey(fn) + "|caches.Add on database success"
			if n > 1 {
				key += "#" + sprintInt(n)
			}

			if len(cuts) == 0 || instrReachableAfterCut(fn, in, cuts) {
				r.Violate("R-C31-3", key, w.pos(in.Pos()), "the user record is cached on a path where the database call did not succeed: lookups answer from a record the database does not hold")
			} else {
				r.Discharge("R-C31-3", key, w.pos(in.Pos()), "only behind err == nil of the database call")
			}
		})
	}

	// ---- R-C31-6: what is cached is what the database holds
	r.Rule("R-C31-6", "database store: no user record whose Password member was overwritten with a constant (the suppression mask of a listing) flows into caches.Add: lookups answered from the cache return the record as the database holds it, as the file store does", 2)

	for _, fn := range dbFns {
		var seeds []ssa.Value

		allInstrs(fn, func(in ssa.Instruction) {
			st, ok := in.(*ssa.Store)
			if !ok {
				return
			}

			fa, ok := st.Addr.(*ssa.FieldAddr)
			if !ok || fieldName(fa.X.Type(), fa.Field) != "Password" {
				return
			}

			if _, isConst := constString(st.Val); !isConst {
				return
			}

			seeds = append(seeds, fa.X, addrRoot(fa.X))
		})

		n := 0

		var fl *flowResult

		allInstrs(fn, func(in ssa.Instruction) {
			c := callTo(in, "internal/caches.Add")
			if c == nil || len(c.Args) < 3 {
				return
			}

			n++

			key := fnKey(fn) + "|caches.Add stores the database's record"
			if n > 1 {
				key += "#" + sprintInt(n)
			}

			if len(seeds) == 0 {
				r.Discharge("R-C31-6", key, w.pos(in.Pos()), "no record is masked in this method")

				return
			}

			if fl == nil {
				fl = flowForward(fn, seeds, flowOpts{intoClosures: true})
			}

			if fl.has(c.Args[2]) {
				r.Violate("R-C31-6", key, w.pos(in.Pos()), "a record whose password was replaced by the suppression mask in this method is stored in the user cache: ReadUser then answers with the mask instead of the stored hash, and a read-modify-write saves the mask")
			} else {
				r.Discharge("R-C31-6", key, w.pos(in.Pos()), "the cached value does not derive from a masked record")
			}
		})
	}

	// ---- R-C31-5: a write request always stores (both siblings)
	r.Rule("R-C31-5", "sibling agreement on WriteUser: every path from entry to a return performs the store (file: the map update; database: Update or Insert) — neither store may decide by itself that a write is not needed", 2)

	for _, fn := range fileFns {
		if fn.Name() != "WriteUser" || fn.Signature.Recv() == nil {
			continue
		}

		key := fnKey(fn) + "|always stores"
		exit := pathFromEntryAvoiding(fn, nil, func(i ssa.Instruction) bool {
			mu, ok := i.(*ssa.MapUpdate)

			return ok && isDataLoad(mu.Map)
		}, func(i ssa.Instruction) bool {
			_, isRet := i.(*ssa.Return)

			return isRet
		})

		if exit != nil {
			r.Violate("R-C31-5", key, w.pos(exit.Pos()), "the file store can return from WriteUser without replacing the entry (and without marking itself dirty): the database store always issues the write, so the two disagree whenever the skipped write mattered — and the records the file store hands out share their permission slices with the stored entry, so 'unchanged' cannot be decided by comparing them")
		} else {
			r.Discharge("R-C31-5", key, w.pos(fn.Pos()), "map update on every path")
		}
	}

	for _, fn := range dbFns {
		if fn.Name() != "WriteUser" || fn.Signature.Recv() == nil {
			continue
		}

		key := fnKey(fn) + "|always stores"
		exit := pathFromEntryAvoiding(fn, nil, func(i ssa.Instruction) bool {
			c, ok := i.(*ssa.Call)
			if !ok {
				return false
			}

			id := callID(c.Common())

			return id == "internal/resources.ResHandle.Update" || id == "internal/resources.ResHandle.Insert"
		}, func(i ssa.Instruction) bool {
			_, isRet := i.(*ssa.Return)

			return isRet
		})

		if exit != nil {
			r.Violate("R-C31-5", key, w.pos(exit.Pos()), "the database store can return from WriteUser without an Update or Insert")
		} else {
			r.Discharge("R-C31-5", key, w.pos(fn.Pos()), "Update or Insert on every path")
		}
	}

	// ---- R-C31-4
	masks := map[string]string{}

	for _, fns := range [][]*ssa.Function{fileFns, dbFns} {
		for _, fn := range fns {
			switch fn.Name() {
			case "ReadUser":
				found := false

				allInstrs(fn, func(in ssa.Instruction) {
					if u, ok := in.(*ssa.UnOp); ok {
						if g, ok := u.X.(*ssa.Global); ok && g.Name() == "ErrNoSuchUser" {
							found = true
						}
					}
				})

				key := fnKey(fn) + "|missing user is ErrNoSuchUser"
				if found {
					r.Discharge("R-C31-4", key, w.pos(fn.Pos()), "")
				} else {
					r.Violate("R-C31-4", key, w.pos(fn.Pos()), "this store reports a missing user with a different error than its sibling")
				}
			case "ListUsers":
				allInstrs(fn, func(in ssa.Instruction) {
					st, ok := in.(*ssa.Store)
					if !ok {
						return
					}

					fa, ok := st.Addr.(*ssa.FieldAddr)
					if !ok || fieldName(fa.X.Type(), fa.Field) != "Password" {
						return
					}

					if m, isC := constString(st.Val); isC {
						masks[fnKey(fn)] = m
					} else {
						masks[fnKey(fn)] = "<not a constant>"
					}
				})
			}
		}
	}

	names := sortedKeys(masks)
	key := "auth.*.ListUsers|same password mask"

	switch {
	case len(names) < 2:
		r.Violate("R-C31-4", key, "", "expected a password mask assignment in both ListUsers implementations, found "+sprintInt(len(names)))
	default:
		same := true

		for _, n := range names[1:] {
			if masks[n] != masks[names[0]] {
				same = false
			}
		}

		if same {
			r.Discharge("R-C31-4", key, "", "mask "+masks[names[0]])
		} else {
			r.Violate("R-C31-4", key, "", "the stores mask suppressed passwords differently: "+names[0]+" uses \""+masks[names[0]]+"\", "+names[1]+" uses \""+masks[names[1]]+"\"")
		}
	}
}
