package main

import (
	"go/types"
	"strings"

	"golang.org/x/tools/go/ssa"
)

// C42 Concurrent service requests do not see each other.

func init() {
	register(&propertyCheck{
		id: "C42", level: "other", needs: loadNeeds{ssa: true},
		decides: "the structural conditions that keep one service request's data out of another's symbol table: (1) the service cache map and the mutable fields (s, Age, Count) of its entries are touched in package services only with serviceCacheMutex held, and the other fields are written only while the entry is being built; " +
			"(2) the table a request runs in is a child, created in ServiceHandler, of a root table created by that call's setupServerSymbols; nothing request-derived is written to the process-wide root table; the only table ever saved in the cache is that root's table (symbolTable.Parent(), never the runtime child holding the request's variables) and the saved table is used only as the source of Merge; " +
			"(3) Merge copies no name with the read-only prefix, and every name ServiceHandler/setupServerSymbols set on the request table that is not a constant with that prefix is set after the merge (no path from the assignment to getCachedService), so the first request's value of it, which sits in the saved table, can never replace this request's.",
		misses: "sharing through values reachable from both tables (package objects, maps and structs copied by reference by Merge); state a service keeps in packages on purpose; the child-process mode (one process per request); reads of ServiceCache by the admin status handlers (reported as info: they race with the map writers but do not carry one request's data to another).",
		run:    runC42,
	})
}

func runC42(w *World, r *Report) {
	r.Rule("R-C42-1", "guarded-by: in package services every access to ServiceCache and to CachedCompilationUnit.{s,Age,Count} happens with serviceCacheMutex held; b, t, Route and Size are stored only into an entry under construction", 10)
	r.Rule("R-C42-4", "every removal from ServiceCache (delete of an entry, replacement of the map) is preceded on every path by Route.NeedsLock(true) — directly, or in a range over the cache that arms every entry — so that the next use of the service runs alone: a request that finds the entry of a first use still in progress gets a table without the saved symbols", 3)
	r.Rule("R-C42-2", "request scope: the context of a service runs on NewChildSymbolTable(…, t) with t from this call's setupServerSymbols, which returns a fresh NewRootSymbolTable; the table saved by updateCachedServiceSymbols is <table>.Parent(); the saved table is only ever the source of Merge; nothing derived from the request is set on the process-wide root table", 5)
	r.Rule("R-C42-3", "merge cannot carry request data: SymbolTable.Merge copies a name only on the not-read-only-prefix edge; a SetAlways on the request table whose name is not a constant with the read-only prefix has no path to getCachedService", 10)

	sp := w.pkg("internal/server/services")
	symp := w.pkg("internal/language/symbols")
	defp := w.pkg("internal/defs")

	if sp == nil || symp == nil || defp == nil {
		r.Anchor("R-C42-1", "packages server/services, language/symbols, defs")

		return
	}

	handler := w.ssaFunc(sp, "ServiceHandler")
	setup := w.ssaFunc(sp, "setupServerSymbols")
	getCached := w.ssaFunc(sp, "getCachedService")
	update := w.ssaFunc(sp, "updateCachedServiceSymbols")
	merge := w.ssaFunc(symp, "SymbolTable.Merge")

	for name, f := range map[string]*ssa.Function{"services.ServiceHandler": handler, "services.setupServerSymbols": setup, "services.getCachedService": getCached,
		"services.updateCachedServiceSymbols": update, "symbols.SymbolTable.Merge": merge} {
		if f == nil {
			r.Anchor("R-C42-2", name)
		}
	}

	if handler == nil || setup == nil || getCached == nil || update == nil || merge == nil {
		return
	}

	c42SharedBytecodeCache(w, r)
	c42ScopeOnlyOnClones(w, r)
	c42OperandAggregatesCopied(w, r)
	c42CompileTimeInstances(w, r)

	c42Removals(w, r, w.srcFuncs(sp), func(v ssa.Value) bool {
		g, ok := v.(*ssa.Global)

		return ok && g.Name() == "ServiceCache" && g.Pkg.Pkg == sp.Types
	})

	roPrefix := constStringOf(defp, "ReadonlyVariablePrefix")
	if roPrefix == "" {
		r.Anchor("R-C42-3", "defs.ReadonlyVariablePrefix")

		return
	}

	const lockID = "services.serviceCacheMutex"

	// ------------------------------------------------------------ R-C42-1
	fns := w.srcFuncs(sp)
	entry := entryLocksets(fns, nil)
	r.Unit("functions_services", len(fns))

	var unit *types.Named

	if o := sp.Types.Scope().Lookup("CachedCompilationUnit"); o != nil {
		unit, _ = o.Type().(*types.Named)
	}

	if unit == nil {
		r.Anchor("R-C42-1", "services.CachedCompilationUnit")

		return
	}

	guarded := map[string]bool{"s": true, "Age": true, "Count": true}
	frozen := map[string]bool{"b": true, "t": true, "Route": true, "Size": true}

	isCacheGlobal := func(v ssa.Value) bool {
		g, ok := v.(*ssa.Global)

		return ok && g.Name() == "ServiceCache" && g.Pkg.Pkg == sp.Types
	}

	for _, fn := range fns {
		if fn.Name() == "init" && fn.Parent() == nil {
			continue // package initialisation runs before any request
		}

		ls := computeLocksets(fn, entry[fn], nil)
		count := map[string]int{}

		obligation := func(in ssa.Instruction, what string) {
			key := fnKey(fn) + "|" + what
			count[key]++

			if n := count[key]; n > 1 {
				key += "#" + sprintInt(n)
			}

			if ls.heldAt(in)[lockID] == 'W' {
				r.Discharge("R-C42-1", key, w.pos(in.Pos()), "serviceCacheMutex held")
			} else {
				r.Violate("R-C42-1", key, w.pos(in.Pos()), what+" without serviceCacheMutex: a concurrent request can see a half-updated cache entry (or the runtime aborts on a concurrent map access)")
			}
		}

		allInstrs(fn, func(in ssa.Instruction) {
			switch x := in.(type) {
			case *ssa.UnOp:
				if isCacheGlobal(x.X) {
					obligation(in, "ServiceCache read")
				}
			case *ssa.Store:
				if isCacheGlobal(x.Addr) {
					obligation(in, "ServiceCache replaced")
				}
			case *ssa.FieldAddr:
				if n := namedOf(x.X.Type()); n == nil || n.Obj() != unit.Obj() {
					return
				}

				fname := fieldName(x.X.Type(), x.Field)
				_, fresh := x.X.(*ssa.Alloc)

				switch {
				case guarded[fname]:
					obligation(in, "entry."+fname+" access")
				case frozen[fname]:
					for _, ref := range *x.Referrers() {
						if st, ok := ref.(*ssa.Store); ok && st.Addr == ssa.Value(x) {
							key := fnKey(fn) + "|entry." + fname + " write"
							if fresh {
								r.Discharge("R-C42-1", key, w.pos(st.Pos()), "entry under construction")
							} else {
								r.Violate("R-C42-1", key, w.pos(st.Pos()), "entry."+fname+" is read by requests without the lock (it is set once when the entry is built); writing it later races with them")
							}
						}
					}
				}
			}
		})
	}

	// accesses from other packages: listed, not judged (the mutex is not visible there)
	for _, p := range w.pkgs {
		if p == sp {
			continue
		}

		for _, fn := range w.srcFuncs(p) {
			allInstrs(fn, func(in ssa.Instruction) {
				if u, ok := in.(*ssa.UnOp); ok && isCacheGlobal(u.X) {
					r.Info("R-C42-1", fnKey(fn)+"|ServiceCache read from another package", w.pos(in.Pos()), "reads the service cache without its lock (status display); races with cache writers but moves no request data between requests — outside the property")
				}
			})
		}
	}

	// ------------------------------------------------------------ R-C42-2
	isTable := func(t types.Type) bool {
		n := namedOf(t)

		return n != nil && n.Obj().Name() == "SymbolTable" && n.Obj().Pkg() == symp.Types
	}

	fromSetup := func(v ssa.Value) bool {
		return derivesFrom(v, func(s ssa.Value) bool {
			c, ok := s.(*ssa.Call)

			return ok && calleeFunction(c.Common()) == setup
		}, nil)
	}

	// setupServerSymbols returns a fresh root table
	for _, ret := range returnsOf(setup) {
		v := resolveLocal(retResult(ret, 0))
		key := "services.setupServerSymbols|returns a fresh root table"

		if c, ok := v.(*ssa.Call); ok && callID(c.Common()) == "internal/language/symbols.NewRootSymbolTable" {
			r.Discharge("R-C42-2", key, w.pos(ret.Pos()), "NewRootSymbolTable per call")
		} else {
			r.Violate("R-C42-2", key, w.pos(ret.Pos()), "the request's root table is not created by this call (requests would share one table)")
		}
	}

	// the context runs on a per-request child of the request root
	nCtx := 0

	allInstrs(handler, func(in ssa.Instruction) {
		c := callTo(in, "internal/language/bytecode.NewContext")
		if c == nil {
			return
		}

		nCtx++

		key := "services.ServiceHandler|context table"
		t := resolveLocal(c.Args[0])
		ch, ok := t.(*ssa.Call)

		switch {
		case !ok || callID(ch.Common()) != "internal/language/symbols.NewChildSymbolTable":
			r.Violate("R-C42-2", key, w.pos(in.Pos()), "the service does not run in a child table created for this request: its variables land in the table that is saved for later requests")
		case !fromSetup(ch.Call.Args[1]):
			r.Violate("R-C42-2", key, w.pos(in.Pos()), "the runtime table's parent is not the table setupServerSymbols built for this request")
		default:
			r.Discharge("R-C42-2", key, w.pos(in.Pos()), "NewChildSymbolTable(…, setupServerSymbols(…))")
		}
	})

	if nCtx == 0 {
		r.Anchor("R-C42-2", "bytecode.NewContext call in ServiceHandler")
	}

	// what is saved
	nSave := 0

	for _, fn := range fns {
		allInstrs(fn, func(in ssa.Instruction) {
			c, ok := in.(*ssa.Call)
			if !ok || calleeFunction(c.Common()) != update {
				return
			}

			nSave++

			key := fnKey(fn) + "|table saved in the cache"
			a := resolveLocal(c.Call.Args[2])

			if pc, ok := a.(*ssa.Call); ok && callID(pc.Common()) == "internal/language/symbols.SymbolTable.Parent" {
				r.Discharge("R-C42-2", key, w.pos(in.Pos()), "the parent of the runtime table")
			} else {
				r.Violate("R-C42-2", key, w.pos(in.Pos()), "the table saved for later requests is not <runtime table>.Parent(): the first request's own variables would be merged into every later request")
			}
		})
	}

	if nSave == 0 {
		r.Anchor("R-C42-2", "call of updateCachedServiceSymbols")
	}

	// entry.s: stored only by updateCachedServiceSymbols; loaded only to be the source of Merge
	for _, fn := range fns {
		allInstrs(fn, func(in ssa.Instruction) {
			fa, ok := in.(*ssa.FieldAddr)
			if !ok {
				return
			}

			// every member of a cache entry that can hold a symbol table (today: s)
			if n := namedOf(fa.X.Type()); n == nil || n.Obj() != unit.Obj() {
				return
			}

			if ft := namedOf(fieldTypeOf(fa)); ft == nil || ft.Obj().Name() != "SymbolTable" {
				return
			}

			for _, ref := range *fa.Referrers() {
				switch x := ref.(type) {
				case *ssa.Store:
					if x.Addr != ssa.Value(fa) || isNilConst(x.Val) {
						continue
					}

					key := fnKey(fn) + "|entry." + fieldName(fa.X.Type(), fa.Field) + " stored"
					if fn == update {
						r.Discharge("R-C42-2", key, w.pos(x.Pos()), "the one place the saved table is set")
					} else {
						r.Violate("R-C42-2", key, w.pos(x.Pos()), "a second writer of the saved table")
					}
				case *ssa.UnOp:
					key := fnKey(fn) + "|entry." + fieldName(fa.X.Type(), fa.Field) + " used"
					if bad := c42SavedTableUse(x, merge); bad != "" {
						r.Violate("R-C42-2", key, w.pos(x.Pos()), "the saved table (the first request's table) "+bad+": later requests would share it, not copy from it")
					} else {
						r.Discharge("R-C42-2", key, w.pos(x.Pos()), "only compared with nil, named in a log, or passed as the source of Merge")
					}
				}
			}
		})
	}

	// nothing request-derived goes to the process-wide root table
	for _, fn := range []*ssa.Function{handler, setup} {
		n := 0

		allInstrs(fn, func(in ssa.Instruction) {
			c := callTo(in, "internal/language/symbols.SymbolTable.SetAlways", "internal/language/symbols.SymbolTable.Set", "internal/language/symbols.SymbolTable.Create")
			if c == nil {
				return
			}

			recv := c.Args[0]
			global := derivesFrom(recv, func(s ssa.Value) bool {
				if g, ok := s.(*ssa.Global); ok && g.Name() == "RootSymbolTable" {
					return true
				}

				sc, ok := s.(*ssa.Call)

				return ok && callID(sc.Common()) == "internal/language/symbols.SymbolTable.Root"
			}, nil)

			if !global {
				return
			}

			n++

			key := fnKey(fn) + "|process-wide table write"
			if n > 1 {
				key += "#" + sprintInt(n)
			}

			reqDerived := false

			for _, a := range c.Args[1:] {
				if derivesFrom(a, func(s ssa.Value) bool {
					p, ok := s.(*ssa.Parameter)

					return ok && p.Parent() == fn
				}, func(string) bool { return true }) {
					reqDerived = true
				}
			}

			if reqDerived {
				r.Violate("R-C42-2", key, w.pos(in.Pos()), "a value computed from the request is written to the process-wide root table, which every other request reads")
			} else {
				r.Discharge("R-C42-2", key, w.pos(in.Pos()), "value does not derive from the request")
			}
		})
	}

	// ------------------------------------------------------------ R-C42-3
	// remove the edges on which the name is known not to carry the prefix: the copy must then be unreachable
	cuts := cutEdges(merge, func(f Fact) bool {
		if f.Kind != "false" {
			return false
		}

		c, ok := f.V.(*ssa.Call)
		if !ok || callID(c.Common()) != "strings.HasPrefix" {
			return false
		}

		p, isC := constString(c.Call.Args[1])

		return isC && p == roPrefix
	})

	nCopy := 0

	allInstrs(merge, func(in ssa.Instruction) {
		c, ok := in.(ssa.CallInstruction)
		if !ok || c.Common().IsInvoke() {
			return
		}

		id := callID(c.Common())
		if !strings.HasPrefix(id, "internal/language/symbols.SymbolTable.") || len(c.Common().Args) == 0 || c.Common().Args[0] != ssa.Value(merge.Params[0]) {
			return
		}

		switch strings.TrimPrefix(id, "internal/language/symbols.SymbolTable.") {
		case "SetAlways", "Set", "Create", "SetWithAttributes", "setValue":
		default:
			return
		}

		nCopy++

		key := "symbols.SymbolTable.Merge|copy behind read-only-prefix test"
		if len(cuts) == 0 || instrReachableAfterCut(merge, in, cuts) {
			r.Violate("R-C42-3", key, w.pos(in.Pos()), "Merge copies names with the read-only prefix: _request, _user, _session, _response_writer of the first request would replace every later request's")
		} else {
			r.Discharge("R-C42-3", key, w.pos(in.Pos()), "only on the !HasPrefix(name, \""+roPrefix+"\") edge")
		}
	})

	if nCopy == 0 {
		r.Anchor("R-C42-3", "the copying call in SymbolTable.Merge")
	}

	// names set on the request table
	for _, fn := range []*ssa.Function{handler, setup} {
		count := map[string]int{}

		allInstrs(fn, func(in ssa.Instruction) {
			c := callTo(in, "internal/language/symbols.SymbolTable.SetAlways", "internal/language/symbols.SymbolTable.Set", "internal/language/symbols.SymbolTable.Create", "internal/language/symbols.SymbolTable.SetWithAttributes")
			if c == nil || !isTable(c.Args[0].Type()) {
				return
			}

			name, isConst := constString(c.Args[1])

			label := "dynamic name"
			if isConst {
				label = name
			}

			key := fnKey(fn) + "|set " + label
			count[key]++

			if n := count[key]; n > 1 {
				key += "#" + sprintInt(n)
			}

			if isConst && strings.HasPrefix(name, roPrefix) {
				r.Discharge("R-C42-3", key, w.pos(in.Pos()), "read-only prefix: never copied by Merge")

				return
			}

			// not protected by the prefix: it must be assigned after the merge
			if fn == setup {
				r.Violate("R-C42-3", key, w.pos(in.Pos()), "a name without the read-only prefix is set before the cached symbols are merged; the first request's value of it is in the saved table and replaces this request's")

				return
			}

			hit := pathAvoiding(in, nil, func(ssa.Instruction) bool { return false }, func(t ssa.Instruction) bool {
				tc, ok := t.(*ssa.Call)

				return ok && calleeFunction(tc.Common()) == getCached
			})

			if hit != nil {
				r.Violate("R-C42-3", key, w.pos(in.Pos()), "a name without the read-only prefix is set before getCachedService merges the cached symbols ("+w.pos(hit.Pos())+"): the first request's value of it, kept in the saved table, replaces this request's")
			} else {
				r.Discharge("R-C42-3", key, w.pos(in.Pos()), "assigned after the merge: this request's value wins")
			}
		})
	}
}

// c42SavedTableUse follows the uses of a load of entry.s and returns a
// description of the first use that is not one of: comparison, phi/local
// copy, read of its Name field, source argument of Merge.
func c42SavedTableUse(load ssa.Value, merge *ssa.Function) string {
	seen := map[ssa.Value]bool{}

	var rec func(v ssa.Value) string

	rec = func(v ssa.Value) string {
		if seen[v] {
			return ""
		}

		seen[v] = true

		for _, ref := range *v.Referrers() {
			switch x := ref.(type) {
			case *ssa.BinOp:
			case *ssa.DebugRef:
			case *ssa.If:
			case *ssa.Phi:
				if s := rec(x); s != "" {
					return s
				}
			case *ssa.FieldAddr:
				if fieldName(x.X.Type(), x.Field) != "Name" {
					return "has its field " + fieldName(x.X.Type(), x.Field) + " taken"
				}
			case *ssa.Store:
				if x.Val == v {
					cell := localCell(x.Addr)
					if cell == nil {
						return "is stored outside the function"
					}

					for _, cr := range *cell.Referrers() {
						if u, ok := cr.(*ssa.UnOp); ok {
							if s := rec(u); s != "" {
								return s
							}
						}
					}
				}
			case ssa.CallInstruction:
				c := x.Common()
				if calleeFunction(c) == merge && len(c.Args) == 2 && c.Args[1] == v && c.Args[0] != v {
					continue
				}

				return "is passed to " + callID(c)
			default:
				return "is used by " + sprintType(ref)
			}
		}

		return ""
	}

	return rec(load)
}

// fieldTypeOf: the type of the member a FieldAddr selects.
func fieldTypeOf(fa *ssa.FieldAddr) types.Type {
	if p, ok := fa.Type().Underlying().(*types.Pointer); ok {
		return p.Elem()
	}

	return fa.Type()
}

// c42Removals: R-C42-4.
func c42Removals(w *World, r *Report, fns []*ssa.Function, isCacheGlobal func(ssa.Value) bool) {
	fromCache := func(v ssa.Value) bool {
		u, ok := v.(*ssa.UnOp)

		return ok && isCacheGlobal(u.X)
	}

	isArm := func(in ssa.Instruction) bool {
		c, ok := in.(*ssa.Call)
		if !ok || !strings.HasSuffix(callID(c.Common()), "router.Route.NeedsLock") || len(c.Call.Args) < 2 {
			return false
		}

		b, isC := constBool(c.Call.Args[1])

		return isC && b
	}

	for _, fn := range fns {
		if fn.Name() == "init" && fn.Parent() == nil {
			continue
		}

		// headers of loops that range over the cache and arm in their body
		armingNext := map[ssa.Instruction]bool{}

		for _, li := range naturalLoops(fn) {
			arms := false

			for b := range li.body {
				for _, in := range b.Instrs {
					if isArm(in) {
						arms = true
					}
				}
			}

			if !arms {
				continue
			}

			for _, in := range li.header.Instrs {
				if nx, ok := in.(*ssa.Next); ok {
					if rg, ok := nx.Iter.(*ssa.Range); ok && fromCache(rg.X) {
						armingNext[in] = true
					}
				}
			}
		}

		n := 0

		allInstrs(fn, func(in ssa.Instruction) {
			what := ""

			switch x := in.(type) {
			case *ssa.Call:
				if b, ok := x.Call.Value.(*ssa.Builtin); ok && b.Name() == "delete" && len(x.Call.Args) == 2 && fromCache(x.Call.Args[0]) {
					what = "delete(ServiceCache, …)"
				}
			case *ssa.Store:
				if isCacheGlobal(x.Addr) {
					what = "ServiceCache replaced"
				}
			}

			if what == "" {
				return
			}

			n++
			key := fnKey(fn) + "|" + what
			if n > 1 {
				key += " #" + sprintInt(n)
			}

			hit := pathFromEntryAvoiding(fn, nil, func(i ssa.Instruction) bool { return isArm(i) || armingNext[i] }, func(i ssa.Instruction) bool { return i == in })
			if hit != nil {
				r.Violate("R-C42-4", key, w.pos(in.Pos()), "the service leaves the cache on a path that does not arm its route (Route.NeedsLock(true)), unlike the other removal sites: requests arriving while the next use compiles and runs are not held back, find a cache entry without saved symbols and fail (500 unknown identifier with automatic imports on), each failure dropping the entry again")
			} else {
				r.Discharge("R-C42-4", key, w.pos(in.Pos()), "Route.NeedsLock(true) on every path before the removal")
			}
		})
	}
}

// c42SharedBytecodeCache: R-C42-5. The compiled code of a service is one
// ByteCode object run by every request of the endpoint, and it carries a
// name-resolution cache (instruction -> table the name was found in). A table
// may go into that cache only if it is the same for every request, i.e. a
// process-wide singleton; a request's own table (which holds _request,
// _response_writer, _user and the URL parts) remembered there is read by the
// next request that executes the same instruction.
func c42SharedBytecodeCache(w *World, r *Report) {
	r.Rule("R-C42-5", "the name-resolution cache of compiled code shared by requests holds process-wide tables only: every ByteCode.cacheGlobalTable call is reachable only through the true edge of IsGlobalSingleton() on the very table it stores", 2)

	bp := w.pkg("internal/language/bytecode")
	if bp == nil {
		return
	}

	n := 0

	for _, fn := range w.srcFuncs(bp) {
		count := map[string]int{}

		allInstrs(fn, func(in ssa.Instruction) {
			c, ok := in.(*ssa.Call)
			if !ok || callID(c.Common()) != "internal/language/bytecode.ByteCode.cacheGlobalTable" || len(c.Call.Args) < 3 {
				return
			}

			n++

			key := fnKey(fn) + "|table cached on shared bytecode"
			count[key]++

			if k := count[key]; k > 1 {
				key += "#" + sprintInt(k)
			}

			table := c.Call.Args[2]

			cuts := cutEdges(fn, func(f Fact) bool {
				if f.Kind != "true" {
					return false
				}

				sc, ok := f.V.(*ssa.Call)

				return ok && callID(sc.Common()) == "internal/language/symbols.SymbolTable.IsGlobalSingleton" && sc.Call.Args[0] == table
			})

			if len(cuts) == 0 || instrReachableAfterCut(fn, in, cuts) {
				r.Violate("R-C42-5", key, w.pos(in.Pos()), "a table that is not known to be a process-wide singleton is remembered on the compiled code all requests of the service share: a concurrent request executing the same instruction resolves _request, _response_writer, _user or a URL part in the other request's table")
			} else {
				r.Discharge("R-C42-5", key, w.pos(in.Pos()), "only behind IsGlobalSingleton() of the stored table")
			}
		})
	}

	if n == 0 {
		r.Anchor("R-C42-5", "a call of ByteCode.cacheGlobalTable in package bytecode")
	}
}
