package main

import (
	"go/ast"
	"go/types"
	"strings"

	"golang.org/x/tools/go/ssa"
)

// C26 Sandboxed programs stay inside the sandbox.

func init() {
	register(&propertyCheck{
		id: "C26", level: "other", needs: loadNeeds{ssa: true},
		decides: "every file-system access an Ego program can drive goes through the containment helper: in the runtime packages, builtins and the bytecode interpreter each path argument of a file-system call that derives from a program-supplied value (function arguments, instruction operands, object fields) is the result of a sandboxName helper / util.SandboxJoin; every native pass-through declaration of an os / path/filepath function marks each path parameter Sandboxed; the sandboxName helpers all end in util.SandboxJoin on their enabled path.",
		misses: "the path algebra and symlink handling of util.SandboxJoin itself, process execution (exec), network access, time-of-check/time-of-use races on the file system.",
		run:    runC26,
	})
}

// path-argument positions of file-system functions
var c26Sinks = map[string][]int{
	"os.Open": {0}, "os.OpenFile": {0}, "os.Create": {0}, "os.ReadFile": {0}, "os.WriteFile": {0}, "os.Remove": {0}, "os.RemoveAll": {0},
	"os.Mkdir": {0}, "os.MkdirAll": {0}, "os.Stat": {0}, "os.Lstat": {0}, "os.ReadDir": {0}, "os.Rename": {0, 1}, "os.Chmod": {0}, "os.Chown": {0},
	"os.Lchown": {0}, "os.Chdir": {0}, "os.Truncate": {0}, "os.Symlink": {0, 1}, "os.Link": {0, 1}, "os.Readlink": {0}, "os.CreateTemp": {0},
	"os.MkdirTemp": {0}, "os.Chtimes": {0}, "os.DirFS": {0}, "path/filepath.Walk": {0}, "path/filepath.WalkDir": {0}, "path/filepath.Glob": {0},
	"path/filepath.EvalSymlinks": {0}, "io/ioutil.ReadFile": {0}, "io/ioutil.WriteFile": {0}, "io/ioutil.ReadDir": {0},
}

var c26Exceptions = map[string]string{
	"bytecode.fromFileByteCode":        "the operand is the source file name the compiler recorded for the debugger, not a value computed by the program",
	"bytecode.WriteProfileReportFile":  "path comes from the --profile command-line option of the person running ego",
	"rest.GetTLSConfiguration":         "certificate file named by configuration / environment of the host process",
	"io.ReadConsoleText":               "readline history file named by the host configuration",
}

func runC26(w *World, r *Report) {
	r.Rule("R-C26-1", "provenance: every path argument of a file-system call in runtime/**, builtins and bytecode that derives from a program-supplied value is the result of sandboxName(...) / util.SandboxJoin(...)", 15)
	r.Rule("R-C26-2", "native declarations: every data.Function with IsNative whose Value is a file-system function of os / path/filepath marks each path parameter Sandboxed: true", 7)
	r.Rule("R-C26-3", "sibling helpers: every function named sandboxName returns util.SandboxJoin(prefix, path) on its enabled path and the unmodified path only behind the disabled / no-prefix edge", 3)

	pkgs := w.pkgsUnder("internal/runtime", "internal/builtins", "internal/language/bytecode")
	if len(pkgs) < 20 {
		r.Anchor("R-C26-1", "runtime packages")

		return
	}

	isSandboxCall := func(v ssa.Value) bool {
		c, ok := v.(*ssa.Call)
		if !ok {
			return false
		}

		if callID(c.Common()) == "internal/util.SandboxJoin" {
			return true
		}

		cf := calleeFunction(c.Common())

		return cf != nil && cf.Name() == "sandboxName"
	}

	isProgramValue := func(fn *ssa.Function) func(ssa.Value) bool {
		return func(v ssa.Value) bool {
			switch x := v.(type) {
			case *ssa.Parameter:
				t := x.Type()
				if n := namedOf(t); n != nil {
					switch n.Obj().Name() {
					case "SymbolTable", "Context", "ByteCode", "Request", "Session":
						return false
					}
				}

				return true
			case *ssa.Call:
				id := callID(x.Common())

				return strings.HasPrefix(id, "internal/language/data.List.") || strings.HasPrefix(id, "internal/language/data.Struct.Get") ||
					strings.HasPrefix(id, "internal/language/symbols.SymbolTable.Get")
			}

			return false
		}
	}

	n := 0

	for _, p := range pkgs {
		for _, fn := range w.srcFuncs(p) {
			allCalls(fn, func(ci ssa.CallInstruction) {
				id := callID(ci.Common())

				positions, ok := c26Sinks[id]
				if !ok {
					return
				}

				for _, pos := range positions {
					args := ci.Common().Args
					if pos >= len(args) {
						continue
					}

					n++

					path := args[pos]
					key := fnKey(fn) + "|" + id + " arg" + sprintInt(pos)
					through := func(string) bool { return true }

					outer := fn
					for outer.Parent() != nil {
						outer = outer.Parent()
					}

					// a program value that reaches the sink by a route that does
					// not pass the sandbox helper: `confined + ext` with a
					// program-supplied ext is not confined
					aroundHelper := func(id string) bool {
						return !strings.HasSuffix(id, ".sandboxName") && !strings.HasSuffix(id, "util.SandboxJoin")
					}

					confined := derivesFrom(path, isSandboxCall, through)

					switch {
					case confined && c26Exceptions[fnKey(outer)] == "" && derivesFrom(path, func(v ssa.Value) bool {
						c, isCall := v.(*ssa.Call)
						if isCall && isSandboxCall(c) {
							return false
						}

						return isProgramValue(fn)(v)
					}, aroundHelper):
						r.Violate("R-C26-1", key, w.pos(ci.Pos()), "the path given to "+id+" is a confined path joined with text the program supplies after the confinement: `..` elements in that text lead out of the sandbox root (io.Expand(\"a\", \"b/../../outside/secret.txt\") reads outside)")
					case confined:
						r.Discharge("R-C26-1", key, w.pos(ci.Pos()), "path is the result of the sandbox helper")
					case c26Exceptions[fnKey(outer)] != "":
						r.Except("R-C26-1", key, w.pos(ci.Pos()), c26Exceptions[fnKey(outer)])
					case derivesFrom(path, isProgramValue(fn), through):
						r.Violate("R-C26-1", key, w.pos(ci.Pos()), "a path supplied by the running program reaches "+id+" without passing sandboxName / util.SandboxJoin: a sandboxed program can touch files outside the sandbox root")
					default:
						r.Discharge("R-C26-1", key, w.pos(ci.Pos()), "path is not program-controlled (constant / configuration)")
					}
				}
			})
		}
	}

	r.Unit("file_system_call_sites", n)

	// ---- R-C26-2 native declarations
	dp := w.pkg("internal/language/data")
	if dp == nil {
		r.Anchor("R-C26-2", "package language/data")

		return
	}

	fnT, _ := lookupObj(dp, "Function").(*types.TypeName)
	if fnT == nil {
		r.Anchor("R-C26-2", "data.Function")

		return
	}

	for _, p := range w.pkgsUnder("internal/runtime") {
		info := p.TypesInfo

		for _, file := range p.Syntax {
			ast.Inspect(file, func(nd ast.Node) bool {
				cl, ok := nd.(*ast.CompositeLit)
				if !ok {
					return true
				}

				tv, ok := info.Types[cl]
				if !ok || namedOf(tv.Type) == nil || namedOf(tv.Type).Obj() != fnT {
					return true
				}

				var value ast.Expr

				var decl *ast.CompositeLit

				native := false

				for _, el := range cl.Elts {
					kv, ok := el.(*ast.KeyValueExpr)
					if !ok {
						continue
					}

					switch kv.Key.(*ast.Ident).Name {
					case "Value":
						value = kv.Value
					case "IsNative":
						if id, ok := kv.Value.(*ast.Ident); ok && id.Name == "true" {
							native = true
						}
					case "Declaration":
						if ue, ok := kv.Value.(*ast.UnaryExpr); ok {
							decl, _ = ue.X.(*ast.CompositeLit)
						}
					}
				}

				if !native || value == nil {
					return true
				}

				se, ok := ast.Unparen(value).(*ast.SelectorExpr)
				if !ok {
					return true
				}

				gf, ok := info.Uses[se.Sel].(*types.Func)
				if !ok || gf.Pkg() == nil {
					return true
				}

				id := gf.Pkg().Path() + "." + gf.Name()

				positions, isSink := c26Sinks[id]
				if !isSink {
					return true
				}

				// parameters of the declaration
				var params []*ast.CompositeLit

				if decl != nil {
					for _, el := range decl.Elts {
						if kv, ok := el.(*ast.KeyValueExpr); ok && kv.Key.(*ast.Ident).Name == "Parameters" {
							if pl, ok := kv.Value.(*ast.CompositeLit); ok {
								for _, pe := range pl.Elts {
									if pc, ok := pe.(*ast.CompositeLit); ok {
										params = append(params, pc)
									}
								}
							}
						}
					}
				}

				for _, pos := range positions {
					key := p.Types.Name() + "|native " + id + " arg" + sprintInt(pos)

					if pos >= len(params) {
						r.Violate("R-C26-2", key, w.pos(cl.Pos()), "the declaration of native "+id+" has no parameter entry for its path argument")

						continue
					}

					sandboxed := false

					for _, el := range params[pos].Elts {
						if kv, ok := el.(*ast.KeyValueExpr); ok && kv.Key.(*ast.Ident).Name == "Sandboxed" {
							if idn, ok := kv.Value.(*ast.Ident); ok && idn.Name == "true" {
								sandboxed = true
							}
						}
					}

					if sandboxed {
						r.Discharge("R-C26-2", key, w.pos(params[pos].Pos()), "Sandboxed: true")
					} else {
						r.Violate("R-C26-2", key, w.pos(params[pos].Pos()), "path parameter of native "+id+" is not marked Sandboxed: the program's path is handed to the Go function unconfined")
					}
				}

				return true
			})
		}
	}

	// ---- R-C26-4 the native-call marshaller honours the flag
	r.Rule("R-C26-6", "in the native-call marshaller the rewrite of a Sandboxed parameter does not depend on the text of the argument: no branch that dominates the sandboxName call tests the path value", 1)
	r.Rule("R-C26-4", "the native-call marshaller confines a string argument whenever its parameter is declared Sandboxed: every branch on data.Parameter.Sandboxed in package bytecode calls sandboxName on its true edge", 1)

	if bp := w.pkg("internal/language/bytecode"); bp == nil {
		r.Anchor("R-C26-4", "package bytecode")
	} else {
		found := 0

		for _, fn := range w.srcFuncs(bp) {
			for _, b := range fn.Blocks {
				ifi, ok := b.Instrs[len(b.Instrs)-1].(*ssa.If)
				if !ok {
					continue
				}

				isFlag := false

				for _, f := range edgeFacts(ifi.Cond, true) {
					if f.Kind == "true" && isFieldNamed(f.V, "Sandboxed") {
						// the flag of data.Parameter (data.Function has a flag of the same name with another meaning)
						v := f.V
						if u, ok := v.(*ssa.UnOp); ok {
							v = u.X
						}

						if fa, ok := v.(*ssa.FieldAddr); ok {
							if n := namedOf(fa.X.Type()); n != nil && n.Obj().Name() == "Parameter" {
								isFlag = true
							}
						}
					}
				}

				if !isFlag {
					continue
				}

				found++

				key := fnKey(fn) + "|Sandboxed→sandboxName"
				has := false

				for _, in := range b.Succs[0].Instrs {
					if c, ok := in.(*ssa.Call); ok {
						if cf := calleeFunction(c.Common()); cf != nil && cf.Name() == "sandboxName" {
							has = true
						}
					}
				}

				if has {
					r.Discharge("R-C26-4", key, w.pos(ifi.Pos()), "sandboxName applied when the parameter is Sandboxed")
				} else {
					r.Violate("R-C26-4", key, w.pos(ifi.Pos()), "a parameter declared Sandboxed is passed to the native function without sandboxName")
				}

				// R-C26-6: whether the argument is confined does not depend on what the argument says
				for _, in := range b.Succs[0].Instrs {
					c, ok := in.(*ssa.Call)
					if !ok {
						continue
					}

					if cf := calleeFunction(c.Common()); cf == nil || cf.Name() != "sandboxName" || len(c.Call.Args) == 0 {
						continue
					}

					path := c.Call.Args[len(c.Call.Args)-1]
					key6 := fnKey(fn) + "|confinement independent of the path text"
					bad := ""

					involves := func(v ssa.Value) bool {
						return v != nil && (v == path || derivesFrom(v, func(s ssa.Value) bool { return s == path }, func(string) bool { return true }))
					}

					for _, f := range dominatingFacts(c.Block()) {
						if involves(f.V) || involves(f.X) || involves(f.Y) {
							bad = f.Kind
						}
					}

					if bad != "" {
						r.Violate("R-C26-6", key6, w.pos(c.Pos()), "the rewrite of a Sandboxed parameter is skipped for some texts of the argument (a test of the path value guards it): for such a text the native function receives the program's own string, and what that string means is up to the function — os.CreateTemp(\"\", …) creates its file in the system's temporary directory, outside the sandbox root")
					} else {
						r.Discharge("R-C26-6", key6, w.pos(c.Pos()), "no test of the path value guards the rewrite")
					}
				}
			}
		}

		if found == 0 {
			r.Violate("R-C26-4", "bytecode|Sandboxed flag unused", "", "package bytecode never looks at data.Parameter.Sandboxed: native os/filepath calls receive unconfined paths")
		}
	}

	// ---- R-C26-5 what exists on disk is resolved before it is trusted
	r.Rule("R-C26-5", "in util.resolveWithinSandbox, once a component of the candidate was found on disk (success edge of os.Lstat) every return hands back the sandbox root, except through the true edge of a withinRoot containment test", 1)

	if up := w.pkg("internal/util"); up != nil {
		key := "util.resolveWithinSandbox|existing components are resolved"

		fn := w.ssaFunc(up, "resolveWithinSandbox")
		if fn == nil || len(fn.Params) != 2 {
			r.Anchor("R-C26-5", "util.resolveWithinSandbox(candidate, sandboxRoot)")
		} else {
			var starts []*ssa.BasicBlock

			for _, b := range fn.Blocks {
				ifi, ok := b.Instrs[len(b.Instrs)-1].(*ssa.If)
				if !ok {
					continue
				}

				for idx, branch := range []bool{true, false} {
					for _, f := range edgeFacts(ifi.Cond, branch) {
						if f.Kind != "nil" {
							continue
						}

						if c, i := resultOf(f.V); c != nil && i == 1 && callID(c.Common()) == "os.Lstat" {
							starts = append(starts, b.Succs[idx])
						}
					}
				}
			}

			cuts := cutEdges(fn, func(f Fact) bool {
				if f.Kind != "true" {
					return false
				}

				c, ok := f.V.(*ssa.Call)

				return ok && callID(c.Common()) == "internal/util.withinRoot"
			})

			bad := ""

			for _, st := range starts {
				for b := range reach(st, cuts, nil) {
					ret, ok := b.Instrs[len(b.Instrs)-1].(*ssa.Return)
					if !ok {
						continue
					}

					if v := resolveLocal(retResult(ret, 0)); v != ssa.Value(fn.Params[1]) {
						bad = w.pos(ret.Pos())
					}
				}
			}

			switch {
			case len(starts) == 0 || len(cuts) == 0:
				r.Violate("R-C26-5", key, w.pos(fn.Pos()), "the Lstat walk or the withinRoot tests of resolveWithinSandbox were not found")
			case bad != "":
				r.Violate("R-C26-5", key, bad, "after a component of the path was found on disk, the function can return a path that no containment test accepted (return at "+bad+"): a symbolic link it could not resolve, for example one whose target does not exist yet, is handed back as it is, and writing to it creates the target outside the sandbox")
			default:
				r.Discharge("R-C26-5", key, w.pos(fn.Pos()), "every return after the Lstat success edge is the sandbox root or sits behind withinRoot(...) == true")
			}
		}
	}

	// ---- R-C26-3 sibling helpers
	for _, p := range pkgs {
		for _, fn := range w.srcFuncs(p) {
			if fn.Name() != "sandboxName" || fn.Parent() != nil {
				continue
			}

			key := fnKey(fn) + "|shape"

			var pathParam ssa.Value

			for _, prm := range fn.Params {
				if prm.Name() == "path" {
					pathParam = prm
				}
			}

			ok := pathParam != nil
			joins := 0

			for _, ret := range returnsOf(fn) {
				v := retResult(ret, 0)

				switch {
				case v == pathParam:
					// raw return: only when disabled / no prefix
				default:
					c, isCall := v.(*ssa.Call)
					if isCall && callID(c.Common()) == "internal/util.SandboxJoin" && len(c.Call.Args) == 2 && c.Call.Args[1] == pathParam {
						joins++
					} else {
						ok = false
					}
				}
			}

			// the raw return must be behind a test (flag false or prefix empty): it must not be reachable when those edges are removed
			cuts := cutEdges(fn, func(f Fact) bool {
				if f.Kind == "eq" && f.C != nil {
					if s, isS := constString(f.C); isS && s == "" {
						return true
					}
				}

				// the enabling flag is false (a parameter, or a load of a package-level flag)
				// the enabling flag is false: a boolean that is not itself a comparison
				// (parameter, local computed from the symbol table, atomic flag load)
				if f.Kind == "false" {
					_, isCmp := f.V.(*ssa.BinOp)

					return !isCmp
				}

				return false
			})

			reachable := reach(fn.Blocks[0], cuts, nil)

			for _, ret := range returnsOf(fn) {
				if retResult(ret, 0) == pathParam && (len(cuts) == 0 || reachable[ret.Block()]) {
					ok = false
				}
			}

			if ok && joins > 0 {
				r.Discharge("R-C26-3", key, w.pos(fn.Pos()), "SandboxJoin(prefix, path) when enabled; raw path only when disabled or no prefix")
			} else {
				r.Violate("R-C26-3", key, w.pos(fn.Pos()), "this sandboxName helper can return the program's path unconfined while sandboxing is enabled (or does not call util.SandboxJoin)")
			}
		}
	}
}
