package main

import (
	"go/token"
	"go/types"
	"strings"

	"golang.org/x/tools/go/ssa"
)

// C08 Concurrent Ego programs cannot corrupt the interpreter.

func init() {
	register(&propertyCheck{
		id: "C08", level: "other", needs: loadNeeds{ssa: true},
		decides: "the lock discipline on the interpreter state that two goroutines of an Ego program can reach, and the mark-before-fork ordering: (1) in package symbols every access to SymbolTable.symbols / values / size is made on a table that is protected at that point — its lock is held (write lock for writes), or it was just found unshared (`!t.shared.Load()`), or it was created in this function, or the function is an unexported helper all of whose in-package callers have the table protected; " +
			"(2) goByteCode marks the captured scope shared before the go statement (no path from the go statement to a Shared call) and SymbolTable.Shared walks the ancestors with no exit other than reaching the root; (3) data.Channel.isOpen is accessed only under the channel's mutex; the go-routine bookkeeping fields of Context written by GoRoutine are written under the parent context's mutex.",
		misses: "every other race, the schedule-independence of synchronised programs and agreement with Go; package-level maps of the runtime packages; the window between Lock() and Unlock() when a table becomes shared in between.",
		run:    runC08,
	})
}

// c08Unprotected: accesses that are reported by the rule but are not reachable with a shared table (named, with reason).
var c08Unprotected = map[string]string{
	"symbols.tableFlagsString|size read":   "debug formatting of a table's flags for log output; reads two integers for display only",
	"symbols.tableFlagsString|values read": "debug formatting of a table's flags for log output; reads a length for display only",
	"symbols.SymbolTable.NewChildProxy|symbols read": "copies the map header of a package table into its proxy (they share the mutex pointer, so both are locked together afterwards); the field itself is assigned only when a table is built",
	"symbols.SymbolTable.NewChildProxy|values read":  "copies the slice header of a package table into its proxy; package tables gain no names after import, so no append races with this read",
	"symbols.SymbolTable.DiscardEphemera|symbols read": "called by the goroutine that owns the scope while popping it; names are added to or removed from a scope's map only by its owner (other goroutines read the map under RLock and write value slots), so this unlocked iteration has no concurrent map writer",
}

func runC08(w *World, r *Report) {
	r.Rule("R-C08-1", "SymbolTable guarded-by: every access to symbols / values / size in package symbols is on a protected table (lock held in the needed mode, unshared edge, fresh table, or helper whose callers all protect it)", 40)
	r.Rule("R-C08-2", "mark before fork: Shared(true) on the captured scope precedes the go statement in goByteCode, GoRoutine does not call Shared, and SymbolTable.Shared's ancestor walk has no exit other than the nil parent", 3)
	r.Rule("R-C08-3", "data.Channel.isOpen is read and written only with the channel's mutex held", 3)

	c08NoNestedAcquire(w, r)

	sp := w.pkg("internal/language/symbols")
	bp := w.pkg("internal/language/bytecode")
	dp := w.pkg("internal/language/data")

	if sp == nil || bp == nil || dp == nil {
		r.Anchor("R-C08-1", "packages language/symbols, language/bytecode, language/data")

		return
	}

	c08Guarded(w, r, sp)

	// ------------------------------------------------------------ R-C08-2
	goBC := w.ssaFunc(bp, "goByteCode")
	goRt := w.ssaFunc(bp, "GoRoutine")
	shared := w.ssaFunc(sp, "SymbolTable.Shared")

	if goBC == nil || goRt == nil || shared == nil {
		r.Anchor("R-C08-2", "bytecode.goByteCode / bytecode.GoRoutine / symbols.SymbolTable.Shared")
	} else {
		isShared := func(in ssa.Instruction) bool {
			c, ok := in.(ssa.CallInstruction)

			return ok && calleeFunction(c.Common()) == shared
		}

		var goInstr *ssa.Go

		nShared := 0

		allInstrs(goBC, func(in ssa.Instruction) {
			if g, ok := in.(*ssa.Go); ok {
				goInstr = g
			}

			if isShared(in) {
				nShared++
			}
		})

		key := "bytecode.goByteCode|Shared(true) before the go statement"

		switch {
		case goInstr == nil:
			r.Anchor("R-C08-2", "go statement in goByteCode")
		case nShared == 0:
			r.Violate("R-C08-2", key, w.pos(goInstr.Pos()), "the captured scope is never marked shared: the new goroutine and its parent use the same symbol table without locking")
		default:
			late := pathAvoiding(goInstr, nil, func(ssa.Instruction) bool { return false }, isShared)

			// every Shared call must be able to reach the go statement (it lies before it)
			before := true

			allInstrs(goBC, func(in ssa.Instruction) {
				if isShared(in) && pathAvoiding(in, nil, func(ssa.Instruction) bool { return false }, func(i ssa.Instruction) bool { return i == ssa.Instruction(goInstr) }) == nil {
					before = false
				}
			})

			if late != nil || !before {
				r.Violate("R-C08-2", key, w.pos(goInstr.Pos()), "the scope is marked shared after the goroutine has been started: both sides touch the table unlocked in between")
			} else {
				r.Discharge("R-C08-2", key, w.pos(goInstr.Pos()), "")
			}
		}

		key = "bytecode.GoRoutine|does not call Shared"
		calls := false

		allInstrs(goRt, func(in ssa.Instruction) {
			if isShared(in) {
				calls = true
			}
		})

		if calls {
			r.Violate("R-C08-2", key, w.pos(goRt.Pos()), "the new goroutine marks tables shared itself: by then the parent is already running against them unlocked")
		} else {
			r.Discharge("R-C08-2", key, w.pos(goRt.Pos()), "")
		}

		// the ancestor walk
		key = "symbols.SymbolTable.Shared|ancestor walk reaches the root"

		var walk *loopInfo

		for _, li := range naturalLoops(shared) {
			for b := range li.body {
				for _, in := range b.Instrs {
					if c, ok := in.(*ssa.Call); ok && callID(c.Common()) == "sync/atomic.Bool.Store" {
						if fa, ok := c.Call.Args[0].(*ssa.FieldAddr); ok && fieldName(fa.X.Type(), fa.Field) == "shared" {
							walk = li
						}
					}
				}
			}
		}

		if walk == nil {
			r.Violate("R-C08-2", key, w.pos(shared.Pos()), "Shared no longer marks the ancestors of the table: lookups walk the whole parent chain, so every table above a shared scope must lock too")
		} else {
			bad := ""

			for b := range walk.body {
				ifi, ok := b.Instrs[len(b.Instrs)-1].(*ssa.If)
				if !ok {
					continue
				}

				for si, sc := range b.Succs {
					if walk.body[sc] {
						continue
					}

					// an exit edge: allowed only when it establishes that the cursor is nil
					isNilExit := false

					for _, f := range edgeFacts(ifi.Cond, si == 0) {
						if f.Kind == "nil" {
							if _, isPtr := f.V.Type().Underlying().(*types.Pointer); isPtr {
								isNilExit = true
							}
						}
					}

					if !isNilExit {
						bad = w.pos(ifi.Cond.Pos())
					}
				}
			}

			if bad != "" {
				r.Violate("R-C08-2", key, bad, "the walk up the parent chain can stop before the root: a table above an already-shared one (NewChildProxy puts a shared package table above private ones) stays unlocked while two goroutines read through it")
			} else {
				r.Discharge("R-C08-2", key, w.pos(shared.Pos()), "the only exit is p == nil")
			}
		}
	}

	// ------------------------------------------------------------ R-C08-5
	// Package-level maps of the interpreter that are written after start-up.  The table was
	// discovered by listing every package-level map written outside init() in the interpreter
	// packages together with the locks held at each access, and confirmed by reading.
	r.Rule("R-C08-5", "package-level maps of package data written after start-up (BuiltinsDictionary, implements, packageTypes) are read and written only with their mutex held", 10)

	guardedMaps := map[string]string{"BuiltinsDictionary": "data.dictionaryMutex", "implements": "data.validationLock", "packageTypes": "data.packageTypesLock"}
	dataFns := w.srcFuncs(dp)
	dataEntry := entryLocksets(dataFns, nil)
	seenMap := map[string]bool{}

	for _, fn := range dataFns {
		if fn.Name() == "init" && fn.Parent() == nil {
			continue
		}

		ls := computeLocksets(fn, dataEntry[fn], nil)
		count := map[string]int{}

		allInstrs(fn, func(in ssa.Instruction) {
			var g *ssa.Global

			switch x := in.(type) {
			case *ssa.UnOp:
				g, _ = x.X.(*ssa.Global)
			case *ssa.Store:
				g, _ = x.Addr.(*ssa.Global)
			}

			if g == nil || g.Pkg == nil || g.Pkg.Pkg != dp.Types {
				return
			}

			lock, ok := guardedMaps[g.Name()]
			if !ok {
				return
			}

			seenMap[g.Name()] = true

			key := fnKey(fn) + "|" + g.Name() + " access"
			count[key]++

			if n := count[key]; n > 1 {
				key += "#" + sprintInt(n)
			}

			if ls.heldAt(in)[lock] != 0 {
				r.Discharge("R-C08-5", key, w.pos(in.Pos()), lock+" held")
			} else {
				r.Violate("R-C08-5", key, w.pos(in.Pos()), "data."+g.Name()+" is touched without "+lock+": a goroutine that imports a package (or defines a type) while another reaches this line hits a concurrent map read and map write, which is fatal")
			}
		})
	}

	for name := range guardedMaps {
		if !seenMap[name] {
			r.Anchor("R-C08-5", "data."+name)
		}
	}

	// ------------------------------------------------------------ R-C08-4
	// The interpreter shadows the state of every program mutex (to refuse an Unlock of an
	// unlocked mutex instead of dying in the Go runtime).  The shadow is consistent only if it
	// is written by the holder: after the native Unlock/RUnlock another goroutine owns the mutex.
	r.Rule("R-C08-4", "shadow lock state is written by the holder only: in callMutexMethod / callRWMutexMethod no write of the lock-state bookkeeping is reachable after the native Unlock / RUnlock of the same call", 3)

	r.Rule("R-C08-10", "the launching context's current symbol table is not read from the new goroutine: goByteCode hands the go target a scope it found itself (derived from its own c.symbols), and in the target every read of the parent context's symbols field lies behind 'no scope was handed over' (the nil edge of its symbol-table parameter)", 2)

	if fn := w.ssaFunc(bp, "goByteCode"); fn == nil {
		r.Anchor("R-C08-10", "bytecode.goByteCode")
	} else {
		var goInstr *ssa.Go

		allInstrs(fn, func(in ssa.Instruction) {
			if g, ok := in.(*ssa.Go); ok {
				goInstr = g
			}
		})

		isSymbolsLoad := func(v ssa.Value) bool {
			u, ok := v.(*ssa.UnOp)
			if !ok {
				return false
			}

			fa, ok := u.X.(*ssa.FieldAddr)

			return ok && fieldName(fa.X.Type(), fa.Field) == "symbols"
		}

		key := "bytecode.goByteCode|scope found at the go statement"

		switch {
		case goInstr == nil:
			r.Anchor("R-C08-10", "the go statement in bytecode.goByteCode")
		default:
			handed := -1

			for ai, a := range goInstr.Call.Args {
				if n := namedOf(a.Type()); n != nil && n.Obj().Name() == "SymbolTable" && derivesFrom(a, isSymbolsLoad, func(string) bool { return true }) {
					handed = ai
				}
			}

			target := goInstr.Call.StaticCallee()

			if handed < 0 || target == nil {
				r.Violate("R-C08-10", key, w.pos(goInstr.Pos()), "the new goroutine is not handed a scope found by the launching goroutine: it has to read the launching context's current symbol table itself, while that context goes on calling functions and opening scopes (a data race, and the scope found is whichever one the launcher is executing by then)")
			} else {
				r.Discharge("R-C08-10", key, w.pos(goInstr.Pos()), "scope derived from the launcher's own c.symbols and passed to "+fnKey(target))

				// in the target: reads of the parent's symbols only on the nil-scope path
				key2 := fnKey(target) + "|parent symbols read only without a handed-over scope"
				bad := ""

				if handed < len(target.Params) {
					scopeParam := target.Params[handed]
					cuts := cutEdges(target, func(f Fact) bool { return f.Kind == "nil" && f.V == ssa.Value(scopeParam) })

					allInstrs(target, func(in ssa.Instruction) {
						u, ok := in.(*ssa.UnOp)
						if !ok || !isSymbolsLoad(u) {
							return
						}

						fa := u.X.(*ssa.FieldAddr)
						if _, isParam := fa.X.(*ssa.Parameter); !isParam {
							return
						}

						if len(cuts) == 0 || instrReachableAfterCut(target, in, cuts) {
							bad = w.pos(in.Pos())
						}
					})
				}

				if bad != "" {
					r.Violate("R-C08-10", key2, bad, "the new goroutine reads the launching context's symbols field although a scope was handed over")
				} else {
					r.Discharge("R-C08-10", key2, w.pos(target.Pos()), "")
				}
			}
		}
	}

	r.Rule("R-C08-9", "a go statement hands the goroutine its own copy of struct arguments: in goByteCode every value stored into the argument list given to GoRoutine is the result of copyStructForValueSemantics (a struct is a value; bound later, inside the goroutine, it would be copied only after the caller went on to change it)", 1)

	if fn := w.ssaFunc(bp, "goByteCode"); fn == nil {
		r.Anchor("R-C08-9", "bytecode.goByteCode")
	} else {
		nArgs := 0

		allInstrs(fn, func(in ssa.Instruction) {
			st, ok := in.(*ssa.Store)
			if !ok {
				return
			}

			ia, ok := st.Addr.(*ssa.IndexAddr)
			if !ok {
				return
			}

			if _, isMake := ia.X.(*ssa.MakeSlice); !isMake {
				return
			}

			nArgs++

			key := "bytecode.goByteCode|argument copied at the go statement"
			if nArgs > 1 {
				key += "#" + sprintInt(nArgs)
			}

			if c, isCall := st.Val.(*ssa.Call); isCall && callID(c.Common()) == "internal/language/bytecode.copyStructForValueSemantics" {
				r.Discharge("R-C08-9", key, w.pos(st.Pos()), "through copyStructForValueSemantics")
			} else {
				r.Violate("R-C08-9", key, w.pos(st.Pos()), "the argument popped for a go statement is handed to the goroutine as it is: a struct argument is still the caller's struct until the goroutine binds its parameters, so `p := P{n: 1}; go worker(p); p.n = 2` gives the worker n == 2 where Go gives 1 (and the copy then races with the caller's write)")
			}
		})

		if nArgs == 0 {
			r.Anchor("R-C08-9", "the store into the argument list in bytecode.goByteCode")
		}
	}

	r.Rule("R-C08-8", "the shadow record of a program's mutex is created atomically: in package bytecode no sync.Map.Store puts a freshly allocated record into a lock-state map (LoadOrStore is the only creator), so two goroutines making their first call on one mutex cannot end up with different records", 1)

	{
		nCreate := 0

		for _, fn := range w.srcFuncs(bp) {
			allInstrs(fn, func(in ssa.Instruction) {
				c, ok := in.(*ssa.Call)
				if !ok || len(c.Call.Args) < 3 {
					return
				}

				id := callID(c.Common())
				if id != "sync.Map.Store" && id != "sync.Map.LoadOrStore" && id != "sync.Map.Swap" {
					return
				}

				g, isG := c.Call.Args[0].(*ssa.Global)
				if !isG || !strings.HasSuffix(g.Name(), "LockState") {
					return
				}

				if _, fresh := stripValue(c.Call.Args[2]).(*ssa.Alloc); !fresh {
					return // a plain value (the Mutex wrapper's bool), written by the holder
				}

				nCreate++

				key := fnKey(fn) + "|lock-state record created"
				if nCreate > 1 {
					key += "#" + sprintInt(nCreate)
				}

				if id == "sync.Map.LoadOrStore" {
					r.Discharge("R-C08-8", key, w.pos(in.Pos()), "LoadOrStore")
				} else {
					r.Violate("R-C08-8", key, w.pos(in.Pos()), "a new lock-state record is put into the map with "+strings.TrimPrefix(id, "sync.Map.")+": two goroutines making their first call on the same mutex at the same moment each install their own record, the later one wins, and the other goroutine's lock is recorded where nobody looks — its Unlock is refused and every other goroutine waits for ever")
				}
			})
		}

		if nCreate == 0 {
			r.Anchor("R-C08-8", "the creation of a lock-state record in package bytecode")
		}
	}

	r.Rule("R-C08-7", "atomic test-and-clear: each native Unlock / RUnlock of a program's mutex in callMutexMethod / callRWMutexMethod is reachable only through the success edge of a CompareAndSwap on the shadow lock state, so two goroutines releasing a mutex that is held once cannot both reach the native release (a fatal runtime error)", 3)

	for _, name := range []string{"callMutexMethod", "callRWMutexMethod"} {
		fn := w.ssaFunc(bp, name)
		if fn == nil {
			r.Anchor("R-C08-4", "bytecode."+name)

			continue
		}

		isShadowWrite := func(in ssa.Instruction) bool {
			c, ok := in.(*ssa.Call)
			if !ok || len(c.Call.Args) == 0 {
				return false
			}

			id := callID(c.Common())

			switch {
			case strings.HasPrefix(id, "sync.Map."):
				switch strings.TrimPrefix(id, "sync.Map.") {
				case "Store", "Delete", "Swap", "CompareAndSwap", "LoadOrStore", "LoadAndDelete":
					g, ok := c.Call.Args[0].(*ssa.Global)

					return ok && strings.HasSuffix(g.Name(), "LockState")
				}
			case strings.HasPrefix(id, "sync/atomic."):
				if !(strings.HasSuffix(id, ".Store") || strings.HasSuffix(id, ".Add") || strings.HasSuffix(id, ".Swap") || strings.HasSuffix(id, ".CompareAndSwap")) {
					return false
				}

				fa, ok := c.Call.Args[0].(*ssa.FieldAddr)
				if !ok {
					return false
				}

				n := namedOf(fa.X.Type())

				return n != nil && strings.HasSuffix(n.Obj().Name(), "MutexState")
			}

			return false
		}

		n := 0

		allInstrs(fn, func(in ssa.Instruction) {
			c, ok := in.(*ssa.Call)
			if !ok {
				return
			}

			op, ok := mutexOp(c.Common())
			if !ok || (op.kind != "Unlock" && op.kind != "RUnlock") || strings.Contains(op.id, ".") {
				return // only the program's own mutex (held in a local)
			}

			n++

			key := "bytecode." + name + "|no bookkeeping after " + op.kind
			if n > 1 {
				key += "#" + sprintInt(n)
			}

			casCuts := cutEdges(fn, func(f Fact) bool {
				if f.Kind != "true" {
					return false
				}

				cv, ok := f.V.(*ssa.Call)

				return ok && strings.HasSuffix(callID(cv.Common()), ".CompareAndSwap") && isShadowWrite(cv)
			})

			key7 := "bytecode." + name + "|" + op.kind + " behind CompareAndSwap"
			if n > 1 {
				key7 += "#" + sprintInt(n)
			}

			if len(casCuts) == 0 || instrReachableAfterCut(fn, in, casCuts) {
				r.Violate("R-C08-7", key7, w.pos(in.Pos()), "the native "+op.kind+" is reached on a path where the recorded lock state was tested and updated in separate steps (or not at all): two goroutines of a program releasing a mutex that is held once can both pass the test, and the second native release ends the process (fatal error: sync: unlock of unlocked mutex)")
			} else {
				r.Discharge("R-C08-7", key7, w.pos(in.Pos()), "reachable only after a successful CompareAndSwap of the shadow state")
			}

			if late := pathAvoiding(in, nil, func(ssa.Instruction) bool { return false }, isShadowWrite); late != nil {
				r.Violate("R-C08-4", key, w.pos(in.Pos()), "the lock-state bookkeeping is written at "+w.pos(late.Pos())+" after the mutex has been released: a waiter that takes the mutex in between has its 'locked' mark overwritten, its own Unlock is then refused, and every other goroutine waits for ever")
			} else {
				r.Discharge("R-C08-4", key, w.pos(in.Pos()), "bookkeeping precedes the release")
			}
		})

		if n == 0 {
			r.Anchor("R-C08-4", "native Unlock in bytecode."+name)
		}
	}

	// ------------------------------------------------------------ R-C08-3
	var chanFns []*ssa.Function

	for _, fn := range w.srcFuncs(dp) {
		if fn.Signature.Recv() != nil {
			if n := namedOf(fn.Signature.Recv().Type()); n != nil && n.Obj().Name() == "Channel" {
				chanFns = append(chanFns, fn)
			}
		} else if p := fn.Parent(); p != nil && p.Signature.Recv() != nil {
			if n := namedOf(p.Signature.Recv().Type()); n != nil && n.Obj().Name() == "Channel" {
				chanFns = append(chanFns, fn)
			}
		}
	}

	entry := entryLocksets(chanFns, nil)
	nOpen := 0

	for _, fn := range chanFns {
		ls := computeLocksets(fn, entry[fn], nil)
		count := map[string]int{}

		allInstrs(fn, func(in ssa.Instruction) {
			fa, ok := in.(*ssa.FieldAddr)
			if !ok || fieldName(fa.X.Type(), fa.Field) != "isOpen" {
				return
			}

			if n := namedOf(fa.X.Type()); n == nil || n.Obj().Name() != "Channel" {
				return
			}

			for _, ref := range *fa.Referrers() {
				write := false

				switch x := ref.(type) {
				case *ssa.Store:
					write = x.Addr == ssa.Value(fa)
				case *ssa.UnOp:
				default:
					continue
				}

				nOpen++

				what := "read"
				if write {
					what = "write"
				}

				key := fnKey(fn) + "|isOpen " + what
				count[key]++

				if n := count[key]; n > 1 {
					key += "#" + sprintInt(n)
				}

				held := byte(0)

				for id, mode := range ls.heldAt(ref) {
					if strings.HasSuffix(id, ".mutex") {
						held = mode
					}
				}

				_, fresh := fa.X.(*ssa.Alloc)

				switch {
				case fresh:
					r.Discharge("R-C08-3", key, w.pos(ref.Pos()), "channel under construction")
				case held == 'W' || (held == 'R' && !write):
					r.Discharge("R-C08-3", key, w.pos(ref.Pos()), "c.mutex held")
				default:
					r.Violate("R-C08-3", key, w.pos(ref.Pos()), "the channel's open flag is touched without its mutex: a close racing with a send decides on a stale flag and sends on a closed channel (a panic)")
				}
			}
		})
	}

	if nOpen == 0 {
		r.Anchor("R-C08-3", "data.Channel.isOpen")
	}
}

// ---------------------------------------------------------------------------
// R-C08-1: protection dataflow

type protState map[ssa.Value]byte // table value -> 'R' | 'W'

func (p protState) clone() protState {
	o := protState{}
	for k, v := range p {
		o[k] = v
	}

	return o
}

func meetProt(a, b protState) protState {
	o := protState{}

	for k, va := range a {
		if vb, ok := b[k]; ok {
			if va == 'R' || vb == 'R' {
				o[k] = 'R'
			} else {
				o[k] = 'W'
			}
		}
	}

	return o
}

func sameProt(a, b protState) bool {
	if len(a) != len(b) {
		return false
	}

	for k, v := range a {
		if b[k] != v {
			return false
		}
	}

	return true
}

func c08Guarded(w *World, r *Report, sp interface{ String() string }) {
	pkg := w.pkg("internal/language/symbols")
	fns := w.srcFuncs(pkg)
	r.Unit("functions_symbols", len(fns))

	isTablePtr := func(t types.Type) bool {
		p, ok := t.Underlying().(*types.Pointer)
		if !ok {
			return false
		}

		n := namedOf(p.Elem())

		return n != nil && n.Obj().Name() == "SymbolTable" && n.Obj().Pkg() == pkg.Types
	}

	guardedField := map[string]bool{"symbols": true, "values": true, "size": true}

	lockMethod := func(c *ssa.CallCommon) string {
		id := callID(c)
		if !strings.HasPrefix(id, "internal/language/symbols.SymbolTable.") {
			return ""
		}

		switch m := strings.TrimPrefix(id, "internal/language/symbols.SymbolTable."); m {
		case "Lock", "RLock", "Unlock", "RUnlock":
			return m
		}

		return ""
	}

	// canonical table value: through x := s.RLock() and local copies
	var canon func(v ssa.Value) ssa.Value

	canon = func(v ssa.Value) ssa.Value {
		for i := 0; i < 8; i++ {
			v = resolveLocal(v)

			c, ok := v.(*ssa.Call)
			if !ok {
				return v
			}

			switch lockMethod(c.Common()) {
			case "Lock", "RLock", "Unlock", "RUnlock":
				v = c.Call.Args[0]

				continue
			}

			return v
		}

		return v
	}

	freshTable := func(v ssa.Value) bool {
		switch x := v.(type) {
		case *ssa.Alloc:
			return true
		case *ssa.Call:
			id := callID(x.Common())

			return strings.HasPrefix(id, "internal/language/symbols.New")
		}

		return false
	}

	// the direct mutex of a table: t.mutex.Lock()
	rawMutexOp := func(in ssa.Instruction) (ssa.Value, string) {
		ci, ok := in.(*ssa.Call)
		if !ok {
			return nil, ""
		}

		op, ok := mutexOp(ci.Common())
		if !ok {
			return nil, ""
		}

		// receiver: load of FieldAddr(t, mutex)
		var base ssa.Value

		derivesFrom(ci.Call.Args[0], func(s ssa.Value) bool {
			if fa, ok := s.(*ssa.FieldAddr); ok && fieldName(fa.X.Type(), fa.Field) == "mutex" && isTablePtr(fa.X.Type()) {
				base = fa.X

				return true
			}

			return false
		}, nil)

		if base == nil {
			return nil, ""
		}

		return canon(base), op.kind
	}

	transfer := func(s protState, in ssa.Instruction) {
		if _, isDefer := in.(*ssa.Defer); isDefer {
			return
		}

		if base, kind := rawMutexOp(in); base != nil {
			switch kind {
			case "Lock":
				s[base] = 'W'
			case "RLock":
				if s[base] != 'W' {
					s[base] = 'R'
				}
			default:
				delete(s, base)
			}

			return
		}

		c, ok := in.(*ssa.Call)
		if !ok {
			return
		}

		switch lockMethod(c.Common()) {
		case "Lock":
			s[canon(c.Call.Args[0])] = 'W'
		case "RLock":
			b := canon(c.Call.Args[0])
			if s[b] != 'W' {
				s[b] = 'R'
			}
		case "Unlock", "RUnlock":
			delete(s, canon(c.Call.Args[0]))
		}
	}

	// the false edge of t.shared.Load() protects t (nobody else can see an unshared table)
	edgeProtect := func(b *ssa.BasicBlock, succ int) ssa.Value {
		ifi, ok := b.Instrs[len(b.Instrs)-1].(*ssa.If)
		if !ok {
			return nil
		}

		for _, f := range edgeFacts(ifi.Cond, succ == 0) {
			if f.Kind != "false" {
				continue
			}

			c, ok := f.V.(*ssa.Call)
			if !ok || callID(c.Common()) != "sync/atomic.Bool.Load" {
				continue
			}

			if fa, ok := c.Call.Args[0].(*ssa.FieldAddr); ok && fieldName(fa.X.Type(), fa.Field) == "shared" && isTablePtr(fa.X.Type()) {
				return canon(fa.X)
			}
		}

		return nil
	}

	type analysis struct {
		in map[*ssa.BasicBlock]protState
	}

	analyse := func(fn *ssa.Function, entry protState) *analysis {
		a := &analysis{in: map[*ssa.BasicBlock]protState{}}
		if len(fn.Blocks) == 0 {
			return a
		}

		if entry == nil {
			entry = protState{}
		}

		a.in[fn.Blocks[0]] = entry.clone()
		work := []*ssa.BasicBlock{fn.Blocks[0]}

		for len(work) > 0 {
			b := work[0]
			work = work[1:]

			s := a.in[b].clone()
			for _, in := range b.Instrs {
				transfer(s, in)
			}

			for si, succ := range b.Succs {
				out := s.clone()
				if t := edgeProtect(b, si); t != nil {
					out[t] = 'W'
				}

				old, seen := a.in[succ]

				var nw protState
				if !seen {
					nw = out
				} else {
					nw = meetProt(old, out)
				}

				if !seen || !sameProt(old, nw) {
					a.in[succ] = nw
					work = append(work, succ)
				}
			}
		}

		return a
	}

	stateAt := func(a *analysis, in ssa.Instruction) protState {
		s, ok := a.in[in.Block()]
		if !ok {
			return protState{}
		}

		s = s.clone()

		for _, i := range in.Block().Instrs {
			if i == in {
				break
			}

			transfer(s, i)
		}

		return s
	}

	// entry protection of unexported functions: meet over in-package call sites of "receiver/argument i is protected"
	inPkg := map[*ssa.Function]bool{}
	for _, fn := range fns {
		inPkg[fn] = true
	}

	entry := map[*ssa.Function]protState{}

	exportedFn := func(fn *ssa.Function) bool {
		if fn.Parent() != nil {
			return false
		}

		return fn.Object() != nil && fn.Object().Exported()
	}

	// functions nothing in the repository calls (outside tests) are neither judged nor counted as callers
	cg := buildCallGraph(w)
	called := map[*ssa.Function]bool{}

	for from, edges := range cg.callees {
		for _, e := range edges {
			if e.callee != from {
				called[e.callee] = true
			}
		}
	}

	dead := map[*ssa.Function]bool{}

	for _, fn := range fns {
		root := fn
		for root.Parent() != nil {
			root = root.Parent()
		}

		if !called[root] && root.Name() != "init" {
			dead[fn] = true
		}
	}

	unprotectedCallers := map[*ssa.Function][]string{}

	for iter := 0; iter < 5; iter++ {
		type site struct{ modes []byte }

		unprotectedCallers = map[*ssa.Function][]string{}

		sites := map[*ssa.Function][]site{}

		for _, fn := range fns {
			if dead[fn] {
				continue
			}

			a := analyse(fn, entry[fn])

			allInstrs(fn, func(in ssa.Instruction) {
				c, ok := in.(*ssa.Call)
				if !ok {
					return
				}

				cf := calleeFunction(c.Common())
				if cf == nil || !inPkg[cf] || exportedFn(cf) || lockMethod(c.Common()) != "" {
					return
				}

				st := stateAt(a, in)
				modes := make([]byte, len(cf.Params))

				for i, arg := range c.Call.Args {
					if i >= len(cf.Params) || !isTablePtr(arg.Type()) {
						continue
					}

					b := canon(arg)
					modes[i] = st[b]

					if modes[i] == 0 && freshTable(b) {
						modes[i] = 'W'
					}
				}

				sites[cf] = append(sites[cf], site{modes})

				for i, arg := range c.Call.Args {
					if i < len(cf.Params) && isTablePtr(arg.Type()) && modes[i] == 0 {
						unprotectedCallers[cf] = append(unprotectedCallers[cf], fnKey(fn)+" ("+w.pos(in.Pos())+")")
					}
				}
			})
		}

		next := map[*ssa.Function]protState{}

		for cf, ss := range sites {
			ps := protState{}

			for i, p := range cf.Params {
				if !isTablePtr(p.Type()) {
					continue
				}

				mode := byte('W')

				for _, s := range ss {
					switch s.modes[i] {
					case 0:
						mode = 0
					case 'R':
						if mode == 'W' {
							mode = 'R'
						}
					}

					if mode == 0 {
						break
					}
				}

				if mode != 0 {
					ps[p] = mode
				}
			}

			if len(ps) > 0 {
				next[cf] = ps
			}
		}

		same := len(next) == len(entry)

		for f, ps := range next {
			if !sameProt(ps, entry[f]) {
				same = false
			}
		}

		entry = next

		if same {
			break
		}
	}

	// ---- judge the accesses
	for _, fn := range fns {
		if fn.Name() == "init" && fn.Parent() == nil {
			continue
		}

		if dead[fn] {
			r.Info("R-C08-1", fnKey(fn)+"|no caller", w.pos(fn.Pos()), "no non-test caller anywhere in the repository: not judged (it is judged as soon as something calls it)")

			continue
		}

		a := analyse(fn, entry[fn])
		count := map[string]int{}

		judge := func(in ssa.Instruction, base ssa.Value, field string, write bool) {
			what := "read"
			if write {
				what = "write"
			}

			key := fnKey(fn) + "|" + field + " " + what
			count[key]++

			if n := count[key]; n > 1 {
				key += "#" + sprintInt(n)
			}

			b := canon(base)
			mode := stateAt(a, in)[b]

			switch {
			case mode == 'W' || (mode == 'R' && !write):
				how := "table protected here"
				if entry[fn][b] != 0 {
					how = "helper: every in-package caller has the table protected"
				}

				r.Discharge("R-C08-1", key, w.pos(in.Pos()), how)
			case freshTable(b):
				r.Discharge("R-C08-1", key, w.pos(in.Pos()), "table created in this function")
			default:
				if why, ok := c08Unprotected[key]; ok {
					r.Except("R-C08-1", key, w.pos(in.Pos()), why)

					return
				}

				msg := "SymbolTable." + field + " is " + what + " on a table that is neither locked"
				if mode == 'R' {
					msg = "SymbolTable." + field + " is written under the read lock only"
				} else {
					msg += " nor known to be unshared here"
				}

				if uc := unprotectedCallers[fn]; len(uc) > 0 {
					msg += " (helper called without protection from " + strings.Join(uc, ", ") + ")"
				}

				r.Violate("R-C08-1", key, w.pos(in.Pos()), msg+": when the table is shared between goroutines this is an unsynchronised access (concurrent map read and map write is fatal)")
			}
		}

		allInstrs(fn, func(in ssa.Instruction) {
			fa, ok := in.(*ssa.FieldAddr)
			if !ok || !isTablePtr(fa.X.Type()) {
				return
			}

			field := fieldName(fa.X.Type(), fa.Field)
			if !guardedField[field] {
				return
			}

			for _, ref := range *fa.Referrers() {
				switch x := ref.(type) {
				case *ssa.Store:
					if x.Addr == ssa.Value(fa) {
						judge(x, fa.X, field, true)
					}
				case *ssa.UnOp:
					if x.Op != token.MUL {
						continue
					}

					// a load of the map / slice header: classify by what is done with it
					write := false

					for _, r2 := range *x.Referrers() {
						switch y := r2.(type) {
						case *ssa.MapUpdate:
							if y.Map == ssa.Value(x) {
								write = true
							}
						case *ssa.Call:
							if b, isB := y.Call.Value.(*ssa.Builtin); isB && (b.Name() == "delete" || b.Name() == "clear") {
								write = true
							}
						case *ssa.IndexAddr:
							for _, r3 := range *y.Referrers() {
								if st, ok := r3.(*ssa.Store); ok && st.Addr == ssa.Value(y) {
									write = true
								}
							}
						}
					}

					judge(x, fa.X, field, write)
				}
			}
		})
	}
}

// ---------------------------------------------------------------------------
// R-C08-6: a method of SymbolTable that holds the table's lock does not call,
// on the same table, a method that takes that lock again. sync.RWMutex is not
// re-entrant: a second RLock behind a waiting writer never returns, and a
// second Lock never does.

func c08NoNestedAcquire(w *World, r *Report) {
	r.Rule("R-C08-6", "no nested acquisition: while a method of symbols.SymbolTable holds the table's lock (between its RLock/Lock and the matching release, to the end of the function when the release is deferred) it calls on that same table no method that acquires the lock", 8)
	noNestedAcquire(w, r, "R-C08-6", "internal/language/symbols", "SymbolTable")
}

// noNestedAcquire is the rule for one type that carries its own mutex.
func noNestedAcquire(w *World, r *Report, ruleID, pkgRel, typeName string) {
	sp := w.pkg(pkgRel)
	if sp == nil {
		r.Anchor(ruleID, "package "+pkgRel)

		return
	}

	isTable := func(t types.Type) bool {
		n := namedOf(t)

		return n != nil && n.Obj().Name() == typeName && n.Obj().Pkg() == sp.Types
	}

	fns := w.srcFuncs(sp)

	acquireCall := func(in ssa.Instruction) (recv ssa.Value, ok bool) {
		c, isCall := in.(*ssa.Call)
		if !isCall {
			return nil, false
		}

		switch callID(c.Common()) {
		case pkgRel + "." + typeName + ".RLock", pkgRel + "." + typeName + ".Lock":
			return c.Call.Args[0], true
		case "sync.RWMutex.RLock", "sync.RWMutex.Lock", "sync.Mutex.Lock":
			// s.mutex.Lock(): the receiver is &s.mutex
			if fa, isFA := c.Call.Args[0].(*ssa.FieldAddr); isFA && isTable(fa.X.Type()) {
				return fa.X, true
			}
		}

		return nil, false
	}

	releaseCall := func(in ssa.Instruction) (recv ssa.Value, ok bool) {
		c, isCall := in.(*ssa.Call) // a deferred release is not an *ssa.Call: the lock stays held
		if !isCall {
			return nil, false
		}

		switch callID(c.Common()) {
		case pkgRel + "." + typeName + ".RUnlock", pkgRel + "." + typeName + ".Unlock":
			return c.Call.Args[0], true
		case "sync.RWMutex.RUnlock", "sync.RWMutex.Unlock", "sync.Mutex.Unlock":
			if fa, isFA := c.Call.Args[0].(*ssa.FieldAddr); isFA && isTable(fa.X.Type()) {
				return fa.X, true
			}
		}

		return nil, false
	}

	// alias: the value RLock()/Lock() returns is its receiver
	root := func(v ssa.Value) ssa.Value {
		for i := 0; i < 6; i++ {
			v = resolveLocal(stripValue(v))

			c, ok := v.(*ssa.Call)
			if !ok {
				return v
			}

			switch callID(c.Common()) {
			case pkgRel + "." + typeName + ".RLock", pkgRel + "." + typeName + ".Lock":
				v = c.Call.Args[0]
			default:
				return v
			}
		}

		return v
	}

	// methods that acquire the lock of their own receiver (directly or through another such method)
	acquires := map[*ssa.Function]bool{}

	for changed := true; changed; {
		changed = false

		for _, fn := range fns {
			if acquires[fn] || fn.Signature.Recv() == nil || len(fn.Params) == 0 || !isTable(fn.Params[0].Type()) {
				continue
			}

			// the lock wrappers themselves are the acquisition, not a nesting
			switch fn.Name() {
			case "RLock", "Lock", "RUnlock", "Unlock":
				continue
			}

			self := ssa.Value(fn.Params[0])

			allInstrs(fn, func(in ssa.Instruction) {
				if recv, ok := acquireCall(in); ok && root(recv) == self {
					acquires[fn] = true
				}

				if c, ok := in.(*ssa.Call); ok {
					if cf := calleeFunction(c.Common()); cf != nil && acquires[cf] && len(c.Call.Args) > 0 && root(c.Call.Args[0]) == self {
						acquires[fn] = true
					}
				}
			})

			if acquires[fn] {
				changed = true
			}
		}
	}

	for _, fn := range fns {
		if fn.Signature.Recv() != nil && len(fn.Params) > 0 && isTable(fn.Params[0].Type()) {
			switch fn.Name() {
			case "RLock", "Lock", "RUnlock", "Unlock":
				continue
			}
		}

		var acqs []ssa.Instruction

		allInstrs(fn, func(in ssa.Instruction) {
			if _, ok := acquireCall(in); ok {
				acqs = append(acqs, in)
			}
		})

		if len(acqs) == 0 {
			continue
		}

		n := 0

		allInstrs(fn, func(in ssa.Instruction) {
			c, ok := in.(*ssa.Call)
			if !ok || len(c.Call.Args) == 0 {
				return
			}

			cf := calleeFunction(c.Common())
			if cf == nil || !acquires[cf] {
				return
			}

			n++

			key := fnKey(fn) + "|calls " + cf.Name() + " on a table"
			if n > 1 {
				key += "#" + sprintInt(n)
			}

			target := root(c.Call.Args[0])
			held := ""

			for _, a := range acqs {
				recv, _ := acquireCall(a)
				if root(recv) != target {
					continue
				}

				reached := pathAvoiding(a, nil, func(i ssa.Instruction) bool {
					rr, isRel := releaseCall(i)

					return isRel && root(rr) == target
				}, func(i ssa.Instruction) bool { return i == in })

				if reached != nil {
					held = w.pos(a.Pos())
				}
			}

			if held != "" {
				r.Violate(ruleID, key, w.pos(in.Pos()), cf.Name()+" takes the lock of the value it is called on, and this call is made on a value whose lock this function acquired at "+held+" and still holds: a second RLock behind a waiting writer (or a second Lock) never returns, and every goroutine that needs the table queues behind it")
			} else {
				r.Discharge(ruleID, key, w.pos(in.Pos()), "called on another table, or after the lock was released")
			}
		})
	}
}
