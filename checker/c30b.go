package main

import (
	"go/token"
	"strings"

	"golang.org/x/tools/go/ssa"
)

// packedElems returns the values stored into the array behind a slice that
// was built for a variadic call (`append(a, x, y)` packs x, y into a fresh
// [2]T and slices it).
func packedElems(v ssa.Value) []ssa.Value {
	sl, ok := stripValue(v).(*ssa.Slice)
	if !ok {
		return nil
	}

	al, ok := sl.X.(*ssa.Alloc)
	if !ok || al.Referrers() == nil {
		return nil
	}

	var out []ssa.Value

	for _, ref := range *al.Referrers() {
		ia, ok := ref.(*ssa.IndexAddr)
		if !ok || ia.Referrers() == nil {
			continue
		}

		for _, rr := range *ia.Referrers() {
			if st, ok := rr.(*ssa.Store); ok && st.Addr == ssa.Value(ia) {
				out = append(out, st.Val)
			}
		}
	}

	return out
}

// c30PlaceholderBinding: R-C30-5. A filter contributes two things to a
// statement: the text `"col" = $n` and the value bound as parameter n. They
// stay together only when n is the position the filter's own value has just
// taken in the bind list. Text numbered from a different sequence (a second
// loop, a reordered copy of the filters) binds one filter's value to another
// filter's column.
func c30PlaceholderBinding(w *World, r *Report) {
	r.Rule("R-C30-5", "a filter's placeholder is the position of its own bind value: at every Filter.Generate(n) call in internal/resources, n is len() of the bind list just extended by append(list, F.Value) for the same filter F the text is generated from", 3)

	rp := w.pkg("internal/resources")
	if rp == nil {
		return
	}

	for _, fn := range w.srcFuncs(rp) {
		allInstrs(fn, func(in ssa.Instruction) {
			c, ok := in.(*ssa.Call)
			if !ok || !strings.HasSuffix(callID(c.Common()), "resources.Filter.Generate") {
				return
			}

			args := callArgs(c.Common())
			if len(args) < 2 {
				return
			}

			filter, n := args[0], stripValue(args[1])
			key := fnKey(fn) + "|placeholder numbered by the filter's own bind value"

			fail := func(why string) {
				r.Violate("R-C30-5", key, w.pos(in.Pos()), why+": the comparison text and the bound value can come from different filters, so `Read(Equals(\"name\",\"bob\"), GreaterThan(\"age\",30))` may bind 30 to \"name\"")
			}

			lc, ok := n.(*ssa.Call)
			if b, isB := lcBuiltin(lc, ok); !isB || b != "len" {
				fail("the placeholder number is not the length of the bind list")

				return
			}

			ap, ok := stripValue(lc.Call.Args[0]).(*ssa.Call)
			if b, isB := lcBuiltin(ap, ok); !isB || b != "append" || len(ap.Call.Args) < 2 {
				fail("the placeholder number is the length of a list this filter's value was not just appended to")

				return
			}

			own := false

			for _, e := range packedElems(ap.Call.Args[1]) {
				ld, ok := stripValue(e).(*ssa.UnOp)
				if !ok || ld.Op != token.MUL {
					continue
				}

				if fa, ok := ld.X.(*ssa.FieldAddr); ok && fieldName(fa.X.Type(), fa.Field) == "Value" && fa.X == filter {
					own = true
				}
			}

			if !own {
				fail("the value appended to the bind list is not the Value of the filter the text is generated from")

				return
			}

			r.Discharge("R-C30-5", key, w.pos(in.Pos()), "n = len(append(list, F.Value)) for the same F")
		})
	}
}

func lcBuiltin(c *ssa.Call, ok bool) (string, bool) {
	if !ok || c == nil {
		return "", false
	}

	b, isB := c.Call.Value.(*ssa.Builtin)
	if !isB {
		return "", false
	}

	return b.Name(), true
}
