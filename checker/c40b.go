package main

import (
	"go/token"
	"go/types"
	"strings"

	"golang.org/x/tools/go/ssa"
)

// R-C40-9: a sync.Mutex / sync.RWMutex is released only by code that holds it.
//
// Releasing a mutex nobody holds is not a panic the last-resort recovery can
// turn into a 500: the Go runtime ends the process ("fatal error: sync: unlock
// of unlocked mutex"), and every request in flight goes unanswered.
//
// For every Unlock / RUnlock (direct or deferred) in the server-side packages
// the must-hold lockset of the enclosing function has to contain the mutex.
// Where it does not (the release and the acquisition live in different
// functions) one of three ownership arguments has to apply, each checked:
//
//   closure      the release is in a function literal that the parent defers at
//                a point where the parent holds the mutex;
//   flag         the release is in a deferred function literal, behind the true
//                edge of a captured bool that the parent sets to true only
//                immediately before Lock and to false only immediately before
//                its own Unlock (and nobody else writes);
//   token        the release is behind the true edge of a bool parameter, and
//                every caller passes the constant false or the result of an
//                acquire function on the same receiver that returns a
//                non-false value only with the mutex held.
//
// Anything else -- in particular a release decided by shared state such as a
// use counter, which another goroutine can reset -- is a violation.

func c40MutexReleases(w *World, r *Report) {
	r.Rule("R-C40-9", "a mutex is released only by code that holds it: every Unlock/RUnlock in the server-side packages is covered by the function's must-hold lockset, or by a checked ownership argument (deferred closure under the parent's lock; captured flag set only next to Lock/Unlock; bool parameter fed by the paired acquire function). Unlocking an unheld mutex is a fatal runtime error that no recovery can catch", 80)

	var all []*ssa.Function

	for _, p := range w.pkgs {
		for _, f := range w.srcFuncs(p) {
			if c40InScope(f) {
				all = append(all, f)
			}
		}
	}

	counts := map[string]int{}

	for _, f := range all {
		var ls *locksets

		allInstrs(f, func(in ssa.Instruction) {
			var cc *ssa.CallCommon

			switch x := in.(type) {
			case *ssa.Call:
				cc = x.Common()
			case *ssa.Defer:
				cc = x.Common()
			default:
				return
			}

			op, ok := mutexOp(cc)
			if !ok || (op.kind != "Unlock" && op.kind != "RUnlock") {
				return
			}

			if ls == nil {
				ls = computeLocksets(f, nil, nil)
			}

			key := fnKey(f) + "|" + op.kind + " " + op.id
			counts[key]++

			if n := counts[key]; n > 1 {
				key += " #" + sprintInt(n)
			}

			if _, held := ls.heldAt(in)[op.id]; held {
				r.Discharge("R-C40-9", key, w.pos(in.Pos()), "held on every path to this release")

				return
			}

			if why, ok := c40ReleaseOwned(w, f, in, op, all); ok {
				r.Discharge("R-C40-9", key, w.pos(in.Pos()), why)
			} else {
				r.Violate("R-C40-9", key, w.pos(in.Pos()), "this function releases "+op.id+" on a path where it does not hold it, and "+why+": if no one holds the mutex at that moment the Go runtime ends the server process (fatal error: sync: unlock of unlocked mutex), and otherwise another request's critical section is opened")
			}
		})
	}
}

// c40ReleaseOwned looks for one of the ownership arguments.
func c40ReleaseOwned(w *World, f *ssa.Function, rel ssa.Instruction, op lockOp, all []*ssa.Function) (string, bool) {
	// ---- closure under the parent's lock
	if p := f.Parent(); p != nil {
		pls := computeLocksets(p, nil, nil)
		deferred, heldAll, otherUses := 0, true, 0

		var closure *ssa.MakeClosure

		isF := func(v ssa.Value) bool {
			if v == ssa.Value(f) {
				return true
			}

			mc, ok := v.(*ssa.MakeClosure)

			return ok && mc.Fn == ssa.Value(f)
		}

		scan := []*ssa.Function{p}
		scan = append(scan, p.AnonFuncs...)

		for _, g := range scan {
			allInstrs(g, func(in ssa.Instruction) {
				if mc, ok := in.(*ssa.MakeClosure); ok && mc.Fn == ssa.Value(f) {
					closure = mc

					return
				}

				if d, ok := in.(*ssa.Defer); ok && g == p && isF(d.Call.Value) {
					deferred++

					if _, held := pls.heldAt(d)[op.id]; !held {
						heldAll = false
					}

					return
				}

				for _, o := range in.Operands(nil) {
					if o != nil && *o != nil && isF(*o) {
						otherUses++
					}
				}
			})
		}

		// does the parent release the mutex itself?
		parentReleases := false

		allInstrs(p, func(in ssa.Instruction) {
			if c, ok := in.(*ssa.Call); ok {
				if o, isM := mutexOp(c.Common()); isM && o.id == op.id && (o.kind == "Unlock" || o.kind == "RUnlock") {
					parentReleases = true
				}
			}
		})

		onlyDeferred := deferred > 0 && otherUses == 0

		if onlyDeferred && heldAll && !parentReleases {
			return "function literal deferred by " + fnKey(p) + " while it holds " + op.id + " (which it never releases itself)", true
		}

		// ---- captured flag
		if onlyDeferred && closure != nil {
			if why, ok := c40FlagDiscipline(f, p, closure, rel, op); ok {
				return why, true
			} else if why != "" {
				return why, false
			}
		}
	}

	// ---- ownership token parameter
	for pi, prm := range f.Params {
		if !isBoolType(prm.Type()) {
			continue
		}

		cuts := cutEdges(f, func(ft Fact) bool { return ft.Kind == "true" && ft.V == ssa.Value(prm) })
		if len(cuts) == 0 || instrReachableAfterCut(f, rel, cuts) {
			continue
		}

		// every static caller
		sites, bad := 0, ""

		for _, g := range all {
			allInstrs(g, func(in ssa.Instruction) {
				ci, ok := in.(ssa.CallInstruction)
				if !ok || ci.Common().StaticCallee() != f || len(ci.Common().Args) <= pi {
					return
				}

				sites++

				arg := ci.Common().Args[pi]
				if b, isC := constBool(arg); isC && !b {
					return
				}

				acq, isCall := arg.(*ssa.Call)
				if !isCall || acq.Common().StaticCallee() == nil {
					bad = "the caller " + fnKey(g) + " passes a value that is not the result of an acquire function"

					return
				}

				af := acq.Common().StaticCallee()

				// same receiver object
				if f.Signature.Recv() != nil {
					if af.Signature.Recv() == nil || len(acq.Common().Args) == 0 || acq.Common().Args[0] != ci.Common().Args[0] {
						bad = "the caller " + fnKey(g) + " takes the token from a different object than the one it releases"

						return
					}
				}

				if why := c40AcquireReturnsHeld(af, op); why != "" {
					bad = "the acquire function " + fnKey(af) + " " + why
				}
			})
		}

		if w.prog != nil && f.Object() != nil && f.Object().Exported() && sites == 0 {
			return "no caller found for the ownership token parameter " + prm.Name(), false
		}

		if bad != "" {
			return bad, false
		}

		return "behind the bool parameter " + prm.Name() + "; each of the " + sprintInt(sites) + " callers passes the result of the paired acquire function, which returns non-false only with the mutex held", true
	}

	return "nothing ties the release to an acquisition by the same request (no deferred closure under the lock, no captured flag, no ownership parameter)", false
}

// c40AcquireReturnsHeld: every return of af whose first result may be
// non-false holds the mutex. Returns "" when that is so.
func c40AcquireReturnsHeld(af *ssa.Function, op lockOp) string {
	if len(af.Blocks) == 0 {
		return "has no body to analyse"
	}

	ls := computeLocksets(af, nil, nil)
	msg := ""
	held := 0

	for _, b := range af.Blocks {
		if len(b.Instrs) == 0 {
			continue
		}

		ret, ok := b.Instrs[len(b.Instrs)-1].(*ssa.Return)
		if !ok || len(ret.Results) == 0 {
			continue
		}

		v := retResult(ret, 0)
		if c, isC := constBool(v); isC && !c {
			continue
		}

		if _, h := ls.heldAt(ret)[op.id]; !h {
			msg = "can return a value that is not false without holding " + op.id
		} else {
			held++
		}
	}

	if msg == "" && held == 0 {
		return "never returns with " + op.id + " held"
	}

	return msg
}

// c40FlagDiscipline checks the captured-flag idiom. A non-empty reason with
// ok == false means the idiom is present and broken.
func c40FlagDiscipline(f, p *ssa.Function, closure *ssa.MakeClosure, rel ssa.Instruction, op lockOp) (string, bool) {
	for fi, fv := range f.FreeVars {
		cuts := cutEdges(f, func(ft Fact) bool {
			if ft.Kind != "true" {
				return false
			}

			u, ok := ft.V.(*ssa.UnOp)

			return ok && u.Op == token.MUL && u.X == ssa.Value(fv)
		})

		if len(cuts) == 0 || instrReachableAfterCut(f, rel, cuts) {
			continue
		}

		if fi >= len(closure.Bindings) {
			continue
		}

		cell := closure.Bindings[fi]

		// other closures must not write the flag
		for _, an := range p.AnonFuncs {
			for afi, afv := range an.FreeVars {
				mc := closureOf(p, an)
				if mc == nil || afi >= len(mc.Bindings) || mc.Bindings[afi] != cell {
					continue
				}

				wrote := false

				allInstrs(an, func(in ssa.Instruction) {
					if st, ok := in.(*ssa.Store); ok && st.Addr == ssa.Value(afv) {
						wrote = true
					}
				})

				if wrote {
					return "the flag " + fv.Name() + " is also written by " + fnKey(an), false
				}
			}
		}

		bad := ""
		nTrue, nFalse := 0, 0

		nextMutexOp := func(st *ssa.Store) (lockOp, bool) {
			b := st.Block()
			after := false

			for _, in := range b.Instrs {
				if in == ssa.Instruction(st) {
					after = true

					continue
				}

				if !after {
					continue
				}

				if ci, ok := in.(ssa.CallInstruction); ok {
					if _, isDefer := in.(*ssa.Defer); isDefer {
						continue
					}

					o, isM := mutexOp(ci.Common())

					return o, isM
				}
			}

			return lockOp{}, false
		}

		allInstrs(p, func(in ssa.Instruction) {
			st, ok := in.(*ssa.Store)
			if !ok || st.Addr != cell {
				return
			}

			v, isC := constBool(st.Val)
			if !isC {
				bad = "the flag " + fv.Name() + " is set to a computed value"

				return
			}

			o, isM := nextMutexOp(st)

			switch {
			case v && (!isM || o.id != op.id || (o.kind != "Lock" && o.kind != "RLock")):
				bad = "the flag " + fv.Name() + " is set to true without the mutex being locked as the next call"
			case !v && (!isM || o.id != op.id || (o.kind != "Unlock" && o.kind != "RUnlock")):
				bad = "the flag " + fv.Name() + " is cleared without the mutex being released as the next call"
			case v:
				nTrue++
			default:
				nFalse++
			}
		})

		// every direct release of the mutex in the parent clears the flag first
		allInstrs(p, func(in ssa.Instruction) {
			c, ok := in.(*ssa.Call)
			if !ok {
				return
			}

			o, isM := mutexOp(c.Common())
			if !isM || o.id != op.id || (o.kind != "Unlock" && o.kind != "RUnlock") {
				return
			}

			cleared := false

			for _, prev := range c.Block().Instrs {
				if prev == ssa.Instruction(c) {
					break
				}

				if st, ok := prev.(*ssa.Store); ok && st.Addr == cell {
					if v, isC := constBool(st.Val); isC && !v {
						cleared = true
					}
				}

				if _, isCall := prev.(ssa.CallInstruction); isCall {
					cleared = false
				}
			}

			if !cleared {
				bad = fnKey(p) + " releases " + op.id + " itself without clearing the flag " + fv.Name() + " first (the deferred function would release it again)"
			}
		})

		if bad != "" {
			return bad, false
		}

		if nTrue == 0 {
			return "the flag " + fv.Name() + " is never set next to a Lock", false
		}

		return "deferred function literal behind the captured flag " + fv.Name() + ", which " + fnKey(p) + " sets only immediately before Lock and clears only immediately before its own Unlock", true
	}

	return "", false
}

func closureOf(p, an *ssa.Function) *ssa.MakeClosure {
	var out *ssa.MakeClosure

	allInstrs(p, func(in ssa.Instruction) {
		if mc, ok := in.(*ssa.MakeClosure); ok && mc.Fn == ssa.Value(an) {
			out = mc
		}
	})

	return out
}

func isBoolType(t types.Type) bool {
	b, ok := t.Underlying().(*types.Basic)

	return ok && b.Info()&types.IsBoolean != 0
}

// ---------------------------------------------------------------------------
// R-C40-10: a variable slice bound is bounded by the length of the value it
// slices (not by a length taken from something else, or taken earlier).

func c40LenOf(v ssa.Value) ssa.Value {
	c, ok := v.(*ssa.Call)
	if !ok {
		return nil
	}

	b, ok := c.Call.Value.(*ssa.Builtin)
	if !ok || b.Name() != "len" || len(c.Call.Args) != 1 {
		return nil
	}

	return c.Call.Args[0]
}

// c40SameSeq: a and b are the same sequence value (identical SSA value, or one
// local cell).
func c40SameSeq(a, b ssa.Value) bool {
	if a == nil || b == nil {
		return false
	}

	if a == b {
		return true
	}

	ra, rb := resolveLocal(a), resolveLocal(b)
	if ra != nil && ra == rb {
		return true
	}

	// two loads of one local cell with no store to the cell after the first
	la, okA := a.(*ssa.UnOp)
	lb, okB := b.(*ssa.UnOp)

	if okA && okB && la.Op == token.MUL && lb.Op == token.MUL && la.X == lb.X {
		if cell, isAlloc := la.X.(*ssa.Alloc); isAlloc {
			stored := func(from ssa.Instruction) bool {
				return pathAvoiding(from, nil, func(ssa.Instruction) bool { return false }, func(i ssa.Instruction) bool {
					st, ok := i.(*ssa.Store)

					return ok && st.Addr == ssa.Value(cell)
				}) != nil
			}

			return !stored(la) || !stored(lb)
		}
	}

	return false
}

// c40RequestInt: v is computed from a number the request supplies: the paging
// values of the session (Start, Limit) or an integer parsed from text.
func c40RequestInt(v ssa.Value, seen map[ssa.Value]bool) bool {
	if v == nil || seen[v] {
		return false
	}

	seen[v] = true

	switch x := v.(type) {
	case *ssa.UnOp:
		if fa, ok := x.X.(*ssa.FieldAddr); ok {
			name := fieldName(fa.X.Type(), fa.Field)
			if (name == "Start" || name == "Limit") && strings.HasSuffix(fa.X.Type().String(), "router.Session") {
				return true
			}
		}

		return c40RequestInt(x.X, seen)
	case *ssa.Phi:
		for _, e := range x.Edges {
			if c40RequestInt(e, seen) {
				return true
			}
		}
	case *ssa.BinOp:
		return c40RequestInt(x.X, seen) || c40RequestInt(x.Y, seen)
	case *ssa.Convert:
		return c40RequestInt(x.X, seen)
	case *ssa.ChangeType:
		return c40RequestInt(x.X, seen)
	case *ssa.Extract:
		if c, ok := x.Tuple.(*ssa.Call); ok && x.Index == 0 {
			id := callID(c.Common())

			return id == "strconv.Atoi" || id == "strconv.ParseInt" || id == "strconv.ParseUint" || strings.HasSuffix(id, "util/strings.Atoi")
		}
	case *ssa.Alloc:
		for _, ref := range *x.Referrers() {
			if st, ok := ref.(*ssa.Store); ok && st.Addr == ssa.Value(x) && c40RequestInt(st.Val, seen) {
				return true
			}
		}
	}

	return false
}

// c40FactBounds: the facts say bound <= len(x).
func c40FactBounds(facts []Fact, bound, x ssa.Value) bool {
	for _, f := range facts {
		if f.Kind != "cmp" {
			continue
		}

		switch f.Op {
		case token.LEQ, token.LSS:
			if f.X == bound && c40SameSeq(c40LenOf(f.Y), x) {
				return true
			}
		case token.GEQ, token.GTR:
			if f.Y == bound && c40SameSeq(c40LenOf(f.X), x) {
				return true
			}
		}
	}

	return false
}

// c40BoundWithin: bound <= len(x) at block at.
func c40BoundWithin(bound, x ssa.Value, at *ssa.BasicBlock, depth int) bool {
	if depth > 5 || bound == nil {
		return false
	}

	if k, isC := constInt(bound); isC && k == 0 {
		return true
	}

	if c40SameSeq(c40LenOf(bound), x) {
		return true
	}

	if c40FactBounds(dominatingFacts(at), bound, x) {
		return true
	}

	switch b := bound.(type) {
	case *ssa.Phi:
		for i, e := range b.Edges {
			pred := b.Block().Preds[i]

			if c40FactBounds(edgeFactsInto(pred, b.Block()), e, x) || c40FactBounds(dominatingFacts(pred), e, x) {
				continue
			}

			if !c40BoundWithin(e, x, pred, depth+1) {
				return false
			}
		}

		return true
	case *ssa.BinOp:
		// i+1 where i < len(x)
		if b.Op == token.ADD {
			if k, isC := constInt(b.Y); isC && k == 1 {
				for _, f := range dominatingFacts(at) {
					if f.Kind == "cmp" && ((f.Op == token.LSS && f.X == b.X && c40SameSeq(c40LenOf(f.Y), x)) || (f.Op == token.GTR && f.Y == b.X && c40SameSeq(c40LenOf(f.X), x))) {
						return true
					}
				}
			}
		}

		// v-k, v/k, v%k with v within
		if b.Op == token.SUB || b.Op == token.QUO || b.Op == token.REM {
			if k, isC := constInt(b.Y); isC && k >= 0 {
				return c40BoundWithin(b.X, x, at, depth+1)
			}
		}
	case *ssa.Call:
		// an index found inside x, or min(…, len(x))
		id := callID(b.Common())
		if strings.HasPrefix(id, "strings.Index") || strings.HasPrefix(id, "strings.LastIndex") || strings.HasPrefix(id, "bytes.Index") || strings.HasPrefix(id, "bytes.LastIndex") {
			return len(b.Call.Args) > 0 && c40SameSeq(b.Call.Args[0], x)
		}

		if bi, ok := b.Call.Value.(*ssa.Builtin); ok && bi.Name() == "min" {
			for _, a := range b.Call.Args {
				if c40BoundWithin(a, x, at, depth+1) {
					return true
				}
			}
		}
	case *ssa.Extract:
		// n, err := r.Read(buf) ; buf[:n]
		if c, ok := b.Tuple.(*ssa.Call); ok && b.Index == 0 {
			name := ""
			if c.Common().IsInvoke() {
				name = c.Common().Method.Name()
			} else if callee := c.Common().StaticCallee(); callee != nil {
				name = callee.Name()
			}

			if name == "Read" || name == "ReadAt" || name == "Write" || name == "ReadFull" || name == "ReadAtLeast" {
				for _, a := range c.Call.Args {
					if c40SameSeq(a, x) {
						return true
					}

					if sl, ok := a.(*ssa.Slice); ok && c40SameSeq(sl.X, x) {
						return true
					}
				}
			}
		}
	}

	return false
}

func c40VariableBounds(w *World, r *Report, fns []*ssa.Function) {
	r.Rule("R-C40-10", "a slice bound the request supplies is within the sliced value: for x[lo:hi] in a function reachable from a handler, with lo or hi computed from the session's paging values (Start, Limit) or from an integer parsed from text, the bound is compared (<=, <) with len(x) of that same x on every path, or replaced by it — not with a length taken from another value or taken before x changed", 6)

	for _, fn := range fns {
		count := map[string]int{}

		allInstrs(fn, func(in ssa.Instruction) {
			sl, ok := in.(*ssa.Slice)
			if !ok {
				return
			}

			if p, isPtr := sl.X.Type().Underlying().(*types.Pointer); isPtr {
				if _, isArr := p.Elem().Underlying().(*types.Array); isArr {
					return // x := arr[:] and friends: bounds are compile-time checked or constants
				}
			}

			for _, b := range []struct {
				v    ssa.Value
				name string
			}{{sl.Low, "low"}, {sl.High, "high"}} {
				if b.v == nil {
					continue
				}

				if _, isC := constInt(b.v); isC {
					continue
				}

				if !c40RequestInt(b.v, map[ssa.Value]bool{}) {
					continue // only numbers the request supplies; the other idioms are R-C40-1's and the lexers' own business
				}

				key := fnKey(fn) + "|" + b.name + " bound of " + valueName(sl.X)
				count[key]++

				if n := count[key]; n > 1 {
					key += "#" + sprintInt(n)
				}

				if c40BoundWithin(b.v, sl.X, sl.Block(), 0) {
					r.Discharge("R-C40-10", key, w.pos(sl.Pos()), "bounded by the length of the sliced value")
				} else if why, ok := c40BoundOK[key]; ok {
					r.Except("R-C40-10", key, w.pos(sl.Pos()), why)
				} else {
					r.Violate("R-C40-10", key, w.pos(sl.Pos()), "the "+b.name+" bound "+valueName(b.v)+" is not shown to be within the length of the value it slices (a test against another length, or against a length taken before the value changed, does not bound it): a request that makes it larger panics the handler with 'slice bounds out of range'")
				}
			}
		})
	}
}

// c40BoundOK: variable slice bounds that are within range for a reason the
// prover does not see; each read and justified.
var c40BoundOK = map[string]string{}
