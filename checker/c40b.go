package main

import (
	"go/token"
	"go/types"

	"golang.org/x/tools/go/ssa"
)

// R-C40-9: a sync.Mutex / sync.RWMutex is released only by code that holds it.
//
// Releasing a mutex nobody holds is not a panic the last-resort recovery can
// turn into a 500: the Go runtime ends the process ("fatal error: sync: unlock
// of unlocked mutex"), and every request in flight goes unanswered.
//
// For every Unlock / RUnlock (direct or deferred) in the server-side packages
// the must-hold lockset of the enclosing function has to contain the mutex.
// Where it does not (the release and the acquisition live in different
// functions) one of three ownership arguments has to apply, each checked:
//
//   closure      the release is in a function literal that the parent defers at
//                a point where the parent holds the mutex;
//   flag         the release is in a deferred function literal, behind the true
//                edge of a captured bool that the parent sets to true only
//                immediately before Lock and to false only immediately before
//                its own Unlock (and nobody else writes);
//   token        the release is behind the true edge of a bool parameter, and
//                every caller passes the constant false or the result of an
//                acquire function on the same receiver that returns a
//                non-false value only with the mutex held.
//
// Anything else -- in particular a release decided by shared state such as a
// use counter, which another goroutine can reset -- is a violation.

func c40MutexReleases(w *World, r *Report) {
	r.Rule("R-C40-9", "a mutex is released only by code that holds it: every Unlock/RUnlock in the server-side packages is covered by the function's must-hold lockset, or by a checked ownership argument (deferred closure under the parent's lock; captured flag set only next to Lock/Unlock; bool parameter fed by the paired acquire function). Unlocking an unheld mutex is a fatal runtime error that no recovery can catch", 80)

	var all []*ssa.Function

	for _, p := range w.pkgs {
		for _, f := range w.srcFuncs(p) {
			if c40InScope(f) {
				all = append(all, f)
			}
		}
	}

	counts := map[string]int{}

	for _, f := range all {
		var ls *locksets

		allInstrs(f, func(in ssa.Instruction) {
			var cc *ssa.CallCommon

			switch x := in.(type) {
			case *ssa.Call:
				cc = x.Common()
			case *ssa.Defer:
				cc = x.Common()
			default:
				return
			}

			op, ok := mutexOp(cc)
			if !ok || (op.kind != "Unlock" && op.kind != "RUnlock") {
				return
			}

			if ls == nil {
				ls = computeLocksets(f, nil, nil)
			}

			key := fnKey(f) + "|" + op.kind + " " + op.id
			counts[key]++

			if n := counts[key]; n > 1 {
				key += " #" + sprintInt(n)
			}

			if _, held := ls.heldAt(in)[op.id]; held {
				r.Discharge("R-C40-9", key, w.pos(in.Pos()), "held on every path to this release")

				return
			}

			if why, ok := c40ReleaseOwned(w, f, in, op, all); ok {
				r.Discharge("R-C40-9", key, w.pos(in.Pos()), why)
			} else {
				r.Violate("R-C40-9", key, w.pos(in.Pos()), "this function releases "+op.id+" on a path where it does not hold it, and "+why+": if no one holds the mutex at that moment the Go runtime ends the server process (fatal error: sync: unlock of unlocked mutex), and otherwise another request's critical section is opened")
			}
		})
	}
}

// c40ReleaseOwned looks for one of the ownership arguments.
func c40ReleaseOwned(w *World, f *ssa.Function, rel ssa.Instruction, op lockOp, all []*ssa.Function) (string, bool) {
	// ---- closure under the parent's lock
	if p := f.Parent(); p != nil {
		pls := computeLocksets(p, nil, nil)
		deferred, heldAll, otherUses := 0, true, 0

		var closure *ssa.MakeClosure

		isF := func(v ssa.Value) bool {
			if v == ssa.Value(f) {
				return true
			}

			mc, ok := v.(*ssa.MakeClosure)

			return ok && mc.Fn == ssa.Value(f)
		}

		scan := []*ssa.Function{p}
		scan = append(scan, p.AnonFuncs...)

		for _, g := range scan {
			allInstrs(g, func(in ssa.Instruction) {
				if mc, ok := in.(*ssa.MakeClosure); ok && mc.Fn == ssa.Value(f) {
					closure = mc

					return
				}

				if d, ok := in.(*ssa.Defer); ok && g == p && isF(d.Call.Value) {
					deferred++

					if _, held := pls.heldAt(d)[op.id]; !held {
						heldAll = false
					}

					return
				}

				for _, o := range in.Operands(nil) {
					if o != nil && *o != nil && isF(*o) {
						otherUses++
					}
				}
			})
		}

		// does the parent release the mutex itself?
		parentReleases := false

		allInstrs(p, func(in ssa.Instruction) {
			if c, ok := in.(*ssa.Call); ok {
				if o, isM := mutexOp(c.Common()); isM && o.id == op.id && (o.kind == "Unlock" || o.kind == "RUnlock") {
					parentReleases = true
				}
			}
		})

		onlyDeferred := deferred > 0 && otherUses == 0

		if onlyDeferred && heldAll && !parentReleases {
			return "function literal deferred by " + fnKey(p) + " while it holds " + op.id + " (which it never releases itself)", true
		}

		// ---- captured flag
		if onlyDeferred && closure != nil {
			if why, ok := c40FlagDiscipline(f, p, closure, rel, op); ok {
				return why, true
			} else if why != "" {
				return why, false
			}
		}
	}

	// ---- ownership token parameter
	for pi, prm := range f.Params {
		if !isBoolType(prm.Type()) {
			continue
		}

		cuts := cutEdges(f, func(ft Fact) bool { return ft.Kind == "true" && ft.V == ssa.Value(prm) })
		if len(cuts) == 0 || instrReachableAfterCut(f, rel, cuts) {
			continue
		}

		// every static caller
		sites, bad := 0, ""

		for _, g := range all {
			allInstrs(g, func(in ssa.Instruction) {
				ci, ok := in.(ssa.CallInstruction)
				if !ok || ci.Common().StaticCallee() != f || len(ci.Common().Args) <= pi {
					return
				}

				sites++

				arg := ci.Common().Args[pi]
				if b, isC := constBool(arg); isC && !b {
					return
				}

				acq, isCall := arg.(*ssa.Call)
				if !isCall || acq.Common().StaticCallee() == nil {
					bad = "the caller " + fnKey(g) + " passes a value that is not the result of an acquire function"

					return
				}

				af := acq.Common().StaticCallee()

				// same receiver object
				if f.Signature.Recv() != nil {
					if af.Signature.Recv() == nil || len(acq.Common().Args) == 0 || acq.Common().Args[0] != ci.Common().Args[0] {
						bad = "the caller " + fnKey(g) + " takes the token from a different object than the one it releases"

						return
					}
				}

				if why := c40AcquireReturnsHeld(af, op); why != "" {
					bad = "the acquire function " + fnKey(af) + " " + why
				}
			})
		}

		if w.prog != nil && f.Object() != nil && f.Object().Exported() && sites == 0 {
			return "no caller found for the ownership token parameter " + prm.Name(), false
		}

		if bad != "" {
			return bad, false
		}

		return "behind the bool parameter " + prm.Name() + "; each of the " + sprintInt(sites) + " callers passes the result of the paired acquire function, which returns non-false only with the mutex held", true
	}

	return "nothing ties the release to an acquisition by the same request (no deferred closure under the lock, no captured flag, no ownership parameter)", false
}

// c40AcquireReturnsHeld: every return of af whose first result may be
// non-false holds the mutex. Returns "" when that is so.
func c40AcquireReturnsHeld(af *ssa.Function, op lockOp) string {
	if len(af.Blocks) == 0 {
		return "has no body to analyse"
	}

	ls := computeLocksets(af, nil, nil)
	msg := ""
	held := 0

	for _, b := range af.Blocks {
		if len(b.Instrs) == 0 {
			continue
		}

		ret, ok := b.Instrs[len(b.Instrs)-1].(*ssa.Return)
		if !ok || len(ret.Results) == 0 {
			continue
		}

		v := retResult(ret, 0)
		if c, isC := constBool(v); isC && !c {
			continue
		}

		if _, h := ls.heldAt(ret)[op.id]; !h {
			msg = "can return a value that is not false without holding " + op.id
		} else {
			held++
		}
	}

	if msg == "" && held == 0 {
		return "never returns with " + op.id + " held"
	}

	return msg
}

// c40FlagDiscipline checks the captured-flag idiom. A non-empty reason with
// ok == false means the idiom is present and broken.
func c40FlagDiscipline(f, p *ssa.Function, closure *ssa.MakeClosure, rel ssa.Instruction, op lockOp) (string, bool) {
	for fi, fv := range f.FreeVars {
		cuts := cutEdges(f, func(ft Fact) bool {
			if ft.Kind != "true" {
				return false
			}

			u, ok := ft.V.(*ssa.UnOp)

			return ok && u.Op == token.MUL && u.X == ssa.Value(fv)
		})

		if len(cuts) == 0 || instrReachableAfterCut(f, rel, cuts) {
			continue
		}

		if fi >= len(closure.Bindings) {
			continue
		}

		cell := closure.Bindings[fi]

		// other closures must not write the flag
		for _, an := range p.AnonFuncs {
			for afi, afv := range an.FreeVars {
				mc := closureOf(p, an)
				if mc == nil || afi >= len(mc.Bindings) || mc.Bindings[afi] != cell {
					continue
				}

				wrote := false

				allInstrs(an, func(in ssa.Instruction) {
					if st, ok := in.(*ssa.Store); ok && st.Addr == ssa.Value(afv) {
						wrote = true
					}
				})

				if wrote {
					return "the flag " + fv.Name() + " is also written by " + fnKey(an), false
				}
			}
		}

		bad := ""
		nTrue, nFalse := 0, 0

		nextMutexOp := func(st *ssa.Store) (lockOp, bool) {
			b := st.Block()
			after := false

			for _, in := range b.Instrs {
				if in == ssa.Instruction(st) {
					after = true

					continue
				}

				if !after {
					continue
				}

				if ci, ok := in.(ssa.CallInstruction); ok {
					if _, isDefer := in.(*ssa.Defer); isDefer {
						continue
					}

					o, isM := mutexOp(ci.Common())

					return o, isM
				}
			}

			return lockOp{}, false
		}

		allInstrs(p, func(in ssa.Instruction) {
			st, ok := in.(*ssa.Store)
			if !ok || st.Addr != cell {
				return
			}

			v, isC := constBool(st.Val)
			if !isC {
				bad = "the flag " + fv.Name() + " is set to a computed value"

				return
			}

			o, isM := nextMutexOp(st)

			switch {
			case v && (!isM || o.id != op.id || (o.kind != "Lock" && o.kind != "RLock")):
				bad = "the flag " + fv.Name() + " is set to true without the mutex being locked as the next call"
			case !v && (!isM || o.id != op.id || (o.kind != "Unlock" && o.kind != "RUnlock")):
				bad = "the flag " + fv.Name() + " is cleared without the mutex being released as the next call"
			case v:
				nTrue++
			default:
				nFalse++
			}
		})

		// every direct release of the mutex in the parent clears the flag first
		allInstrs(p, func(in ssa.Instruction) {
			c, ok := in.(*ssa.Call)
			if !ok {
				return
			}

			o, isM := mutexOp(c.Common())
			if !isM || o.id != op.id || (o.kind != "Unlock" && o.kind != "RUnlock") {
				return
			}

			cleared := false

			for _, prev := range c.Block().Instrs {
				if prev == ssa.Instruction(c) {
					break
				}

				if st, ok := prev.(*ssa.Store); ok && st.Addr == cell {
					if v, isC := constBool(st.Val); isC && !v {
						cleared = true
					}
				}

				if _, isCall := prev.(ssa.CallInstruction); isCall {
					cleared = false
				}
			}

			if !cleared {
				bad = fnKey(p) + " releases " + op.id + " itself without clearing the flag " + fv.Name() + " first (the deferred function would release it again)"
			}
		})

		if bad != "" {
			return bad, false
		}

		if nTrue == 0 {
			return "the flag " + fv.Name() + " is never set next to a Lock", false
		}

		return "deferred function literal behind the captured flag " + fv.Name() + ", which " + fnKey(p) + " sets only immediately before Lock and clears only immediately before its own Unlock", true
	}

	return "", false
}

func closureOf(p, an *ssa.Function) *ssa.MakeClosure {
	var out *ssa.MakeClosure

	allInstrs(p, func(in ssa.Instruction) {
		if mc, ok := in.(*ssa.MakeClosure); ok && mc.Fn == ssa.Value(an) {
			out = mc
		}
	})

	return out
}

func isBoolType(t types.Type) bool {
	b, ok := t.Underlying().(*types.Basic)

	return ok && b.Info()&types.IsBoolean != 0
}
