package main

import (
	"strings"

	"golang.org/x/tools/go/ssa"
)

// R-C09-7 / R-C09-8: the database handle of a transaction is released when
// the transaction ends.
//
// database/sql runs a connection-opener goroutine for every open *sql.DB, so a
// handle that is forgotten instead of closed is a goroutine (and its
// connections) left running on behalf of a request that has finished.
// Database.Close leaves a handle with a transaction on it alone; therefore
//   - Database.Commit and Database.Rollback forget the transaction on every
//     path once the driver's Commit / Rollback has been called (the
//     transaction is over whether or not the call succeeded), and
//   - every function of package tables that removes an entry from the map of
//     REST transactions closes that entry's database handle.
func c09TransactionHandles(w *World, r *Report) {
	r.Rule("R-C09-8", "a finished transaction is forgotten: in Database.Commit and Database.Rollback every path from the driver's Tx.Commit / Tx.Rollback call to a return stores nil into Database.Transaction (Close skips a handle that still carries a transaction)", 2)
	r.Rule("R-C09-7", "a REST transaction that leaves the map releases its handle: in package tables every delete(transactions, id) has a Database.Close that dominates it or lies on every path from it to a return", 3)

	dbp := w.pkg("internal/server/tables/database")
	tp := w.pkg("internal/server/tables")

	if dbp == nil || tp == nil {
		return
	}

	isRet := func(i ssa.Instruction) bool {
		_, ok := i.(*ssa.Return)

		return ok
	}

	for _, name := range []string{"Database.Commit", "Database.Rollback"} {
		fn := w.ssaFunc(dbp, name)
		if fn == nil {
			r.Anchor("R-C09-8", "database."+name)

			continue
		}

		var driver *ssa.Call

		allInstrs(fn, func(in ssa.Instruction) {
			if c, ok := in.(*ssa.Call); ok {
				id := callID(c.Common())
				if id == "database/sql.Tx.Commit" || id == "database/sql.Tx.Rollback" {
					driver = c
				}
			}
		})

		key := "database." + name + "|transaction forgotten on every outcome"

		if driver == nil {
			r.Anchor("R-C09-8", "the driver call in database."+name)

			continue
		}

		escape := pathAvoiding(driver, nil, func(i ssa.Instruction) bool {
			st, ok := i.(*ssa.Store)
			if !ok || !isNilConst(st.Val) {
				return false
			}

			fa, ok := st.Addr.(*ssa.FieldAddr)

			return ok && fieldName(fa.X.Type(), fa.Field) == "Transaction"
		}, isRet)

		if escape != nil {
			r.Violate("R-C09-8", key, w.pos(escape.Pos()), "the function can return after the driver call without forgetting the transaction (the failure path): the request's deferred Close then leaves the handle open, and one *sql.DB with its connection-opener goroutine stays behind for every failed "+strings.ToLower(strings.TrimPrefix(name, "Database.")))
		} else {
			r.Discharge("R-C09-8", key, w.pos(driver.Pos()), "Transaction = nil on every path to a return")
		}
	}

	n := 0

	for _, fn := range w.srcFuncs(tp) {
		count := 0

		allInstrs(fn, func(in ssa.Instruction) {
			c, ok := in.(*ssa.Call)
			if !ok {
				return
			}

			b, isB := c.Call.Value.(*ssa.Builtin)
			if !isB || b.Name() != "delete" || len(c.Call.Args) != 2 {
				return
			}

			u, ok := c.Call.Args[0].(*ssa.UnOp)
			if !ok {
				return
			}

			if g, ok := u.X.(*ssa.Global); !ok || g.Name() != "transactions" {
				return
			}

			n++
			count++

			key := fnKey(fn) + "|handle closed when the transaction leaves the map"
			if count > 1 {
				key += " #" + sprintInt(count)
			}

			isClose := func(i ssa.Instruction) bool {
				cc, ok := i.(*ssa.Call)

				return ok && strings.HasSuffix(callID(cc.Common()), "database.Database.Close")
			}

			before := false

			allInstrs(fn, func(i ssa.Instruction) {
				if isClose(i) && instrDominates(i, c) {
					before = true
				}
			})

			// a path on which there is no handle (the db pointer was found nil) has nothing to close
			noHandle := cutEdges(fn, func(f Fact) bool {
				return f.Kind == "nil" && f.V != nil && strings.HasSuffix(f.V.Type().String(), "database.Database")
			})

			switch {
			case before:
				r.Discharge("R-C09-7", key, w.pos(c.Pos()), "closed before it is removed")
			case pathAvoiding(c, noHandle, isClose, isRet) == nil:
				r.Discharge("R-C09-7", key, w.pos(c.Pos()), "closed on every path after it is removed")
			default:
				r.Violate("R-C09-7", key, w.pos(c.Pos()), "the transaction is removed from the map without its database handle being closed: the *sql.DB opened by /begin, its connections and its connection-opener goroutine stay behind (one per transaction)")
			}
		})
	}

	if n == 0 {
		r.Anchor("R-C09-7", "delete(transactions, …) in package tables")
	}
}
