package main

import (
	"regexp"
	"strings"

	"golang.org/x/tools/go/ssa"
)

// c14TemplatesQuoteTheirNames: R-C14-7. parsing.QueryParameters puts names
// through SQLEscape, which refuses quote characters and ';' and nothing else:
// blanks, commas, parentheses and keywords pass. That is a sanitizer for text
// that lands inside double quotes, and for no other place, so the placeholders
// of every template handed to QueryParameters have to stand inside quotes.
var c14PlaceholderRE = regexp.MustCompile(`\{\{[a-z]+\}\}`)

// schema statements that are run with DSN-administrator authority only
var c14UnquotedTemplateOK = map[string]string{
	"DROP TABLE {{schema}}.{{table}};":        "PostgreSQL DROP TABLE of the delete-table endpoint: the handler opens the DSN with DSNAdminAction (R-C43-1 lists it as a schema operation); quoting would change how existing mixed-case schemas resolve",
	"CREATE SCHEMA IF NOT EXISTS {{schema}}": "CREATE SCHEMA of the create-table endpoint, likewise behind DSNAdminAction; the schema is the caller's own user name or the prefix of the table name",
}

func c14TemplatesQuoteTheirNames(w *World, r *Report) {
	r.Rule("R-C14-7", "names substituted into a statement template stand inside double quotes: in every constant template that reaches parsing.QueryParameters each {{placeholder}} is enclosed by \" on both sides (SQLEscape guards quoted text only)", 4)

	var consts func(v ssa.Value, seen map[ssa.Value]bool, out *[]string) bool

	consts = func(v ssa.Value, seen map[ssa.Value]bool, out *[]string) bool {
		v = stripValue(v)
		if seen[v] {
			return true
		}

		seen[v] = true

		if s, ok := constString(v); ok {
			*out = append(*out, s)

			return true
		}

		if p, ok := v.(*ssa.Phi); ok {
			for _, e := range p.Edges {
				if !consts(e, seen, out) {
					return false
				}
			}

			return true
		}

		return false
	}

	for _, p := range w.pkgsUnder("internal/server") {
		for _, fn := range w.srcFuncs(p) {
			allInstrs(fn, func(in ssa.Instruction) {
				c, ok := in.(*ssa.Call)
				if !ok || !strings.HasSuffix(callID(c.Common()), "parsing.QueryParameters") || len(c.Call.Args) < 1 {
					return
				}

				var templates []string

				if !consts(c.Call.Args[0], map[ssa.Value]bool{}, &templates) || len(templates) == 0 {
					r.Violate("R-C14-7", fnKey(fn)+"|template is a constant", w.pos(in.Pos()), "the statement template given to QueryParameters is not a constant: its placeholders cannot be checked")

					return
				}

				for _, t := range templates {
					key := fnKey(fn) + "|" + t

					bad := ""

					for _, loc := range c14PlaceholderRE.FindAllStringIndex(t, -1) {
						if loc[0] == 0 || t[loc[0]-1] != '"' || loc[1] >= len(t) || t[loc[1]] != '"' {
							bad = t[loc[0]:loc[1]]
						}
					}

					switch {
					case bad == "":
						r.Discharge("R-C14-7", key, w.pos(in.Pos()), "")
					case c14UnquotedTemplateOK[t] != "":
						r.Except("R-C14-7", key, w.pos(in.Pos()), c14UnquotedTemplateOK[t])
					default:
						r.Violate("R-C14-7", key, w.pos(in.Pos()), "the placeholder "+bad+" is substituted outside quotes: the name is checked for quote characters and ';' only, so `items UNION SELECT v, w FROM secrets` given as a table name (the `table` field of a transaction task) runs a query over another table")
					}
				}
			})
		}
	}
}
