package main

import (
	"go/token"
	"strings"

	"golang.org/x/tools/go/ssa"
)

// C39 Static assets are served exactly and only from the asset root.

func init() {
	register(&propertyCheck{
		id: "C39", level: "other", needs: loadNeeds{ssa: true},
		decides: "no Range header or path spelling can crash the asset handler or leave the asset root through the shapes checked: every constant index into a split header lies behind a len() test; the buffer size and offsets derived from the request's range are computed only behind a comparison of the range start with the file size; " +
			"every file-system call of package assets takes its path from normalizeAssetPath, whose only non-placeholder return lies behind the HasPrefix(root+separator) containment test.",
		misses: "symbolic links inside the asset root, the exact bytes and Content-Range arithmetic, the in-memory slicing path that is dead while smartRangeLoading stays true (its precondition is checked), caching semantics.",
		run:    runC39,
	})
}

func runC39(w *World, r *Report) {
	r.Rule("R-C39-1", "constant-index guard: in package server/assets every x[k] with constant k into a slice/string of unknown length is unreachable once the edges establishing len(x) > k are removed", 3)
	r.Rule("R-C39-2", "request-derived sizes: every make() length and slice bound computed from the range start/end parameters is unreachable once the edges establishing start < file size are removed (or lies on the in-memory path guarded by the constant smartRangeLoading)", 2)
	c39CacheKey(w, r)
	c39SizeWithCachedData(w, r)
	c39LinksResolved(w, r)
	r.Rule("R-C39-3", "containment: every os file call in package assets takes its path from normalizeAssetPath; normalizeAssetPath returns the joined path only behind the HasPrefix(root+separator) true edge", 4)

	p := w.pkg("internal/server/assets")
	if p == nil {
		r.Anchor("R-C39-1", "package internal/server/assets")

		return
	}

	fns := w.srcFuncs(p)

	// ---- R-C39-1
	for _, fn := range fns {
		for _, s := range constIndexSites(fn) {
			key := fnKey(fn) + "|" + valueName(s.x) + "[" + sprintInt(int(s.k)) + "]"

			if ok, how := indexSiteGuarded(fn, s); ok {
				r.Discharge("R-C39-1", key, w.pos(s.instr.Pos()), how)
			} else {
				r.Violate("R-C39-1", key, w.pos(s.instr.Pos()), "index "+sprintInt(int(s.k))+" is reachable without a test that the slice has more than "+sprintInt(int(s.k))+" elements: a request header with fewer parts panics the handler")
			}
		}
	}

	// ---- R-C39-2
	// smartRangeLoading must be a never-reassigned true
	smartConst := true

	for _, fn := range fns {
		allInstrs(fn, func(in ssa.Instruction) {
			if st, ok := in.(*ssa.Store); ok {
				if g, isG := st.Addr.(*ssa.Global); isG && g.Name() == "smartRangeLoading" {
					if fn.Synthetic != "" {
						if b, isC := constBool(st.Val); isC && b {
							return
						}
					}

					smartConst = false
				}
			}
		})
	}

	for _, fn := range fns {
		// values derived from int64 parameters named start/end
		fromRange := func(v ssa.Value) bool {
			return derivesFrom(v, func(s ssa.Value) bool {
				p, ok := s.(*ssa.Parameter)

				return ok && (p.Name() == "start" || p.Name() == "end") && p.Parent() == fn
			}, nil)
		}

		isStart := func(v ssa.Value) bool {
			p, ok := stripValue(v).(*ssa.Parameter)

			return ok && p.Name() == "start"
		}

		isFileSize := func(v ssa.Value) bool {
			return derivesFrom(v, func(s ssa.Value) bool {
				c, ok := s.(*ssa.Call)

				return ok && c.Call.IsInvoke() && c.Call.Method.Name() == "Size"
			}, nil)
		}

		cuts := cutEdges(fn, func(f Fact) bool {
			if f.Kind != "cmp" {
				return false
			}

			return (f.Op == token.LSS && isStart(f.X) && isFileSize(f.Y)) || (f.Op == token.GTR && isFileSize(f.X) && isStart(f.Y))
		})

		allInstrs(fn, func(in ssa.Instruction) {
			switch x := in.(type) {
			case *ssa.MakeSlice:
				if !fromRange(x.Len) {
					return
				}

				key := fnKey(fn) + "|make(len from range)"
				if len(cuts) == 0 || instrReachableAfterCut(fn, in, cuts) {
					r.Violate("R-C39-2", key, w.pos(in.Pos()), "the buffer length is computed from the requested range without first establishing start < file size: a start beyond the end makes the length negative and make() panics")
				} else {
					r.Discharge("R-C39-2", key, w.pos(in.Pos()), "behind start < file size")
				}
			case *ssa.Slice:
				if (x.Low == nil || !fromRange(x.Low)) && (x.High == nil || !fromRange(x.High)) {
					return
				}

				key := fnKey(fn) + "|slice[start:end]"

				// guarded by the constant smartRangeLoading: reachable only
				// through the false edge of the flag (or the whole-file case)
				flagCuts := cutEdges(fn, func(f Fact) bool {
					if f.Kind != "false" {
						return false
					}

					u, ok := f.V.(*ssa.UnOp)
					if !ok {
						return false
					}

					g, ok := u.X.(*ssa.Global)

					return ok && g.Name() == "smartRangeLoading"
				})

				// whole-file case: start == 0 and end == EndOfData edges
				for e := range cutEdges(fn, func(f Fact) bool {
					return f.Kind == "eq" && fromRange(f.V)
				}) {
					flagCuts[e] = true
				}

				switch {
				case smartConst && len(flagCuts) > 0 && !instrReachableAfterCut(fn, in, flagCuts):
					r.Except("R-C39-2", key, w.pos(in.Pos()), "in-memory slicing is reachable only when smartRangeLoading is false or the request asks for the whole file; smartRangeLoading is a package variable initialised to true and never assigned in non-test code (checked on this run)")
				default:
					r.Violate("R-C39-2", key, w.pos(in.Pos()), "asset data is sliced with request-derived bounds that are not compared with its length")
				}
			}
		})
	}

	// ---- R-C39-3
	norm := w.ssaFunc(p, "normalizeAssetPath")
	if norm == nil {
		r.Anchor("R-C39-3", "assets.normalizeAssetPath")

		return
	}

	for _, fn := range fns {
		allCalls(fn, func(ci ssa.CallInstruction) {
			id := callID(ci.Common())
			if !strings.HasPrefix(id, "os.") || strings.HasPrefix(id, "os.File.") || strings.HasPrefix(id, "os.FileInfo") {
				return
			}

			args := ci.Common().Args
			if len(args) == 0 {
				return
			}

			if _, isStr := constString(args[0]); isStr {
				return
			}

			if b := args[0].Type().Underlying().String(); b != "string" {
				return
			}

			key := fnKey(fn) + "|" + id
			ok := derivesFrom(args[0], func(s ssa.Value) bool {
				c, isCall := s.(*ssa.Call)

				return isCall && calleeFunction(c.Common()) == norm
			}, nil)

			direct := false
			if c, isCall := resolveLocal(args[0]).(*ssa.Call); isCall && calleeFunction(c.Common()) == norm {
				direct = true
			}

			if ok && direct {
				r.Discharge("R-C39-3", key, w.pos(ci.Pos()), "path is the result of normalizeAssetPath")
			} else {
				r.Violate("R-C39-3", key, w.pos(ci.Pos()), "a file-system call in the asset server uses a path that is not (exactly) the result of normalizeAssetPath: the containment check is bypassed")
			}
		})
	}

	// normalizeAssetPath's returns
	cuts := cutEdges(norm, func(f Fact) bool {
		c, ok := f.V.(*ssa.Call)

		return ok && f.Kind == "true" && callID(c.Common()) == "strings.HasPrefix"
	})

	var prefixCall *ssa.Call

	allInstrs(norm, func(in ssa.Instruction) {
		if c, ok := in.(*ssa.Call); ok && callID(c.Common()) == "strings.HasPrefix" {
			prefixCall = c
		}
	})

	key := "assets.normalizeAssetPath|return-behind-containment"

	if prefixCall == nil || len(cuts) == 0 {
		r.Violate("R-C39-3", key, w.pos(norm.Pos()), "normalizeAssetPath has no HasPrefix containment test")

		return
	}

	// the prefix must be root + separator (not just root: /lib vs /libx)
	pre := prefixCall.Call.Args[1]
	if bo, ok := pre.(*ssa.BinOp); !ok || bo.Op != token.ADD {
		r.Violate("R-C39-3", "assets.normalizeAssetPath|prefix-has-separator", w.pos(prefixCall.Pos()), "the containment prefix is not root+separator: a sibling directory sharing the root's name as a prefix would pass")
	} else {
		r.Discharge("R-C39-3", "assets.normalizeAssetPath|prefix-has-separator", w.pos(prefixCall.Pos()), "prefix is root + separator")
	}

	reachable := reach(norm.Blocks[0], cuts, nil)
	bad := ""

	for _, ret := range returnsOf(norm) {
		v := retResult(ret, 0)
		// placeholder: Join(root, "__invalid__")
		if c, ok := v.(*ssa.Call); ok && callID(c.Common()) == "path/filepath.Join" {
			isPlaceholder := false

			for _, a := range c.Call.Args {
				if sl, ok := a.(*ssa.Slice); ok {
					_ = sl
				}
			}

			allInstrs(norm, func(in ssa.Instruction) {
				if st, ok := in.(*ssa.Store); ok {
					if s, isC := constString(st.Val); isC && strings.Contains(s, "invalid") {
						isPlaceholder = true
					}
				}
			})

			if isPlaceholder && !sameSliceValue(v, prefixCall.Call.Args[0]) {
				continue
			}
		}

		if reachable[ret.Block()] {
			bad = w.pos(ret.Pos())
		}
	}

	if bad != "" {
		r.Violate("R-C39-3", key, bad, "the joined path is returned without having passed the containment test")
	} else {
		r.Discharge("R-C39-3", key, w.pos(norm.Pos()), "joined path returned only behind HasPrefix(fn, root+separator)")
	}
}

// c39CacheKey: R-C39-4. The asset cache is consulted before the disk, so the
// cache key has to determine the file: two request paths that name different
// files must not share a key. normalizeCachePath may only add a constant in
// front of (or behind) the path it is given, or return it unchanged; anything
// that maps several paths to one (case folding, cleaning, trimming) lets the
// bytes of the file served first answer for the others -- also for names with
// no file behind them.
func c39CacheKey(w *World, r *Report) {
	r.Rule("R-C39-4", "the asset cache key determines the file: every value normalizeCachePath returns is its parameter, or a constant concatenated with its parameter (an injective normalisation)", 1)

	ap := w.pkg("internal/server/assets")
	if ap == nil {
		return
	}

	fn := w.ssaFunc(ap, "normalizeCachePath")
	if fn == nil {
		r.Anchor("R-C39-4", "assets.normalizeCachePath")

		return
	}

	if len(fn.Params) != 1 {
		r.Violate("R-C39-4", "assets.normalizeCachePath|key is injective", w.pos(fn.Pos()), "normalizeCachePath no longer takes exactly the request path")

		return
	}

	param := ssa.Value(fn.Params[0])

	var injective func(v ssa.Value, depth int) bool

	injective = func(v ssa.Value, depth int) bool {
		if depth > 6 {
			return false
		}

		if v == param {
			return true
		}

		switch x := v.(type) {
		case *ssa.Phi:
			for _, e := range x.Edges {
				if !injective(e, depth+1) {
					return false
				}
			}

			return true
		case *ssa.BinOp:
			if x.Op != token.ADD {
				return false
			}

			_, cx := constString(x.X)
			_, cy := constString(x.Y)

			return (cx && injective(x.Y, depth+1)) || (cy && injective(x.X, depth+1))
		}

		return false
	}

	bad := ""

	for _, ret := range returnsOf(fn) {
		if !injective(retResult(ret, 0), 0) {
			bad = w.pos(ret.Pos())
		}
	}

	key := "assets.normalizeCachePath|key is injective"
	if bad != "" {
		r.Violate("R-C39-4", key, bad, "the cache key is computed from the request path by something that can map different paths to one key: once one of them has been served, the others are answered from the cache with its bytes and status 200, without the disk being asked")
	} else {
		r.Discharge("R-C39-4", key, w.pos(fn.Pos()), "parameter, or constant + parameter")
	}
}
