package main

import (
	"go/token"
	"go/types"

	"golang.org/x/tools/go/ssa"
)

// R-C03-5: data.IsNumeric gives one answer for a numeric type, whether it is
// asked about a value of the type or about the type itself.
//
// The callers that decide whether an untyped constant may adapt to a declared
// type in strict mode (Coerce, argument checking, struct field stores) ask
// IsNumeric about a *data.Type; the arithmetic asks it about values. If the
// list of kinds in the *Type branch is shorter than the list of value types, an
// untyped constant adapts to an int32 parameter and is refused by an int8 one.
func c03IsNumericAgrees(w *World, r *Report) {
	r.Rule("R-C03-5", "data.IsNumeric answers alike for values and for types: every Go type its value case accepts has its kind among the kinds its *Type case compares against", 14)

	dp := w.pkg("internal/language/data")
	if dp == nil {
		return
	}

	fn := w.ssaFunc(dp, "IsNumeric")
	if fn == nil {
		r.Anchor("R-C03-5", "data.IsNumeric")

		return
	}

	kindOf := map[types.BasicKind]string{
		types.Int8: "Int8Kind", types.Int16: "Int16Kind", types.Uint16: "UInt16Kind", types.Int32: "Int32Kind", types.Uint32: "UInt32Kind",
		types.Int: "IntKind", types.Uint: "UIntKind", types.Int64: "Int64Kind", types.Uint64: "UInt64Kind", types.Uint8: "ByteKind",
		types.Float32: "Float32Kind", types.Float64: "Float64Kind", types.Complex64: "Complex64Kind", types.Complex128: "Complex128Kind",
	}

	// value types accepted
	var accepted []*types.Basic

	// kinds compared
	compared := map[int64]bool{}

	allInstrs(fn, func(in ssa.Instruction) {
		switch x := in.(type) {
		case *ssa.TypeAssert:
			if b, ok := x.AssertedType.(*types.Basic); ok && x.CommaOk {
				if _, known := kindOf[b.Kind()]; known {
					accepted = append(accepted, b)
				}
			}
		case *ssa.BinOp:
			if x.Op != token.EQL {
				return
			}

			if isFieldNamed(x.X, "kind") {
				if k, ok := constInt(x.Y); ok {
					compared[k] = true
				}
			} else if isFieldNamed(x.Y, "kind") {
				if k, ok := constInt(x.X); ok {
					compared[k] = true
				}
			}
		}
	})

	if len(accepted) == 0 || len(compared) == 0 {
		r.Anchor("R-C03-5", "the value case and the *Type case of data.IsNumeric")

		return
	}

	for _, b := range accepted {
		name := kindOf[b.Kind()]
		key := "data.IsNumeric|" + b.Name() + " and " + name

		k := lookupConstInt(dp, name)
		if k == nil {
			r.Anchor("R-C03-5", "data."+name)

			continue
		}

		if compared[*k] {
			r.Discharge("R-C03-5", key, w.pos(fn.Pos()), "the kind is among those the *Type case accepts")
		} else {
			r.Violate("R-C03-5", key, w.pos(fn.Pos()), "IsNumeric accepts a value of type "+b.Name()+" but not the type itself ("+name+" is missing from the *Type case): in strict mode an untyped constant adapts to the other numeric types and is refused where "+b.Name()+" is declared (`func f(x "+b.Name()+")`; f(3) is an \"incorrect function argument type\")")
		}
	}
}
