package main

import (
	"go/constant"
	"go/types"
	"regexp"
	"sort"
	"strings"

	"golang.org/x/tools/go/packages"
	"golang.org/x/tools/go/ssa"
)

// C44 Stored secrets never appear in responses.

func init() {
	register(&propertyCheck{
		id: "C44", level: "other", needs: loadNeeds{ssa: true},
		decides: "the structural discipline that keeps stored secrets out of response bodies: every settings value that reaches a response under a request- or table-driven name passes one shared secret-name predicate, and that predicate is true for every setting constant classified as secret (a new constant that looks like a secret must be classified); " +
			"every response payload (util.WriteJSON) whose static type contains a secret-bearing field (User.Password, DSN password fields, OAuth client secret fields) has that field overwritten with a constant on every path between the point where real data enters the value and the write, or is built field by field without it; " +
			"the settings table that Ego code may not read covers every secret setting; the clear-text DSN password is followed across calls and reaches no error value and no response, and the connection string built from it is returned only after url.Parse accepted it.",
		misses: "secrets in log text, secrets an Ego-language service computes itself, responses written with w.Write from pre-encoded bytes other than through util.ErrorResponse, what a database driver puts in its errors for a connection string that parses.",
		run:    runC44,
	})
}

// Settings constants (by name in internal/defs) that hold secrets.
var c44SecretSettings = map[string]string{
	"ServerTokenKeySetting":    "key used to encrypt and sign native bearer tokens",
	"LogonTokenSetting":        "logon token held in the configuration",
	"LogonRefreshTokenSetting": "refresh token held in the configuration",
	"OAuthClientSecretSetting": "OAuth client secret",
	"LogonUserdataKeySetting":  "encryption key of the user database",
	"DefaultCredentialSetting": "default user:password credential",
}

// Constants whose value looks like a secret name but is not one.
var c44NotSecret = map[string]string{
	"PlaintextPasswordSetting":     "boolean switch, not a password",
	"LogonTokenExpirationSetting":  "a duration",
	"ServerTokenExpirationSetting": "a duration",
	"OAuthASTokenExpirationSetting": "a duration",
	"OAuthASKeyFileSetting":        "path of the key file, not the key",
	"WebAuthnAllowPasskeysSetting": "boolean switch",
	"ConfigKeyPrefix":              "prefix",
}

var secretLooking = regexp.MustCompile(`(token$|\.key$|secret|password|credential)`)

// Secret-bearing struct fields: type (package-relative) -> fields. Filled on
// every run by discoverSecretFields: every field with one of these names in a
// struct declared in the data-definition and server packages, except the
// request-only types listed below.
var c44SecretFields = map[string][]string{}

var c44SecretFieldNames = map[string]bool{"Password": true, "ClientSecret": true, "ClientSecretHash": true, "PrivateKey": true, "TokenKey": true}

var c44RequestOnlyTypes = map[string]string{
	"internal/defs.Credentials":      "logon request body: carries what the client typed, never a stored value",
	"internal/defs.DSNUpdateRequest": "update request body: carries what the client sent",
}

func discoverSecretFields(w *World, r *Report) {
	c44SecretFields = map[string][]string{}

	for _, p := range w.pkgsUnder("internal/defs", "internal/server", "internal/dsns", "internal/router") {
		scope := p.Types.Scope()
		for _, name := range scope.Names() {
			tn, ok := scope.Lookup(name).(*types.TypeName)
			if !ok {
				continue
			}

			st, ok := tn.Type().Underlying().(*types.Struct)
			if !ok {
				continue
			}

			id := strings.TrimPrefix(strings.TrimPrefix(p.PkgPath, modPath), "/") + "." + name

			for i := 0; i < st.NumFields(); i++ {
				if c44SecretFieldNames[st.Field(i).Name()] {
					if why, skip := c44RequestOnlyTypes[id]; skip {
						r.Info("R-C44-3", "type|"+id+"."+st.Field(i).Name(), w.pos(st.Field(i).Pos()), "not treated as a stored secret: "+why)

						continue
					}

					c44SecretFields[id] = append(c44SecretFields[id], st.Field(i).Name())
				}
			}
		}
	}

	r.Unit("secret_bearing_types", sortedKeys(c44SecretFields))
}

func runC44(w *World, r *Report) {
	r.Rule("R-C44-1", "every settings.Get whose key is not a compile-time constant and whose result can reach a response payload is reachable only through the false edge of the shared secret-name predicate applied to that key; constant keys that reach a response are not secret settings", 2)
	r.Rule("R-C44-2", "the secret-name predicate is true for every setting constant classified as secret; every defs setting constant whose value looks like a secret name is classified", 7)
	r.Rule("R-C44-3", "every util.WriteJSON payload whose type contains a secret-bearing field has that field overwritten by a constant on every path from the entry of real data to the write", 8)
	r.Rule("R-C44-4", "no value loaded from a secret-bearing field (User.Password, DSN passwords, OAuth client secrets) flows into a response sink (util.WriteJSON payload, json.Encoder.Encode on the response writer, json.Marshal) in the server and router packages", 3)

	discoverSecretFields(w, r)

	if len(c44SecretFields) < 4 {
		r.Anchor("R-C44-3", "secret-bearing struct fields (Password / ClientSecret ...) in defs and server packages")
	}

	defs := w.pkg("internal/defs")
	if defs == nil {
		r.Anchor("R-C44-2", "package internal/defs")

		return
	}

	serverPkgs := w.pkgsUnder("internal/server", "internal/router")

	// ---- the predicate(s)
	type predicate struct {
		fn    *ssa.Function
		list  []string
		subs  []string
		lower bool
	}

	var preds []*predicate

	for _, p := range serverPkgs {
		for _, fn := range w.srcFuncs(p) {
			sig := fn.Signature
			if fn.Parent() != nil || sig.Params().Len() != 1 || sig.Results().Len() != 1 ||
				!types.Identical(sig.Params().At(0).Type(), types.Typ[types.String]) || !types.Identical(sig.Results().At(0).Type(), types.Typ[types.Bool]) {
				continue
			}

			pr := &predicate{fn: fn}

			allInstrs(fn, func(in ssa.Instruction) {
				c, ok := in.(*ssa.Call)
				if !ok {
					return
				}

				switch callID(c.Common()) {
				case "internal/util.InList", "internal/util.InListInsensitive":
					// variadic list: constant stores into the backing array
					if sl, ok := c.Call.Args[1].(*ssa.Slice); ok {
						allInstrs(fn, func(in2 ssa.Instruction) {
							if st, ok := in2.(*ssa.Store); ok {
								if ia, ok := st.Addr.(*ssa.IndexAddr); ok && ia.X == sl.X {
									if s, isC := constString(st.Val); isC {
										pr.list = append(pr.list, s)
									}
								}
							}
						})
					}
				case "strings.Contains":
					if s, isC := constString(c.Call.Args[1]); isC {
						pr.subs = append(pr.subs, s)
					}
				case "strings.ToLower":
					pr.lower = true
				}
			})

			if len(pr.list) > 0 && strings.Contains(strings.ToLower(fn.Name()), "secret") {
				preds = append(preds, pr)
			}
		}
	}

	if len(preds) == 0 {
		r.Violate("R-C44-1", "admin|secret-predicate", "", "no shared secret-name predicate (func(string) bool built from util.InList / strings.Contains) found in the server packages: each endpoint elides its own ad-hoc list")
	}

	evalPred := func(name string) bool {
		for _, pr := range preds {
			for _, l := range pr.list {
				if strings.EqualFold(l, name) {
					return true
				}
			}

			n := name
			if pr.lower {
				n = strings.ToLower(n)
			}

			for _, s := range pr.subs {
				if strings.Contains(n, s) {
					return true
				}
			}
		}

		return false
	}

	// ---- R-C44-2
	secretValues := map[string]string{}

	scope := defs.Types.Scope()
	for _, name := range scope.Names() {
		c, ok := scope.Lookup(name).(*types.Const)
		if !ok || c.Val().Kind() != constant.String || !strings.HasSuffix(name, "Setting") {
			continue
		}

		val := constant.StringVal(c.Val())
		key := "defs." + name

		if why, isSecret := c44SecretSettings[name]; isSecret {
			secretValues[val] = name

			if evalPred(val) {
				r.Discharge("R-C44-2", key, w.pos(c.Pos()), "secret ("+why+"); predicate true for "+val)
			} else {
				r.Violate("R-C44-2", key, w.pos(c.Pos()), "setting "+val+" holds a secret ("+why+") but the elision predicate is false for it: its value is returned by the configuration endpoints")
			}

			continue
		}

		if secretLooking.MatchString(val) {
			if why, ok := c44NotSecret[name]; ok {
				r.Except("R-C44-2", key, w.pos(c.Pos()), "looks like a secret name but is not: "+why)
			} else {
				r.Violate("R-C44-2", key, w.pos(c.Pos()), "setting "+val+" looks like it holds a secret but is not classified in the checker's table (secret / not secret)")
			}
		}
	}

	for name := range c44SecretSettings {
		if scope.Lookup(name) == nil {
			r.Anchor("R-C44-2", "defs."+name)
		}
	}

	// ---- R-C44-1
	isPredCall := func(v ssa.Value) *ssa.Call {
		c, ok := v.(*ssa.Call)
		if !ok {
			return nil
		}

		for _, pr := range preds {
			if calleeFunction(c.Common()) == pr.fn {
				return c
			}
		}

		return nil
	}

	for _, p := range serverPkgs {
		for _, fn := range w.srcFuncs(p) {
			var writes []*ssa.Call

			var gets []*ssa.Call

			allInstrs(fn, func(in ssa.Instruction) {
				if c, ok := in.(*ssa.Call); ok {
					switch callID(c.Common()) {
					case "internal/util.WriteJSON":
						writes = append(writes, c)
					case "internal/cli/settings.Get":
						gets = append(gets, c)
					}
				}
			})

			if len(writes) == 0 {
				continue
			}

			for _, g := range gets {
				fl := flowForward(fn, []ssa.Value{g}, flowOpts{})
				reaches := false

				for _, wr := range writes {
					if fl.has(wr.Call.Args[3]) {
						reaches = true
					}
				}

				if !reaches {
					continue
				}

				k := g.Call.Args[0]
				if s, isC := constString(k); isC {
					key := fnKey(fn) + "|settings.Get(" + s + ")→response"
					if name, bad := secretValues[s]; bad {
						r.Violate("R-C44-1", key, w.pos(g.Pos()), "the secret setting "+name+" is read into a response payload")
					} else {
						r.Discharge("R-C44-1", key, w.pos(g.Pos()), "constant key, not a secret setting")
					}

					continue
				}

				key := fnKey(fn) + "|settings.Get(dynamic)→response"
				cuts := cutEdges(fn, func(f Fact) bool {
					if f.Kind != "false" {
						return false
					}

					pc := isPredCall(f.V)

					return pc != nil && sameSliceValue(pc.Call.Args[0], k)
				})

				if len(cuts) == 0 || instrReachableAfterCut(fn, g, cuts) {
					r.Violate("R-C44-1", key, w.pos(g.Pos()), "a setting chosen by name at run time is copied into the response without passing the shared secret-name predicate: any secret setting can be read by asking for it")
				} else {
					r.Discharge("R-C44-1", key, w.pos(g.Pos()), "reachable only when "+preds[0].fn.Name()+"(key) is false")
				}
			}
		}
	}

	c44Payloads(w, r, serverPkgs)
	c44SecretLoads(w, r, serverPkgs)
	c44Restricted(w, r, defs)
	c44ClearText(w, r)
	c44SettingsLog(w, r, defs)
}

// c44SecretLoads: R-C44-4.
func c44SecretLoads(w *World, r *Report, pkgs []*packages.Package) {
	isSecretFieldSel := func(v ssa.Value) (string, bool) {
		var base types.Type

		idx := -1

		switch x := v.(type) {
		case *ssa.FieldAddr:
			base, idx = x.X.Type(), x.Field
		case *ssa.Field:
			base, idx = x.X.Type(), x.Field
		default:
			return "", false
		}

		n := namedOf(base)
		if n == nil || n.Obj().Pkg() == nil {
			return "", false
		}

		id := strings.TrimPrefix(strings.TrimPrefix(n.Obj().Pkg().Path(), modPath), "/") + "." + n.Obj().Name()
		for _, f := range c44SecretFields[id] {
			if fieldName(base, idx) == f {
				return n.Obj().Name() + "." + f, true
			}
		}

		return "", false
	}

	for _, p := range pkgs {
		for _, fn := range w.srcFuncs(p) {
			// sinks
			type sink struct {
				at      ssa.Instruction
				payload ssa.Value
				name    string
			}

			var sinks []sink

			allInstrs(fn, func(in ssa.Instruction) {
				c, ok := in.(*ssa.Call)
				if !ok {
					return
				}

				switch callID(c.Common()) {
				case "internal/util.WriteJSON":
					sinks = append(sinks, sink{in, c.Call.Args[3], "util.WriteJSON"})
				case "encoding/json.Encoder.Encode":
					sinks = append(sinks, sink{in, c.Call.Args[1], "json.Encoder.Encode"})
				case "encoding/json.Marshal", "encoding/json.MarshalIndent":
					sinks = append(sinks, sink{in, c.Call.Args[0], "json.Marshal"})
				}
			})

			if len(sinks) == 0 {
				continue
			}

			// seeds: reads of secret fields (a FieldAddr used only as a store address is not a read)
			type seed struct {
				v    ssa.Value
				name string
			}

			var seeds []seed

			allInstrs(fn, func(in ssa.Instruction) {
				v, ok := in.(ssa.Value)
				if !ok {
					return
				}

				name, isSel := isSecretFieldSel(v)
				if !isSel {
					return
				}

				if fa, isFA := v.(*ssa.FieldAddr); isFA {
					read := false

					if fa.Referrers() != nil {
						for _, ref := range *fa.Referrers() {
							if st, isStore := ref.(*ssa.Store); isStore && st.Addr == ssa.Value(fa) {
								continue
							}

							read = true
						}
					}

					if !read {
						return
					}
				}

				seeds = append(seeds, seed{v, name})
			})

			for _, sd := range seeds {
				fl := flowForward(fn, []ssa.Value{sd.v}, flowOpts{
					blockStore: func(addr ssa.Value) bool {
						_, sel := isSecretFieldSel(addr)

						return sel // writing a secret field of a record is judged by R-C44-3
					},
					cleanScalars: true,
				})

				key := fnKey(fn) + "|read " + sd.name
				bad := ""

				for _, sk := range sinks {
					if fl.has(sk.payload) {
						bad = sk.name + " at " + w.pos(sk.at.Pos())
					}
				}

				if bad != "" {
					r.Violate("R-C44-4", key, w.pos(sd.v.Pos()), "the stored secret "+sd.name+" is read here and its value reaches "+bad)
				} else {
					r.Discharge("R-C44-4", key, w.pos(sd.v.Pos()), "does not reach a response sink")
				}
			}
		}
	}
}

// secretPaths lists the secret-bearing named struct types reachable in t.
func secretTypesIn(t types.Type, seen map[types.Type]bool, out map[*types.Named][]string) {
	t = types.Unalias(t)
	if seen[t] {
		return
	}

	seen[t] = true

	if n, ok := t.(*types.Named); ok && n.Obj().Pkg() != nil {
		id := strings.TrimPrefix(strings.TrimPrefix(n.Obj().Pkg().Path(), modPath), "/") + "." + n.Obj().Name()
		if f, ok := c44SecretFields[id]; ok {
			out[n] = f
		}
	}

	switch u := t.Underlying().(type) {
	case *types.Pointer:
		secretTypesIn(u.Elem(), seen, out)
	case *types.Slice:
		secretTypesIn(u.Elem(), seen, out)
	case *types.Array:
		secretTypesIn(u.Elem(), seen, out)
	case *types.Map:
		secretTypesIn(u.Elem(), seen, out)
	case *types.Struct:
		for i := 0; i < u.NumFields(); i++ {
			secretTypesIn(u.Field(i).Type(), seen, out)
		}
	}
}

func c44Payloads(w *World, r *Report, pkgs []*packages.Package) {
	nSites, nSecret := 0, 0

	for _, p := range pkgs {
		for _, fn := range w.srcFuncs(p) {
			allInstrs(fn, func(in ssa.Instruction) {
				wr, ok := in.(*ssa.Call)
				if !ok || callID(wr.Common()) != "internal/util.WriteJSON" {
					return
				}

				nSites++

				payload := wr.Call.Args[3]

				mi, ok := payload.(*ssa.MakeInterface)
				if !ok {
					return
				}

				st := map[*types.Named][]string{}
				secretTypesIn(mi.X.Type(), map[types.Type]bool{}, st)

				if len(st) == 0 {
					return
				}

				nSecret++

				var names []string
				for n := range st {
					names = append(names, n.Obj().Name())
				}

				sort.Strings(names)

				c44CheckPayload(w, r, fn, wr, mi.X, st, strings.Join(names, ","))
			})
		}
	}

	r.Unit("writejson_sites", nSites)
	r.Unit("writejson_sites_with_secret_bearing_payload", nSecret)
}

// c44CheckPayload: every value of a secret-bearing type T that can flow into
// the payload must have each secret field overwritten by a constant after real
// data last entered it and before the write.
func c44CheckPayload(w *World, r *Report, fn *ssa.Function, wr *ssa.Call, payload ssa.Value, st map[*types.Named][]string, tnames string) {
	// candidate holders: local cells (Allocs) of type T or []T elements built
	// in this function, and call results carrying T.
	type holder struct {
		cell *ssa.Alloc
		t    *types.Named
	}

	var holders []holder

	var external []ssa.Value // call results / parameters whose type carries T

	carries := func(t types.Type) *types.Named {
		m := map[*types.Named][]string{}
		secretTypesIn(t, map[types.Type]bool{}, m)

		for n := range m {
			return n
		}

		return nil
	}

	allInstrs(fn, func(in ssa.Instruction) {
		switch x := in.(type) {
		case *ssa.Alloc:
			if n := namedOf(x.Type().(*types.Pointer).Elem()); n != nil && st[n] != nil {
				holders = append(holders, holder{x, n})
			}
		case *ssa.Call:
			if callID(x.Common()) == "internal/util.WriteJSON" {
				return
			}

			if x.Type() != nil && carries(x.Type()) != nil {
				external = append(external, x)
			}
		case *ssa.Extract:
			if carries(x.Type()) != nil {
				external = append(external, x)
			}
		case *ssa.UnOp:
			// load through a pointer obtained elsewhere (e.g. *userPtr)
			if _, isAlloc := x.X.(*ssa.Alloc); !isAlloc && carries(x.Type()) != nil {
				if _, isFA := x.X.(*ssa.FieldAddr); !isFA {
					if _, isIA := x.X.(*ssa.IndexAddr); !isIA {
						external = append(external, x)
					}
				}
			}
		}
	})

	for _, p := range fn.Params {
		if carries(p.Type()) != nil {
			external = append(external, p)
		}
	}

	fk := fnKey(fn)
	// field-sensitive: selecting a non-secret field of a secret-bearing struct
	// does not carry the secret
	nonSecretField := func(v ssa.Value) bool {
		var base types.Type

		idx := -1

		switch x := v.(type) {
		case *ssa.FieldAddr:
			base, idx = x.X.Type(), x.Field
		case *ssa.Field:
			base, idx = x.X.Type(), x.Field
		default:
			return false
		}

		n := namedOf(base)
		if n == nil {
			return false
		}

		m := map[*types.Named][]string{}
		secretTypesIn(n, map[types.Type]bool{}, m)

		secret, isSecretType := m[n]
		if !isSecretType {
			return false
		}

		fname := fieldName(base, idx)
		for _, f := range secret {
			if f == fname {
				return false
			}
		}

		// a field that itself contains a secret-bearing type still carries it
		if st, ok := n.Underlying().(*types.Struct); ok && idx < st.NumFields() {
			if carries(st.Field(idx).Type()) != nil {
				return false
			}
		}

		return true
	}

	flowsToPayload := func(v ssa.Value) bool {
		return flowForward(fn, []ssa.Value{v}, flowOpts{sanitized: nonSecretField}).has(payload)
	}

	// 1. external values that reach the payload without going through a local holder
	isHolderAddr := func(addr ssa.Value) bool {
		root := addrRoot(addr)
		for _, h := range holders {
			if root == ssa.Value(h.cell) {
				return true
			}
		}

		return false
	}

	for _, ev := range external {
		// flows into the payload by a route other than being stored into a
		// holder cell (those are judged per field below)
		if !flowForward(fn, []ssa.Value{ev}, flowOpts{sanitized: nonSecretField, blockStore: isHolderAddr}).has(payload) {
			continue
		}

		// passing it through an eliding helper is also fine: a call that
		// takes it and whose result is what flows on is checked as external itself
		key := fk + "|payload(" + tnames + ")←" + valueName(ev)

		if producerElides(w, ev) {
			r.Discharge("R-C44-3", key, w.pos(wr.Pos()), "produced by a function that overwrites the secret field with a constant before returning")

			continue
		}

		r.Violate("R-C44-3", key, w.pos(wr.Pos()), "a value of a secret-bearing type ("+tnames+") obtained from "+valueName(ev)+" flows into the response without its secret field being overwritten in this function")
	}

	// 2. local holders
	for _, h := range holders {
		if !flowsToPayload(h.cell) {
			continue
		}

		for _, field := range st[h.t] {
			key := fk + "|" + h.t.Obj().Name() + "." + field + " in " + h.cell.Comment

			// taint points: stores of non-constant data into the whole cell or into the field
			var taints []ssa.Instruction

			isElide := func(in ssa.Instruction) bool {
				s, ok := in.(*ssa.Store)
				if !ok {
					return false
				}

				fa, ok := s.Addr.(*ssa.FieldAddr)
				if !ok || fa.X != ssa.Value(h.cell) || fieldName(fa.X.Type(), fa.Field) != field {
					return false
				}

				_, isC := s.Val.(*ssa.Const)

				return isC
			}

			allInstrs(fn, func(in ssa.Instruction) {
				s, ok := in.(*ssa.Store)
				if !ok {
					return
				}

				if s.Addr == ssa.Value(h.cell) {
					if _, isC := s.Val.(*ssa.Const); !isC {
						taints = append(taints, in)
					}

					return
				}

				if fa, ok := s.Addr.(*ssa.FieldAddr); ok && fa.X == ssa.Value(h.cell) && fieldName(fa.X.Type(), fa.Field) == field {
					if _, isC := s.Val.(*ssa.Const); !isC {
						taints = append(taints, in)
					}
				}
			})

			// calls that receive the cell's address may fill it (json decode, Scan)
			allInstrs(fn, func(in ssa.Instruction) {
				if c, ok := in.(*ssa.Call); ok && c != wr {
					for _, a := range callArgs(c.Common()) {
						if stripValue(a) == ssa.Value(h.cell) {
							taints = append(taints, in)
						}
					}
				}
			})

			bad := ""

			for _, t := range taints {
				if esc := pathAvoiding(t, nil, isElide, func(i ssa.Instruction) bool { return i == ssa.Instruction(wr) }); esc != nil {
					bad = w.pos(t.Pos())
				}
			}

			if bad != "" {
				r.Violate("R-C44-3", key, w.pos(wr.Pos()), "real data enters "+h.cell.Comment+" at "+bad+" and reaches the response write without "+field+" being overwritten by a constant on every path")
			} else {
				how := "built without the field"
				if len(taints) > 0 {
					how = "overwritten by a constant on every path to the write"
				}

				r.Discharge("R-C44-3", key, w.pos(wr.Pos()), how)
			}
		}
	}
}

// producerElides: v is the result of a call to a repository function whose
// body stores a constant into a secret field (it returns sanitized copies).
func producerElides(w *World, v ssa.Value) bool {
	c, _ := resultOf(v)
	if c == nil {
		return false
	}

	if c.Call.IsInvoke() {
		// every implementation of the interface method in the repository must elide
		n, all := 0, true

		for _, p := range w.pkgs {
			for _, f := range w.srcFuncs(p) {
				if f.Name() != c.Call.Method.Name() || f.Signature.Recv() == nil || f.Parent() != nil {
					continue
				}

				if !types.Identical(types.NewSignatureType(nil, nil, nil, f.Signature.Params(), f.Signature.Results(), f.Signature.Variadic()), c.Call.Method.Type().(*types.Signature)) {
					continue
				}

				n++

				if !functionElides(f) {
					all = false
				}
			}
		}

		return n > 0 && all
	}

	cf := calleeFunction(c.Common())
	if cf == nil || cf.Blocks == nil {
		return false
	}

	return functionElides(cf)
}

func functionElides(cf *ssa.Function) bool {
	found := false

	allInstrs(cf, func(in ssa.Instruction) {
		s, ok := in.(*ssa.Store)
		if !ok {
			return
		}

		fa, ok := s.Addr.(*ssa.FieldAddr)
		if !ok {
			return
		}

		n := namedOf(fa.X.Type())
		if n == nil || n.Obj().Pkg() == nil {
			return
		}

		id := strings.TrimPrefix(strings.TrimPrefix(n.Obj().Pkg().Path(), modPath), "/") + "." + n.Obj().Name()
		for _, f := range c44SecretFields[id] {
			if fieldName(fa.X.Type(), fa.Field) == f {
				if _, isC := s.Val.(*ssa.Const); isC {
					found = true
				}
			}
		}
	})

	return found
}
