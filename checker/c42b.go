package main

import (
	"strings"

	"golang.org/x/tools/go/ssa"
)

// c42ScopeOnlyOnClones: R-C42-6. A compiled function literal is an operand of
// an instruction in bytecode that the service cache hands to every request.
// The scope a closure captures belongs to one execution; it may be written onto
// a clone of the literal made by that execution, never onto the compiled one.
func c42ScopeOnlyOnClones(w *World, r *Report) {
	r.Rule("R-C42-6", "a captured scope is written only onto a clone: every store to ByteCode.capturedScope outside its setter, and every call of ByteCode.CaptureScope, in the interpreter packages has as its target a value that comes from ByteCode.Clone() in the same function", 1)

	isClone := func(v ssa.Value) bool {
		c, ok := v.(*ssa.Call)

		return ok && strings.HasSuffix(callID(c.Common()), "bytecode.ByteCode.Clone")
	}

	for _, p := range w.pkgsUnder("internal/language") {
		for _, fn := range w.srcFuncs(p) {
			if strings.HasSuffix(fnKey(fn), "ByteCode.CaptureScope") || strings.HasSuffix(fnKey(fn), "ByteCode.Clone") {
				continue
			}

			allInstrs(fn, func(in ssa.Instruction) {
				var target ssa.Value

				switch x := in.(type) {
				case *ssa.Store:
					if fa, ok := x.Addr.(*ssa.FieldAddr); ok && fieldName(fa.X.Type(), fa.Field) == "capturedScope" && strings.HasSuffix(strings.TrimPrefix(fa.X.Type().String(), "*"), "bytecode.ByteCode") {
						target = fa.X
					}
				case *ssa.Call:
					if strings.HasSuffix(callID(x.Common()), "bytecode.ByteCode.CaptureScope") {
						target = callArgs(x.Common())[0]
					}
				}

				if target == nil {
					return
				}

				key := fnKey(fn) + "|scope captured on a clone"

				if derivesFrom(target, isClone, nil) {
					r.Discharge("R-C42-6", key, w.pos(in.Pos()), "")
				} else {
					r.Violate("R-C42-6", key, w.pos(in.Pos()), "the scope of one execution is written onto a function literal that is not a clone made by this execution: the literal is an operand inside the cached service bytecode that every request runs, so a concurrent request replaces the scope between this request's declaration and its call, and the closure reads the other request's locals")
				}
			})
		}
	}
}
