package main

import (
	"go/token"
	"strings"

	"golang.org/x/tools/go/ssa"
)

// C25 Passwords are accepted exactly when they match.

func init() {
	register(&propertyCheck{
		id: "C25", level: "other", needs: loadNeeds{ssa: true},
		decides: "the shape of auth.ValidatePassword: the boolean it returns is, on every path, constant false or the outcome of bcrypt.CompareHashAndPassword(...) == nil / subtle.ConstantTimeCompare(...) == 1 whose two operands derive from the stored credential and from the presented password respectively; no consistent path returns a possibly-true value for a user that holds neither the logon nor the root permission; " +
			"the credential written back on migration is HashPassword(<the presented password>) and is written only on the comparison's true edge; HashPassword hands bcrypt the whole password (no slicing).",
		misses: "correctness of bcrypt / SHA-256 themselves, case-insensitive lookup in the user stores, agreement between storage back ends (C31).",
		run:    runC25,
	})
}

func runC25(w *World, r *Report) {
	defer c25NoLossyTransform(w, r)

	r.Rule("R-C25-1", "every source (phi leaf) of ValidatePassword's result is constant false or a comparison result of CompareHashAndPassword / ConstantTimeCompare; no constant true", 3)
	r.Rule("R-C25-2", "each comparison takes one operand derived from the stored Password field of the record read from AuthService and the other from the presented password parameter", 2)
	r.Rule("R-C25-3", "path-sensitive: with the edges 'has root permission' and 'has logon permission' removed, no consistent path reaches a return whose value can be true", 1)
	r.Rule("R-C25-4", "migration: the value stored into the record's Password is HashPassword(pass parameter), and WriteUser is reachable only through the comparison's true edge", 2)
	r.Rule("R-C25-5", "HashPassword passes bcrypt.GenerateFromPassword bytes that are a plain conversion of its parameter (no slice, no truncation)", 1)

	ap := w.pkg("internal/server/auth")
	fn := w.ssaFunc(ap, "ValidatePassword")

	if fn == nil {
		r.Anchor("R-C25-1", "auth.ValidatePassword")

		return
	}

	var passParam, userParam *ssa.Parameter

	for _, p := range fn.Params {
		switch p.Name() {
		case "pass":
			passParam = p
		case "user":
			userParam = p
		}
	}

	if passParam == nil || userParam == nil {
		r.Anchor("R-C25-1", "parameters user/pass of ValidatePassword")

		return
	}

	isCompare := func(v ssa.Value) (*ssa.Call, bool) {
		bo, ok := v.(*ssa.BinOp)
		if !ok || bo.Op != token.EQL {
			return nil, false
		}

		c, ok := bo.X.(*ssa.Call)
		if !ok {
			return nil, false
		}

		switch callID(c.Common()) {
		case "golang.org/x/crypto/bcrypt.CompareHashAndPassword":
			return c, isNilConst(bo.Y)
		case "crypto/subtle.ConstantTimeCompare":
			k, isC := constInt(bo.Y)

			return c, isC && k == 1
		}

		return nil, false
	}

	// ---- R-C25-1: leaves of the returned value
	seen := map[ssa.Value]bool{}

	var compares []*ssa.Call

	var rec func(v ssa.Value, at string)

	rec = func(v ssa.Value, at string) {
		if seen[v] {
			return
		}

		seen[v] = true

		switch x := v.(type) {
		case *ssa.Phi:
			for _, e := range x.Edges {
				rec(e, at)
			}

			return
		case *ssa.UnOp:
			if vals, ok := storedValues(x.X); ok && x.Op == token.MUL {
				for _, sv := range vals {
					rec(sv, at)
				}

				return
			}
		case *ssa.Const:
			key := "auth.ValidatePassword|result-source const " + x.String()
			if b, isB := constBool(x); isB && !b {
				r.Discharge("R-C25-1", key, at, "constant false")
			} else {
				r.Violate("R-C25-1", key, at, "ValidatePassword can return the constant true: some credential is accepted without being compared")
			}

			return
		}

		key := "auth.ValidatePassword|result-source " + valueName(v)
		if c, ok := isCompare(v); ok {
			compares = append(compares, c)

			r.Discharge("R-C25-1", key, w.pos(c.Pos()), "outcome of "+lastSeg(callID(c.Common())))
		} else {
			pos := at
			if in, isIn := v.(ssa.Instruction); isIn {
				pos = w.pos(in.Pos())
			}

			r.Violate("R-C25-1", key, pos, "a value that is not the outcome of a credential comparison can become ValidatePassword's result")
		}
	}

	for _, ret := range returnsOf(fn) {
		rec(retResult(ret, 0), w.pos(ret.Pos()))
	}

	// ---- R-C25-2 operand provenance
	fromStored := func(v ssa.Value) bool {
		return derivesFrom(v, func(s ssa.Value) bool { return isFieldNamed(s, "Password") }, func(id string) bool { return true })
	}

	fromPass := func(v ssa.Value) bool {
		return derivesFrom(v, func(s ssa.Value) bool { return s == ssa.Value(passParam) }, func(id string) bool { return true })
	}

	for _, c := range compares {
		key := "auth.ValidatePassword|operands of " + lastSeg(callID(c.Common()))
		a, b := c.Call.Args[0], c.Call.Args[1]

		switch {
		case fromStored(a) && fromPass(b) && !fromPass(a) && !fromStored(b):
			r.Discharge("R-C25-2", key, w.pos(c.Pos()), "stored credential vs presented password")
		case fromStored(b) && fromPass(a) && !fromPass(b) && !fromStored(a):
			r.Discharge("R-C25-2", key, w.pos(c.Pos()), "presented password vs stored credential")
		default:
			r.Violate("R-C25-2", key, w.pos(c.Pos()), "the comparison does not take exactly one operand from the stored credential and the other from the presented password")
		}
	}

	// ---- R-C25-3 permission gate (path-sensitive)
	nPerm := 0

	cuts := cutEdges(fn, func(f Fact) bool {
		if f.Kind != "cmp" {
			return false
		}

		c, ok := f.X.(*ssa.Call)
		if !ok || !strings.HasSuffix(callID(c.Common()), "auth.findPermission") {
			return false
		}

		k, isC := constInt(f.Y)
		if isC && k == 0 && (f.Op == token.GEQ) {
			nPerm++

			return true
		}

		return false
	})

	key3 := "auth.ValidatePassword|permission-gate"

	if nPerm < 2 {
		r.Violate("R-C25-3", key3, w.pos(fn.Pos()), "ValidatePassword does not test both the root and the logon permission")
	} else {
		bad := ""

		walkPaths(fn, cuts, func(b *ssa.BasicBlock, facts pathFacts) bool {
			ret, ok := b.Instrs[len(b.Instrs)-1].(*ssa.Return)
			if !ok {
				return false
			}

			v := retResult(ret, 0)
			if absValue(v, facts) != 'F' {
				// a leaf comparison known false on this path?
				bad = w.pos(ret.Pos())

				return true
			}

			return false
		})

		if bad != "" {
			r.Violate("R-C25-3", key3, bad, "a user holding neither ego.logon nor ego.root can still be reported as authenticated on some path")
		} else {
			r.Discharge("R-C25-3", key3, w.pos(fn.Pos()), "without logon/root every consistent path returns false")
		}
	}

	// ---- R-C25-4 migration
	nStore := 0

	allInstrs(fn, func(in ssa.Instruction) {
		st, ok := in.(*ssa.Store)
		if !ok || !isFieldNamed(st.Addr, "Password") {
			return
		}

		nStore++

		key := "auth.ValidatePassword|migrated credential"
		c, idx := resultOf(st.Val)

		if c == nil || idx != 0 || !strings.HasSuffix(callID(c.Common()), "auth.HashPassword") || stripValue(c.Call.Args[0]) != ssa.Value(passParam) {
			r.Violate("R-C25-4", key, w.pos(in.Pos()), "the credential written back is not HashPassword(<the presented password>): after migration a different password is accepted")
		} else {
			r.Discharge("R-C25-4", key, w.pos(in.Pos()), "HashPassword(pass)")
		}
	})

	if nStore == 0 {
		r.Info("R-C25-4", "auth.ValidatePassword|migrated credential", w.pos(fn.Pos()), "no credential migration in ValidatePassword")
	}

	allInstrs(fn, func(in ssa.Instruction) {
		c, ok := in.(*ssa.Call)
		if !ok || !c.Call.IsInvoke() || c.Call.Method.Name() != "WriteUser" {
			return
		}

		key := "auth.ValidatePassword|WriteUser behind comparison"
		cuts := cutEdges(fn, func(f Fact) bool {
			if f.Kind != "true" {
				return false
			}

			_, isCmp := isCompare(f.V)
			if isCmp {
				return true
			}

			// phi / cell holding a comparison result
			return derivesFrom(f.V, func(s ssa.Value) bool { _, ok := isCompare(s); return ok }, nil)
		})

		if len(cuts) == 0 || instrReachableAfterCut(fn, in, cuts) {
			r.Violate("R-C25-4", key, w.pos(in.Pos()), "the user record is rewritten on a path where the presented password did not match")
		} else {
			r.Discharge("R-C25-4", key, w.pos(in.Pos()), "only on the comparison's true edge")
		}
	})

	// ---- R-C25-5 HashPassword
	hp := w.ssaFunc(ap, "HashPassword")
	if hp == nil {
		r.Anchor("R-C25-5", "auth.HashPassword")

		return
	}

	n := 0

	allInstrs(hp, func(in ssa.Instruction) {
		c, ok := in.(*ssa.Call)
		if !ok || callID(c.Common()) != "golang.org/x/crypto/bcrypt.GenerateFromPassword" {
			return
		}

		n++

		key := "auth.HashPassword|bytes given to bcrypt"
		arg := resolveLocal(c.Call.Args[0])

		cv, isConv := arg.(*ssa.Convert)
		if isConv && len(hp.Params) > 0 && resolveLocal(cv.X) == ssa.Value(hp.Params[0]) {
			r.Discharge("R-C25-5", key, w.pos(c.Pos()), "[]byte(password)")
		} else {
			r.Violate("R-C25-5", key, w.pos(c.Pos()), "bcrypt is not given the whole password (the argument is not a plain conversion of the parameter): passwords sharing the hashed part are all accepted after migration")
		}
	})

	if n == 0 {
		r.Anchor("R-C25-5", "bcrypt.GenerateFromPassword call in HashPassword")
	}
}

// c25NoLossyTransform: R-C25-6.  Credentials are compared byte for byte.  In ValidatePassword
// neither the stored credential nor the presented password may pass through a string function
// that can remove or change characters of the secret itself (cut-set trims, case folding, space
// trimming, replacement).  Removing the fixed {…} wrapper of a legacy plaintext credential is done
// by slicing exactly one character off each end, which the rule allows.
func c25NoLossyTransform(w *World, r *Report) {
	r.Rule("R-C25-6", "ValidatePassword applies no character-removing or character-changing string function (Trim*, ToLower/ToUpper, Replace*, Fields, Title) to the stored credential or to the presented password", 1)

	ap := w.pkg("internal/server/auth")
	if ap == nil {
		return
	}

	fn := w.ssaFunc(ap, "ValidatePassword")
	if fn == nil {
		r.Anchor("R-C25-6", "auth.ValidatePassword")

		return
	}

	lossy := map[string]bool{"strings.Trim": true, "strings.TrimLeft": true, "strings.TrimRight": true, "strings.TrimSpace": true, "strings.TrimFunc": true,
		"strings.ToLower": true, "strings.ToUpper": true, "strings.Title": true, "strings.ToTitle": true, "strings.Replace": true, "strings.ReplaceAll": true,
		"strings.Fields": true, "strings.Map": true, "strings.TrimPrefix": false, "strings.TrimSuffix": false}

	isSecret := func(v ssa.Value) bool {
		return derivesFrom(v, func(s ssa.Value) bool {
			switch x := s.(type) {
			case *ssa.Parameter:
				return x.Name() == "pass"
			case *ssa.FieldAddr:
				return fieldName(x.X.Type(), x.Field) == "Password"
			case *ssa.Field:
				return fieldName(x.X.Type(), x.Field) == "Password"
			}

			return false
		}, func(id string) bool { return strings.HasPrefix(id, "strings.") })
	}

	bad := ""

	allInstrs(fn, func(in ssa.Instruction) {
		c, ok := in.(*ssa.Call)
		if !ok {
			return
		}

		id := callID(c.Common())
		if !lossy[id] || len(c.Call.Args) == 0 {
			return
		}

		if isSecret(c.Call.Args[0]) {
			bad = id + " at " + w.pos(in.Pos())
		}
	})

	key := "auth.ValidatePassword|credentials are not transformed"
	if bad != "" {
		r.Violate("R-C25-6", key, w.pos(fn.Pos()), "a credential passes through "+bad+": characters that belong to the password (a brace, a blank, a letter's case) are removed or changed before the comparison, so a different password is accepted and the right one rejected")
	} else {
		r.Discharge("R-C25-6", key, w.pos(fn.Pos()), "")
	}
}
