package main

import (
	"go/token"
	"go/types"
	"sort"
	"strings"

	"golang.org/x/tools/go/ssa"
)

// Path-sensitive CFG search with a small fact domain.
//
// A path carries facts about SSA values:
//   bool values:            'T' true, 'F' false
//   pointers / interfaces:  'z' nil,  'Z' non-nil
// Facts come from the branches already taken on the path, from constants, and
// from phi inputs along the edge actually taken. A branch that contradicts the
// path's facts is not followed.  The search is bounded by memoising
// (block, facts) states; facts are kept only for values that were branched on
// or that are phis fed by such values.

type pathFacts map[ssa.Value]byte

func (f pathFacts) sig() string {
	parts := make([]string, 0, len(f))
	for v, a := range f {
		parts = append(parts, v.Name()+string(a))
	}

	sort.Strings(parts)

	return strings.Join(parts, ",")
}

func (f pathFacts) with(v ssa.Value, a byte) pathFacts {
	o := make(pathFacts, len(f)+1)
	for k, x := range f {
		o[k] = x
	}

	o[v] = a

	return o
}

// absBool evaluates a value under the path's facts: 'T','F','z','Z' or 0.
func absValue(v ssa.Value, f pathFacts) byte {
	if c, ok := v.(*ssa.Const); ok {
		if c.IsNil() {
			return 'z'
		}

		if b, isB := constBool(c); isB {
			if b {
				return 'T'
			}

			return 'F'
		}
	}

	if a, ok := f[v]; ok {
		return a
	}

	if u, ok := v.(*ssa.UnOp); ok && u.Op == token.NOT {
		switch absValue(u.X, f) {
		case 'T':
			return 'F'
		case 'F':
			return 'T'
		}
	}

	return 0
}

func opposite(a byte) byte {
	switch a {
	case 'T':
		return 'F'
	case 'F':
		return 'T'
	case 'z':
		return 'Z'
	case 'Z':
		return 'z'
	}

	return 0
}

// walkPaths explores consistent paths from the entry of fn that cross no cut
// edge. visit is called on entering each (block, facts) state; returning true
// stops the whole search.
func walkPaths(fn *ssa.Function, cuts map[Edge]bool, visit func(b *ssa.BasicBlock, facts pathFacts) bool) {
	walkPathsOpt(fn, cuts, walkOpts{}, visit)
}

// walkPathsWith is walkPaths with a custom abstract evaluator.
func walkPathsWith(fn *ssa.Function, cuts map[Edge]bool, abs func(v ssa.Value, f pathFacts) byte, visit func(b *ssa.BasicBlock, facts pathFacts) bool) {
	walkPathsOpt(fn, cuts, walkOpts{abs: abs}, visit)
}

type walkOpts struct {
	abs func(v ssa.Value, f pathFacts) byte
	// loops a path may leave through the header only after one iteration
	// (models "the collection ranged over is not empty")
	mustIterate []*loopInfo
	// set to true when the state budget ran out (the search is then incomplete)
	exhausted *bool
}

func walkPathsOpt(fn *ssa.Function, cuts map[Edge]bool, o walkOpts, visit func(b *ssa.BasicBlock, facts pathFacts) bool) {
	abs := o.abs
	if abs == nil {
		abs = absValue
	}

	if len(fn.Blocks) == 0 {
		return
	}

	type key struct {
		b   *ssa.BasicBlock
		sig string
	}

	seen := map[key]bool{}
	stop := false
	budget := 200000
	worthy := factWorthy(fn)

	var walk func(b *ssa.BasicBlock, facts pathFacts)

	walk = func(b *ssa.BasicBlock, facts pathFacts) {
		if stop || budget <= 0 {
			if budget <= 0 && o.exhausted != nil {
				*o.exhausted = true
			}

			return
		}

		budget--

		k := key{b, facts.sig()}
		if seen[k] {
			return
		}

		seen[k] = true

		if visit(b, facts) {
			stop = true

			return
		}

		if len(b.Instrs) == 0 {
			return
		}

		ifi, _ := b.Instrs[len(b.Instrs)-1].(*ssa.If)

		for i, succ := range b.Succs {
			if cuts[Edge{b, i}] {
				continue
			}

			nf := facts
			feasible := true

			for _, li := range o.mustIterate {
				if li.header != b || ifi == nil {
					continue
				}

				marker := ifi.Cond

				if li.body[succ] && succ != b {
					nf = nf.with(marker, 'I')
				} else if facts[marker] != 'I' {
					feasible = false
				}
			}

			if !feasible {
				continue
			}

			if ifi != nil {
				for _, ft := range withCellFacts(edgeFacts(ifi.Cond, i == 0)) {
					var a byte

					switch ft.Kind {
					case "true":
						a = 'T'
					case "false":
						a = 'F'
					case "nil":
						a = 'z'
					case "nonnil":
						a = 'Z'
					default:
						continue
					}

					cur := abs(ft.V, nf)
					if cur != 0 && cur == opposite(a) {
						feasible = false

						break
					}

					if cur == 0 && len(nf) < 24 && worthy[ft.V] {
						nf = nf.with(ft.V, a)
					}
				}
			}

			if !feasible {
				continue
			}

			// phi transfer
			idx := -1

			for pi, p := range succ.Preds {
				if p == b {
					idx = pi
				}
			}

			for _, in := range succ.Instrs {
				ph, ok := in.(*ssa.Phi)
				if !ok {
					break
				}

				if idx < 0 || idx >= len(ph.Edges) {
					continue
				}

				if !isBoolOrNilable(ph.Type()) {
					continue
				}

				a := abs(ph.Edges[idx], nf)
				if a != 0 {
					nf = nf.with(ph, a)
				} else if _, had := nf[ph]; had {
					o := make(pathFacts, len(nf))
					for k2, x := range nf {
						if k2 != ssa.Value(ph) {
							o[k2] = x
						}
					}

					nf = o
				}
			}

			walk(succ, nf)
		}
	}

	walk(fn.Blocks[0], pathFacts{})
}

func isBoolOrNilable(t types.Type) bool {
	switch u := t.Underlying().(type) {
	case *types.Basic:
		return u.Info()&types.IsBoolean != 0
	case *types.Pointer, *types.Interface, *types.Map, *types.Slice, *types.Signature, *types.Chan:
		return true
	}

	return false
}

// phiLeafOnPath resolves a value through the phis of its own block chain is not
// possible without the path; instead callers ask for absValue(v, facts) at the
// block where v is used.
