package main

import (
	"strings"

	"golang.org/x/tools/go/ssa"
)

// c11IntegerOrder: R-C11-3. Go's sort package orders []int by integer
// comparison. float64 has 53 bits of mantissa: two different int64 values
// above 2^53 convert to the same float64, so an order decided after a
// conversion to float reports "sorted" (or leaves unsorted) what Go does not.
// In the functions of internal/runtime/sort that dispatch on the element kind
// of an array, the float conversions belong to the float kinds alone.
func c11IntegerOrder(w *World, r *Report) {
	r.Rule("R-C11-3", "integers are ordered as integers: in every function of internal/runtime/sort that dispatches on the element kind, a data.Float32/data.Float64 conversion (directly or inside a comparison closure made there) is reachable only on the edges where the kind is Float32Kind or Float64Kind", 5)

	sp := w.pkg("internal/runtime/sort")
	dp := w.pkg("internal/language/data")

	if sp == nil || dp == nil {
		r.Anchor("R-C11-3", "packages runtime/sort and language/data")

		return
	}

	kind := map[string]int64{}

	for _, name := range []string{"ByteKind", "IntKind", "Int32Kind", "Int64Kind", "Float32Kind", "Float64Kind"} {
		k := lookupConstInt(dp, name)
		if k == nil {
			r.Anchor("R-C11-3", "data."+name)

			return
		}

		kind[name] = *k
	}

	isFloatKind := func(v int64) bool { return v == kind["Float32Kind"] || v == kind["Float64Kind"] }
	isIntKind := func(v int64) bool {
		return v == kind["ByteKind"] || v == kind["IntKind"] || v == kind["Int32Kind"] || v == kind["Int64Kind"]
	}

	isKindValue := func(v ssa.Value) bool {
		return derivesFrom(v, func(s ssa.Value) bool {
			c, ok := s.(*ssa.Call)

			return ok && strings.HasSuffix(callID(c.Common()), "language/data.Type.Kind")
		}, nil)
	}

	floatConv := func(in ssa.Instruction) bool {
		c, ok := in.(*ssa.Call)
		if !ok {
			return false
		}

		id := callID(c.Common())

		return strings.HasSuffix(id, "language/data.Float64") || strings.HasSuffix(id, "language/data.Float32")
	}

	hasFloatConv := func(fn *ssa.Function) bool {
		found := false

		allInstrs(fn, func(in ssa.Instruction) {
			if floatConv(in) {
				found = true
			}
		})

		return found
	}

	for _, fn := range w.srcFuncs(sp) {
		if fn.Parent() != nil {
			continue
		}

		// does fn dispatch on an integer element kind?
		dispatches := false

		for _, b := range fn.Blocks {
			for _, s := range b.Succs {
				for _, f := range edgeFactsInto(b, s) {
					if f.Kind == "eq" && f.C != nil && isKindValue(f.V) {
						if k, ok := constInt(f.C); ok && isIntKind(k) {
							dispatches = true
						}
					}
				}
			}
		}

		if !dispatches {
			continue
		}

		cuts := cutEdges(fn, func(f Fact) bool {
			if f.Kind != "eq" || f.C == nil || !isKindValue(f.V) {
				return false
			}

			k, ok := constInt(f.C)

			return ok && isFloatKind(k)
		})

		n := 0

		allInstrs(fn, func(in ssa.Instruction) {
			what := ""

			switch {
			case floatConv(in):
				what = "float conversion"
			default:
				if mc, ok := in.(*ssa.MakeClosure); ok {
					if cf, ok := mc.Fn.(*ssa.Function); ok && hasFloatConv(cf) {
						what = "comparison closure converting to float"
					}
				}
			}

			if what == "" {
				return
			}

			n++
			key := fnKey(fn) + "|" + what + " only for float kinds"

			if instrReachableAfterCut(fn, in, cuts) {
				r.Violate("R-C11-3", key, w.pos(in.Pos()), "this "+what+" is reached for an element kind other than float32/float64: int64 values above 2^53 that differ compare equal after the conversion, so the order (or the IsSorted answer) differs from Go's integer comparison")
			} else {
				r.Discharge("R-C11-3", key, w.pos(in.Pos()), "reached only where the element kind is a float kind")
			}
		})

		if n == 0 {
			r.Info("R-C11-3", fnKey(fn)+"|kind dispatch without float conversions", w.pos(fn.Pos()), "")
		}
	}
}
