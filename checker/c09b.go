package main

import (
	"go/token"

	"golang.org/x/tools/go/ssa"
)

// R-C09-5: a per-request goroutine that waits in Accept is always released.
//
// The buffered-channel witness of R-C09-2 shows that the goroutine's final
// send cannot block; it says nothing about the goroutine blocking before it
// gets there. A goroutine that calls Accept on a listener its spawner opened
// is released only when the peer dials in or the listener is closed, so the
// spawner must close the listener on every path from the go statement to each
// of its returns (or have deferred the close before starting the goroutine).
// Applied to the goroutines the census classifies as per-execution; a listener
// whose ownership passes to the caller (the command line client's OAuth
// callback server, closed by the stop function it returns) is not one of them.
func c09ListenerReleased(w *World, r *Report, fn *ssa.Function, g *ssa.Go, siteKey string) bool {
	var listen *ssa.Call

	allInstrs(fn, func(in ssa.Instruction) {
		if c, ok := in.(*ssa.Call); ok && callID(c.Common()) == "net.Listen" {
			listen = c
		}
	})

	if listen == nil {
		return false
	}

	isListener := func(v ssa.Value) bool {
		return derivesFrom(v, func(s ssa.Value) bool {
			e, ok := s.(*ssa.Extract)

			return ok && e.Tuple == ssa.Value(listen) && e.Index == 0
		}, nil)
	}

	isClose := func(cc *ssa.CallCommon) bool {
		return cc.IsInvoke() && cc.Method.Name() == "Close" && isListener(cc.Value)
	}

	// only goroutines that receive the listener (argument or captured variable)
	uses := false

	for _, a := range g.Call.Args {
		if isListener(a) {
			uses = true
		}
	}

	if mc, ok := g.Call.Value.(*ssa.MakeClosure); ok {
		for _, b := range mc.Bindings {
			if isListener(b) {
				uses = true
			}

			if cell, isAlloc := b.(*ssa.Alloc); isAlloc {
				for _, ref := range *cell.Referrers() {
					if st, ok := ref.(*ssa.Store); ok && st.Addr == ssa.Value(cell) && isListener(st.Val) {
						uses = true
					}
				}
			}
		}
	}

	if !uses {
		return false
	}

	key := siteKey + "|listener closed on every exit"
	deferred := false

	allInstrs(fn, func(in ssa.Instruction) {
		if d, ok := in.(*ssa.Defer); ok && isClose(d.Common()) && instrDominates(d, g) {
			deferred = true
		}
	})

	if deferred {
		r.Discharge("R-C09-5", key, w.pos(g.Pos()), "close deferred before the go statement")

		return true
	}

	escape := pathAvoiding(g, nil, func(i ssa.Instruction) bool {
		c, ok := i.(*ssa.Call)

		return ok && isClose(c.Common())
	}, func(i ssa.Instruction) bool {
		_, isRet := i.(*ssa.Return)

		return isRet
	})

	if escape != nil {
		r.Violate("R-C09-5", key, w.pos(g.Pos()), "the function can return (at "+w.pos(escape.Pos())+") without closing the listener the goroutine started here waits on: when the peer never connects (the child process failed or was killed) the goroutine stays in Accept for ever, one more per request")
	} else {
		r.Discharge("R-C09-5", key, w.pos(g.Pos()), "closed on every path to a return")
	}

	return true
}

// R-C09-6: an abandoned debug session ends wherever it is waiting.
//
// debugger.Close (and end of input on a terminal) deliver the text "exit" to
// whichever readLine call the session's goroutine is parked in. A loop that
// keeps reading lines and gluing them onto what it has (the continuation
// prompt of a command whose brackets are not balanced yet) must recognise that
// text and stop: glued onto the partial command it changes nothing, the loop
// asks for another line, and the goroutine of the abandoned session waits on
// its input channel for ever.
func c09SessionInputLoops(w *World, r *Report) {
	r.Rule("R-C09-6", "every loop in package debugger that reads a line (session.readLine) and concatenates it onto text it already holds compares that line with the exit command and leaves the loop (or returns) on a match", 1)

	dp := w.pkg("internal/language/debugger")
	if dp == nil {
		return
	}

	n := 0

	for _, fn := range w.srcFuncs(dp) {
		for _, li := range naturalLoops(fn) {
			var reads []*ssa.Call

			for b := range li.body {
				for _, in := range b.Instrs {
					if c, ok := in.(*ssa.Call); ok && callID(c.Common()) == "internal/language/debugger.session.readLine" {
						reads = append(reads, c)
					}
				}
			}

			for _, rd := range reads {
				// is the line glued onto something?
				glued := false

				for b := range li.body {
					for _, in := range b.Instrs {
						if bo, ok := in.(*ssa.BinOp); ok && bo.Op == token.ADD && (bo.X == ssa.Value(rd) || bo.Y == ssa.Value(rd)) {
							glued = true
						}
					}
				}

				if !glued {
					continue
				}

				n++

				key := fnKey(fn) + "|accumulating input loop stops on exit"
				if n > 1 {
					key += " #" + sprintInt(n)
				}

				// a comparison of (something derived from) the line with "exit" inside the loop,
				// whose true edge leaves the loop
				leaves := false

				for b := range li.body {
					if len(b.Instrs) == 0 {
						continue
					}

					ifi, ok := b.Instrs[len(b.Instrs)-1].(*ssa.If)
					if !ok {
						continue
					}

					bo, ok := ifi.Cond.(*ssa.BinOp)
					if !ok || (bo.Op != token.EQL && bo.Op != token.NEQ) {
						continue
					}

					var other ssa.Value

					if s, isC := constString(bo.X); isC && s == "exit" {
						other = bo.Y
					} else if s, isC := constString(bo.Y); isC && s == "exit" {
						other = bo.X
					}

					if other == nil || !derivesFrom(other, func(s ssa.Value) bool { return s == ssa.Value(rd) }, func(string) bool { return true }) {
						continue
					}

					matchSucc := b.Succs[0]
					if bo.Op == token.NEQ {
						matchSucc = b.Succs[1]
					}

					if !li.body[matchSucc] {
						leaves = true
					}
				}

				if leaves {
					r.Discharge("R-C09-6", key, w.pos(rd.Pos()), "the line is compared with \"exit\" and a match leaves the loop")
				} else {
					r.Violate("R-C09-6", key, w.pos(rd.Pos()), "this loop glues every line it reads onto the text it holds and never looks for the exit command: the \"exit\" debugger.Close delivers to an abandoned session parked here is appended to the partial command, nothing changes, and the session's goroutine waits for input for ever (on a terminal, end of input spins the same loop)")
				}
			}
		}
	}

	if n == 0 {
		r.Anchor("R-C09-6", "a loop in package debugger that accumulates lines read with session.readLine")
	}
}
