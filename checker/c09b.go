package main

import (
	"golang.org/x/tools/go/ssa"
)

// R-C09-5: a per-request goroutine that waits in Accept is always released.
//
// The buffered-channel witness of R-C09-2 shows that the goroutine's final
// send cannot block; it says nothing about the goroutine blocking before it
// gets there. A goroutine that calls Accept on a listener its spawner opened
// is released only when the peer dials in or the listener is closed, so the
// spawner must close the listener on every path from the go statement to each
// of its returns (or have deferred the close before starting the goroutine).
// Applied to the goroutines the census classifies as per-execution; a listener
// whose ownership passes to the caller (the command line client's OAuth
// callback server, closed by the stop function it returns) is not one of them.
func c09ListenerReleased(w *World, r *Report, fn *ssa.Function, g *ssa.Go, siteKey string) bool {
	var listen *ssa.Call

	allInstrs(fn, func(in ssa.Instruction) {
		if c, ok := in.(*ssa.Call); ok && callID(c.Common()) == "net.Listen" {
			listen = c
		}
	})

	if listen == nil {
		return false
	}

	isListener := func(v ssa.Value) bool {
		return derivesFrom(v, func(s ssa.Value) bool {
			e, ok := s.(*ssa.Extract)

			return ok && e.Tuple == ssa.Value(listen) && e.Index == 0
		}, nil)
	}

	isClose := func(cc *ssa.CallCommon) bool {
		return cc.IsInvoke() && cc.Method.Name() == "Close" && isListener(cc.Value)
	}

	// only goroutines that receive the listener (argument or captured variable)
	uses := false

	for _, a := range g.Call.Args {
		if isListener(a) {
			uses = true
		}
	}

	if mc, ok := g.Call.Value.(*ssa.MakeClosure); ok {
		for _, b := range mc.Bindings {
			if isListener(b) {
				uses = true
			}

			if cell, isAlloc := b.(*ssa.Alloc); isAlloc {
				for _, ref := range *cell.Referrers() {
					if st, ok := ref.(*ssa.Store); ok && st.Addr == ssa.Value(cell) && isListener(st.Val) {
						uses = true
					}
				}
			}
		}
	}

	if !uses {
		return false
	}

	key := siteKey + "|listener closed on every exit"
	deferred := false

	allInstrs(fn, func(in ssa.Instruction) {
		if d, ok := in.(*ssa.Defer); ok && isClose(d.Common()) && instrDominates(d, g) {
			deferred = true
		}
	})

	if deferred {
		r.Discharge("R-C09-5", key, w.pos(g.Pos()), "close deferred before the go statement")

		return true
	}

	escape := pathAvoiding(g, nil, func(i ssa.Instruction) bool {
		c, ok := i.(*ssa.Call)

		return ok && isClose(c.Common())
	}, func(i ssa.Instruction) bool {
		_, isRet := i.(*ssa.Return)

		return isRet
	})

	if escape != nil {
		r.Violate("R-C09-5", key, w.pos(g.Pos()), "the function can return (at "+w.pos(escape.Pos())+") without closing the listener the goroutine started here waits on: when the peer never connects (the child process failed or was killed) the goroutine stays in Accept for ever, one more per request")
	} else {
		r.Discharge("R-C09-5", key, w.pos(g.Pos()), "closed on every path to a return")
	}

	return true
}
