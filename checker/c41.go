package main

import (
	"go/ast"
	"go/types"
	"strings"

	"golang.org/x/tools/go/packages"
	"golang.org/x/tools/go/ssa"
)

// C41 Child-process services answer like in-process services.

func init() {
	register(&propertyCheck{
		id: "C41", level: "other", needs: loadNeeds{ssa: true},
		decides: "envelope completeness between the server and a child service process: every field of ChildServiceRequest is explicitly written where the parent builds the request and explicitly read where the child rebuilds the session; every field of ChildServiceResponse is written by the child and read by the parent. A field that is carried but never consumed (or never filled) is a part of the request / response that the child-process path silently drops.",
		misses: "equality of status, headers and body between the two execution modes; losses inside a field's representation (single-valued header map, body as string); transport errors and timeouts.",
		run:    runC41,
	})
}

var c41Exceptions = map[string]string{
	"ChildServiceRequest.Pid": "diagnostic only: the server's process id is sent for logging; the child publishes its own pid as _pid, which no request semantics depend on",
}

type fieldUse struct {
	writes map[string][]ast.Node
	reads  map[string][]ast.Node
}

// fieldCoverage collects explicit writes (composite-literal keys, assignment
// targets) and reads (any other selection) of the fields of named struct type
// tn inside the given packages.
func fieldCoverage(pkgs []*packages.Package, tn *types.TypeName) fieldUse {
	fu := fieldUse{writes: map[string][]ast.Node{}, reads: map[string][]ast.Node{}}

	for _, p := range pkgs {
		info := p.TypesInfo

		for _, file := range p.Syntax {
			lhs := map[ast.Expr]bool{}

			ast.Inspect(file, func(n ast.Node) bool {
				switch x := n.(type) {
				case *ast.AssignStmt:
					for _, l := range x.Lhs {
						lhs[l] = true
					}
				case *ast.CompositeLit:
					tv, ok := info.Types[x]
					if !ok || namedOf(tv.Type) == nil || namedOf(tv.Type).Obj() != tn {
						return true
					}

					for _, el := range x.Elts {
						if kv, ok := el.(*ast.KeyValueExpr); ok {
							if id, ok := kv.Key.(*ast.Ident); ok {
								fu.writes[id.Name] = append(fu.writes[id.Name], kv)
							}
						}
					}
				}

				return true
			})

			ast.Inspect(file, func(n ast.Node) bool {
				se, ok := n.(*ast.SelectorExpr)
				if !ok {
					return true
				}

				sel, ok := info.Selections[se]
				if !ok || sel.Kind() != types.FieldVal {
					return true
				}

				nt := namedOf(sel.Recv())
				if nt == nil || nt.Obj() != tn {
					return true
				}

				if lhs[se] {
					fu.writes[se.Sel.Name] = append(fu.writes[se.Sel.Name], se)
				} else {
					fu.reads[se.Sel.Name] = append(fu.reads[se.Sel.Name], se)
				}

				return true
			})
		}
	}

	return fu
}

func runC41(w *World, r *Report) {
	c41PipeDeadlines(w, r)
	c41CopyLoopsRunToTheEnd(w, r)
	r.Rule("R-C41-1", "every field of services.ChildServiceRequest has an explicit write (parent side) and an explicit read (child side) in package services", 20)
	r.Rule("R-C41-2", "every field of services.ChildServiceResponse has an explicit write (child side) and an explicit read (parent side) in package services", 4)

	sp := w.pkg("internal/server/services")
	if sp == nil {
		r.Anchor("R-C41-1", "package internal/server/services")

		return
	}

	// ---- R-C41-4: no transport bounds the payload
	r.Rule("R-C41-4", "every decode of a ChildServiceRequest or ChildServiceResponse (json.Decoder.Decode, json.Unmarshal) reads from the connection, a bufio.Reader over it, or a whole file: never from a bufio.Scanner token or a ReadLine/ReadSlice result, which cap the payload at the buffer size on that transport only", 4)

	{
		isPayload := func(t types.Type) bool {
			// &r with r already a pointer: look through every pointer level
			for {
				p, ok := types.Unalias(t).(*types.Pointer)
				if !ok {
					break
				}

				t = p.Elem()
			}

			n, _ := types.Unalias(t).(*types.Named)

			return n != nil && n.Obj().Pkg() != nil && n.Obj().Pkg().Path() == sp.PkgPath && (n.Obj().Name() == "ChildServiceRequest" || n.Obj().Name() == "ChildServiceResponse")
		}

		bounded := func(v ssa.Value) bool {
			c, ok := v.(*ssa.Call)
			if !ok {
				return false
			}

			switch callID(c.Common()) {
			case "bufio.Scanner.Bytes", "bufio.Scanner.Text", "bufio.Reader.ReadLine", "bufio.Reader.ReadSlice", "bufio.NewScanner":
				return true
			}

			return false
		}

		for _, fn := range w.srcFuncs(sp) {
			n := 0

			allInstrs(fn, func(in ssa.Instruction) {
				c, ok := in.(*ssa.Call)
				if !ok {
					return
				}

				var src, dst ssa.Value

				switch callID(c.Common()) {
				case "encoding/json.Unmarshal":
					src, dst = c.Call.Args[0], c.Call.Args[1]
				case "encoding/json.Decoder.Decode":
					dst = c.Call.Args[1]

					// the reader given to json.NewDecoder
					if nd, isCall := c.Call.Args[0].(*ssa.Call); isCall && callID(nd.Common()) == "encoding/json.NewDecoder" {
						src = nd.Call.Args[0]
					}
				default:
					return
				}

				if mi, isMI := dst.(*ssa.MakeInterface); isMI {
					dst = mi.X
				}

				if !isPayload(dst.Type()) {
					return
				}

				n++

				key := fnKey(fn) + "|decode payload"
				if n > 1 {
					key += "#" + sprintInt(n)
				}

				if src != nil && derivesFrom(src, bounded, func(string) bool { return true }) {
					r.Violate("R-C41-4", key, w.pos(in.Pos()), "the payload is decoded from a bufio.Scanner token (or a ReadLine / ReadSlice result): anything longer than the scanner's buffer (64 KiB by default) fails on this transport while the in-process path and the other transports accept it")
				} else {
					r.Discharge("R-C41-4", key, w.pos(in.Pos()), "decoded from a stream or a whole buffer")
				}
			})
		}
	}

	// ---- R-C41-3: sibling agreement on reading the request body
	r.Rule("R-C41-3", "both execution modes read the request body unconditionally: in ServiceHandler and in callChildServices every path from entry to the hand-off (NewContext / running the child) passes a call that reads r.Body", 2)

	readsBody := func(in ssa.Instruction) bool {
		c, ok := in.(*ssa.Call)
		if !ok {
			return false
		}

		if strings.HasSuffix(callID(c.Common()), ".Close") {
			return false
		}

		for _, a := range callArgs(c.Common()) {
			if derivesFrom(a, func(v ssa.Value) bool {
				fa, ok := v.(*ssa.FieldAddr)
				if !ok || fieldName(fa.X.Type(), fa.Field) != "Body" {
					return false
				}

				n := namedOf(fa.X.Type())

				return n != nil && n.Obj().Name() == "Request" && n.Obj().Pkg() != nil && n.Obj().Pkg().Path() == "net/http"
			}, nil) {
				return true
			}
		}

		return false
	}

	for _, spec := range []struct {
		fn      string
		handoff []string
	}{
		{"ServiceHandler", []string{"internal/language/bytecode.NewContext"}},
		{"callChildServices", []string{"internal/server/services.runChildViaPipe", "internal/server/services.runChildViaFile"}},
	} {
		fn := w.ssaFunc(sp, spec.fn)
		if fn == nil {
			r.Anchor("R-C41-3", "services."+spec.fn)

			continue
		}

		key := "services." + spec.fn + "|reads the request body on every path to the hand-off"
		n := 0

		hit := pathFromEntryAvoiding(fn, nil, readsBody, func(in ssa.Instruction) bool {
			if callTo(in, spec.handoff...) != nil {
				n++

				return true
			}

			return false
		})

		has := false

		allInstrs(fn, func(in ssa.Instruction) {
			if callTo(in, spec.handoff...) != nil {
				has = true
			}
		})

		switch {
		case !has:
			r.Anchor("R-C41-3", "hand-off call in services."+spec.fn)
		case hit != nil:
			r.Violate("R-C41-3", key, w.pos(hit.Pos()), "the service is run on a path where the request body was not read: a request whose body is read only under a condition (a declared Content-Length, a method) reaches the service with an empty body in this mode and with its body in the other")
		default:
			r.Discharge("R-C41-3", key, w.pos(fn.Pos()), "")
		}
	}

	for _, spec := range []struct{ rule, typ string }{{"R-C41-1", "ChildServiceRequest"}, {"R-C41-2", "ChildServiceResponse"}} {
		tn, _ := lookupObj(sp, spec.typ).(*types.TypeName)
		if tn == nil {
			r.Anchor(spec.rule, "services."+spec.typ)

			continue
		}

		st, ok := tn.Type().Underlying().(*types.Struct)
		if !ok {
			r.Anchor(spec.rule, "services."+spec.typ+" struct")

			continue
		}

		fu := fieldCoverage([]*packages.Package{sp}, tn)

		for i := 0; i < st.NumFields(); i++ {
			f := st.Field(i).Name()
			key := "services." + spec.typ + "|" + f

			if why, ok := c41Exceptions[spec.typ+"."+f]; ok && len(fu.reads[f]) == 0 {
				r.Except(spec.rule, key, w.pos(st.Field(i).Pos()), why)

				continue
			}

			switch {
			case len(fu.writes[f]) == 0:
				r.Violate(spec.rule, key, w.pos(st.Field(i).Pos()), "field "+f+" is never filled in: the corresponding part of the "+map[bool]string{true: "request", false: "response"}[spec.typ == "ChildServiceRequest"]+" does not reach the other process")
			case len(fu.reads[f]) == 0:
				r.Violate(spec.rule, key, w.pos(st.Field(i).Pos()), "field "+f+" is transported but never consumed on the receiving side: a child-process service sees/returns something different from the in-process one")
			default:
				r.Discharge(spec.rule, key, w.pos(fu.writes[f][0].Pos()), sprintInt(len(fu.writes[f]))+" write(s), "+sprintInt(len(fu.reads[f]))+" read(s)")
			}
		}
	}
}

// c41PipeDeadlines: R-C41-5. The in-process path puts no limit on how long a
// service may run (other than the run timeout, which the child transport
// enforces by killing the child). A read deadline armed on the parent's side of
// the socket and still in force when the parent waits for the child's response
// cuts a slow service off: the pipe transport answers 500 where the in-process
// run and the file transport answer with the service's own response.
func c41PipeDeadlines(w *World, r *Report) {
	r.Rule("R-C41-5", "no leftover deadline on the parent's socket: in package services every Set(Read)Deadline armed from time.Now() on a connection is cleared (a Set(Read)Deadline not computed from time.Now()) on every path before the next Decode of the child's response", 0)

	sp := w.pkg("internal/server/services")
	if sp == nil {
		return
	}

	n := 0

	for _, fn := range w.srcFuncs(sp) {
		// only the side that accepts the connection (the parent)
		accepts := false

		allInstrs(fn, func(in ssa.Instruction) {
			if c, ok := in.(*ssa.Call); ok && c.Common().IsInvoke() && c.Common().Method.Name() == "Accept" {
				accepts = true
			}
		})

		if !accepts {
			continue
		}

		isDeadline := func(in ssa.Instruction) (armed bool, ok bool) {
			c, isCall := in.(*ssa.Call)
			if !isCall || !c.Common().IsInvoke() {
				return false, false
			}

			name := c.Common().Method.Name()
			if name != "SetReadDeadline" && name != "SetDeadline" {
				return false, false
			}

			fromNow := derivesFrom(c.Call.Args[0], func(s ssa.Value) bool {
				cc, isC := s.(*ssa.Call)

				return isC && callID(cc.Common()) == "time.Now"
			}, func(string) bool { return true })

			return fromNow, true
		}

		allInstrs(fn, func(in ssa.Instruction) {
			armed, ok := isDeadline(in)
			if !ok || !armed {
				return
			}

			n++

			key := fnKey(fn) + "|deadline cleared before the response is read"
			if n > 1 {
				key += " #" + sprintInt(n)
			}

			cleared := func(i ssa.Instruction) bool {
				a, ok := isDeadline(i)

				return ok && !a
			}

			// the request goes out to the child (an Encode / Write on the way) and the
			// response is then awaited (Decode) with the deadline still armed
			reads := 0

			sent := pathAvoiding(in, nil, cleared, func(i ssa.Instruction) bool {
				c, ok := i.(*ssa.Call)
				if !ok {
					return false
				}

				return strings.HasSuffix(callID(c.Common()), "json.Encoder.Encode") || (c.Common().IsInvoke() && c.Common().Method.Name() == "Write")
			})

			if sent != nil {
				if pathAvoiding(sent, nil, cleared, func(i ssa.Instruction) bool {
					c, ok := i.(*ssa.Call)

					return ok && strings.HasSuffix(callID(c.Common()), "json.Decoder.Decode")
				}) != nil {
					reads = 2
				}
			}

			if reads > 1 {
				r.Violate("R-C41-5", key, w.pos(in.Pos()), "the read deadline armed here for the child's handshake is still in force when the parent waits for the child's response: a service that runs longer is answered with 500 (i/o timeout) over the socket transport, while the in-process run and the file transport return the service's own status, headers and body")
			} else {
				r.Discharge("R-C41-5", key, w.pos(in.Pos()), "cleared before the response is awaited")
			}
		})
	}

	r.Unit("armed_deadlines_on_parent_socket", n)
}
