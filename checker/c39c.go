package main

import (
	"strings"

	"golang.org/x/tools/go/ssa"
)

// c39LinksResolved: R-C39-6. R-C39-3 establishes that every file call takes
// its path from normalizeAssetPath and that the spelling of that path lies
// under the root. The property quantifies over symbolic links as well: a link
// under the root is followed by the file system to wherever it points. The
// path is handed out only if nothing is there, or if its link-resolved form
// lies under the link-resolved root.
func c39LinksResolved(w *World, r *Report) {
	r.Rule("R-C39-6", "symbolic links are resolved before a path is handed out: every return of normalizeAssetPath other than the invalid-path answer is unreachable once the edges {filepath.EvalSymlinks of the path failed, HasPrefix(resolved path, resolved root…) true} are removed", 1)

	ap := w.pkg("internal/server/assets")
	if ap == nil {
		return
	}

	fn := w.ssaFunc(ap, "normalizeAssetPath")
	if fn == nil {
		r.Anchor("R-C39-6", "assets.normalizeAssetPath")

		return
	}

	isEval := func(v ssa.Value) bool {
		c, ok := v.(*ssa.Call)

		return ok && callID(c.Common()) == "path/filepath.EvalSymlinks"
	}

	fromEval := func(v ssa.Value, idx int) bool {
		return derivesFrom(v, func(s ssa.Value) bool {
			e, ok := s.(*ssa.Extract)

			return ok && e.Index == idx && isEval(e.Tuple)
		}, nil)
	}

	cuts := cutEdges(fn, func(f Fact) bool {
		switch f.Kind {
		case "nonnil":
			// the path does not resolve: nothing is there to serve
			return fromEval(f.V, 1)
		case "true":
			c, ok := f.V.(*ssa.Call)
			if !ok || callID(c.Common()) != "strings.HasPrefix" || len(c.Call.Args) != 2 {
				return false
			}

			// resolved path against (something built from) the resolved root
			return fromEval(c.Call.Args[0], 0) && derivesFrom(c.Call.Args[1], func(s ssa.Value) bool {
				e, ok := s.(*ssa.Extract)

				return ok && e.Index == 0 && isEval(e.Tuple)
			}, nil)
		}

		return false
	})

	n := 0

	for _, ret := range returnsOf(fn) {
		v := stripValue(retResult(ret, 0))

		// the invalid-path answer: Join(root, constant)
		if c, ok := v.(*ssa.Call); ok && callID(c.Common()) == "path/filepath.Join" {
			invalid := false

			for _, e := range packedElems(c.Call.Args[0]) {
				if s, isC := constString(e); isC && strings.Contains(s, "invalid") {
					invalid = true
				}
			}

			if invalid {
				continue
			}
		}

		n++
		key := "assets.normalizeAssetPath|path handed out with links resolved"

		if len(cuts) == 0 || instrReachableAfterCut(fn, ret, cuts) {
			r.Violate("R-C39-6", key, w.pos(ret.Pos()), "the path is handed to the file calls after a check of its spelling only: a symbolic link under the asset root that points outside it is followed, and `GET /leak.txt` returns the file it points to, whole or by range")
		} else {
			r.Discharge("R-C39-6", key, w.pos(ret.Pos()), "behind EvalSymlinks and a prefix test of the resolved path")
		}
	}

	if n == 0 {
		r.Anchor("R-C39-6", "a path return in assets.normalizeAssetPath")
	}
}
