package main

import (
	"go/token"
	"strings"

	"golang.org/x/tools/go/ssa"
)

// c02RegisterSiblings: R-C02-9 and R-C02-10. With ego.compiler.registers on, a
// local variable is read by LoadRegister instead of Load and lives in a slot
// instead of the symbol table. Two kinds of compiler code have to know:
//
//   - code that inspects generated instructions to decide something about the
//     program (is this loop condition constant? is this initializer pure?):
//     a test for the name-based opcode alone gives a different answer for the
//     same source once its variables are in registers (R-C02-9);
//
//   - the eligibility scan that keeps a function out of registers when a
//     closure uses one of its variables: every name that is bound to a register
//     outside the body braces has to be in the seed the scan starts from
//     (R-C02-10).
func c02RegisterSiblings(w *World, r *Report) {
	r.Rule("R-C02-9", "instruction inspection knows the register form: every function of package compiler that compares an instruction's Operation with bytecode.Load also compares one with bytecode.LoadRegister", 2)
	r.Rule("R-C02-10", "the register-eligibility seed covers every function-level register binding: the map handed to functionBodyIsRegisterEligible receives keys from the parameter names, from the receiver name, and from the return specification (its tokens or the named return variables)", 3)

	cp := w.pkg("internal/language/compiler")
	bp := w.pkg("internal/language/bytecode")

	if cp == nil || bp == nil {
		r.Anchor("R-C02-9", "packages compiler and bytecode")

		return
	}

	load, loadReg := lookupConstInt(bp, "Load"), lookupConstInt(bp, "LoadRegister")
	if load == nil || loadReg == nil {
		r.Anchor("R-C02-9", "bytecode.Load / bytecode.LoadRegister")

		return
	}

	for _, fn := range w.srcFuncs(cp) {
		var first ssa.Instruction

		hasLoad, hasReg := false, false

		allInstrs(fn, func(in ssa.Instruction) {
			bo, ok := in.(*ssa.BinOp)
			if !ok || (bo.Op != token.EQL && bo.Op != token.NEQ) {
				return
			}

			for _, pair := range [][2]ssa.Value{{bo.X, bo.Y}, {bo.Y, bo.X}} {
				k, isK := constInt(pair[1])
				if !isK || !isFieldNamed(pair[0], "Operation") {
					continue
				}

				if k == *load {
					hasLoad = true

					if first == nil {
						first = in
					}
				}

				if k == *loadReg {
					hasReg = true
				}
			}
		})

		if !hasLoad {
			continue
		}

		key := fnKey(fn) + "|Load and LoadRegister judged alike"

		if hasReg {
			r.Discharge("R-C02-9", key, w.pos(first.Pos()), "both opcodes are tested")
		} else {
			r.Violate("R-C02-9", key, w.pos(first.Pos()), "generated code is inspected for the name-based Load only: with ego.compiler.registers on (optimizer level 3) a local is read by LoadRegister and the decision changes for the same source (`for n > 0 {…}` stops with \"for{} has no exit\"; `const z = y + 1` over a local y is accepted)")
		}
	}

	// ---- R-C02-10
	var site *ssa.Call

	for _, fn := range w.srcFuncs(cp) {
		allInstrs(fn, func(in ssa.Instruction) {
			if c, ok := in.(*ssa.Call); ok && strings.HasSuffix(callID(c.Common()), "compiler.Compiler.functionBodyIsRegisterEligible") {
				site = c
			}
		})
	}

	if site == nil {
		r.Anchor("R-C02-10", "the call of functionBodyIsRegisterEligible")

		return
	}

	fn := site.Parent()
	args := callArgs(site.Common())
	seed := stripValue(args[len(args)-1])

	// the maps the seed can be (through phis)
	seeds := map[ssa.Value]bool{}

	var collect func(v ssa.Value)

	collect = func(v ssa.Value) {
		v = stripValue(v)
		if seeds[v] {
			return
		}

		seeds[v] = true

		if p, ok := v.(*ssa.Phi); ok {
			for _, e := range p.Edges {
				collect(e)
			}
		}
	}

	collect(seed)

	type source struct {
		name string
		is   func(v ssa.Value) bool
	}

	callSuffix := func(v ssa.Value, suffix string) (*ssa.Call, bool) {
		c, ok := v.(*ssa.Call)

		return c, ok && strings.HasSuffix(callID(c.Common()), suffix)
	}

	sources := []source{
		{"parameter names", func(v ssa.Value) bool {
			// directly, or copied from a map that was filled from them
			return isFieldNamed(v, "name") || func() bool { _, ok := v.(*ssa.Next); return ok }()
		}},
		{"receiver name", func(v ssa.Value) bool {
			c, ok := callSuffix(v, "tokenizer.Token.Spelling")
			if !ok {
				return false
			}

			return !derivesFrom(callArgs(c.Common())[0], func(s ssa.Value) bool { return isFieldNamed(s, "Tokens") }, nil)
		}},
		{"return specification", func(v ssa.Value) bool {
			if c, ok := callSuffix(v, "tokenizer.Token.Spelling"); ok {
				return derivesFrom(callArgs(c.Common())[0], func(s ssa.Value) bool { return isFieldNamed(s, "Tokens") }, nil)
			}

			return isFieldNamed(v, "Name") && derivesFrom(v, func(s ssa.Value) bool { return isFieldNamed(s, "returnVariables") }, nil)
		}},
	}

	found := map[string]ssa.Instruction{}

	allInstrs(fn, func(in ssa.Instruction) {
		mu, ok := in.(*ssa.MapUpdate)
		if !ok || !seeds[stripValue(mu.Map)] {
			return
		}

		for _, s := range sources {
			if derivesFrom(mu.Key, s.is, nil) {
				found[s.name] = in
			}
		}
	})

	for _, s := range sources {
		key := fnKey(fn) + "|seed holds the " + s.name

		if in := found[s.name]; in != nil {
			r.Discharge("R-C02-10", key, w.pos(in.Pos()), "")
		} else {
			r.Violate("R-C02-10", key, w.pos(site.Pos()), "names bound to registers outside the body ("+s.name+") are not in the seed of the closure-capture scan: a function literal that uses one looks it up by name while the value sits in a register (`func f() (result int) { g := func() { result = 7 }; g(); return }` stops with \"unknown symbol: result\" at optimizer level 3)")
		}
	}
}
