package main

import (
	"golang.org/x/tools/go/ssa"
)

// C17 Transactions are all-or-nothing.

func init() {
	register(&propertyCheck{
		id: "C17", level: "other", needs: loadNeeds{ssa: true},
		decides: "no exit of a request handler leaves the database transaction it began open: in every function of internal/server/tables/** that calls (*database.Database).Begin, every path from the success edge of Begin to a return passes (*Database).Commit or Rollback, or lies under a deferred call/closure that rolls back; " +
			"the all-or-nothing clause is covered only in so far as every failure exit of the @transaction handler passes Rollback and its success exit passes Commit.",
		misses: "atomicity inside the database engine, DDL inside a transaction, what a failed Commit leaves behind, lock release by the driver, the multi-request transaction API (ownership handed to the transactions table).",
		run:    runC17,
	})
}

var c17Exceptions = map[string]string{
	"tables.BeginHandler": "multi-request transaction API: the open transaction is stored in the transactions table on purpose and is released by the commit/rollback handlers or the expiry sweeper, not by this request",
}

const dbType = "internal/server/tables/database.Database."

func runC17(w *World, r *Report) {
	r.Rule("R-C17-1", "typestate: every path from the success edge of (*Database).Begin to a return passes Commit/Rollback on a *Database or a deferred rollback", 8)
	r.Rule("R-C17-2", "in the @transaction handler every return that reports a failure status passes Rollback (not Commit) and the success return passes Commit", 1)

	pkgs := w.pkgsUnder("internal/server/tables")
	if len(pkgs) < 3 {
		r.Anchor("R-C17-1", "packages under internal/server/tables")

		return
	}

	nf := 0

	for _, p := range pkgs {
		for _, fn := range w.srcFuncs(p) {
			nf++

			allInstrs(fn, func(in ssa.Instruction) {
				c, ok := in.(*ssa.Call)
				if !ok || callID(c.Common()) != dbType+"Begin" {
					return
				}

				key := fnKey(fn) + "|Database.Begin"

				inScope := p.PkgPath == modPath+"/internal/server/tables/scripting" || fnKey(fn) == "tables.SQLTransaction"

				if why, ok := c17Exceptions[fnKey(fn)]; ok {
					r.Except("R-C17-1", key, w.pos(c.Pos()), why)

					return
				}

				// the failure edge of Begin holds no transaction
				cuts := cutEdges(fn, func(f Fact) bool { return f.Kind == "nonnil" && f.V == ssa.Value(c) })

				leak := pathAvoiding(c, cuts, func(i ssa.Instruction) bool { return releasesTx(i, fn) }, isReturn)
				if leak != nil && !inScope {
					r.Info("R-C17-1", key, w.pos(leak.Pos()), "outside the property's statement (not a @transaction/@sql request): this return is reachable after Begin (at "+w.pos(c.Pos())+") without Commit or Rollback")
				} else if leak != nil {
					r.Violate("R-C17-1", key, w.pos(leak.Pos()), "this return is reachable after a successful Begin (at "+w.pos(c.Pos())+") without Commit or Rollback: Database.Close skips a database with an active transaction, so the transaction and its locks stay open")
				} else {
					r.Discharge("R-C17-1", key, w.pos(c.Pos()), "every return after Begin passes Commit/Rollback (or a deferred rollback)")
				}
			})
		}
	}

	r.Unit("functions", nf)

	// R-C17-2: the @transaction handler
	sc := w.pkg("internal/server/tables/scripting")
	h := w.ssaFunc(sc, "Handler")
	dumpFn(h)

	if h == nil {
		r.Anchor("R-C17-2", "scripting.Handler")

		return
	}

	var begin *ssa.Call

	allInstrs(h, func(in ssa.Instruction) {
		if c, ok := in.(*ssa.Call); ok && callID(c.Common()) == dbType+"Begin" {
			begin = c
		}
	})

	if begin == nil {
		r.Anchor("R-C17-2", "Begin call in scripting.Handler")

		return
	}

	cuts := cutEdges(h, func(f Fact) bool { return f.Kind == "nonnil" && f.V == ssa.Value(begin) })
	isCommit := func(i ssa.Instruction) bool { return callTo(i, dbType+"Commit") != nil }
	isRollback := func(i ssa.Instruction) bool { return callTo(i, dbType+"Rollback") != nil }

	// error returns: return util.ErrorResponse(...). They must not be reachable
	// from Begin through a path that avoids Rollback, except behind a Commit
	// whose own failure is being reported.
	isErrReturn := func(i ssa.Instruction) bool {
		ret, ok := i.(*ssa.Return)
		if !ok || len(ret.Results) != 1 {
			return false
		}

		c, _ := resultOf(retResult(ret, 0))

		return c != nil && callID(c.Common()) == "internal/util.ErrorResponse"
	}

	bad := pathAvoiding(begin, cuts, func(i ssa.Instruction) bool { return isRollback(i) || isCommit(i) }, isErrReturn)
	if bad != nil {
		r.Violate("R-C17-2", "scripting.Handler|error-return", w.pos(bad.Pos()), "an error response is returned after Begin without Rollback: operations applied so far are neither undone nor committed")
	} else {
		r.Discharge("R-C17-2", "scripting.Handler|error-return", w.pos(begin.Pos()), "every ErrorResponse return after Begin passes Rollback (or reports Commit's own failure)")
	}

	// success return (not an ErrorResponse) must pass Commit
	isOkReturn := func(i ssa.Instruction) bool {
		_, ok := i.(*ssa.Return)

		return ok && !isErrReturn(i)
	}

	c17ErrorConditions(w, r, h, begin)

	bad = pathAvoiding(begin, cuts, isCommit, isOkReturn)
	if bad != nil {
		r.Violate("R-C17-2", "scripting.Handler|success-return", w.pos(bad.Pos()), "a non-error return is reachable after Begin without Commit")
	} else {
		r.Discharge("R-C17-2", "scripting.Handler|success-return", w.pos(begin.Pos()), "every non-error return after Begin passes Commit")
	}
}

func isReturn(i ssa.Instruction) bool {
	_, ok := i.(*ssa.Return)

	return ok
}

// releasesTx: a Commit/Rollback call, or a Defer of Rollback/Commit or of a
// closure of fn that contains one.
func releasesTx(i ssa.Instruction, fn *ssa.Function) bool {
	if callTo(i, dbType+"Commit", dbType+"Rollback") != nil {
		if _, isGo := i.(*ssa.Go); !isGo {
			return true
		}
	}

	d, ok := i.(*ssa.Defer)
	if !ok {
		return false
	}

	cf := calleeFunction(d.Common())
	if cf == nil || cf.Parent() != fn {
		return false
	}

	found := false

	allInstrs(cf, func(ci ssa.Instruction) {
		if callTo(ci, dbType+"Rollback", dbType+"Commit") != nil {
			found = true
		}
	})

	return found
}

// c17ErrorConditions: R-C17-3. Every iteration of the operation loop that
// follows Begin must look at the task's error conditions (task.Errors): an
// opcode branch that `continue`s past them commits a transaction whose stated
// error condition tripped.
func c17ErrorConditions(w *World, r *Report, h *ssa.Function, begin *ssa.Call) {
	r.Rule("R-C17-3", "loop must-pass-through: every iteration of the @transaction operation loop (the loop dominated by Begin) reads the operation's Errors field, so no opcode can skip the error-condition evaluation", 1)

	isErrorsRead := func(in ssa.Instruction) bool {
		switch x := in.(type) {
		case *ssa.FieldAddr:
			return fieldName(x.X.Type(), x.Field) == "Errors" && namedOf(x.X.Type()) != nil && namedOf(x.X.Type()).Obj().Name() == "TXOperation"
		case *ssa.Field:
			return fieldName(x.X.Type(), x.Field) == "Errors" && namedOf(x.X.Type()) != nil && namedOf(x.X.Type()).Obj().Name() == "TXOperation"
		}

		return false
	}

	n := 0

	for _, li := range naturalLoops(h) {
		if !begin.Block().Dominates(li.header) {
			continue
		}

		// the operation loop is the outermost loop after Begin that contains the reads
		has := false

		for b := range li.body {
			for _, in := range b.Instrs {
				if isErrorsRead(in) {
					has = true
				}
			}
		}

		// outermost: header not inside another post-Begin loop's body
		outer := true

		for _, lj := range naturalLoops(h) {
			if lj != li && lj.header != li.header && begin.Block().Dominates(lj.header) && lj.body[li.header] {
				outer = false
			}
		}

		if !outer {
			continue
		}

		n++

		key := "scripting.Handler|operation-loop"

		if !has {
			r.Violate("R-C17-3", key, w.pos(begin.Pos()), "the operation loop never reads task.Errors: error conditions are not evaluated")

			continue
		}

		if latch := iterationAvoiding(li, nil, isErrorsRead); latch != nil {
			pos := ""

			for _, in := range latch.Instrs {
				if in.Pos().IsValid() {
					pos = w.pos(in.Pos())
				}
			}

			r.Violate("R-C17-3", key, pos, "an iteration of the operation loop can complete without evaluating the operation's error conditions (task.Errors): a tripped condition no longer aborts the transaction")
		} else {
			r.Discharge("R-C17-3", key, w.pos(begin.Pos()), "every iteration reads task.Errors or leaves the loop")
		}
	}

	if n == 0 {
		r.Anchor("R-C17-3", "operation loop after Begin in scripting.Handler")
	}
}
