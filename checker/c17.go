package main

import (
	"go/token"
	"go/types"
	"golang.org/x/tools/go/ssa"
	"strings"
)

// C17 Transactions are all-or-nothing.

func init() {
	register(&propertyCheck{
		id: "C17", level: "other", needs: loadNeeds{ssa: true},
		decides: "no exit of a request handler leaves the database transaction it began open: in every function of internal/server/tables/** that calls (*database.Database).Begin, every path from the success edge of Begin to a return passes (*Database).Commit or Rollback, or lies under a deferred call/closure that rolls back; " +
			"the all-or-nothing clause is covered only in so far as every failure exit of the @transaction handler passes Rollback and its success exit passes Commit.",
		misses: "atomicity inside the database engine, DDL inside a transaction, what a failed Commit leaves behind, lock release by the driver, the multi-request transaction API (ownership handed to the transactions table).",
		run:    runC17,
	})
}

var c17Exceptions = map[string]string{
	"tables.BeginHandler": "multi-request transaction API: the open transaction is stored in the transactions table on purpose and is released by the commit/rollback handlers or the expiry sweeper, not by this request",
}

const dbType = "internal/server/tables/database.Database."

func runC17(w *World, r *Report) {
	r.Rule("R-C17-1", "typestate: every path from the success edge of (*Database).Begin to a return passes Commit/Rollback on a *Database or a deferred rollback", 8)
	r.Rule("R-C17-2", "in the @transaction handler every return that reports a failure status passes Rollback (not Commit) and the success return passes Commit", 1)

	pkgs := w.pkgsUnder("internal/server/tables")
	if len(pkgs) < 3 {
		r.Anchor("R-C17-1", "packages under internal/server/tables")

		return
	}

	nf := 0

	for _, p := range pkgs {
		for _, fn := range w.srcFuncs(p) {
			nf++

			allInstrs(fn, func(in ssa.Instruction) {
				c, ok := in.(*ssa.Call)
				if !ok || callID(c.Common()) != dbType+"Begin" {
					return
				}

				key := fnKey(fn) + "|Database.Begin"

				inScope := p.PkgPath == modPath+"/internal/server/tables/scripting" || fnKey(fn) == "tables.SQLTransaction"

				if why, ok := c17Exceptions[fnKey(fn)]; ok {
					r.Except("R-C17-1", key, w.pos(c.Pos()), why)

					return
				}

				// the failure edge of Begin holds no transaction
				cuts := cutEdges(fn, func(f Fact) bool { return f.Kind == "nonnil" && f.V == ssa.Value(c) })

				leak := pathAvoiding(c, cuts, func(i ssa.Instruction) bool { return releasesTx(i, fn) }, isReturn)
				if leak != nil && !inScope {
					r.Info("R-C17-1", key, w.pos(leak.Pos()), "outside the property's statement (not a @transaction/@sql request): this return is reachable after Begin (at "+w.pos(c.Pos())+") without Commit or Rollback")
				} else if leak != nil {
					r.Violate("R-C17-1", key, w.pos(leak.Pos()), "this return is reachable after a successful Begin (at "+w.pos(c.Pos())+") without Commit or Rollback: Database.Close skips a database with an active transaction, so the transaction and its locks stay open")
				} else {
					r.Discharge("R-C17-1", key, w.pos(c.Pos()), "every return after Begin passes Commit/Rollback (or a deferred rollback)")
				}
			})
		}
	}

	r.Unit("functions", nf)

	// R-C17-2: the @transaction handler
	sc := w.pkg("internal/server/tables/scripting")
	h := w.ssaFunc(sc, "Handler")
	dumpFn(h)

	if h == nil {
		r.Anchor("R-C17-2", "scripting.Handler")

		return
	}

	var begin *ssa.Call

	allInstrs(h, func(in ssa.Instruction) {
		if c, ok := in.(*ssa.Call); ok && callID(c.Common()) == dbType+"Begin" {
			begin = c
		}
	})

	if begin == nil {
		r.Anchor("R-C17-2", "Begin call in scripting.Handler")

		return
	}

	cuts := cutEdges(h, func(f Fact) bool { return f.Kind == "nonnil" && f.V == ssa.Value(begin) })
	isCommit := func(i ssa.Instruction) bool { return callTo(i, dbType+"Commit") != nil }
	isRollback := func(i ssa.Instruction) bool { return callTo(i, dbType+"Rollback") != nil }

	// error returns: return util.ErrorResponse(...). They must not be reachable
	// from Begin through a path that avoids Rollback, except behind a Commit
	// whose own failure is being reported.
	isErrReturn := func(i ssa.Instruction) bool {
		ret, ok := i.(*ssa.Return)
		if !ok || len(ret.Results) != 1 {
			return false
		}

		c, _ := resultOf(retResult(ret, 0))

		return c != nil && callID(c.Common()) == "internal/util.ErrorResponse"
	}

	bad := pathAvoiding(begin, cuts, func(i ssa.Instruction) bool { return isRollback(i) || isCommit(i) }, isErrReturn)
	if bad != nil {
		r.Violate("R-C17-2", "scripting.Handler|error-return", w.pos(bad.Pos()), "an error response is returned after Begin without Rollback: operations applied so far are neither undone nor committed")
	} else {
		r.Discharge("R-C17-2", "scripting.Handler|error-return", w.pos(begin.Pos()), "every ErrorResponse return after Begin passes Rollback (or reports Commit's own failure)")
	}

	// success return (not an ErrorResponse) must pass Commit
	isOkReturn := func(i ssa.Instruction) bool {
		_, ok := i.(*ssa.Return)

		return ok && !isErrReturn(i)
	}

	c17ErrorConditions(w, r, h, begin)
	c17CommitFailureStatus(w, r, h)
	c17OperationStatuses(w, r, h)
	c17NoTransactionControl(w, r)
	c17ConditionStatus(w, r, h, begin)

	bad = pathAvoiding(begin, cuts, isCommit, isOkReturn)
	if bad != nil {
		r.Violate("R-C17-2", "scripting.Handler|success-return", w.pos(bad.Pos()), "a non-error return is reachable after Begin without Commit")
	} else {
		r.Discharge("R-C17-2", "scripting.Handler|success-return", w.pos(begin.Pos()), "every non-error return after Begin passes Commit")
	}
}

func isReturn(i ssa.Instruction) bool {
	_, ok := i.(*ssa.Return)

	return ok
}

// releasesTx: a Commit/Rollback call, or a Defer of Rollback/Commit or of a
// closure of fn that contains one.
func releasesTx(i ssa.Instruction, fn *ssa.Function) bool {
	if callTo(i, dbType+"Commit", dbType+"Rollback") != nil {
		if _, isGo := i.(*ssa.Go); !isGo {
			return true
		}
	}

	d, ok := i.(*ssa.Defer)
	if !ok {
		return false
	}

	cf := calleeFunction(d.Common())
	if cf == nil || cf.Parent() != fn {
		return false
	}

	found := false

	allInstrs(cf, func(ci ssa.Instruction) {
		if callTo(ci, dbType+"Rollback", dbType+"Commit") != nil {
			found = true
		}
	})

	return found
}

// c17ErrorConditions: R-C17-3. Every iteration of the operation loop that
// follows Begin must look at the task's error conditions (task.Errors): an
// opcode branch that `continue`s past them commits a transaction whose stated
// error condition tripped.
func c17ErrorConditions(w *World, r *Report, h *ssa.Function, begin *ssa.Call) {
	r.Rule("R-C17-3", "loop must-pass-through: every iteration of the @transaction operation loop (the loop dominated by Begin) reads the operation's Errors field, so no opcode can skip the error-condition evaluation", 1)

	isErrorsRead := func(in ssa.Instruction) bool {
		switch x := in.(type) {
		case *ssa.FieldAddr:
			return fieldName(x.X.Type(), x.Field) == "Errors" && namedOf(x.X.Type()) != nil && namedOf(x.X.Type()).Obj().Name() == "TXOperation"
		case *ssa.Field:
			return fieldName(x.X.Type(), x.Field) == "Errors" && namedOf(x.X.Type()) != nil && namedOf(x.X.Type()).Obj().Name() == "TXOperation"
		}

		return false
	}

	n := 0

	for _, li := range naturalLoops(h) {
		if !begin.Block().Dominates(li.header) {
			continue
		}

		// the operation loop is the outermost loop after Begin that contains the reads
		has := false

		for b := range li.body {
			for _, in := range b.Instrs {
				if isErrorsRead(in) {
					has = true
				}
			}
		}

		// outermost: header not inside another post-Begin loop's body
		outer := true

		for _, lj := range naturalLoops(h) {
			if lj != li && lj.header != li.header && begin.Block().Dominates(lj.header) && lj.body[li.header] {
				outer = false
			}
		}

		if !outer {
			continue
		}

		n++

		key := "scripting.Handler|operation-loop"

		if !has {
			r.Violate("R-C17-3", key, w.pos(begin.Pos()), "the operation loop never reads task.Errors: error conditions are not evaluated")

			continue
		}

		if latch := iterationAvoiding(li, nil, isErrorsRead); latch != nil {
			pos := ""

			for _, in := range latch.Instrs {
				if in.Pos().IsValid() {
					pos = w.pos(in.Pos())
				}
			}

			r.Violate("R-C17-3", key, pos, "an iteration of the operation loop can complete without evaluating the operation's error conditions (task.Errors): a tripped condition no longer aborts the transaction")
		} else {
			r.Discharge("R-C17-3", key, w.pos(begin.Pos()), "every iteration reads task.Errors or leaves the loop")
		}
	}

	if n == 0 {
		r.Anchor("R-C17-3", "operation loop after Begin in scripting.Handler")
	}
}

// c17CommitFailureStatus: R-C17-4. A failed commit applied nothing; the response
// written on that edge must carry a failure status by construction, not the
// status variable of the last (successful) operation.
func c17CommitFailureStatus(w *World, r *Report, h *ssa.Function) {
	r.Rule("R-C17-4", "the response written on the failure edge of Commit in the @transaction handler has a status that is a failure by construction: a constant of 400 or more, or the result of a dberrors classifier (ExecStatus / PayloadStatus), never a variable that can still hold an operation's 200", 1)

	cuts := cutEdges(h, func(f Fact) bool {
		if f.Kind != "nonnil" {
			return false
		}

		c, _ := resultOf(f.V)
		if c == nil {
			if cc, ok := f.V.(*ssa.Call); ok {
				c = cc
			}
		}

		return c != nil && callID(c.Common()) == dbType+"Commit"
	})

	if len(cuts) == 0 {
		r.Anchor("R-C17-4", "the test of Commit's error in scripting.Handler")

		return
	}

	n := 0

	allInstrs(h, func(in ssa.Instruction) {
		c := callTo(in, "internal/util.ErrorResponse")
		if c == nil || instrReachableAfterCut(h, in, cuts) {
			return
		}

		n++

		key := "scripting.Handler|status of the commit-failure response"
		if n > 1 {
			key += "#" + sprintInt(n)
		}

		st := c.Args[3]

		if k, isC := constInt(st); isC {
			if k >= 400 {
				r.Discharge("R-C17-4", key, w.pos(in.Pos()), "constant status "+sprintInt(int(k)))
			} else {
				r.Violate("R-C17-4", key, w.pos(in.Pos()), "a failed commit is answered with the constant status "+sprintInt(int(k)))
			}

			return
		}

		if sc, ok := st.(*ssa.Call); ok {
			switch callID(sc.Common()) {
			case "internal/server/dberrors.ExecStatus", "internal/server/dberrors.PayloadStatus":
				r.Discharge("R-C17-4", key, w.pos(in.Pos()), "status from a dberrors classifier (400, 403, 404, 409 or 500)")

				return
			}
		}

		r.Violate("R-C17-4", key, w.pos(in.Pos()), "a failed commit is answered with the status held in "+c40Describe(resolveLocal(st))+", which after a run of successful operations is 200: nothing was applied, and the client is told the transaction succeeded")
	})

	if n == 0 {
		r.Anchor("R-C17-4", "an ErrorResponse on the failure edge of Commit")
	}
}

// c17OperationStatuses: R-C17-5. The handler answers a failed operation with the
// status that operation returned; every operation routine must therefore pair
// an error with a failure status (or 0, which util.ErrorResponse turns into 500).
func c17OperationStatuses(w *World, r *Report, h *ssa.Function) {
	r.Rule("R-C17-5", "every routine of package scripting that returns (…, status int, err error) pairs a possibly non-nil error with a status that is a failure by construction: a constant of 400 or more, 0 (which util.ErrorResponse reports as 500), a dberrors classifier, or the status another such routine returned", 20)

	for _, fn := range w.srcFuncs(w.pkg("internal/server/tables/scripting")) {
		res := fn.Signature.Results()
		if res.Len() < 2 || fn.Parent() != nil {
			continue
		}

		ei := res.Len() - 1
		si := ei - 1

		if !isErrorType(res.At(ei).Type()) || !types.Identical(res.At(si).Type(), types.Typ[types.Int]) {
			continue
		}

		// status must be named like one (the count results are ints too)
		if res.Len() == 2 && !strings.HasPrefix(fn.Name(), "do") {
			continue
		}

		n := 0

		for _, ret := range returnsOf(fn) {
			// the return of the recover block (functions with defers) repeats the named results
			if fn.Recover != nil && ret.Block() == fn.Recover {
				continue
			}

			ev := retResult(ret, ei)
			if ev == nil || isNilConst(ev) {
				continue
			}

			n++

			key := fnKey(fn) + "|status returned with an error"
			if n > 1 {
				key += "#" + sprintInt(n)
			}

			ok, why := c17FailureStatus(retResult(ret, si), 0)
			if !ok {
				// status and error set together: judge them edge by edge
				if c17PairedOnEveryEdge(resolveLocal(retResult(ret, si)), resolveLocal(ev), ret.Block(), 0) {
					ok, why = true, "on every incoming path the status is a failure status or the error is nil"
				}
			}

			if ok {
				r.Discharge("R-C17-5", key, w.pos(ret.Pos()), why)
			} else if reason, excepted := c17StatusOK[key]; excepted {
				r.Except("R-C17-5", key, w.pos(ret.Pos()), reason)
			} else {
				r.Violate("R-C17-5", key, w.pos(ret.Pos()), "this return hands back a possibly non-nil error together with "+why+": the @transaction handler answers a failed operation with the status it was given, so the failure can be reported as a success")
			}
		}
	}
}

func c17FailureStatus(v ssa.Value, depth int) (bool, string) {
	if v == nil || depth > 4 {
		return false, "a status that could not be followed"
	}

	v = resolveLocal(v)

	if k, isC := constInt(v); isC {
		if k >= 400 || k == 0 {
			return true, "constant status " + sprintInt(int(k))
		}

		return false, "the constant status " + sprintInt(int(k))
	}

	switch x := v.(type) {
	case *ssa.Call:
		switch callID(x.Common()) {
		case "internal/server/dberrors.ExecStatus", "internal/server/dberrors.PayloadStatus":
			return true, "status from a dberrors classifier"
		}
	case *ssa.Extract:
		if c, ok := x.Tuple.(*ssa.Call); ok {
			if cf := calleeFunction(c.Common()); cf != nil && cf.Pkg != nil && strings.HasSuffix(cf.Pkg.Pkg.Path(), "/tables/scripting") {
				return true, "the status " + fnKey(cf) + " returned (judged there)"
			}
		}
	case *ssa.Phi:
		for _, e := range x.Edges {
			if ok, why := c17FailureStatus(e, depth+1); !ok {
				return false, why
			}
		}

		return true, "every alternative is a failure status"
	}

	return false, "a status computed as " + c40Describe(v)
}

// dominatingFacts: what the branches that dominate b establish (edges into
// single-predecessor blocks on b's dominator chain).
func dominatingFacts(b *ssa.BasicBlock) []Fact {
	var out []Fact

	for d := b; d != nil && d.Idom() != nil; d = d.Idom() {
		p := d.Idom()
		if len(d.Preds) != 1 || d.Preds[0] != p {
			continue
		}

		ifi, ok := p.Instrs[len(p.Instrs)-1].(*ssa.If)
		if !ok {
			continue
		}

		out = append(out, withCellFacts(edgeFacts(ifi.Cond, p.Succs[0] == d))...)
	}

	return out
}

// c17PairedOnEveryEdge: at block `at` the pair (status, err) is acceptable on
// every incoming path: the status is a failure status, or the error is nil
// there (a nil constant, or found nil by a branch that dominates the path).
func c17PairedOnEveryEdge(status, err ssa.Value, at *ssa.BasicBlock, depth int) bool {
	if depth > 6 {
		return false
	}

	if ok, _ := c17FailureStatus(status, 0); ok {
		return true
	}

	errNilAt := func(e ssa.Value, b *ssa.BasicBlock) bool {
		if e == nil || isNilConst(e) {
			return true
		}

		for _, f := range dominatingFacts(b) {
			if f.Kind == "nil" && (f.V == e || resolveLocal(f.V) == resolveLocal(e)) {
				return true
			}
		}

		return false
	}

	sp, isPhi := status.(*ssa.Phi)
	if !isPhi {
		return errNilAt(err, at)
	}

	ep, errIsPhi := err.(*ssa.Phi)
	if errIsPhi && ep.Block() != sp.Block() {
		errIsPhi = false
	}

	for i, sv := range sp.Edges {
		pred := sp.Block().Preds[i]

		ev := err
		if errIsPhi {
			ev = ep.Edges[i]
		}

		if ok, _ := c17FailureStatus(sv, 0); ok {
			continue
		}

		if errNilAt(ev, pred) {
			continue
		}

		// the edge also establishes facts of its own (pred ends in the branch)
		if ifi, ok := pred.Instrs[len(pred.Instrs)-1].(*ssa.If); ok {
			nilHere := false

			for _, f := range withCellFacts(edgeFacts(ifi.Cond, pred.Succs[0] == sp.Block())) {
				if f.Kind == "nil" && (f.V == ev || resolveLocal(f.V) == resolveLocal(ev)) {
					nilHere = true
				}
			}

			if nilHere {
				continue
			}
		}

		if _, nested := sv.(*ssa.Phi); nested {
			if c17PairedOnEveryEdge(sv, ev, pred, depth+1) {
				continue
			}
		}

		return false
	}

	return true
}

// Returns whose status and error are set on matching branches through a loop
// variable that lives in a cell (the functions defer rows.Close()), which the
// edge-wise pairing cannot follow. Read by hand.
var c17StatusOK = map[string]string{
	"scripting.readTxRowData|status returned with an error":        "status starts at 200 and every branch that leaves err non-nil also sets status: query failure and scan failure -> dberrors.ExecStatus, no row with the empty-result flag -> 404, more than one row -> 400; the remaining branch logs and leaves err nil",
	"scripting.readTxRowResultSet|status returned with an error#2": "status starts at 200; query failure and scan failure set dberrors.ExecStatus(err); the empty-result case returns its own 404 earlier; otherwise err is nil",
}

// c17NoTransactionControl: R-C17-6. SQL text in a script must not begin, end or
// split the transaction the handler wraps the script in.
func c17NoTransactionControl(w *World, r *Report) {
	r.Rule("R-C17-6", "the SQL tasks refuse transaction control: in scripting.authorizeAndClassifySQL no success return is reachable once the 'not transaction control' edges (by parsed kind, and by first word for unparsed text) are removed; the kind predicate is true for BEGIN, COMMIT, ROLLBACK, SAVEPOINT and RELEASE", 2)

	sc := w.pkg("internal/server/tables/scripting")
	sp := w.pkg("internal/sqlparse")

	fn := w.ssaFunc(sc, "authorizeAndClassifySQL")
	if fn == nil || sp == nil {
		r.Anchor("R-C17-6", "scripting.authorizeAndClassifySQL")

		return
	}

	key := "scripting.authorizeAndClassifySQL|refuses transaction control"

	nKind, nText := 0, 0

	cuts := cutEdges(fn, func(f Fact) bool {
		if f.Kind != "false" {
			return false
		}

		c, ok := f.V.(*ssa.Call)
		if !ok {
			return false
		}

		switch {
		case strings.HasSuffix(callID(c.Common()), "scripting.isTransactionControlKind"):
			nKind++

			return true
		case strings.HasSuffix(callID(c.Common()), "scripting.isTransactionControlText"):
			nText++

			return true
		}

		return false
	})

	bad := ""

	for b := range reach(fn.Blocks[0], cuts, nil) {
		if ret, ok := b.Instrs[len(b.Instrs)-1].(*ssa.Return); ok {
			res := retResults(ret)
			if isNilConst(res[len(res)-1]) {
				bad = w.pos(ret.Pos())
			}
		}
	}

	switch {
	case nKind == 0:
		r.Violate("R-C17-6", key, w.pos(fn.Pos()), "the statement kind is never tested for transaction control: a COMMIT or ROLLBACK in a script's SQL text ends the transaction the handler began, what follows runs outside it, and a later failure leaves the earlier operations applied")
	case nText == 0:
		r.Violate("R-C17-6", key, w.pos(fn.Pos()), "text the parser cannot read (run as it is for an administrator) is not tested for transaction control")
	case bad != "":
		r.Violate("R-C17-6", key, bad, "a success return is reachable for a transaction-control statement")
	default:
		r.Discharge("R-C17-6", key, w.pos(fn.Pos()), "every success return lies behind the false edge of the kind test (parsed text) or of the first-word test (unparsed text)")
	}

	// the predicate covers the five kinds
	key2 := "scripting.isTransactionControlKind|kinds covered"

	fd := w.funcDecl(sc, "isTransactionControlKind")
	if fd == nil {
		r.Violate("R-C17-6", key2, "", "no predicate isTransactionControlKind in package scripting")

		return
	}

	trueSet := kindPredicateTrueSet(sc.TypesInfo, fd)

	var missing []string

	for _, name := range []string{"StmtBegin", "StmtCommit", "StmtRollback", "StmtSavepoint", "StmtRelease"} {
		if v := lookupConstInt(sp, name); v == nil || !trueSet[sprintInt(int(*v))] {
			missing = append(missing, name)
		}
	}

	if len(missing) > 0 {
		r.Violate("R-C17-6", key2, w.pos(fd.Pos()), "not treated as transaction control: "+strings.Join(missing, ", "))
	} else {
		r.Discharge("R-C17-6", key2, w.pos(fd.Pos()), "BEGIN, COMMIT, ROLLBACK, SAVEPOINT, RELEASE")
	}
}

// c17ConditionStatus: R-C17-7. A status taken from the request for the response
// that follows a rollback is used only when it is a failure status.
func c17ConditionStatus(w *World, r *Report, h *ssa.Function, begin *ssa.Call) {
	r.Rule("R-C17-7", "in the @transaction handler every error response that follows a rollback carries a failure status: a constant of 400 or more, a classifier or operation status, or a status named by the request only behind a comparison that makes it 400 or more", 1)

	n := 0

	allInstrs(h, func(in ssa.Instruction) {
		c := callTo(in, "internal/util.ErrorResponse")
		if c == nil || !instrReachableFrom(begin, in) {
			return
		}

		st := resolveLocal(c.Args[3])

		phi, isPhi := st.(*ssa.Phi)
		if !isPhi {
			return // judged by R-C17-4 / R-C17-5 shapes (constants, operation statuses)
		}

		// only the responses whose status can come from the request itself
		named := false

		for _, e := range phi.Edges {
			if isFieldNamed(resolveLocal(e), "Status") {
				named = true
			}
		}

		if !named {
			return
		}

		n++

		key := "scripting.Handler|status chosen for a rolled-back script"
		if n > 1 {
			key += "#" + sprintInt(n)
		}

		bad := ""

		for i, e := range phi.Edges {
			if ok, _ := c17FailureStatus(e, 0); ok {
				continue
			}

			// a member of the request (errorCondition.Status): needs a >= 400 guard on the way in
			guarded := false

			for _, f := range append(dominatingFacts(phi.Block().Preds[i]), edgeFactsInto(phi.Block().Preds[i], phi.Block())...) {
				if f.Kind != "cmp" {
					continue
				}

				if k, isC := constInt(f.Y); isC && (sameFieldLoad(f.X, e) || f.X == e) {
					if (f.Op == token.GEQ && k >= 400) || (f.Op == token.GTR && k >= 399) {
						guarded = true
					}
				}
			}

			if !guarded {
				bad = c40Describe(resolveLocal(e))
			}
		}

		if bad != "" {
			r.Violate("R-C17-7", key, w.pos(in.Pos()), "the status of this response can be "+bad+", a value the request supplies, without a test that it is a failure status: the transaction is rolled back and the client is told 200")
		} else {
			r.Discharge("R-C17-7", key, w.pos(in.Pos()), "every alternative is a failure status, or a request-supplied one behind a >= 400 comparison")
		}
	})
}

// edgeFactsInto: the facts the branch at the end of pred establishes on its edge to succ.
func edgeFactsInto(pred, succ *ssa.BasicBlock) []Fact {
	ifi, ok := pred.Instrs[len(pred.Instrs)-1].(*ssa.If)
	if !ok {
		return nil
	}

	return withCellFacts(edgeFacts(ifi.Cond, pred.Succs[0] == succ))
}
