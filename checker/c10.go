package main

import (
	"go/types"
	"strings"

	"golang.org/x/tools/go/packages"
	"golang.org/x/tools/go/ssa"
)

// C10 try/catch and defer run exactly when documented.

func init() {
	register(&propertyCheck{
		id: "C10", level: "other", needs: loadNeeds{ssa: true},
		decides: "the compile-time pairing and the frame symmetry the run-time behaviour rests on: (1) every Context field saved in the CallFrame built by callFramePushWithTable is restored from that frame field by callFramePop (the try stack by truncation to the saved depth), and the push installs a fresh defer stack; " +
			"(2) in every compiler function that emits the Try opcode, every path from that emission to a return that can be a nil error passes an emission of TryPop; (3) in compileReturn every path from entry to an emission of the Return opcode passes an emission of RunDefers, the block compiler emits RunDefers on every successful path when asked to, and the function-body compile asks for it before the function's final Return is generated.",
		misses: "the dynamic part: 'exactly once', reverse order, what recover() resumes, which catch receives an error raised in a callee.",
		run:    runC10,
	})
}

// emitOf: in is a call of (*bytecode.ByteCode).Emit / EmitAt; returns the constant opcode value (or -1).
func emitOf(in ssa.Instruction) int64 {
	c, ok := in.(*ssa.Call)
	if !ok {
		return -1
	}

	var op ssa.Value

	switch callID(c.Common()) {
	case "internal/language/bytecode.ByteCode.Emit":
		op = c.Call.Args[1]
	case "internal/language/bytecode.ByteCode.EmitAt":
		op = c.Call.Args[2]
	default:
		return -1
	}

	if k, isC := constInt(op); isC {
		return k
	}

	return -1
}

// retMayBeNilError: the error result of ret can be nil on some path reaching it.
func retMayBeNilError(ret *ssa.Return) bool {
	fn := ret.Parent()
	res := fn.Signature.Results()

	idx := -1

	for i := 0; i < res.Len(); i++ {
		if types.Identical(res.At(i).Type(), types.Universe.Lookup("error").Type()) {
			idx = i
		}
	}

	if idx < 0 {
		return true
	}

	v := resolveLocal(retResult(ret, idx))
	if isNilConst(v) {
		return true
	}

	if absValueErr(v, pathFacts{}) == 'Z' {
		return false
	}

	if mi, ok := v.(*ssa.MakeInterface); ok {
		if c, ok := mi.X.(*ssa.Call); ok && (strings.HasSuffix(callID(c.Common()), ".compileError") || strings.HasSuffix(callID(c.Common()), ".runtimeError")) {
			return false
		}
	}

	if c, ok := v.(*ssa.Call); ok && (strings.HasSuffix(callID(c.Common()), ".compileError") || strings.HasSuffix(callID(c.Common()), ".runtimeError")) {
		return false
	}

	cuts := cutEdges(fn, func(f Fact) bool { return f.Kind == "nonnil" && f.V == v })

	return len(cuts) == 0 || instrReachableAfterCut(fn, ret, cuts)
}

func runC10(w *World, r *Report) {
	r.Rule("R-C10-1", "frame symmetry: each Context field copied into the CallFrame by callFramePushWithTable is assigned back from that frame field in callFramePop; the push installs a fresh defer stack", 14)
	r.Rule("R-C10-2", "Try/TryPop pairing: in a compiler function that emits Try, every path from the emission to a possibly-successful return passes an emission of TryPop", 5)
	r.Rule("R-C10-3", "RunDefers precedes Return: compileReturn emits RunDefers on every path to each emission of Return; compileBlock emits it on every successful path when runDefers is set; the function body is compiled with runDefers = true before the final Return is generated", 4)

	bp := w.pkg("internal/language/bytecode")
	cp := w.pkg("internal/language/compiler")

	if bp == nil || cp == nil {
		r.Anchor("R-C10-1", "packages language/bytecode, language/compiler")

		return
	}

	opc := func(name string) int64 {
		if p := lookupConstInt(bp, name); p != nil {
			return *p
		}

		r.Anchor("R-C10-2", "bytecode."+name)

		return -2
	}

	opTry, opTryPop, opReturn, opRunDefers := opc("Try"), opc("TryPop"), opc("Return"), opc("RunDefers")

	c10LoopsAndTries(w, r, bp, cp, opTryPop, opc("Branch"), opc("Push"), opc("DropToMarker"))
	c10ReturnDropsMarkers(w, r)
	c10UnwindToTarget(w, r)
	c10MarkerCount(w, r)
	c10DefersRunOnce(w, r)
	c10CatchClosesScopes(w, r)

	// ------------------------------------------------------------ R-C10-1
	push := w.ssaFunc(bp, "Context.callFramePushWithTable")
	pop := w.ssaFunc(bp, "Context.callFramePop")

	if push == nil || pop == nil {
		r.Anchor("R-C10-1", "bytecode.Context.callFramePushWithTable / callFramePop")
	} else {
		isFrame := func(t types.Type) bool {
			n := namedOf(t)

			return n != nil && n.Obj().Name() == "CallFrame" && n.Obj().Pkg() == bp.Types
		}

		isCtx := func(t types.Type) bool {
			n := namedOf(t)

			return n != nil && n.Obj().Name() == "Context" && n.Obj().Pkg() == bp.Types
		}

		// the context field a value is read from (directly, or through len())
		ctxFieldOf := func(v ssa.Value) string {
			name := ""

			derivesFrom(v, func(s ssa.Value) bool {
				if fa, ok := s.(*ssa.FieldAddr); ok && isCtx(fa.X.Type()) {
					name = fieldName(fa.X.Type(), fa.Field)

					return true
				}

				return false
			}, func(id string) bool { return id == "len" })

			if name == "" {
				if c, ok := v.(*ssa.Call); ok {
					if b, isB := c.Call.Value.(*ssa.Builtin); isB && b.Name() == "len" {
						if u, ok := c.Call.Args[0].(*ssa.UnOp); ok {
							if fa, ok := u.X.(*ssa.FieldAddr); ok && isCtx(fa.X.Type()) {
								name = fieldName(fa.X.Type(), fa.Field)
							}
						}
					}
				}
			}

			return name
		}

		saved := map[string]string{} // frame field -> context field
		pos := map[string]string{}

		allInstrs(push, func(in ssa.Instruction) {
			st, ok := in.(*ssa.Store)
			if !ok {
				return
			}

			fa, ok := st.Addr.(*ssa.FieldAddr)
			if !ok || !isFrame(fa.X.Type()) {
				return
			}

			if cf := ctxFieldOf(st.Val); cf != "" {
				saved[fieldName(fa.X.Type(), fa.Field)] = cf
				pos[fieldName(fa.X.Type(), fa.Field)] = w.pos(st.Pos())
			}
		})

		// restores in pop: context field <- value derived from frame field
		restored := map[string]map[string]bool{} // ctx field -> frame fields it is computed from

		// the pop may be a thin wrapper: follow calls to methods of the same package (one level)
		popBodies := []*ssa.Function{pop}

		allCalls(pop, func(ci ssa.CallInstruction) {
			if cf := calleeFunction(ci.Common()); cf != nil && cf.Pkg == pop.Pkg && cf.Blocks != nil && cf != pop {
				popBodies = append(popBodies, cf)
			}
		})

		// a restore that a flag can switch off is not a restore: ctx field -> reason
		conditional := map[string]string{}

		restoreVisitor := func(body *ssa.Function) func(in ssa.Instruction) {
			return func(in ssa.Instruction) {
				st, ok := in.(*ssa.Store)
				if !ok {
					return
				}

				fa, ok := st.Addr.(*ssa.FieldAddr)
				if !ok || !isCtx(fa.X.Type()) {
					return
				}

				cf := fieldName(fa.X.Type(), fa.Field)

				// every path from the function's entry to a return passes this store, once the
				// branches that test the very data being restored (len(c.x) > frame.y) and the
				// failure exits (error returns) are set aside
				if st.Block() != nil {
					isReturnDone := func(i ssa.Instruction) bool {
						ret, isRet := i.(*ssa.Return)

						// a return that certainly reports an error is a failure exit, not a completed pop
						return isRet && retMayBeNilError(ret)
					}

					isStore := func(i ssa.Instruction) bool { return i == ssa.Instruction(st) }

					flagEdge := func(f Fact) bool {
						if f.Kind != "true" && f.Kind != "false" {
							return false
						}

						_, isParam := resolveLocal(f.V).(*ssa.Parameter)

						return isParam
					}

					base := func(f Fact) bool {
						switch f.Kind {
						case "cmp":
							about := func(v ssa.Value) bool {
								return derivesFrom(v, func(x ssa.Value) bool {
									f2, ok := x.(*ssa.FieldAddr)

									return ok && isCtx(f2.X.Type()) && fieldName(f2.X.Type(), f2.Field) == cf
								}, func(id string) bool { return id == "len" })
							}

							return about(f.X) || about(f.Y)
						case "nonnil":
							return isErrorType(f.V.Type()) // the path of a failed step
						}

						return false
					}

					// a completed pop that skips the store exists with the flag branches, and
					// disappears when they are removed: the flag is what switches the restore off
					withFlags := pathFromEntryAvoiding(body, cutEdges(body, base), isStore, isReturnDone)
					withoutFlags := pathFromEntryAvoiding(body, cutEdges(body, func(f Fact) bool { return base(f) || flagEdge(f) }), isStore, isReturnDone)

					if withFlags != nil && withoutFlags == nil {
						conditional[cf] = w.pos(withFlags.Pos())
					}
				}

				var visit func(v ssa.Value, depth int)

				visit = func(v ssa.Value, depth int) {
					if depth > 6 || v == nil {
						return
					}

					switch x := v.(type) {
					case *ssa.UnOp:
						if f2, ok := x.X.(*ssa.FieldAddr); ok && isFrame(f2.X.Type()) {
							if restored[cf] == nil {
								restored[cf] = map[string]bool{}
							}

							restored[cf][fieldName(f2.X.Type(), f2.Field)] = true
						}
					case *ssa.Slice:
						visit(x.Low, depth+1)
						visit(x.High, depth+1)
					case *ssa.Phi:
						for _, e := range x.Edges {
							visit(e, depth+1)
						}
					case *ssa.Convert:
						visit(x.X, depth+1)
					case *ssa.ChangeType:
						visit(x.X, depth+1)
					}
				}

				visit(st.Val, 0)
			}
		}

		for _, body := range popBodies {
			allInstrs(body, restoreVisitor(body))
		}

		if len(saved) == 0 {
			r.Anchor("R-C10-1", "CallFrame fields saved by callFramePushWithTable")
		}

		for _, ff := range sortedKeys(saved) {
			cf := saved[ff]
			key := "bytecode.Context.callFramePop|restores " + cf + " from frame." + ff

			if restored[cf][ff] && conditional[cf] != "" {
				r.Violate("R-C10-1", key, pos[ff], "Context."+cf+" is put back from the frame only when a flag parameter says so: a return can complete (at "+conditional[cf]+") without it, and the caller continues with the callee's "+cf)
			} else if restored[cf][ff] {
				r.Discharge("R-C10-1", key, pos[ff], "saved at push, assigned back at pop")
			} else {
				r.Violate("R-C10-1", key, pos[ff], "Context."+cf+" is saved in the call frame ("+ff+") when a function is called but not put back when it returns: the caller continues with the callee's "+cf)
			}
		}

		// fresh defer stack at push
		fresh := false

		allInstrs(push, func(in ssa.Instruction) {
			st, ok := in.(*ssa.Store)
			if !ok {
				return
			}

			fa, ok := st.Addr.(*ssa.FieldAddr)
			if !ok || !isCtx(fa.X.Type()) || fieldName(fa.X.Type(), fa.Field) != "deferStack" {
				return
			}

			if ctxFieldOf(st.Val) == "" {
				fresh = true
			}
		})

		key := "bytecode.Context.callFramePushWithTable|fresh defer stack"
		if fresh {
			r.Discharge("R-C10-1", key, w.pos(push.Pos()), "c.deferStack is replaced by a new empty stack for the callee")
		} else {
			r.Violate("R-C10-1", key, w.pos(push.Pos()), "the callee starts with the caller's defer stack: its RunDefers would run the caller's deferred calls")
		}
	}

	// ------------------------------------------------------------ R-C10-2
	isSuccessReturn := func(in ssa.Instruction) bool {
		ret, ok := in.(*ssa.Return)

		return ok && retMayBeNilError(ret)
	}

	nTry := 0

	for _, fn := range w.srcFuncs(cp) {
		count := 0

		allInstrs(fn, func(in ssa.Instruction) {
			if emitOf(in) != opTry {
				return
			}

			nTry++
			count++

			key := fnKey(fn) + "|Try is followed by TryPop"
			if count > 1 {
				key += "#" + sprintInt(count)
			}

			escape := pathAvoiding(in, nil, func(i ssa.Instruction) bool { return emitOf(i) == opTryPop }, isSuccessReturn)
			if escape != nil {
				r.Violate("R-C10-2", key, w.pos(in.Pos()), "a path from this Try emission reaches the return at "+w.pos(escape.Pos())+" without emitting TryPop: the try stays active after the statement and a later error jumps into a stale catch address")
			} else {
				r.Discharge("R-C10-2", key, w.pos(in.Pos()), "every successful path emits TryPop")
			}
		})
	}

	if nTry == 0 {
		r.Anchor("R-C10-2", "Emit(bytecode.Try) in package compiler")
	}

	// ---- R-C10-4: the catch address of a Try lies before a TryPop
	r.Rule("R-C10-4", "catch path pops the try: where the address taken just before Emit(Try) is patched (SetAddressHere), every path to a possibly-successful return still emits TryPop, so the error path of the generated code passes a TryPop too", 4)

	for _, fn := range w.srcFuncs(cp) {
		// the Mark() values taken immediately before an Emit(Try)
		marks := map[ssa.Value]bool{}

		for _, b := range fn.Blocks {
			var last ssa.Value

			for _, in := range b.Instrs {
				if c, ok := in.(*ssa.Call); ok && callID(c.Common()) == "internal/language/bytecode.ByteCode.Mark" {
					last = c
				}

				if emitOf(in) == opTry && last != nil {
					marks[last] = true
				}
			}
		}

		if len(marks) == 0 {
			continue
		}

		n := 0

		allInstrs(fn, func(in ssa.Instruction) {
			c, ok := in.(*ssa.Call)
			if !ok || callID(c.Common()) != "internal/language/bytecode.ByteCode.SetAddressHere" || len(c.Call.Args) < 2 {
				return
			}

			if !marks[resolveLocal(c.Call.Args[1])] {
				return
			}

			n++

			key := fnKey(fn) + "|TryPop after the catch address"
			if n > 1 {
				key += "#" + sprintInt(n)
			}

			escape := pathAvoiding(in, nil, func(i ssa.Instruction) bool { return emitOf(i) == opTryPop }, isSuccessReturn)
			if escape != nil {
				r.Violate("R-C10-4", key, w.pos(in.Pos()), "the address a failing try body jumps to is placed where no TryPop follows (return at "+w.pos(escape.Pos())+"): after an error the try entry stays on the try stack, the enclosing try pops the wrong entry, and a later error jumps to a stale catch address")
			} else {
				r.Discharge("R-C10-4", key, w.pos(in.Pos()), "")
			}
		})
	}

	// ------------------------------------------------------------ R-C10-3
	if cr := w.ssaFunc(cp, "Compiler.compileReturn"); cr == nil {
		r.Anchor("R-C10-3", "compiler.Compiler.compileReturn")
	} else {
		n := 0

		allInstrs(cr, func(in ssa.Instruction) {
			if emitOf(in) != opReturn {
				return
			}

			n++

			key := "compiler.Compiler.compileReturn|RunDefers before Return"
			if n > 1 {
				key += "#" + sprintInt(n)
			}

			hit := pathFromEntryAvoiding(cr, nil, func(i ssa.Instruction) bool { return emitOf(i) == opRunDefers }, func(i ssa.Instruction) bool { return i == in })
			if hit != nil {
				r.Violate("R-C10-3", key, w.pos(in.Pos()), "a path reaches this emission of Return without emitting RunDefers: a return statement compiled on that path leaves the function without running its deferred calls")
			} else {
				r.Discharge("R-C10-3", key, w.pos(in.Pos()), "RunDefers emitted on every path")
			}
		})

		if n == 0 {
			r.Anchor("R-C10-3", "Emit(bytecode.Return) in compileReturn")
		}
	}

	// the block compiler: on the runDefers edge every successful path emits RunDefers
	var blockFn *ssa.Function

	for _, fn := range w.srcFuncs(cp) {
		if fn.Signature.Recv() == nil {
			continue
		}

		has := false

		allInstrs(fn, func(in ssa.Instruction) {
			if emitOf(in) == opRunDefers {
				has = true
			}
		})

		if !has {
			continue
		}

		for _, p := range fn.Params {
			if p.Name() == "runDefers" {
				blockFn = fn
			}
		}
	}

	if blockFn == nil {
		r.Anchor("R-C10-3", "the block compiler (a method with a runDefers parameter that emits RunDefers)")
	} else {
		var flag ssa.Value

		for _, p := range blockFn.Params {
			if p.Name() == "runDefers" {
				flag = p
			}
		}

		cuts := cutEdges(blockFn, func(f Fact) bool { return f.Kind == "false" && f.V == flag })
		key := fnKey(blockFn) + "|RunDefers when runDefers"

		hit := pathFromEntryAvoiding(blockFn, cuts, func(i ssa.Instruction) bool { return emitOf(i) == opRunDefers }, isSuccessReturn)
		if hit != nil {
			r.Violate("R-C10-3", key, w.pos(blockFn.Pos()), "with runDefers set, the block can be compiled successfully (return at "+w.pos(hit.Pos())+") without emitting RunDefers: a function that ends without a return statement does not run its deferred calls")
		} else {
			r.Discharge("R-C10-3", key, w.pos(blockFn.Pos()), "every successful path on the runDefers edge emits RunDefers")
		}

		// the function body is compiled through it with runDefers = true, before the final Return
		genRet := w.ssaFunc(cp, "generateFunctionReturn")
		if genRet == nil {
			r.Anchor("R-C10-3", "compiler.generateFunctionReturn")
		} else {
			for _, fn := range w.srcFuncs(cp) {
				allInstrs(fn, func(in ssa.Instruction) {
					c, ok := in.(*ssa.Call)
					if !ok || calleeFunction(c.Common()) != genRet {
						return
					}

					key := fnKey(fn) + "|body compiled with runDefers before the final Return"

					bodyCall := func(i ssa.Instruction) bool {
						bc, ok := i.(*ssa.Call)
						if !ok {
							return false
						}

						cf := calleeFunction(bc.Common())
						if cf == nil {
							return false
						}

						// the block compiler itself or a wrapper that forwards its first flag to it
						if cf != blockFn && !c10Forwards(cf, blockFn) {
							return false
						}

						for i, p := range cf.Params {
							if p.Name() == "runDefers" {
								b, isC := constBool(bc.Call.Args[i])

								return isC && b
							}
						}

						return false
					}

					if hit := pathFromEntryAvoiding(fn, nil, bodyCall, func(i ssa.Instruction) bool { return i == in }); hit != nil {
						r.Violate("R-C10-3", key, w.pos(in.Pos()), "the function's final Return is generated on a path where the body was not compiled with runDefers = true")
					} else {
						r.Discharge("R-C10-3", key, w.pos(in.Pos()), "compileRequiredBlock(true, …) on every path")
					}
				})
			}
		}
	}
}

// c10Forwards: wrapper passes its own runDefers parameter on to target.
func c10Forwards(wrapper, target *ssa.Function) bool {
	var flag ssa.Value

	for _, p := range wrapper.Params {
		if p.Name() == "runDefers" {
			flag = p
		}
	}

	if flag == nil {
		return false
	}

	ok := false

	allInstrs(wrapper, func(in ssa.Instruction) {
		c, isC := in.(*ssa.Call)
		if !isC || calleeFunction(c.Common()) != target {
			return
		}

		for _, a := range c.Call.Args {
			if a == flag {
				ok = true
			}
		}
	})

	return ok
}

// ---------------------------------------------------------------------------
// R-C10-5 / R-C10-6 (added with the repairs e337df74 and c27e01b7).

func c10LoopsAndTries(w *World, r *Report, bp, cp *packages.Package, opTryPop, opBranch, opPush, opDropToMarker int64) {
	r.Rule("R-C10-5", "leaving a try by a branch closes it: compileBreak and compileContinue reach an emission of TryPop before their Branch, compileTry records the open try before it compiles the body and marks the move to the catch block, and a loop records how many try statements were open when it began", 4)
	r.Rule("R-C10-6", "stack markers are pushed as often as they are dropped: in the for statement with clauses, the marker of the increment clause is taken out of the stream ahead of the loop's repeat point and pushed again with the increment code; the bare DropToMarker after a for statement is emitted for the range form only", 2)

	fnOf := func(name string) *ssa.Function { return w.ssaFunc(cp, name) }

	emits := func(fn *ssa.Function, op int64, seen map[*ssa.Function]bool) bool {
		var rec func(f *ssa.Function, depth int) bool

		rec = func(f *ssa.Function, depth int) bool {
			if f == nil || seen[f] || depth > 3 {
				return false
			}

			seen[f] = true
			found := false

			allInstrs(f, func(in ssa.Instruction) {
				if emitOf(in) == op {
					found = true
				}

				if c, ok := in.(*ssa.Call); ok {
					if cf := calleeFunction(c.Common()); cf != nil && cf.Pkg == f.Pkg && rec(cf, depth+1) {
						found = true
					}
				}
			})

			return found
		}

		return rec(fn, 0)
	}

	// ---- R-C10-5
	for _, name := range []string{"Compiler.compileBreak", "Compiler.compileContinue"} {
		key := "compiler." + name + "|closes the try statements it leaves"

		fn := fnOf(name)
		if fn == nil {
			r.Anchor("R-C10-5", "compiler."+name)

			continue
		}

		// every path to the Branch emission passes a call that (transitively) emits TryPop
		var branch ssa.Instruction

		allInstrs(fn, func(in ssa.Instruction) {
			if emitOf(in) == opBranch {
				branch = in
			}
		})

		if branch == nil {
			r.Anchor("R-C10-5", "Emit(Branch) in "+name)

			continue
		}

		unwinds := func(in ssa.Instruction) bool {
			c, ok := in.(*ssa.Call)
			if !ok {
				return false
			}

			cf := calleeFunction(c.Common())

			return cf != nil && cf.Pkg == fn.Pkg && emits(cf, opTryPop, map[*ssa.Function]bool{})
		}

		if skip := pathFromEntryAvoiding(fn, nil, unwinds, func(in ssa.Instruction) bool { return in == branch }); skip != nil {
			r.Violate("R-C10-5", key, w.pos(branch.Pos()), "the Branch is emitted on a path that has closed the scopes but not the try statements between this statement and the loop: a try left this way stays armed, and a later, unrelated error runs its catch block or ends in 'stack underflow'")
		} else {
			r.Discharge("R-C10-5", key, w.pos(branch.Pos()), "every path to Emit(Branch) passes a call that emits TryPop for the open try statements")
		}
	}

	if fn := fnOf("Compiler.compileTry"); fn == nil {
		r.Anchor("R-C10-5", "compiler.Compiler.compileTry")
	} else {
		key := "compiler.Compiler.compileTry|records the open try"

		var stores []*ssa.Store

		allInstrs(fn, func(in ssa.Instruction) {
			if st, ok := in.(*ssa.Store); ok && isFieldNamed(st.Addr, "openTries") {
				stores = append(stores, st)
			}
		})

		var bodies []ssa.Instruction

		allInstrs(fn, func(in ssa.Instruction) {
			if c, ok := in.(*ssa.Call); ok && strings.HasSuffix(callID(c.Common()), "Compiler.compileRequiredBlock") {
				bodies = append(bodies, in)
			}
		})

		ok := len(stores) > 0 && len(bodies) > 0

		for _, b := range bodies {
			dominated := false

			for _, st := range stores {
				if instrDominates(st, b) {
					dominated = true
				}
			}

			if !dominated {
				ok = false
			}
		}

		if ok {
			r.Discharge("R-C10-5", key, w.pos(fn.Pos()), "the try is pushed on openTries before its body and its catch block are compiled")
		} else {
			r.Violate("R-C10-5", key, w.pos(fn.Pos()), "compileTry compiles the body (or the catch block) without having recorded the try in openTries: a break or continue inside it does not know it is leaving a try")
		}
	}

	if fn := fnOf("Compiler.loopStackPush"); fn == nil {
		r.Anchor("R-C10-5", "compiler.Compiler.loopStackPush")
	} else {
		key := "compiler.Compiler.loopStackPush|records the try depth"
		found := false

		allInstrs(fn, func(in ssa.Instruction) {
			if st, ok := in.(*ssa.Store); ok && isFieldNamed(st.Addr, "tryDepth") {
				if derivesFrom(st.Val, func(v ssa.Value) bool { return isFieldNamed(v, "openTries") }, func(id string) bool { return id == "len" }) || lenOf(st.Val) != nil {
					found = true
				}
			}
		})

		if found {
			r.Discharge("R-C10-5", key, w.pos(fn.Pos()), "loop.tryDepth = len(openTries)")
		} else {
			r.Violate("R-C10-5", key, w.pos(fn.Pos()), "a new loop does not record how many try statements were open when it began")
		}
	}

	// ---- R-C10-6
	isMarkerPush := func(in ssa.Instruction) bool {
		if emitOf(in) != opPush {
			return false
		}

		c := in.(*ssa.Call)
		if len(c.Call.Args) < 3 {
			return false
		}

		sl, ok := c.Call.Args[2].(*ssa.Slice)
		if !ok {
			return false
		}

		marker := false

		allInstrs(in.Parent(), func(i2 ssa.Instruction) {
			if st, ok := i2.(*ssa.Store); ok {
				if ia, ok := st.Addr.(*ssa.IndexAddr); ok && ia.X == sl.X {
					if mi, ok := st.Val.(*ssa.MakeInterface); ok {
						if n := namedOf(mi.X.Type()); n != nil && n.Obj().Name() == "StackMarker" {
							marker = true
						}
					}
				}
			}
		})

		return marker
	}

	if fn := fnOf("Compiler.iterationFor"); fn == nil {
		r.Anchor("R-C10-6", "compiler.Compiler.iterationFor")
	} else {
		key := "compiler.Compiler.iterationFor|increment marker inside the loop"

		var target, appendStore, truncate, push ssa.Instruction

		var marks []*ssa.Call

		allInstrs(fn, func(in ssa.Instruction) {
			c, ok := in.(*ssa.Call)
			if !ok {
				return
			}

			id := callID(c.Common())

			switch {
			case strings.HasSuffix(id, "Compiler.assignmentTarget"):
				target = in
			case strings.HasSuffix(id, "bytecode.ByteCode.Truncate"):
				truncate = in
			case strings.HasSuffix(id, "bytecode.ByteCode.Mark"):
				marks = append(marks, c)
			case strings.HasSuffix(id, "bytecode.ByteCode.Append"):
				// the increment store code: the value assignmentTarget returned
				if target != nil && len(c.Call.Args) > 1 {
					if tc, i := resultOf(resolveLocal(c.Call.Args[1])); tc == target.(*ssa.Call) && i == 0 {
						appendStore = in
					}
				}
			}

			if isMarkerPush(in) {
				push = in
			}
		})

		// the repeat point: the Mark whose value is the operand of the backward Branch
		var repeat *ssa.Call

		allInstrs(fn, func(in ssa.Instruction) {
			if emitOf(in) != opBranch {
				return
			}

			c := in.(*ssa.Call)
			if len(c.Call.Args) < 3 {
				return
			}

			sl, ok := c.Call.Args[2].(*ssa.Slice)
			if !ok {
				return
			}

			allInstrs(fn, func(i2 ssa.Instruction) {
				if st, ok := i2.(*ssa.Store); ok {
					if ia, ok := st.Addr.(*ssa.IndexAddr); ok && ia.X == sl.X {
						if mi, ok := st.Val.(*ssa.MakeInterface); ok {
							for _, m := range marks {
								if resolveLocal(mi.X) == ssa.Value(m) {
									repeat = m
								}
							}
						}
					}
				}
			})
		})

		switch {
		case target == nil || appendStore == nil || repeat == nil:
			r.Anchor("R-C10-6", "assignmentTarget / Append(increment store) / the backward Branch's Mark in iterationFor")
		case truncate == nil || !instrDominates(target, truncate) || !instrReachableFrom(truncate, repeat) || instrReachableFrom(repeat, truncate):
			r.Violate("R-C10-6", key, w.pos(target.Pos()), "the 'let' marker that assignmentTarget puts into the stream for the increment clause is left ahead of the loop's repeat point: it is pushed once, while the DropToMarker at the end of the increment store code runs every iteration and, from the second one on, drops every marker down to the call frame (an enclosing try's included)")
		case push == nil || !instrDominates(repeat, push) || !instrReachableFrom(push, appendStore):
			r.Violate("R-C10-6", key, w.pos(appendStore.Pos()), "the increment store code (which ends in DropToMarker let) is appended inside the loop without a Push of the marker inside the loop")
		default:
			r.Discharge("R-C10-6", key, w.pos(appendStore.Pos()), "the marker is truncated out before the repeat point and pushed again before the increment code")
		}
	}

	if fn := fnOf("Compiler.compileFor"); fn == nil {
		r.Anchor("R-C10-6", "compiler.Compiler.compileFor")
	} else {
		key := "compiler.Compiler.compileFor|bare DropToMarker for the range form only"

		var iter ssa.Instruction

		allInstrs(fn, func(in ssa.Instruction) {
			if c, ok := in.(*ssa.Call); ok && strings.HasSuffix(callID(c.Common()), "Compiler.iterationFor") {
				iter = in
			}
		})

		bad := ""

		allInstrs(fn, func(in ssa.Instruction) {
			var cc *ssa.CallCommon

			switch x := in.(type) {
			case *ssa.Defer:
				cc = x.Common()
			case *ssa.Call:
				cc = x.Common()
			default:
				return
			}

			if callID(cc) != "internal/language/bytecode.ByteCode.Emit" {
				return
			}

			if k, isC := constInt(cc.Args[1]); !isC || k != opDropToMarker {
				return
			}

			if iter != nil && instrReachableFrom(in, iter) {
				bad = w.pos(in.Pos())
			}
		})

		switch {
		case iter == nil:
			r.Anchor("R-C10-6", "call of iterationFor in compileFor")
		case bad != "":
			r.Violate("R-C10-6", key, bad, "a DropToMarker without a marker name is emitted (or deferred) on the path that compiles the clause form of for: that form removes the init clause's marker itself, so the extra one takes the marker below it -- an enclosing try's")
		default:
			r.Discharge("R-C10-6", key, w.pos(iter.Pos()), "no bare DropToMarker on the path to iterationFor")
		}
	}
}
