package main

import (
	"strings"

	"golang.org/x/tools/go/ssa"
)

// c42CompileTimeInstances: R-C42-8. data.InstanceOfType(T) makes the zero value
// of a declared type while the function is being compiled. Given to Emit as an
// operand it becomes part of the code; for a pointer type that is one pointee
// for every call of the function and every request that runs it.
func c42CompileTimeInstances(w *World, r *Report) {
	r.Rule("R-C42-8", "no instance made at compile time is the operand of an instruction: in package compiler no value that comes from data.InstanceOfType is handed to ByteCode.Emit", 0)

	cp := w.pkg("internal/language/compiler")
	if cp == nil {
		return
	}

	isInstance := func(v ssa.Value) bool {
		return derivesFrom(v, func(s ssa.Value) bool {
			c, ok := s.(*ssa.Call)

			return ok && strings.HasSuffix(callID(c.Common()), "language/data.InstanceOfType")
		}, nil)
	}

	var elems func(v ssa.Value, depth int) []ssa.Value

	elems = func(v ssa.Value, depth int) []ssa.Value {
		out := []ssa.Value{v}

		if depth < 2 {
			for _, e := range packedElems(v) {
				out = append(out, elems(e, depth+1)...)
			}
		}

		return out
	}

	for _, fn := range w.srcFuncs(cp) {
		allInstrs(fn, func(in ssa.Instruction) {
			c, ok := in.(*ssa.Call)
			if !ok || !strings.HasSuffix(callID(c.Common()), "bytecode.ByteCode.Emit") {
				return
			}

			for _, e := range elems(c.Call.Args[len(c.Call.Args)-1], 0) {
				if !isInstance(e) {
					continue
				}

				op := "an instruction"
				if k := emitOf(in); k >= 0 {
					op = "opcode " + sprintInt(int(k))
				}

				r.Violate("R-C42-8", fnKey(fn)+"|compile-time instance as operand", w.pos(in.Pos()), "the zero value of a named return variable is made once, while the function is compiled, and embedded as the operand of "+op+": for a pointer type every call shares the pointee (`func mk(id string) (p *person) { p.name = id; return }` called twice answers `d d`), and so does every request that runs the cached service")

				return
			}
		})
	}
}
