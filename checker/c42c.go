package main

import (
	"strings"

	"golang.org/x/tools/go/ssa"
)

// c42OperandAggregatesCopied: R-C42-7. An instruction operand is part of the
// compiled code, and compiled service code is cached and run by every request.
// A mutable aggregate that the compiler builds and embeds as the operand of a
// Push (the empty struct literal `{}`) is one object for all of them: whatever
// one execution stores into it, the next one finds. The Push handler has to
// hand each evaluation a copy.
func c42OperandAggregatesCopied(w *World, r *Report) {
	r.Rule("R-C42-7", "a mutable aggregate embedded in the code is copied when it is pushed: for every type among *data.Struct, *data.Array, *data.Map that package compiler emits as the operand of Push, pushByteCode has a type test for it on whose true edge the value pushed comes from a Copy/Clone of the operand", 1)

	cp := w.pkg("internal/language/compiler")
	bp := w.pkg("internal/language/bytecode")

	if cp == nil || bp == nil {
		r.Anchor("R-C42-7", "packages compiler and bytecode")

		return
	}

	push := lookupConstInt(bp, "Push")
	if push == nil {
		r.Anchor("R-C42-7", "bytecode.Push")

		return
	}

	mutable := func(v ssa.Value) string {
		mi, ok := v.(*ssa.MakeInterface)
		if !ok {
			return ""
		}

		t := mi.X.Type().String()
		for _, name := range []string{"Struct", "Array", "Map"} {
			if strings.HasSuffix(t, "language/data."+name) && strings.HasPrefix(t, "*") {
				return "*data." + name
			}
		}

		return ""
	}

	embedded := map[string]ssa.Instruction{}

	for _, fn := range w.srcFuncs(cp) {
		allInstrs(fn, func(in ssa.Instruction) {
			if emitOf(in) != *push {
				return
			}

			c := in.(*ssa.Call)

			for _, e := range packedElems(c.Call.Args[len(c.Call.Args)-1]) {
				if t := mutable(e); t != "" {
					embedded[t] = in
				}
			}
		})
	}

	if len(embedded) == 0 {
		r.Info("R-C42-7", "compiler|no mutable aggregate is embedded as a Push operand", "", "")

		return
	}

	fn := w.ssaFunc(bp, "pushByteCode")
	if fn == nil {
		r.Anchor("R-C42-7", "bytecode.pushByteCode")

		return
	}

	for _, t := range sortedKeys(embedded) {
		site := embedded[t]
		key := "bytecode.pushByteCode|" + t + " operand is copied"

		var ta *ssa.TypeAssert

		allInstrs(fn, func(in ssa.Instruction) {
			if x, ok := in.(*ssa.TypeAssert); ok && x.CommaOk && strings.HasSuffix(x.AssertedType.String(), strings.TrimPrefix(t, "*data.")) && strings.Contains(x.AssertedType.String(), "language/data.") {
				ta = x
			}
		})

		if ta == nil {
			r.Violate("R-C42-7", key, w.pos(site.Pos()), "the compiler embeds a "+t+" built at compile time as the operand of Push and the Push handler pushes that very object: every execution of the code (every request that runs a cached service) shares it, and `append(list, {})` followed by `list[0].id = id` leaves one request's value for the next")

			continue
		}

		// on the true edge of the type test the pushed value is a copy
		isCopy := func(v ssa.Value) bool {
			return derivesFrom(v, func(s ssa.Value) bool {
				c, ok := s.(*ssa.Call)
				if !ok {
					return false
				}

				id := callID(c.Common())

				return strings.HasSuffix(id, "Copy") || strings.HasSuffix(id, ".Clone")
			}, nil)
		}

		falseCut := cutEdges(fn, func(f Fact) bool {
			e, ok := f.V.(*ssa.Extract)

			return f.Kind == "false" && ok && e.Tuple == ssa.Value(ta) && e.Index == 1
		})

		rawPush := pathAvoiding(ta, falseCut, func(i ssa.Instruction) bool {
			c, ok := i.(*ssa.Call)

			return ok && strings.HasSuffix(callID(c.Common()), "bytecode.Context.push") && isCopy(callArgs(c.Common())[1])
		}, func(i ssa.Instruction) bool {
			_, isRet := i.(*ssa.Return)

			return isRet
		})

		if rawPush != nil {
			r.Violate("R-C42-7", key, w.pos(ta.Pos()), "on the path where the operand is a "+t+" the handler can return without pushing a copy of it")
		} else {
			r.Discharge("R-C42-7", key, w.pos(ta.Pos()), "")
		}
	}
}
