package main

import (
	"go/token"
	"strings"

	"golang.org/x/tools/go/ssa"
)

// C20 Routes run only for authorized requests.

func init() {
	register(&propertyCheck{
		id: "C20", level: "other", needs: loadNeeds{ssa: true},
		decides: "the gates in front of the handler call in (*Router).ServeHTTP hold for every route declaration: with every edge that implies 'session authenticated' or 'route does not require authentication' removed, the handler call is unreachable; with every edge that implies 'permission granted', 'administrator' or 'no permissions required' removed, the status value that guards the handler call is provably not OK (abstract interpretation of the status variable over {OK, not-OK}); the handler is called only under status == OK; " +
			"the declared route table is statically known (constant builder arguments) and never combines LightWeight(true) with an authentication or permission requirement.",
		misses: "whether each route declares the right requirement (policy), the credential checks inside Session.Authenticate (C21, C22, C24, C25), routes registered at run time by Ego services.",
		run:    runC20,
	})
}

func runC20(w *World, r *Report) {
	r.Rule("R-C20-1", "authentication gate (edge cut): with the edges {Session.Authenticated true, Route.mustAuthenticate false} removed, the dynamic call of the route handler in ServeHTTP is unreachable", 1)
	r.Rule("R-C20-2", "permission gate (edge cut + abstract status): with the edges {permission granted, Session.Admin true, requiredPermissions == nil} removed, the handler call is unreachable once branches on a provably not-OK status are pruned", 1)
	r.Rule("R-C20-3", "the handler is invoked only at one site, under status == http.StatusOK, and nowhere else in package router", 1)
	r.Rule("R-C20-5", "a permission counts only for a proven identity: with the edges {Session.Authenticated true} removed, no permission lookup (auth.GetPermission, util.InListInsensitive, HasAllPermissions) that decides the gate is reachable in ServeHTTP, and the value the gate branches on has no other source than those lookups and the constant false", 2)
	r.Rule("R-C20-6", "administrator status implies authentication: every store to router.Session.Admin is the constant false, the value stored to Session.Authenticated, or a value whose non-false sources are reachable only through the true edge of that value", 2)
	r.Rule("R-C20-4", "route table: every router.New chain has constant path/method/builder arguments, and no chain combines LightWeight(true) with Authentication(true) or Permissions(...)", 80)

	rp := w.pkg("internal/router")
	fn := w.ssaFunc(rp, "Router.ServeHTTP")

	if fn == nil {
		r.Anchor("R-C20-1", "router.Router.ServeHTTP")

		return
	}

	// the handler call: a dynamic call whose function value is loaded from a field named handler
	var handlerCalls []*ssa.Call

	for _, f := range w.srcFuncs(rp) {
		allInstrs(f, func(in ssa.Instruction) {
			c, ok := in.(*ssa.Call)
			if !ok || c.Call.IsInvoke() || staticCallee(c.Common()) != nil {
				return
			}

			if isFieldNamed(c.Call.Value, "handler") {
				if f == fn {
					handlerCalls = append(handlerCalls, c)
				} else {
					r.Violate("R-C20-3", fnKey(f)+"|handler-call", w.pos(c.Pos()), "a route handler is invoked outside ServeHTTP's gates")
				}
			}
		})
	}

	if len(handlerCalls) != 1 {
		r.Violate("R-C20-3", "router.Router.ServeHTTP|handler-call", w.pos(fn.Pos()), "expected exactly one call through the handler field in ServeHTTP, found "+sprintInt(len(handlerCalls)))

		return
	}

	hc := handlerCalls[0]

	// ---- R-C20-1
	nAuth, nMust := 0, 0

	cuts := cutEdges(fn, func(f Fact) bool {
		switch f.Kind {
		case "true":
			if isFieldNamed(f.V, "Authenticated") {
				nAuth++

				return true
			}
		case "false":
			if isFieldNamed(f.V, "mustAuthenticate") {
				nMust++

				return true
			}
		}

		return false
	})

	key := "router.Router.ServeHTTP|handler-behind-authentication"

	switch {
	case nAuth == 0 || nMust == 0:
		r.Violate("R-C20-1", key, w.pos(hc.Pos()), "ServeHTTP does not branch on Session.Authenticated and Route.mustAuthenticate")
	case newStatusAbs(fn).reachable(cuts, hc):
		r.Violate("R-C20-1", key, w.pos(hc.Pos()), "the handler call stays reachable for a request that is not authenticated on a route that requires authentication (some route declaration, e.g. lightweight + Authentication(true) without CanAuthenticate, bypasses every authentication test)")
	default:
		r.Discharge("R-C20-1", key, w.pos(hc.Pos()), "unreachable once {authenticated, not required} edges are removed")
	}

	// ---- R-C20-3: under status == OK
	st := newStatusAbs(fn)

	key3 := "router.Router.ServeHTTP|handler-under-status-OK"
	okCuts := cutEdges(fn, func(f Fact) bool {
		k, isInt := int64(0), false
		if f.C != nil {
			k, isInt = constInt(f.C)
		}

		return f.Kind == "eq" && isInt && k == 200 && st.isStatus(f.V)
	})

	if len(okCuts) == 0 || instrReachableAfterCut(fn, hc, okCuts) {
		r.Violate("R-C20-3", key3, w.pos(hc.Pos()), "the handler call is reachable without a status == http.StatusOK test: a request already answered with an error still runs the handler")
	} else {
		r.Discharge("R-C20-3", key3, w.pos(hc.Pos()), "nested in status == http.StatusOK")
	}

	// ---- R-C20-2
	isGrant := func(v ssa.Value) bool {
		return derivesFrom(v, func(s ssa.Value) bool {
			c, ok := s.(*ssa.Call)
			if !ok {
				return false
			}

			id := callID(c.Common())

			return id == "internal/util.InListInsensitive" || id == "internal/server/auth.GetPermission" || strings.HasSuffix(id, ".HasAllPermissions")
		}, nil)
	}

	nGrant := 0

	pcuts := cutEdges(fn, func(f Fact) bool {
		switch f.Kind {
		case "true":
			if isFieldNamed(f.V, "Admin") {
				return true
			}

			if _, isPhiOrCall := f.V.(ssa.Instruction); isPhiOrCall && isGrant(f.V) && !isFieldNamed(f.V, "Admin") {
				nGrant++

				return true
			}
		case "nil":
			return isFieldNamed(f.V, "requiredPermissions")
		}

		return false
	})

	// "at least one permission is required": the loop over requiredPermissions
	// cannot fall out of its header without an iteration (with every grant
	// edge removed each iteration ends in the denial branch).
	for _, li := range naturalLoops(fn) {
		overPerms := false

		for b := range li.body {
			for _, in := range b.Instrs {
				if ia, ok := in.(*ssa.IndexAddr); ok && isFieldNamed(ia.X, "requiredPermissions") {
					overPerms = true
				}
			}
		}

		if !overPerms {
			continue
		}

		st.mustIterate = append(st.mustIterate, li)
	}

	key2 := "router.Router.ServeHTTP|handler-behind-permissions"

	if nGrant == 0 {
		r.Violate("R-C20-2", key2, w.pos(hc.Pos()), "no permission-grant branch found in ServeHTTP")
	} else {
		if st.reachable(pcuts, hc) {
			r.Violate("R-C20-2", key2, w.pos(hc.Pos()), "the handler call stays reachable when a required permission is not granted to a non-administrator (the denial does not leave the status not-OK on every path to the call)")
		} else {
			r.Discharge("R-C20-2", key2, w.pos(hc.Pos()), "denial leaves status not-OK on every path; handler unreachable")
		}
	}

	// ---- R-C20-5: grants are looked up only for an authenticated session
	authCuts := cutEdges(fn, func(f Fact) bool {
		return f.Kind == "true" && isFieldNamed(f.V, "Authenticated")
	})

	isGrantCall := func(v ssa.Value) bool {
		c, ok := v.(*ssa.Call)
		if !ok {
			return false
		}

		id := callID(c.Common())

		return id == "internal/util.InListInsensitive" || id == "internal/server/auth.GetPermission" || strings.HasSuffix(id, ".HasAllPermissions")
	}

	grantRoots := map[ssa.Value]bool{}

	for _, b := range fn.Blocks {
		if len(b.Instrs) == 0 {
			continue
		}

		ifi, ok := b.Instrs[len(b.Instrs)-1].(*ssa.If)
		if !ok {
			continue
		}

		c := ifi.Cond
		for {
			u, isNot := c.(*ssa.UnOp)
			if !isNot || u.Op != token.NOT {
				break
			}

			c = u.X
		}

		if _, isInstr := c.(ssa.Instruction); isInstr && !isFieldNamed(c, "Admin") && isGrant(c) {
			grantRoots[c] = true
		}
	}

	for root := range grantRoots {
		seen := map[ssa.Value]bool{}

		var leaves func(v ssa.Value)

		leaves = func(v ssa.Value) {
			if seen[v] {
				return
			}

			seen[v] = true

			key := "router.Router.ServeHTTP|grant-source " + valueName(v)

			switch x := v.(type) {
			case *ssa.Phi:
				for _, e := range x.Edges {
					leaves(e)
				}
			case *ssa.Const:
				if b, ok := constBool(x); ok && !b {
					r.Discharge("R-C20-5", key, w.pos(root.Pos()), "constant false")
				} else {
					r.Violate("R-C20-5", key, w.pos(root.Pos()), "the permission gate can be satisfied by a constant, without any permission lookup")
				}
			default:
				if !isGrantCall(v) {
					r.Violate("R-C20-5", key, w.pos(v.Pos()), "the permission gate branches on a value that is not a permission lookup")

					return
				}

				if instrReachableAfterCut(fn, v.(ssa.Instruction), authCuts) {
					r.Violate("R-C20-5", key, w.pos(v.Pos()), "this permission lookup runs for a session that is not authenticated: Session.User is also set when the credentials only name a user (Basic header with a wrong password), so on a route declared with Permissions(...) but without Authentication(true) the named user's permissions open the route to anyone")
				} else {
					r.Discharge("R-C20-5", key, w.pos(v.Pos()), "reachable only through Session.Authenticated == true")
				}
			}
		}

		leaves(root)
	}

	// ---- R-C20-6: Admin implies Authenticated
	c20AdminStores(w, r)
	c20PermissionsAccumulate(w, r)
	c20FederatedIdentity(w, r)

	// ---- R-C20-4 route table
	routes := extractRoutes(w)
	r.Unit("route_declarations", len(routes))

	var samples []string

	for _, rd := range routes {
		key := rd.pkg.Types.Name() + "|" + rd.method + " " + rd.path
		if len(samples) < 12 {
			samples = append(samples, rd.method+" "+rd.path+" -> "+rd.handlerText)
		}

		var problems []string

		if !rd.pathConst && !strings.Contains(rd.path, "defs.") && !strings.Contains(rd.path, "Path") {
			// non-constant paths are used by service definitions (dynamic); not a violation
		}

		lw := rd.has("LightWeight")
		if lw != nil && len(lw.args) == 1 && lw.args[0] != "false" {
			if a := rd.has("Authentication"); a != nil && len(a.args) > 0 && a.args[0] != "false" {
				problems = append(problems, "combines LightWeight(true) with Authentication(true)")
			}

			if rd.has("Permissions") != nil {
				problems = append(problems, "combines LightWeight(true) with Permissions(...)")
			}
		}

		for _, bc := range rd.chain {
			switch bc.name {
			case "LightWeight", "Authentication", "Permissions", "CanAuthenticate":
				for _, a := range bc.args {
					if a == "" {
						problems = append(problems, bc.name+" has a non-constant argument: the route's requirements are not statically known")
					}
				}
			}
		}

		if len(problems) > 0 {
			r.Violate("R-C20-4", key, w.pos(rd.call.Pos()), strings.Join(problems, "; "))
		} else {
			r.Discharge("R-C20-4", key, w.pos(rd.call.Pos()), "requirements statically known; no lightweight/authentication conflict")
		}
	}

	r.Unit("route_samples", samples)
}

// ---------------------------------------------------------------------------
// Path-sensitive reachability that tracks HTTP status values over {OK, not-OK}.
//
// A path carries facts about int SSA values: 'O' (== 200) or 'N' (!= 200).
// Facts come from constants, from util.ErrorResponse (returns the status it is
// given), from phi inputs along the edge actually taken, and from the branches
// `x == 200` / `x != 200` already taken on the path. A branch that contradicts
// the path's facts is not followed.

type statusAbs struct {
	fn *ssa.Function
	// loops that a path may leave through the header only after at least one
	// iteration (models "the collection ranged over is not empty")
	mustIterate []*loopInfo
}

func newStatusAbs(fn *ssa.Function) *statusAbs { return &statusAbs{fn: fn} }

func (s *statusAbs) isStatus(v ssa.Value) bool {
	switch v.(type) {
	case *ssa.Phi, *ssa.Extract, *ssa.Call:
		return true
	}

	return false
}

func (s *statusAbs) abs(v ssa.Value, facts map[ssa.Value]byte) byte {
	if k, ok := constInt(v); ok {
		if k == 200 {
			return 'O'
		}

		return 'N'
	}

	if a, ok := facts[v]; ok {
		return a
	}

	if c, ok := v.(*ssa.Call); ok && strings.HasSuffix(callID(c.Common()), "util.ErrorResponse") && len(c.Call.Args) == 4 {
		if s.abs(c.Call.Args[3], facts) == 'N' {
			return 'N'
		}
	}

	return 0
}

// reachable reports whether target can execute on some path from entry that
// crosses no cut edge and is consistent in its status facts.
func (s *statusAbs) reachable(cuts map[Edge]bool, target ssa.Instruction) bool {
	type key struct {
		b   *ssa.BasicBlock
		sig string
	}

	seen := map[key]bool{}
	found := false

	sig := func(f map[ssa.Value]byte) string {
		parts := make([]string, 0, len(f))
		for v, a := range f {
			parts = append(parts, v.Name()+string(a))
		}

		sortStrings(parts)

		return strings.Join(parts, ",")
	}

	var walk func(b *ssa.BasicBlock, facts map[ssa.Value]byte, depth int)

	walk = func(b *ssa.BasicBlock, facts map[ssa.Value]byte, depth int) {
		if found || depth > 2000 {
			return
		}

		k := key{b, sig(facts)}
		if seen[k] {
			return
		}

		seen[k] = true

		if b == target.Block() {
			found = true

			return
		}

		if len(b.Instrs) == 0 {
			return
		}

		var cond *ssa.BinOp

		if ifi, ok := b.Instrs[len(b.Instrs)-1].(*ssa.If); ok {
			if bo, ok := ifi.Cond.(*ssa.BinOp); ok && (bo.Op == token.EQL || bo.Op == token.NEQ) {
				if kk, isC := constInt(bo.Y); isC && kk == 200 {
					cond = bo
				}
			}
		}

		for i, succ := range b.Succs {
			if cuts[Edge{b, i}] {
				continue
			}

			nf := facts

			for _, li := range s.mustIterate {
				if li.header != b || len(b.Instrs) == 0 {
					continue
				}

				var marker ssa.Value

				if ifi, ok := b.Instrs[len(b.Instrs)-1].(*ssa.If); ok {
					marker = ifi.Cond // any non-phi value owned by the header
				}

				if marker == nil {
					continue
				}

				if li.body[succ] && succ != b {
					nf = copyFacts(nf)
					nf[marker] = 'I' // an iteration has been entered
				} else if facts[marker] != 'I' {
					nf = nil // leaving without an iteration
				}
			}

			if nf == nil {
				continue
			}

			if cond != nil {
				// does successor i mean "== 200"?
				isEq := (cond.Op == token.EQL) == (i == 0)
				a := s.abs(cond.X, nf)

				if (a == 'N' && isEq) || (a == 'O' && !isEq) {
					continue // contradicts what the path knows
				}

				nf = copyFacts(nf)
				if isEq {
					nf[cond.X] = 'O'
				} else {
					nf[cond.X] = 'N'
				}
			}

			// phi transfer along this edge
			idx := -1

			for pi, p := range succ.Preds {
				if p == b {
					idx = pi
				}
			}

			var phiUpd map[ssa.Value]byte

			for _, in := range succ.Instrs {
				ph, ok := in.(*ssa.Phi)
				if !ok {
					break
				}

				if idx < 0 || idx >= len(ph.Edges) {
					continue
				}

				if phiUpd == nil {
					phiUpd = map[ssa.Value]byte{}
				}

				phiUpd[ph] = s.abs(ph.Edges[idx], nf)
			}

			if len(phiUpd) > 0 {
				nf = copyFacts(nf)

				for v, a := range phiUpd {
					if a == 0 {
						delete(nf, v)
					} else {
						nf[v] = a
					}
				}
			}

			walk(succ, nf, depth+1)
		}
	}

	walk(s.fn.Blocks[0], map[ssa.Value]byte{}, 0)

	return found
}

func copyFacts(f map[ssa.Value]byte) map[ssa.Value]byte {
	o := make(map[ssa.Value]byte, len(f)+1)
	for k, v := range f {
		o[k] = v
	}

	return o
}

// c20AdminStores checks every store to router.Session.Admin in the repository.
func c20AdminStores(w *World, r *Report) {
	isSessionField := func(addr ssa.Value, name string) (ssa.Value, bool) {
		fa, ok := addr.(*ssa.FieldAddr)
		if !ok {
			return nil, false
		}

		if fieldName(fa.X.Type(), fa.Field) != name {
			return nil, false
		}

		if !strings.HasSuffix(fa.X.Type().String(), "internal/router.Session") {
			return nil, false
		}

		return fa.X, true
	}

	var all []*ssa.Function
	for _, p := range w.pkgs {
		all = append(all, w.srcFuncs(p)...)
	}

	for _, f := range all {
		var adminStores, authStores []*ssa.Store

		allInstrs(f, func(in ssa.Instruction) {
			st, ok := in.(*ssa.Store)
			if !ok {
				return
			}

			if _, ok := isSessionField(st.Addr, "Admin"); ok {
				adminStores = append(adminStores, st)
			}

			if _, ok := isSessionField(st.Addr, "Authenticated"); ok {
				authStores = append(authStores, st)
			}
		})

		for i, as := range adminStores {
			key := fnKey(f) + "|store Session.Admin"
			if i > 0 {
				key += " #" + sprintInt(i+1)
			}

			if b, ok := constBool(as.Val); ok && !b {
				r.Discharge("R-C20-6", key, w.pos(as.Pos()), "constant false")

				continue
			}

			// the Authenticated store that dominates this one
			var authVal ssa.Value

			for _, us := range authStores {
				if instrDominates(us, as) {
					authVal = us.Val
				}
			}

			if authVal == nil {
				r.Violate("R-C20-6", key, w.pos(as.Pos()), "Session.Admin is set without Session.Authenticated being set on the same path: administrator status would not imply authentication")

				continue
			}

			if as.Val == authVal {
				r.Discharge("R-C20-6", key, w.pos(as.Pos()), "same value as Session.Authenticated")

				continue
			}

			// path-sensitive: on no consistent path does the store see a value
			// that may be true while the authentication result may be false
			exhausted := false
			bad := ""

			walkPathsOpt(f, nil, walkOpts{exhausted: &exhausted}, func(b *ssa.BasicBlock, facts pathFacts) bool {
				if b != as.Block() {
					return false
				}

				if absValue(as.Val, facts) != 'F' && absValue(authVal, facts) != 'T' {
					bad = valueName(as.Val)

					return true
				}

				return false
			})

			switch {
			case exhausted:
				r.Violate("R-C20-6", key, w.pos(as.Pos()), "undecided: the path search ran out of budget")
			case bad != "":
				r.Violate("R-C20-6", key, w.pos(as.Pos()), "Session.Admin can be set ("+bad+") on a path where the authentication result is not known to be true: an unauthenticated request would skip the permission gate as administrator")
			default:
				r.Discharge("R-C20-6", key, w.pos(as.Pos()), "on every consistent path the stored value is false unless the value stored to Session.Authenticated is true")
			}
		}
	}
}

// c20PermissionsAccumulate: R-C20-7. A route's required permissions only grow:
// each call of Route.Permissions adds to what earlier calls declared. A store
// that replaces the list with one not computed from it silently drops
// requirements the declaration still names.
func c20PermissionsAccumulate(w *World, r *Report) {
	r.Rule("R-C20-7", "Route.Permissions never drops a declared permission: every store to Route.requiredPermissions is computed from the list it replaces (append to it, or a copy of it), or initialises it where it was found nil", 1)

	rp := w.pkg("internal/router")
	if rp == nil {
		return
	}

	fn := w.ssaFunc(rp, "Route.Permissions")
	if fn == nil {
		r.Anchor("R-C20-7", "router.Route.Permissions")

		return
	}

	n := 0

	allInstrs(fn, func(in ssa.Instruction) {
		st, ok := in.(*ssa.Store)
		if !ok {
			return
		}

		fa, ok := st.Addr.(*ssa.FieldAddr)
		if !ok || fieldName(fa.X.Type(), fa.Field) != "requiredPermissions" {
			return
		}

		n++

		key := "router.Route.Permissions|store requiredPermissions"
		if n > 1 {
			key += " #" + sprintInt(n)
		}

		if valueInvolvesFieldLoad(st.Val, "requiredPermissions", map[ssa.Value]bool{}) {
			r.Discharge("R-C20-7", key, w.pos(st.Pos()), "computed from the list it replaces")

			return
		}

		// initialisation where the list was found nil
		for _, f := range dominatingFacts(st.Block()) {
			if f.Kind == "nil" && isFieldNamed(f.V, "requiredPermissions") {
				r.Discharge("R-C20-7", key, w.pos(st.Pos()), "initialises a nil list")

				return
			}
		}

		r.Violate("R-C20-7", key, w.pos(st.Pos()), "the route's required permissions are replaced by a list that is not computed from the one already declared: a route declared .Permissions(a).Permissions(b) ends up requiring only b, and a caller holding b alone reaches the handler")
	})

	if n == 0 {
		r.Anchor("R-C20-7", "a store to requiredPermissions in router.Route.Permissions")
	}
}
