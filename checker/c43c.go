package main

import (
	"go/token"
	"strings"

	"golang.org/x/tools/go/ssa"
)

// c43UpdateNeedsUpdateGrant: R-C43-9. R-C43-2 matches the permission a handler
// asks for with the HTTP method of its route. An insert with ?upsert= is a PUT
// like any insert, and for a row that already exists it runs an UPDATE: the
// statement kind, not the method, decides which grant is needed.
func c43UpdateNeedsUpdateGrant(w *World, r *Report) {
	r.Rule("R-C43-9", "an UPDATE is run only for a caller with the update grant: in each handler of package tables, every call that can reach parsing.FormUpdateQuery is unreachable once the edges {Session.Admin true, DSN not restricted, Authorized(…, TableUpdatePermission) true} are removed", 2)

	tp := w.pkg("internal/server/tables")
	dp := w.pkg("internal/defs")

	if tp == nil || dp == nil {
		return
	}

	update := constStringOf(dp, "TableUpdatePermission")
	if update == "" {
		r.Anchor("R-C43-9", "defs.TableUpdatePermission")

		return
	}

	fns := w.srcFuncs(tp)

	reaches := map[*ssa.Function]bool{}

	for changed := true; changed; {
		changed = false

		for _, fn := range fns {
			if reaches[fn] {
				continue
			}

			allCalls(fn, func(ci ssa.CallInstruction) {
				cf := calleeFunction(ci.Common())
				if strings.HasSuffix(callID(ci.Common()), "parsing.FormUpdateQuery") || cf != nil && reaches[cf] {
					if !reaches[fn] {
						reaches[fn] = true
						changed = true
					}
				}
			})
		}
	}

	isHandler := func(fn *ssa.Function) bool {
		if fn.Parent() != nil || len(fn.Params) != 3 {
			return false
		}

		return strings.HasSuffix(fn.Params[0].Type().String(), "router.Session") && strings.HasSuffix(fn.Params[2].Type().String(), "http.Request")
	}

	asksUpdate := func(c *ssa.Call) bool {
		if !strings.HasSuffix(callID(c.Common()), "server/tables.Authorized") {
			return false
		}

		args := callArgs(c.Common())

		for _, e := range packedElems(args[len(args)-1]) {
			if s, ok := constString(e); ok && s == update {
				return true
			}
		}

		return false
	}

	isLenOf := func(v ssa.Value) ssa.Value {
		c, ok := stripValue(v).(*ssa.Call)
		if !ok {
			return nil
		}

		if name, isB := lcBuiltin(c, true); isB && name == "len" {
			return stripValue(c.Call.Args[0])
		}

		return nil
	}

	// a helper that builds an UPDATE only for a non-empty list parameter (the
	// upsert key list): FormUpdateQuery is unreachable in it once the true
	// edges of values that can only be true through `len(param) > 0` are cut
	updatesOnlyWith := func(g *ssa.Function) int {
		for k, p := range g.Params {
			var gate func(v ssa.Value, seen map[ssa.Value]bool) bool

			gate = func(v ssa.Value, seen map[ssa.Value]bool) bool {
				v = stripValue(v)
				if seen[v] {
					return true
				}

				seen[v] = true

				switch x := v.(type) {
				case *ssa.BinOp:
					if zero, isK := constInt(x.Y); isK && zero == 0 && (x.Op == token.GTR || x.Op == token.NEQ) {
						return isLenOf(x.X) == ssa.Value(p)
					}
				case *ssa.Phi:
					for _, e := range x.Edges {
						if b, isB := constBool(e); isB && !b {
							continue
						}

						if !gate(e, seen) {
							return false
						}
					}

					return true
				}

				return false
			}

			cuts := cutEdges(g, func(f Fact) bool {
				return f.Kind == "true" && f.V != nil && gate(f.V, map[ssa.Value]bool{})
			})

			if len(cuts) == 0 {
				continue
			}

			reachable := false

			allCalls(g, func(ci ssa.CallInstruction) {
				cf := calleeFunction(ci.Common())
				if strings.HasSuffix(callID(ci.Common()), "parsing.FormUpdateQuery") || cf != nil && reaches[cf] {
					if instrReachableAfterCut(g, ci, cuts) {
						reachable = true
					}
				}
			})

			if !reachable {
				return k
			}
		}

		return -1
	}

	for _, fn := range fns {
		if !isHandler(fn) || !reaches[fn] {
			continue
		}

		cuts := cutEdges(fn, func(f Fact) bool {
			switch f.Kind {
			case "true":
				if c, ok := f.V.(*ssa.Call); ok && asksUpdate(c) {
					return true
				}

				return isFieldNamed(f.V, "Admin")
			case "false":
				return isFieldNamed(f.V, "Restricted")
			}

			return false
		})

		allCalls(fn, func(ci ssa.CallInstruction) {
			cf := calleeFunction(ci.Common())
			if !strings.HasSuffix(callID(ci.Common()), "parsing.FormUpdateQuery") && (cf == nil || !reaches[cf]) {
				return
			}

			key := fnKey(fn) + "|update behind the update grant"

			// the helper updates only for a non-empty list: the edge on which
			// that very list is empty needs no grant
			siteCuts := cuts

			if cf != nil {
				if k := updatesOnlyWith(cf); k >= 0 && k < len(ci.Common().Args) {
					list := stripValue(ci.Common().Args[k])
					siteCuts = map[Edge]bool{}

					for e := range cuts {
						siteCuts[e] = true
					}

					for e := range cutEdges(fn, func(f Fact) bool {
						if f.Kind != "cmp" || isLenOf(f.X) != list {
							return false
						}

						zero, isK := constInt(f.Y)

						return isK && zero == 0 && (f.Op == token.LEQ || f.Op == token.EQL)
					}) {
						siteCuts[e] = true
					}
				}
			}

			if instrReachableAfterCut(fn, ci, siteCuts) {
				r.Violate("R-C43-9", key, w.pos(ci.Pos()), "this call can end in an UPDATE statement and is reachable for a caller who is not an administrator and was not found to hold the update grant on a restricted DSN: with ?upsert= a user holding only the write (insert) grant rewrites existing rows, which the update endpoint refuses with 403")
			} else {
				r.Discharge("R-C43-9", key, w.pos(ci.Pos()), "")
			}
		})
	}
}
