package main

import (
	"go/ast"
	"go/token"
	"go/types"
	"strings"

	"golang.org/x/tools/go/ssa"
)

// Constant-index guard (shared by C39, C40, C07): an index x[k] with constant
// k into a slice or string whose length is not statically known must be
// unreachable once every edge that establishes len(x) > k is removed.

type indexSite struct {
	instr ssa.Instruction
	x     ssa.Value
	k     int64
}

func constIndexSites(fn *ssa.Function) []indexSite {
	var out []indexSite

	allInstrs(fn, func(in ssa.Instruction) {
		var x, idx ssa.Value

		switch v := in.(type) {
		case *ssa.IndexAddr:
			x, idx = v.X, v.Index
		case *ssa.Index:
			x, idx = v.X, v.Index
		case *ssa.Lookup:
			if _, isStr := v.X.Type().Underlying().(*types.Basic); !isStr {
				return
			}

			x, idx = v.X, v.Index
		default:
			return
		}

		k, ok := constInt(idx)
		if !ok || k < 0 {
			return
		}

		switch t := x.Type().Underlying().(type) {
		case *types.Array:
			return
		case *types.Pointer:
			if _, isArr := t.Elem().Underlying().(*types.Array); isArr {
				return
			}
		}

		out = append(out, indexSite{in, x, k})
	})

	return out
}

// knownMinLen returns a statically known lower bound of len(x), or -1.
var minLenBusy = map[ssa.Value]bool{}

func knownMinLen(x ssa.Value) int64 {
	x = stripValue(x)

	if minLenBusy[x] || len(minLenBusy) > 40 {
		return -1
	}

	minLenBusy[x] = true
	defer delete(minLenBusy, x)

	return knownMinLen1(x)
}

func knownMinLen1(x ssa.Value) int64 {

	switch v := x.(type) {
	case *ssa.Slice:
		// s[lo:hi] of an array with constant bounds, or a whole array
		if p, ok := v.X.Type().Underlying().(*types.Pointer); ok {
			if arr, ok := p.Elem().Underlying().(*types.Array); ok {
				lo, hi := int64(0), arr.Len()

				if v.Low != nil {
					n, isC := constInt(v.Low)
					if !isC {
						return -1
					}

					lo = n
				}

				if v.High != nil {
					n, isC := constInt(v.High)
					if !isC {
						return -1
					}

					hi = n
				}

				return hi - lo
			}
		}
	case *ssa.Const:
		if s, ok := constString(v); ok {
			return int64(len(s))
		}
	case *ssa.Call:
		switch callID(v.Common()) {
		case "strings.Split", "strings.SplitN", "strings.SplitAfter":
			// at least one element when the separator is a non-empty constant
			if sep, ok := constString(v.Call.Args[1]); ok && sep != "" {
				return 1
			}
		case "internal/language/data.List.Elements":
			return minArgsOfList(v.Call.Args[0])
		}

		// a repository function all of whose returns have a known minimum length (one level deep)
		if cf := calleeFunction(v.Common()); cf != nil && len(cf.Blocks) > 0 && cf.Signature.Results().Len() == 1 {
			min := int64(-1)

			for i, ret := range returnsOf(cf) {
				m := knownMinLenShallow(resolveLocal(retResult(ret, 0)))
				if i == 0 || m < min {
					min = m
				}
			}

			return min
		}
	case *ssa.MakeSlice:
		if n, ok := constInt(v.Len); ok {
			return n
		}
	case *ssa.BinOp:
		// string concatenation: at least the constant parts
		if v.Op == token.ADD && isStringType(v.Type()) {
			total := int64(0)

			for _, side := range []ssa.Value{v.X, v.Y} {
				if m := knownMinLen(side); m > 0 {
					total += m
				}
			}

			return total
		}
	case *ssa.Convert:
		// []byte("const"), string(x)
		if _, toStr := v.Type().Underlying().(*types.Basic); !toStr || isStringType(v.X.Type()) {
			if _, fromInt := v.X.Type().Underlying().(*types.Basic); !fromInt || isStringType(v.X.Type()) {
				return knownMinLen(v.X)
			}
		}
	case *ssa.Phi:
		min := int64(-1)

		for i, e := range v.Edges {
			if e == ssa.Value(v) {
				continue
			}

			m := knownMinLenNoPhi(e)
			if i == 0 || m < min {
				min = m
			}
		}

		return min
	case *ssa.UnOp:
		if v.Op == token.MUL {
			if g, ok := v.X.(*ssa.Global); ok && g.Pkg != nil && g.Pkg.Pkg.Path() == "os" && g.Name() == "Args" {
				return 1
			}

			// a package-level slice assigned in this function before the use
			// (table = make([]T, N); table[k] = …)
			if g, ok := v.X.(*ssa.Global); ok && v.Parent() != nil {
				min, dominated := int64(-1), false

				first := true

				allInstrs(v.Parent(), func(in ssa.Instruction) {
					st, isStore := in.(*ssa.Store)
					if !isStore || st.Addr != ssa.Value(g) {
						return
					}

					if instrDominates(st, v) {
						dominated = true
					}

					m := knownMinLenNoPhi(st.Val)
					if first || m < min {
						min = m
					}

					first = false
				})

				if dominated {
					return min
				}
			}

			// a field just assigned in the same block (x.f = make([]T, n); x.f[0] = …)
			if fa, ok := v.X.(*ssa.FieldAddr); ok {
				if sv := lastStoreBefore(v, fa); sv != nil {
					return knownMinLenNoPhi(sv)
				}
			}

			if vals, ok := storedValues(v.X); ok && len(vals) > 0 {
				min := int64(-1)

				for i, sv := range vals {
					m := knownMinLenNoPhi(sv)
					if i == 0 || m < min {
						min = m
					}
				}

				return min
			}
		}
	}

	return -1
}

// knownMinLenShallow: as knownMinLen but without following repository calls
// (bounds the interprocedural step to one level).
func knownMinLenShallow(x ssa.Value) int64 {
	if c, ok := stripValue(x).(*ssa.Call); ok {
		switch callID(c.Common()) {
		case "strings.Split", "strings.SplitN", "strings.SplitAfter":
			if sep, ok := constString(c.Call.Args[1]); ok && sep != "" {
				return 1
			}
		}

		return -1
	}

	return knownMinLen(x)
}

func isStringType(t types.Type) bool {
	b, ok := t.Underlying().(*types.Basic)

	return ok && b.Info()&types.IsString != 0
}

// lastStoreBefore: the value most recently stored, earlier in the load's own
// block, through a FieldAddr of the same base and field, with no call or
// other store to that field in between.
func lastStoreBefore(load *ssa.UnOp, fa *ssa.FieldAddr) ssa.Value {
	b := load.Block()
	idx := -1

	for i, in := range b.Instrs {
		if in == ssa.Instruction(load) {
			idx = i

			break
		}
	}

	for i := idx - 1; i >= 0; i-- {
		switch x := b.Instrs[i].(type) {
		case *ssa.Store:
			if a, ok := x.Addr.(*ssa.FieldAddr); ok && a.Field == fa.Field && (a.X == fa.X || sameSliceValue(a.X, fa.X)) {
				return x.Val
			}
		case *ssa.Call, *ssa.Defer, *ssa.Go:
			if _, isB := x.(ssa.CallInstruction).Common().Value.(*ssa.Builtin); !isB {
				return nil
			}
		}
	}

	return nil
}

func knownMinLenNoPhi(x ssa.Value) int64 {
	if _, isPhi := stripValue(x).(*ssa.Phi); isPhi {
		return -1
	}

	return knownMinLen(x)
}

// sameSliceValue: a and b denote the same slice/string: identical SSA values,
// or loads of the same local cell.
func sameSliceValue(a, b ssa.Value) bool {
	a, b = stripValue(a), stripValue(b)
	if a == b {
		return true
	}

	// a data.List value and its Elements()
	la, lb := listElementsOf(a), listElementsOf(b)

	switch {
	case la != nil && lb != nil:
		return listRoot(la) == listRoot(lb)
	case la != nil:
		return listRoot(la) == listRoot(b)
	case lb != nil:
		return listRoot(lb) == listRoot(a)
	}

	// m[k] twice with the same map and the same constant key; v, ok := m[k]
	if la, lb := lookupOf(a), lookupOf(b); la != nil && lb != nil {
		ka, oka := constString(la.Index)
		kb, okb := constString(lb.Index)

		return oka && okb && ka == kb && sameSliceValue(la.X, lb.X)
	}

	ua, oka := a.(*ssa.UnOp)
	ub, okb := b.(*ssa.UnOp)

	if oka && okb && ua.Op == token.MUL && ub.Op == token.MUL {
		if ua.X == ub.X {
			return true
		}

		// parts[1] read twice: the same constant element of the same slice
		ia, isA := ua.X.(*ssa.IndexAddr)
		ib, isB := ub.X.(*ssa.IndexAddr)

		if isA && isB {
			ka, okA := constInt(ia.Index)
			kb, okB := constInt(ib.Index)

			return okA && okB && ka == kb && sameSliceValue(ia.X, ib.X)
		}

		return sameFieldLoad(a, b)
	}

	return false
}

func lookupOf(v ssa.Value) *ssa.Lookup {
	switch x := v.(type) {
	case *ssa.Lookup:
		if _, isMap := x.X.Type().Underlying().(*types.Map); isMap {
			return x
		}
	case *ssa.Extract:
		if l, ok := x.Tuple.(*ssa.Lookup); ok && x.Index == 0 {
			return l
		}
	}

	return nil
}

// noLongerThan: v is x, or is computed from x by operations that never
// produce more bytes than their operand has (sub-slices, the strings.Trim*
// family), or — for comparisons with ASCII constants only — strings.ToLower /
// ToUpper.
func noLongerThan(v, x ssa.Value, depth int) bool {
	if sameSliceValue(v, x) {
		return true
	}

	if depth > 4 {
		return false
	}

	switch y := stripValue(v).(type) {
	case *ssa.Slice:
		return noLongerThan(y.X, x, depth+1)
	case *ssa.Call:
		switch callID(y.Common()) {
		case "strings.TrimSpace", "strings.TrimPrefix", "strings.TrimSuffix", "strings.Trim", "strings.TrimLeft", "strings.TrimRight", "strings.ToLower", "strings.ToUpper":
			return noLongerThan(y.Call.Args[0], x, depth+1)
		}
	}

	return false
}

func isASCII(s string) bool {
	for i := 0; i < len(s); i++ {
		if s[i] >= 0x80 {
			return false
		}
	}

	return true
}

// lenOf: v is len(x) → x.
func lenOf(v ssa.Value) ssa.Value {
	c, ok := v.(*ssa.Call)
	if !ok {
		return nil
	}

	if b, isB := c.Call.Value.(*ssa.Builtin); isB && b.Name() == "len" && len(c.Call.Args) == 1 {
		return c.Call.Args[0]
	}

	// args.Len() of a data.List is len(args.Elements()); the list value stands for its elements
	if callID(c.Common()) == "internal/language/data.List.Len" && len(c.Call.Args) == 1 {
		return c.Call.Args[0]
	}

	return nil
}

// listElementsOf: v is list.Elements() of a data.List value; returns the list.
func listElementsOf(v ssa.Value) ssa.Value {
	if c, ok := stripValue(v).(*ssa.Call); ok && callID(c.Common()) == "internal/language/data.List.Elements" && len(c.Call.Args) == 1 {
		return c.Call.Args[0]
	}

	return nil
}

// Minimum argument counts of runtime functions, from their declarations
// (filled by registerNativeMinArgs; keyed by the implementing function).
var nativeMinArgs = map[*types.Func]int{}

// minArgsOfList: v is the data.List parameter of a runtime function whose
// declaration fixes a minimum argument count (callRuntimeFunction refuses a
// call with fewer arguments before the function runs).
// listRoot names a data.List held in a local: the value itself, a load of the
// local, or the local's address (methods with pointer receivers) all resolve
// to the one value stored there.
func listRoot(v ssa.Value) ssa.Value {
	v = stripValue(v)

	if _, isPtr := v.Type().Underlying().(*types.Pointer); isPtr {
		if vals, ok := storedValues(v); ok && len(vals) == 1 {
			return resolveLocal(vals[0])
		}

		return v
	}

	return resolveLocal(v)
}

func minArgsOfList(v ssa.Value) int64 {
	v = listRoot(v)

	p, ok := v.(*ssa.Parameter)
	if !ok || p.Parent() == nil {
		return -1
	}

	f, ok := p.Parent().Object().(*types.Func)
	if !ok {
		return -1
	}

	if n, ok := nativeMinArgs[f]; ok {
		return int64(n)
	}

	return -1
}

// indexGuardCuts returns the edges establishing len(x) > k.
func indexGuardCuts(fn *ssa.Function, x ssa.Value, k int64) map[Edge]bool {
	return cutEdges(fn, func(f Fact) bool {
		switch f.Kind {
		case "ne":
			// s != "" (also of a trimmed / case-folded copy) implies len(s) >= 1
			if c, ok := constString(f.C); ok && c == "" && k == 0 && isStringType(f.V.Type()) {
				return noLongerThan(f.V, x, 0)
			}

			return false
		case "eq":
			// s == "const"
			if c, ok := constString(f.C); ok && int64(len(c)) > k && isStringType(f.V.Type()) {
				return sameSliceValue(f.V, x)
			}

			return false
		case "nonnil":
			// a url.Values-style map: a present key has at least one value
			return k == 0 && isParametersLookup(f.V) && sameSliceValue(f.V, x)
		case "true":
			if ex, ok := f.V.(*ssa.Extract); ok && ex.Index == 1 {
				if l, ok := ex.Tuple.(*ssa.Lookup); ok && l.CommaOk {
					return k == 0 && isParametersLookup(l) && lookupOf(stripValue(x)) != nil && sameSliceValue(l, x)
				}
			}

			c, ok := f.V.(*ssa.Call)
			if !ok {
				return false
			}

			switch callID(c.Common()) {
			case "strings.HasPrefix", "strings.HasSuffix":
				p, isC := constString(c.Call.Args[1])

				return isC && int64(len(p)) > k && isASCII(p) && noLongerThan(c.Call.Args[0], x, 0)
			case "strings.Contains":
				// parts := strings.Split(s, sep) behind strings.Contains(s, sep): at least two parts
				sp, ok := stripValue(x).(*ssa.Call)
				if !ok || k > 1 {
					return false
				}

				switch callID(sp.Common()) {
				case "strings.Split", "strings.SplitN":
				default:
					return false
				}

				if id := callID(sp.Common()); id == "strings.SplitN" {
					if n, isC := constInt(sp.Call.Args[2]); !isC || (n >= 0 && n < 2) {
						return false
					}
				}

				sep1, ok1 := constString(c.Call.Args[1])
				sep2, ok2 := constString(sp.Call.Args[1])

				return ok1 && ok2 && sep1 == sep2 && sep1 != "" && sameSliceValue(c.Call.Args[0], sp.Call.Args[0])
			}

			return false
		case "cmp":
		default:
			return false
		}

		l, c, op := f.X, f.Y, f.Op

		// normalise to len(x) OP const
		if lenOf(l) == nil && lenOf(c) != nil {
			l, c = c, l

			switch op {
			case token.LSS:
				op = token.GTR
			case token.LEQ:
				op = token.GEQ
			case token.GTR:
				op = token.LSS
			case token.GEQ:
				op = token.LEQ
			}
		}

		// len(x) - c1 OP c2  is  len(x) OP c2 + c1
		shift := int64(0)

		if bo, isBin := l.(*ssa.BinOp); isBin && bo.Op == token.SUB && lenOf(bo.X) != nil {
			if c1, isC := constInt(bo.Y); isC {
				l, shift = bo.X, c1
			}
		}

		lx := lenOf(l)
		if lx == nil || !sameSliceValue(lx, x) {
			return false
		}

		n, ok := constInt(c)
		if !ok {
			return false
		}

		n += shift

		switch op {
		case token.GTR:
			return n >= k
		case token.GEQ:
			return n >= k+1
		case token.EQL:
			return n >= k+1
		case token.NEQ:
			return n == 0 && k == 0
		}

		return false
	})
}

// isParametersLookup: v is router.Session.Parameters[key] (a copy of
// url.Values, in which every present key has at least one value; the rule
// R-C40-1|router.Session.Parameters source checks that it is only ever
// filled from URL.Query()).
func isParametersLookup(v ssa.Value) bool {
	l := lookupOf(stripValue(v))
	if l == nil {
		if lk, ok := v.(*ssa.Lookup); ok {
			l = lk
		}
	}

	if l == nil {
		return false
	}

	u, ok := l.X.(*ssa.UnOp)
	if !ok {
		return false
	}

	fa, ok := u.X.(*ssa.FieldAddr)
	if !ok || fieldName(fa.X.Type(), fa.Field) != "Parameters" {
		return false
	}

	n := namedOf(fa.X.Type())

	return n != nil && n.Obj().Name() == "Session" && n.Obj().Pkg() != nil && strings.HasSuffix(n.Obj().Pkg().Path(), "/internal/router")
}

// indexSiteGuarded reports whether the constant index is safe.
func indexSiteGuarded(fn *ssa.Function, s indexSite) (bool, string) {
	if m := knownMinLen(s.x); m > s.k {
		return true, "length statically at least " + sprintInt(int(m))
	}

	cuts := indexGuardCuts(fn, s.x, s.k)
	if len(cuts) > 0 && !instrReachableAfterCut(fn, s.instr, cuts) {
		return true, "behind a len() test"
	}

	return false, ""
}

// registerNativeMinArgs reads every data.Function{Declaration: &data.Declaration{…}, Value: f}
// literal of the runtime and builtin packages and records the fewest arguments
// callRuntimeFunction lets through for f: len(Parameters) for a fixed-arity
// declaration, ArgCount[0] when a range is given, len(Parameters)-1 for a variadic one.
func registerNativeMinArgs(w *World) int {
	nativeMinArgs = map[*types.Func]int{}

	for _, p := range w.pkgsUnder("internal/runtime", "internal/builtins") {
		info := p.TypesInfo

		for _, file := range p.Syntax {
			ast.Inspect(file, func(n ast.Node) bool {
				cl, ok := n.(*ast.CompositeLit)
				if !ok {
					return true
				}

				tv, ok := info.Types[cl]
				if !ok {
					return true
				}

				nt := namedOf(tv.Type)
				if nt == nil || nt.Obj().Name() != "Function" || nt.Obj().Pkg() == nil || !strings.HasSuffix(nt.Obj().Pkg().Path(), "/internal/language/data") {
					return true
				}

				var (
					value ast.Expr
					decl  *ast.CompositeLit
				)

				for _, el := range cl.Elts {
					kv, ok := el.(*ast.KeyValueExpr)
					if !ok {
						continue
					}

					k, _ := kv.Key.(*ast.Ident)
					if k == nil {
						continue
					}

					switch k.Name {
					case "Value":
						value = kv.Value
					case "Declaration":
						if u, ok := kv.Value.(*ast.UnaryExpr); ok {
							decl, _ = u.X.(*ast.CompositeLit)
						}
					}
				}

				if value == nil || decl == nil {
					return true
				}

				var fobj *types.Func

				switch v := value.(type) {
				case *ast.Ident:
					fobj, _ = info.Uses[v].(*types.Func)
				case *ast.SelectorExpr:
					fobj, _ = info.Uses[v.Sel].(*types.Func)
				}

				if fobj == nil {
					return true
				}

				params, variadic, lo, hi := 0, false, int64(0), int64(0)

				for _, el := range decl.Elts {
					kv, ok := el.(*ast.KeyValueExpr)
					if !ok {
						continue
					}

					k, _ := kv.Key.(*ast.Ident)
					if k == nil {
						continue
					}

					switch k.Name {
					case "Parameters":
						if pl, ok := kv.Value.(*ast.CompositeLit); ok {
							params = len(pl.Elts)
						}
					case "Variadic":
						if id, ok := kv.Value.(*ast.Ident); ok && id.Name == "true" {
							variadic = true
						}
					case "ArgCount":
						if rl, ok := kv.Value.(*ast.CompositeLit); ok && len(rl.Elts) == 2 {
							if a, ok := info.Types[rl.Elts[0]]; ok && a.Value != nil {
								lo, _ = constantInt64(a.Value)
							}

							if b, ok := info.Types[rl.Elts[1]]; ok && b.Value != nil {
								hi, _ = constantInt64(b.Value)
							}
						}
					}
				}

				min := params

				switch {
				case lo != 0 || hi != 0:
					min = int(lo)
				case variadic:
					// validateArgCount: at least the non-variadic parameters
					min = params - 1
					if min < 0 {
						min = 0
					}
				}

				if old, seen := nativeMinArgs[fobj]; !seen || min < old {
					nativeMinArgs[fobj] = min
				}

				return true
			})
		}
	}

	return len(nativeMinArgs)
}
