package main

import (
	"go/token"
	"go/types"

	"golang.org/x/tools/go/ssa"
)

// Constant-index guard (shared by C39, C40, C07): an index x[k] with constant
// k into a slice or string whose length is not statically known must be
// unreachable once every edge that establishes len(x) > k is removed.

type indexSite struct {
	instr ssa.Instruction
	x     ssa.Value
	k     int64
}

func constIndexSites(fn *ssa.Function) []indexSite {
	var out []indexSite

	allInstrs(fn, func(in ssa.Instruction) {
		var x, idx ssa.Value

		switch v := in.(type) {
		case *ssa.IndexAddr:
			x, idx = v.X, v.Index
		case *ssa.Index:
			x, idx = v.X, v.Index
		case *ssa.Lookup:
			if _, isStr := v.X.Type().Underlying().(*types.Basic); !isStr {
				return
			}

			x, idx = v.X, v.Index
		default:
			return
		}

		k, ok := constInt(idx)
		if !ok || k < 0 {
			return
		}

		switch t := x.Type().Underlying().(type) {
		case *types.Array:
			return
		case *types.Pointer:
			if _, isArr := t.Elem().Underlying().(*types.Array); isArr {
				return
			}
		}

		out = append(out, indexSite{in, x, k})
	})

	return out
}

// knownMinLen returns a statically known lower bound of len(x), or -1.
func knownMinLen(x ssa.Value) int64 {
	x = stripValue(x)

	switch v := x.(type) {
	case *ssa.Slice:
		// s[lo:hi] of an array with constant bounds, or a whole array
		if p, ok := v.X.Type().Underlying().(*types.Pointer); ok {
			if arr, ok := p.Elem().Underlying().(*types.Array); ok && v.Low == nil && v.High == nil {
				return arr.Len()
			}
		}
	case *ssa.Const:
		if s, ok := constString(v); ok {
			return int64(len(s))
		}
	case *ssa.Call:
		switch callID(v.Common()) {
		case "strings.Split", "strings.SplitN", "strings.SplitAfter":
			// at least one element when the separator is a non-empty constant
			if sep, ok := constString(v.Call.Args[1]); ok && sep != "" {
				return 1
			}
		}
	case *ssa.MakeSlice:
		if n, ok := constInt(v.Len); ok {
			return n
		}
	case *ssa.Phi:
		min := int64(-1)

		for i, e := range v.Edges {
			if e == ssa.Value(v) {
				continue
			}

			m := knownMinLenNoPhi(e)
			if i == 0 || m < min {
				min = m
			}
		}

		return min
	case *ssa.UnOp:
		if v.Op == token.MUL {
			if g, ok := v.X.(*ssa.Global); ok && g.Pkg != nil && g.Pkg.Pkg.Path() == "os" && g.Name() == "Args" {
				return 1
			}

			if vals, ok := storedValues(v.X); ok && len(vals) > 0 {
				min := int64(-1)

				for i, sv := range vals {
					m := knownMinLenNoPhi(sv)
					if i == 0 || m < min {
						min = m
					}
				}

				return min
			}
		}
	}

	return -1
}

func knownMinLenNoPhi(x ssa.Value) int64 {
	if _, isPhi := stripValue(x).(*ssa.Phi); isPhi {
		return -1
	}

	return knownMinLen(x)
}

// sameSliceValue: a and b denote the same slice/string: identical SSA values,
// or loads of the same local cell.
func sameSliceValue(a, b ssa.Value) bool {
	a, b = stripValue(a), stripValue(b)
	if a == b {
		return true
	}

	ua, oka := a.(*ssa.UnOp)
	ub, okb := b.(*ssa.UnOp)

	if oka && okb && ua.Op == token.MUL && ub.Op == token.MUL {
		if ua.X == ub.X {
			return true
		}

		return sameFieldLoad(a, b)
	}

	return false
}

// lenOf: v is len(x) → x.
func lenOf(v ssa.Value) ssa.Value {
	c, ok := v.(*ssa.Call)
	if !ok {
		return nil
	}

	if b, isB := c.Call.Value.(*ssa.Builtin); isB && b.Name() == "len" && len(c.Call.Args) == 1 {
		return c.Call.Args[0]
	}

	return nil
}

// indexGuardCuts returns the edges establishing len(x) > k.
func indexGuardCuts(fn *ssa.Function, x ssa.Value, k int64) map[Edge]bool {
	return cutEdges(fn, func(f Fact) bool {
		if f.Kind != "cmp" {
			return false
		}

		l, c, op := f.X, f.Y, f.Op

		// normalise to len(x) OP const
		if lenOf(l) == nil && lenOf(c) != nil {
			l, c = c, l

			switch op {
			case token.LSS:
				op = token.GTR
			case token.LEQ:
				op = token.GEQ
			case token.GTR:
				op = token.LSS
			case token.GEQ:
				op = token.LEQ
			}
		}

		lx := lenOf(l)
		if lx == nil || !sameSliceValue(lx, x) {
			return false
		}

		n, ok := constInt(c)
		if !ok {
			return false
		}

		switch op {
		case token.GTR:
			return n >= k
		case token.GEQ:
			return n >= k+1
		case token.EQL:
			return n >= k+1
		}

		return false
	})
}

// indexSiteGuarded reports whether the constant index is safe.
func indexSiteGuarded(fn *ssa.Function, s indexSite) (bool, string) {
	if m := knownMinLen(s.x); m > s.k {
		return true, "length statically at least " + sprintInt(int(m))
	}

	cuts := indexGuardCuts(fn, s.x, s.k)
	if len(cuts) > 0 && !instrReachableAfterCut(fn, s.instr, cuts) {
		return true, "behind a len() test"
	}

	return false, ""
}
