package main

import (
	"go/token"
	"go/types"
	"strings"

	"golang.org/x/tools/go/packages"
	"golang.org/x/tools/go/ssa"
)

// C28 Server caches behave like bounded expiring maps.

func init() {
	register(&propertyCheck{
		id: "C28", level: "other", needs: loadNeeds{ssa: true},
		decides: "lock discipline and structural bounds of internal/caches: every access to cacheList, expirationThreadRunning and to a cache's Items map happens with cacheLock held (write lock for writes; helpers are checked with the locks all their in-package callers hold); every lock is released on every exit; " +
			"a lookup that decides an operation's result and the mutation it guards lie in one critical section (no unlock between them); Add stores an entry only on the len(Items) < MaxSize edge; every delete of an entry in Delete/sweepExpired is followed by notifyEvictions outside the lock; " +
			"no operation discards a cache's record or rewrites its Expiration other than SetExpiration/newCache, and newCache runs only when the record is absent.",
		misses: "expiry timing, 'most recently stored value' semantics over histories, exactly-once delivery counts of eviction notices, the unsynchronised read of the `active` flag (reported as information).",
		run:    runC28,
	})
}

type cachesInfo struct {
	pkg     *packages.Package
	fns     []*ssa.Function
	entry   map[*ssa.Function]lockState
	lockID  string
	cacheT  *types.Named
	globals map[string]bool
}

func runC28(w *World, r *Report) {
	r.Rule("R-C28-1", "guarded-by: every access to cacheList / expirationThreadRunning / Cache.Items in internal/caches holds cacheLock (W for writes)", 30)
	r.Rule("R-C28-2", "lock pairing: every Lock/RLock of internal/caches is released on every path to a return (directly or by defer)", 8)
	r.Rule("R-C28-3", "atomic check-then-act: between a lookup in a cache map and a later mutation of that map in the same function no unlock of cacheLock can occur", 3)
	r.Rule("R-C28-4", "bound: in Add the store into Items is reachable only through the len(Items) < MaxSize edge", 1)
	r.Rule("R-C28-5", "eviction pairing: after delete(Items, key) in Delete and sweepExpired every path to a return passes notifyEvictions, called without cacheLock", 2)
	c28HitRenews(w, r)
	r.Rule("R-C28-6", "lifetime: cacheList entries are never deleted; Cache.Expiration is stored only in SetExpiration and newCache; newCache is called only on the record-absent edge", 4)

	ci := loadCaches(w, r)
	if ci == nil {
		return
	}

	r.Unit("functions", len(ci.fns))

	c28Guarded(w, r, ci, "R-C28-1")
	c28Pairing(w, r, ci.fns, nil, "R-C28-2")
	c28Atomic(w, r, ci, "R-C28-3")
	c28Bound(w, r, ci)
	c28Eviction(w, r, ci)
	c28Lifetime(w, r, ci)
	c28Replace(w, r, ci)
}

// c28Replace: R-C28-7. Storing under a key that is already present is a
// replacement and must not be refused by the capacity test: every path of Add
// that returns without storing has either removed the old entry for the key or
// looked the key up in Items (to tell a replacement from a new entry).
func c28Replace(w *World, r *Report, ci *cachesInfo) {
	r.Rule("R-C28-7", "replacement is not refused: in Add every path from entry to a return that skips the store into Items passes a delete(Items, key) or a lookup Items[key] (or creates the cache)", 1)

	fn := w.ssaFunc(ci.pkg, "Add")
	if fn == nil {
		r.Anchor("R-C28-7", "caches.Add")

		return
	}

	keyParam := ssa.Value(nil)

	for _, p := range fn.Params {
		if p.Name() == "key" {
			keyParam = p
		}
	}

	knowsKey := func(in ssa.Instruction) bool {
		obj, _, ok := ci.sharedAccess(in)
		if !ok || obj != "Cache.Items" {
			// creating the cache: nothing can be present
			if c, isCall := in.(*ssa.Call); isCall {
				if cf := calleeFunction(c.Common()); cf != nil && cf.Name() == "newCache" {
					return true
				}
			}

			return false
		}

		switch x := in.(type) {
		case *ssa.Lookup:
			return stripValue(x.Index) == keyParam
		case *ssa.MapUpdate:
			return true // the store itself
		case *ssa.Call:
			return mutName(x) == "delete" && len(x.Call.Args) == 2 && stripValue(x.Call.Args[1]) == keyParam
		}

		return false
	}

	// ignore the `!active` early return: caching is switched off altogether
	cuts := cutEdges(fn, func(f Fact) bool {
		u, ok := f.V.(*ssa.UnOp)
		if !ok || f.Kind != "false" {
			return false
		}

		g, ok := u.X.(*ssa.Global)

		return ok && g.Name() == "active"
	})

	key := "caches.Add|replacement-not-refused"

	if esc := pathFromEntryAvoiding(fn, cuts, knowsKey, isReturn); esc != nil {
		r.Violate("R-C28-7", key, w.pos(esc.Pos()), "Add can return without storing and without having removed or looked up the existing entry for the key: when the cache is full, re-adding a present key is refused and lookups keep returning the old value")
	} else {
		r.Discharge("R-C28-7", key, w.pos(fn.Pos()), "every non-storing return has dealt with an existing entry for the key")
	}
}

func loadCaches(w *World, r *Report) *cachesInfo {
	p := w.pkg("internal/caches")
	if p == nil {
		r.Anchor("R-C28-1", "package internal/caches")

		return nil
	}

	ci := &cachesInfo{pkg: p, fns: w.srcFuncs(p), lockID: "caches.cacheLock", globals: map[string]bool{"cacheList": true, "expirationThreadRunning": true}}

	if tn, ok := lookupObj(p, "Cache").(*types.TypeName); ok {
		ci.cacheT, _ = tn.Type().(*types.Named)
	}

	if ci.cacheT == nil || lookupObj(p, "cacheLock") == nil || lookupObj(p, "cacheList") == nil {
		r.Anchor("R-C28-1", "caches.Cache / cacheLock / cacheList")

		return nil
	}

	ci.entry = entryLocksets(ci.fns, nil)

	return ci
}

// entryLocksets computes, for unexported functions that are only called from
// within the package, the locks every call site holds (meet over call sites),
// iterated to a fixpoint. Exported functions, goroutine targets and functions
// whose address is taken start with no locks.
func entryLocksets(fns []*ssa.Function, extra func(in ssa.Instruction) (lockOp, bool)) map[*ssa.Function]lockState {
	entry := map[*ssa.Function]lockState{}
	inSet := map[*ssa.Function]bool{}

	for _, f := range fns {
		inSet[f] = true
	}

	escapes := map[*ssa.Function]bool{}

	for _, f := range fns {
		allInstrs(f, func(in ssa.Instruction) {
			// function values used other than as a static call target
			for _, op := range in.Operands(nil) {
				if op == nil || *op == nil {
					continue
				}

				if fv, ok := (*op).(*ssa.Function); ok {
					if c, isCall := in.(*ssa.Call); isCall && c.Call.Value == ssa.Value(fv) {
						continue
					}

					escapes[fv] = true
				}
			}
		})
	}

	for iter := 0; iter < 4; iter++ {
		sites := map[*ssa.Function][]lockState{}

		for _, f := range fns {
			ls := computeLocksets(f, entry[f], extra)

			allInstrs(f, func(in ssa.Instruction) {
				c, ok := in.(*ssa.Call)
				if !ok {
					return
				}

				cf := calleeFunction(c.Common())
				if cf == nil || !inSet[cf] {
					return
				}

				sites[cf] = append(sites[cf], ls.heldAt(in))
			})
		}

		next := map[*ssa.Function]lockState{}

		for _, f := range fns {
			exported := f.Object() != nil && f.Object().Exported()
			if exported || escapes[f] || f.Parent() != nil || len(sites[f]) == 0 {
				continue
			}

			s := sites[f][0].clone()
			for _, o := range sites[f][1:] {
				s = meetLocks(s, o)
			}

			if len(s) > 0 {
				next[f] = s
			}
		}

		entry = next
	}

	return entry
}

// sharedAccess classifies an instruction as a read or write of one of the
// guarded objects; obj names it.
func (ci *cachesInfo) sharedAccess(in ssa.Instruction) (obj string, write bool, ok bool) {
	isGlobalLoad := func(v ssa.Value) string {
		if u, isU := v.(*ssa.UnOp); isU && u.Op == token.MUL {
			if g, isG := u.X.(*ssa.Global); isG && ci.globals[g.Name()] && g.Pkg.Pkg == ci.pkg.Types {
				return g.Name()
			}
		}

		return ""
	}

	isItems := func(v ssa.Value) bool {
		if u, isU := v.(*ssa.UnOp); isU && u.Op == token.MUL {
			v = u.X
		}

		switch x := v.(type) {
		case *ssa.FieldAddr:
			return namedOf(x.X.Type()) == ci.cacheT && fieldName(x.X.Type(), x.Field) == "Items"
		case *ssa.Field:
			return namedOf(x.X.Type()) == ci.cacheT && fieldName(x.X.Type(), x.Field) == "Items"
		}

		return false
	}

	name := func(v ssa.Value) string {
		if n := isGlobalLoad(v); n != "" {
			return n
		}

		if isItems(v) {
			return "Cache.Items"
		}

		return ""
	}

	switch x := in.(type) {
	case *ssa.Store:
		if g, isG := x.Addr.(*ssa.Global); isG && ci.globals[g.Name()] && g.Pkg.Pkg == ci.pkg.Types {
			return g.Name(), true, true
		}
	case *ssa.Lookup:
		if n := name(x.X); n != "" {
			return n, false, true
		}
	case *ssa.MapUpdate:
		if n := name(x.Map); n != "" {
			return n, true, true
		}
	case *ssa.Range:
		if n := name(x.X); n != "" {
			return n, false, true
		}
	case *ssa.Call:
		if b, isB := x.Call.Value.(*ssa.Builtin); isB && len(x.Call.Args) > 0 {
			if n := name(x.Call.Args[0]); n != "" {
				switch b.Name() {
				case "delete":
					return n, true, true
				case "len":
					return n, false, true
				}
			}
		}
	}

	return "", false, false
}

func c28Guarded(w *World, r *Report, ci *cachesInfo, rule string) {
	for _, fn := range ci.fns {
		if fn.Synthetic != "" {
			continue // package initialiser: runs before any goroutine exists
		}

		ls := computeLocksets(fn, ci.entry[fn], nil)

		allInstrs(fn, func(in ssa.Instruction) {
			obj, write, ok := ci.sharedAccess(in)
			if !ok {
				return
			}

			held := ls.heldAt(in)[ci.lockID]
			acc := "read"

			if write {
				acc = "write"
			}

			key := fnKey(fn) + "|" + acc + " " + obj
			entryNote := ""

			if e := ci.entry[fn]; len(e) > 0 {
				entryNote = " (helper: every in-package caller holds " + e.String() + ")"
			}

			switch {
			case held == 'W' || (held == 'R' && !write):
				r.Discharge(rule, key, w.pos(in.Pos()), "cacheLock held "+string(held)+entryNote)
			case held == 'R' && write:
				r.Violate(rule, key, w.pos(in.Pos()), obj+" is written while only the read lock is held: concurrent readers race with this write")
			default:
				r.Violate(rule, key, w.pos(in.Pos()), obj+" is accessed ("+acc+") without cacheLock on some path: a concurrent Add/Delete/purge makes this a data race (fatal for map iteration/write)")
			}
		})
	}

	// the `active` flag: information only
	for _, fn := range ci.fns {
		ls := computeLocksets(fn, ci.entry[fn], nil)

		allInstrs(fn, func(in ssa.Instruction) {
			if u, ok := in.(*ssa.UnOp); ok && u.Op == token.MUL {
				if g, isG := u.X.(*ssa.Global); isG && g.Name() == "active" && ls.heldAt(in)[ci.lockID] == 0 {
					r.Info(rule, fnKey(fn)+"|read active", w.pos(in.Pos()), "`active` is read without cacheLock (benign bool race; not part of the property's map semantics)")
				}
			}
		})
	}
}

// c28Pairing is shared by the other lock-discipline properties.
func c28Pairing(w *World, r *Report, fns []*ssa.Function, extra func(in ssa.Instruction) (lockOp, bool), rule string) {
	for _, fn := range fns {
		leaks := unbalancedLocks(fn, extra)
		leaked := map[ssa.Instruction]lockLeak{}

		for _, l := range leaks {
			leaked[l.lock] = l
		}

		l := &locksets{fn: fn, extra: extra}

		allInstrs(fn, func(in ssa.Instruction) {
			op, ok := l.opOf(in)
			if !ok || (op.kind != "Lock" && op.kind != "RLock") {
				return
			}

			key := fnKey(fn) + "|" + op.kind + " " + op.id
			if lk, bad := leaked[in]; bad {
				r.Violate(rule, key, w.pos(lk.exit.Pos()), "this return is reachable with "+op.id+" still held (acquired at "+w.pos(in.Pos())+"): the next operation on it blocks forever")
			} else {
				r.Discharge(rule, key, w.pos(in.Pos()), "released on every path to a return")
			}
		})
	}
}

func c28Atomic(w *World, r *Report, ci *cachesInfo, rule string) {
	for _, fn := range ci.fns {
		var lookups, muts []ssa.Instruction

		allInstrs(fn, func(in ssa.Instruction) {
			obj, write, ok := ci.sharedAccess(in)
			if !ok {
				return
			}

			if _, isLookup := in.(*ssa.Lookup); isLookup && !write {
				lookups = append(lookups, in)
			}

			if write && (obj == "Cache.Items" || obj == "cacheList") {
				if _, isStore := in.(*ssa.Store); !isStore {
					muts = append(muts, in)
				}
			}
		})

		isUnlock := func(i ssa.Instruction) bool {
			if _, isDefer := i.(*ssa.Defer); isDefer {
				return false
			}

			if cc, ok := i.(ssa.CallInstruction); ok {
				if op, ok := mutexOp(cc.Common()); ok && op.id == ci.lockID && (op.kind == "Unlock" || op.kind == "RUnlock") {
					return true
				}
			}

			return false
		}

		for _, m := range muts {
			obj, _, _ := ci.sharedAccess(m)
			key := fnKey(fn) + "|lookup→" + mutName(m) + " " + obj
			bad := ""
			n := 0

			for _, l := range lookups {
				// every lookup in a guarded map from which the mutation can be
				// reached takes part in deciding it (the cache record itself
				// comes from a cacheList lookup)
				mm0 := m
				if pathAvoiding(l, nil, func(ssa.Instruction) bool { return false }, func(i ssa.Instruction) bool { return i == mm0 }) == nil {
					continue
				}

				n++

				// an unlock reachable from the lookup before the mutation, from which the mutation is reachable
				mm := m

				u := pathAvoiding(l, nil, func(i ssa.Instruction) bool { return i == mm }, isUnlock)
				if u != nil && pathAvoiding(u, nil, func(ssa.Instruction) bool { return false }, func(i ssa.Instruction) bool { return i == mm }) != nil {
					bad = w.pos(u.Pos())
				}
			}

			if n == 0 {
				continue // unconditional mutation (e.g. Add's store); nothing was decided by a lookup
			}

			if bad != "" {
				r.Violate(rule, key, bad, "cacheLock is released between the lookup that decides this operation and the "+mutName(m)+" it guards: two concurrent callers can both pass the lookup (check-then-act race), so Delete can report removing one entry twice")
			} else {
				r.Discharge(rule, key, w.pos(m.Pos()), "lookup and mutation share one critical section")
			}
		}
	}
}

func mutName(in ssa.Instruction) string {
	switch x := in.(type) {
	case *ssa.MapUpdate:
		return "store"
	case *ssa.Call:
		if b, ok := x.Call.Value.(*ssa.Builtin); ok {
			return b.Name()
		}
	}

	return "write"
}

func c28Bound(w *World, r *Report, ci *cachesInfo) {
	fn := w.ssaFunc(ci.pkg, "Add")
	if fn == nil {
		r.Anchor("R-C28-4", "caches.Add")

		return
	}

	// cut the edges that establish len(Items) < MaxSize
	isLenItems := func(v ssa.Value) bool {
		c, ok := v.(*ssa.Call)
		if !ok {
			return false
		}

		obj, _, acc := ci.sharedAccess(c)

		return acc && obj == "Cache.Items"
	}

	isMax := func(v ssa.Value) bool {
		return derivesFrom(v, func(s ssa.Value) bool {
			switch x := s.(type) {
			case *ssa.FieldAddr:
				return fieldName(x.X.Type(), x.Field) == "MaxSize"
			case *ssa.Field:
				return fieldName(x.X.Type(), x.Field) == "MaxSize"
			}

			return false
		}, nil)
	}

	cuts := cutEdges(fn, func(f Fact) bool {
		if f.Kind != "cmp" {
			return false
		}

		return (f.Op == token.LSS && isLenItems(f.X) && isMax(f.Y)) || (f.Op == token.GTR && isMax(f.X) && isLenItems(f.Y))
	})

	n := 0

	allInstrs(fn, func(in ssa.Instruction) {
		mu, ok := in.(*ssa.MapUpdate)
		if !ok {
			return
		}

		if obj, _, acc := ci.sharedAccess(mu); !acc || obj != "Cache.Items" {
			return
		}

		n++

		if len(cuts) == 0 || instrReachableAfterCut(fn, in, cuts) {
			r.Violate("R-C28-4", "caches.Add|store Cache.Items", w.pos(in.Pos()), "an entry is stored on a path that does not establish len(Items) < MaxSize: the cache can grow beyond its limit")
		} else {
			r.Discharge("R-C28-4", "caches.Add|store Cache.Items", w.pos(in.Pos()), "reachable only through the len(Items) < MaxSize edge")
		}
	})

	if n == 0 {
		r.Anchor("R-C28-4", "store into Cache.Items in caches.Add")
	}
}

func c28Eviction(w *World, r *Report, ci *cachesInfo) {
	for _, name := range []string{"Delete", "sweepExpired"} {
		fn := w.ssaFunc(ci.pkg, name)
		if fn == nil {
			r.Anchor("R-C28-5", "caches."+name)

			continue
		}

		ls := computeLocksets(fn, ci.entry[fn], nil)
		isNotify := func(i ssa.Instruction) bool {
			c, ok := i.(*ssa.Call)

			return ok && callID(c.Common()) == "internal/caches.notifyEvictions"
		}

		n := 0

		allInstrs(fn, func(in ssa.Instruction) {
			obj, write, ok := ci.sharedAccess(in)
			if !ok || !write || obj != "Cache.Items" {
				return
			}

			if c, isCall := in.(*ssa.Call); !isCall || mutName(c) != "delete" {
				return
			}

			n++

			key := "caches." + name + "|delete→notifyEvictions"
			if esc := pathAvoiding(in, nil, isNotify, isReturn); esc != nil {
				r.Violate("R-C28-5", key, w.pos(esc.Pos()), "a return is reachable after removing an entry without calling notifyEvictions: the eviction listener never hears of this removal")
			} else {
				r.Discharge("R-C28-5", key, w.pos(in.Pos()), "every path to a return passes notifyEvictions")
			}
		})

		if n == 0 {
			r.Anchor("R-C28-5", "delete(cache.Items, key) in caches."+name)
		}

		allInstrs(fn, func(in ssa.Instruction) {
			if !isNotify(in) {
				return
			}

			key := "caches." + name + "|notifyEvictions-unlocked"
			if h := ls.heldAt(in)[ci.lockID]; h != 0 {
				r.Violate("R-C28-5", key, w.pos(in.Pos()), "the eviction listener is called with cacheLock held: a listener that touches a cache deadlocks")
			} else {
				r.Discharge("R-C28-5", key, w.pos(in.Pos()), "called after Unlock")
			}
		})
	}
}

func c28Lifetime(w *World, r *Report, ci *cachesInfo) {
	newCache := w.ssaFunc(ci.pkg, "newCache")

	for _, fn := range ci.fns {
		allInstrs(fn, func(in ssa.Instruction) {
			// delete(cacheList, id)
			if c, ok := in.(*ssa.Call); ok {
				if obj, write, acc := ci.sharedAccess(c); acc && write && obj == "cacheList" && mutName(c) == "delete" {
					r.Violate("R-C28-6", fnKey(fn)+"|delete cacheList", w.pos(in.Pos()), "the cache record (with the Expiration configured by SetExpiration) is discarded: the next Add recreates the cache with the default lifetime")
				}

				if newCache != nil && calleeFunction(c.Common()) == newCache {
					// must be on the not-found edge of a lookup in cacheList
					key := fnKey(fn) + "|newCache-on-absent"
					cuts := cutEdges(fn, func(f Fact) bool {
						if f.Kind != "false" {
							return false
						}

						ex, isEx := f.V.(*ssa.Extract)
						if !isEx || ex.Index != 1 {
							return false
						}

						lk, isLk := ex.Tuple.(*ssa.Lookup)
						if !isLk {
							return false
						}

						obj, _, acc := ci.sharedAccess(lk)

						return acc && obj == "cacheList"
					})

					if len(cuts) == 0 || instrReachableAfterCut(fn, in, cuts) {
						r.Violate("R-C28-6", key, w.pos(in.Pos()), "newCache (which resets Expiration to the default) can run although the cache record exists")
					} else {
						r.Discharge("R-C28-6", key, w.pos(in.Pos()), "called only on the record-absent edge")
					}
				}
			}

			// stores to Cache.Expiration
			if st, ok := in.(*ssa.Store); ok {
				if fa, isFA := st.Addr.(*ssa.FieldAddr); isFA && namedOf(fa.X.Type()) == ci.cacheT && fieldName(fa.X.Type(), fa.Field) == "Expiration" {
					key := fnKey(fn) + "|store Cache.Expiration"
					if strings.HasSuffix(fnKey(fn), ".SetExpiration") || strings.HasSuffix(fnKey(fn), ".newCache") {
						r.Discharge("R-C28-6", key, w.pos(in.Pos()), "configuration entry point")
					} else {
						r.Violate("R-C28-6", key, w.pos(in.Pos()), "Cache.Expiration is overwritten outside SetExpiration/newCache")
					}
				}
			}
		})
	}
}

// c28HitRenews: R-C28-8. A lookup that finds an entry keeps it alive for the
// cache's configured lifetime counted from that lookup ("Reset the expiration
// time on every hit"): on the found path of Find the entry is written back
// with Expires computed from time.Now() and Cache.Expiration before the value
// is returned, on every path. A renewal that depends on how old the entry is
// lets the sweeper remove an entry one lifetime after it was stored although
// it was used in between, and the next lookup misses a key nobody deleted.
func c28HitRenews(w *World, r *Report) {
	r.Rule("R-C28-8", "a hit renews the entry: in caches.Find every path from the found edge of the Items lookup to a return that hands out the value passes the write-back of the entry (map update of Items) with Expires computed from time.Now() and Cache.Expiration", 1)

	cp := w.pkg("internal/caches")
	if cp == nil {
		return
	}

	fn := w.ssaFunc(cp, "Find")
	if fn == nil {
		r.Anchor("R-C28-8", "caches.Find")

		return
	}

	var lookup *ssa.Lookup

	allInstrs(fn, func(in ssa.Instruction) {
		if lk, ok := in.(*ssa.Lookup); ok && lk.CommaOk && isFieldNamed(lk.X, "Items") {
			lookup = lk
		}
	})

	if lookup == nil {
		r.Anchor("R-C28-8", "the Items lookup in caches.Find")

		return
	}

	key := "caches.Find|hit renews the entry"

	// not-found edges are irrelevant: remove them
	cuts := cutEdges(fn, func(f Fact) bool {
		if f.Kind != "false" {
			return false
		}

		e, ok := f.V.(*ssa.Extract)

		return ok && e.Tuple == ssa.Value(lookup) && e.Index == 1
	})

	isRenewal := func(in ssa.Instruction) bool {
		mu, ok := in.(*ssa.MapUpdate)

		return ok && isFieldNamed(mu.Map, "Items")
	}

	// the renewal's Expires comes from Now + Expiration
	fromNow := false

	allInstrs(fn, func(in ssa.Instruction) {
		st, ok := in.(*ssa.Store)
		if !ok {
			return
		}

		fa, ok := st.Addr.(*ssa.FieldAddr)
		if !ok || fieldName(fa.X.Type(), fa.Field) != "Expires" {
			return
		}

		if derivesFrom(st.Val, func(s ssa.Value) bool {
			c, ok := s.(*ssa.Call)

			return ok && callID(c.Common()) == "time.Now"
		}, func(string) bool { return true }) && derivesFrom(st.Val, func(s ssa.Value) bool { return isFieldNamed(s, "Expiration") }, func(string) bool { return true }) {
			fromNow = true
		}
	})

	escape := pathAvoiding(lookup, cuts, isRenewal, func(i ssa.Instruction) bool {
		ret, ok := i.(*ssa.Return)
		if !ok || len(ret.Results) < 2 {
			return false
		}

		b, isC := constBool(retResult(ret, 1))

		return !isC || b // a return that says "found"
	})

	switch {
	case !fromNow:
		r.Violate("R-C28-8", key, w.pos(lookup.Pos()), "Find does not compute a renewed Expires from time.Now() and the cache's Expiration")
	case escape != nil:
		r.Violate("R-C28-8", key, w.pos(escape.Pos()), "Find can hand out a found value without writing the entry back with a renewed expiry: an entry that is used but not renewed is removed one lifetime after it was stored, and the next lookup misses a key that was never deleted, purged or left unused for a lifetime")
	default:
		r.Discharge("R-C28-8", key, w.pos(lookup.Pos()), "the write-back lies on every found path")
	}
}
