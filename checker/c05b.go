package main

import (
	"go/token"
	"sort"
	"strings"

	"golang.org/x/tools/go/ssa"
)

// R-C05-5: a trailing comment ends its line.
//
// emitTrailingComment writes the `// …` comment that stood at the end of a
// source line. Whatever the printer writes next on the same output line becomes
// part of that comment: `} // note else {` loses the else branch's opening,
// `}  // c()` turns the call of a function literal into the literal. The
// printer is a set of mutually recursive methods that all write through
// printer.write, so the rule is decided with two summaries per function,
// computed to a fixpoint over package format:
//
//	first(F) ⊆ {newline, text, nothing}: what F can write first
//	open(F):  F can return with a trailing comment as the last thing written
//
// At every call of a function with open(·) — emitTrailingComment itself is the
// base case — the next thing written on any path must be a newline; reaching
// the caller's return makes the caller open in turn.
const (
	c05NL   = 1
	c05Text = 2
	c05None = 4
)

type c05Lines struct {
	w     *World
	fns   map[*ssa.Function]bool
	first map[*ssa.Function]int
	open  map[*ssa.Function]bool
}

func (a *c05Lines) isWrite(c *ssa.Call) (int, bool) {
	if !strings.HasSuffix(callID(c.Common()), "format.printer.write") {
		return 0, false
	}

	args := callArgs(c.Common())
	if len(args) < 2 {
		return c05Text, true
	}

	if s, ok := constString(args[1]); ok {
		switch {
		case s == "":
			return 0, false
		case strings.HasPrefix(s, "\n"):
			return c05NL, true
		}
	}

	return c05Text, true
}

// knownTrueCuts: a closure guarded by a captured flag that it sets itself
// (printFile's `sep`: nothing before the first item, a line break before every
// later one). At a call that follows an earlier call of the same closure the
// flag is set, so only the guarded branch is followed.
func (a *c05Lines) knownTrueCuts(g *ssa.Function, site, after ssa.Instruction) map[Edge]bool {
	if g.Parent() == nil || site.Parent() != g.Parent() {
		return nil
	}

	dominated := false

	allInstrs(site.Parent(), func(in ssa.Instruction) {
		if c, ok := in.(*ssa.Call); ok && calleeFunction(c.Common()) == g && instrDominates(in, after) {
			dominated = true
		}
	})

	if !dominated {
		return nil
	}

	cuts := map[Edge]bool{}

	for _, fv := range g.FreeVars {
		isSet := func(i ssa.Instruction) bool {
			st, ok := i.(*ssa.Store)
			if !ok || st.Addr != ssa.Value(fv) {
				return false
			}

			b, isB := constBool(st.Val)

			return isB && b
		}

		// the closure sets the flag on every path to its return
		if pathFromEntryAvoiding(g, nil, isSet, func(i ssa.Instruction) bool { _, ok := i.(*ssa.Return); return ok }) != nil {
			continue
		}

		// nothing but the initialisation ever clears it
		vals, ok := storedValues(fv)
		if !ok {
			continue
		}

		falses := 0

		for _, v := range vals {
			if b, isB := constBool(v); !isB {
				falses = 2
			} else if !b {
				falses++
			}
		}

		if falses > 1 {
			continue
		}

		for e := range cutEdges(g, func(f Fact) bool {
			u, ok := f.V.(*ssa.UnOp)

			return f.Kind == "false" && ok && u.Op == token.MUL && u.X == ssa.Value(fv)
		}) {
			cuts[e] = true
		}
	}

	return cuts
}

// walk returns what can be written first on the paths that start right after
// `from` (or at the entry of fn when from is nil); c05None stands for reaching
// a return with nothing written.
func (a *c05Lines) walk(fn *ssa.Function, from ssa.Instruction, cuts map[Edge]bool) int {
	if len(fn.Blocks) == 0 {
		return c05None
	}

	type state struct {
		b *ssa.BasicBlock
		i int
	}

	start := state{fn.Blocks[0], 0}
	if from != nil {
		p := pointOf(from)
		start = state{p.b, p.i + 1}
	}

	out := 0
	seen := map[*ssa.BasicBlock]bool{}
	work := []state{start}

	for len(work) > 0 {
		s := work[len(work)-1]
		work = work[:len(work)-1]

		stopped := false

		for i := s.i; i < len(s.b.Instrs) && !stopped; i++ {
			switch in := s.b.Instrs[i].(type) {
			case *ssa.Return:
				out |= c05None
				stopped = true
			case *ssa.Panic:
				stopped = true
			case *ssa.Call:
				if ev, ok := a.isWrite(in); ok {
					out |= ev
					stopped = true

					break
				}

				g := calleeFunction(in.Common())
				if g == nil || !a.fns[g] {
					break
				}

				f := a.first[g]
				if from != nil {
					if kc := a.knownTrueCuts(g, in, from); len(kc) > 0 {
						f = a.walk(g, nil, kc)
					}
				}

				out |= f &^ c05None

				if f&c05None == 0 && f != 0 {
					stopped = true
				}
			}
		}

		if stopped {
			continue
		}

		for k, succ := range s.b.Succs {
			if cuts[Edge{s.b, k}] || seen[succ] {
				continue
			}

			seen[succ] = true
			work = append(work, state{succ, 0})
		}
	}

	return out
}

func c05TrailingCommentEndsLine(w *World, r *Report) {
	r.Rule("R-C05-5", "a trailing comment ends its line: in package format, after every call that can leave a trailing comment as the last thing written (emitTrailingComment, and transitively every function that can return right after one) the next write on every path is a line break", 3)

	fp := w.pkg("internal/language/parse/format")
	if fp == nil {
		return
	}

	a := &c05Lines{w: w, fns: map[*ssa.Function]bool{}, first: map[*ssa.Function]int{}, open: map[*ssa.Function]bool{}}

	var fns []*ssa.Function

	var base *ssa.Function

	// only code that can reach the printer it was called with takes part: its
	// methods, closures made inside them, and functions handed a *printer. A
	// package-level helper such as Source() formats into a printer of its own.
	touchesPrinter := func(fn *ssa.Function) bool {
		isPrinter := func(v ssa.Value) bool { return strings.HasSuffix(v.Type().String(), "format.printer") }

		for f := fn; f != nil; f = f.Parent() {
			for _, p := range f.Params {
				if isPrinter(p) {
					return true
				}
			}
		}

		return false
	}

	for _, fn := range w.srcFuncs(fp) {
		if !touchesPrinter(fn) {
			continue
		}

		a.fns[fn] = true
		fns = append(fns, fn)

		if fnKey(fn) == "format.printer.emitTrailingComment" {
			base = fn
		}
	}

	if base == nil {
		r.Anchor("R-C05-5", "format.printer.emitTrailingComment")

		return
	}

	sort.Slice(fns, func(i, j int) bool { return fnKey(fns[i]) < fnKey(fns[j]) })

	// first(F): least fixpoint
	for changed := true; changed; {
		changed = false

		for _, fn := range fns {
			if strings.HasSuffix(fnKey(fn), "format.printer.write") {
				continue
			}

			if f := a.walk(fn, nil, nil); f != a.first[fn] {
				a.first[fn] = f
				changed = true
			}
		}
	}

	a.open[base] = true

	type site struct {
		fn *ssa.Function
		in *ssa.Call
	}

	bad := map[site]bool{}

	var order []site

	for changed := true; changed; {
		changed = false

		for _, fn := range fns {
			if fn == base {
				continue
			}

			allInstrs(fn, func(in ssa.Instruction) {
				c, ok := in.(*ssa.Call)
				if !ok {
					return
				}

				g := calleeFunction(c.Common())
				if g == nil || !a.open[g] {
					return
				}

				s := site{fn, c}
				if _, done := bad[s]; !done {
					order = append(order, s)
				}

				next := a.walk(fn, c, nil)
				bad[s] = next&c05Text != 0

				if next&c05None != 0 && !a.open[fn] {
					a.open[fn] = true
					changed = true
				}
			})
		}
	}

	for _, s := range order {
		callee := fnKey(calleeFunction(s.in.Common()))
		key := fnKey(s.fn) + "|line ends after " + callee

		if bad[s] {
			r.Violate("R-C05-5", key, w.pos(s.in.Pos()), callee+" can leave a `// …` comment as the last thing on the output line and text is written after it without a line break: `} // note` followed by ` else {` comments the else out, `}  // c()` makes the call of a function literal part of the comment")
		} else {
			r.Discharge("R-C05-5", key, w.pos(s.in.Pos()), "next write is a line break (or the function returns, and its callers are held to the same)")
		}
	}
}
