package main

import (
	"go/token"
	"go/types"
	"strings"

	"golang.org/x/tools/go/ssa"
)

// C13 ego test isolates each test.

func init() {
	register(&propertyCheck{
		id: "C13", level: "other", needs: loadNeeds{ssa: true},
		decides: "the compile-time containment a test's isolation rests on: (1) the body of a @test is compiled by a clone of the compiler, and the error of that sub-compile never reaches a return of compileTestBody (it is only pushed and signalled inside the test's own try); (2) the emissions of CallTest and of the Signal for a compile error are dominated by the emission of Try, and TryPop follows on every successful path; " +
			"(3) the scanners that find where a test body ends recognise structural tokens with Token.Is (class and spelling): nowhere in package compiler is a token's spelling compared with the spelling of one of the tokenizer's special tokens, which a string literal with the same text would also match.",
		misses: "the run-time reporting of PASS/FAIL, what the try catches at run time, and how `ego test` iterates over files.",
		run:    runC13,
	})
}

func runC13(w *World, r *Report) {
	r.Rule("R-C13-1", "sub-compile containment: compileTestBody compiles the body with a Clone of the compiler; the sub-compile error reaches no return", 2)
	r.Rule("R-C13-2", "guard pairing: Emit(Try) dominates Emit(CallTest) and the compile-error Emit(Signal); TryPop follows on every successful path", 3)
	r.Rule("R-C13-3", "token identity: no comparison in package compiler between Token.Spelling() and the Spelling() of a special token of package tokenizer", 0)

	bp := w.pkg("internal/language/bytecode")
	cp := w.pkg("internal/language/compiler")
	tp := w.pkg("internal/language/tokenizer")

	if bp == nil || cp == nil || tp == nil {
		r.Anchor("R-C13-1", "packages language/bytecode, language/compiler, language/tokenizer")

		return
	}

	fn := w.ssaFunc(cp, "Compiler.compileTestBody")
	if fn == nil {
		r.Anchor("R-C13-1", "compiler.Compiler.compileTestBody")

		return
	}

	opc := func(name string) int64 {
		if p := lookupConstInt(bp, name); p != nil {
			return *p
		}

		r.Anchor("R-C13-2", "bytecode."+name)

		return -2
	}

	opTry, opTryPop, opCallTest, opSignal := opc("Try"), opc("TryPop"), opc("CallTest"), opc("Signal")

	// ---- R-C13-5: the test body always ends in a Return of its own
	r.Rule("R-C13-5", "the sub-compiled test body handed to CallTest ends in a Return instruction appended unconditionally: every path of compileTestBody to the emission of CallTest passes an emission of Return (a body that runs off its end leaves the run loop inside the test's call frame: that test and every later one are never reported)", 1)

	{
		opReturn := opc("Return")
		key := "compiler.Compiler.compileTestBody|trailing Return"

		var callTest ssa.Instruction

		allInstrs(fn, func(in ssa.Instruction) {
			if emitOf(in) == opCallTest {
				callTest = in
			}
		})

		if callTest == nil {
			r.Anchor("R-C13-5", "Emit(CallTest) in compileTestBody")
		} else if skip := pathFromEntryAvoiding(fn, nil, func(in ssa.Instruction) bool { return emitOf(in) == opReturn }, func(in ssa.Instruction) bool { return in == callTest }); skip != nil {
			r.Violate("R-C13-5", key, w.pos(callTest.Pos()), "CallTest can be emitted for a body to which no Return was appended on this path (the append is conditional): when the body's own last instruction is a conditional return that is not taken, execution runs off the end of the body")
		} else {
			r.Discharge("R-C13-5", key, w.pos(callTest.Pos()), "Emit(Return) on every path to Emit(CallTest)")
		}
	}

	// ---- R-C13-6: the capture begun for the body is ended on the failure path too
	r.Rule("R-C13-6", "a test that fails at run time is still reported: on every path of compileTestBody that emitted BeginCapture for the body (feasible under the branch conditions that dominate that emission), an EndCapture is emitted between the catch handler's address (SetAddressHere of the Mark taken before Try) and the call of emitTestFail — otherwise the (FAIL) line and the test's own output are written into the abandoned capture buffer and lost", 1)

	{
		opBegin, opEnd := opc("BeginCapture"), opc("EndCapture")
		key := "compiler.Compiler.compileTestBody|EndCapture in the catch handler"

		var begin, tryE, handler, failCall ssa.Instruction

		allInstrs(fn, func(in ssa.Instruction) {
			switch {
			case emitOf(in) == opBegin:
				begin = in
			case emitOf(in) == opTry && tryE == nil:
				tryE = in
			}

			if c, ok := in.(*ssa.Call); ok && callID(c.Common()) == "internal/language/compiler.Compiler.emitTestFail" {
				failCall = in
			}
		})

		if tryE != nil {
			allInstrs(fn, func(in ssa.Instruction) {
				c, ok := in.(*ssa.Call)
				if !ok || !strings.HasSuffix(callID(c.Common()), "bytecode.ByteCode.SetAddressHere") || len(c.Call.Args) < 2 {
					return
				}

				mk, ok := c.Call.Args[1].(*ssa.Call)
				if ok && strings.HasSuffix(callID(mk.Common()), "bytecode.ByteCode.Mark") && instrDominates(mk, tryE) {
					handler = in
				}
			})
		}

		switch {
		case begin == nil || failCall == nil || handler == nil:
			r.Anchor("R-C13-6", "Emit(BeginCapture), SetAddressHere(<mark before Try>) and the call of emitTestFail in compileTestBody")
		default:
			need := dominatingFacts(begin.Block())

			contradicts := func(f Fact) bool {
				for _, d := range need {
					if d.V == nil || d.V != f.V {
						continue
					}

					if (d.Kind == "nil" && f.Kind == "nonnil") || (d.Kind == "nonnil" && f.Kind == "nil") ||
						(d.Kind == "true" && f.Kind == "false") || (d.Kind == "false" && f.Kind == "true") {
						return true
					}
				}

				return false
			}

			cuts := cutEdges(fn, contradicts)

			if miss := pathAvoiding(handler, cuts, func(i ssa.Instruction) bool { return emitOf(i) == opEnd }, func(i ssa.Instruction) bool { return i == failCall }); miss != nil {
				r.Violate("R-C13-6", key, w.pos(failCall.Pos()), "the catch handler reports the failure while the capture begun for the test body is still in force (no EndCapture between the handler's address and emitTestFail on a path that emitted BeginCapture): a test that fails at run time gets no (FAIL) line and loses what it printed")
			} else {
				r.Discharge("R-C13-6", key, w.pos(failCall.Pos()), "EndCapture emitted on every such path")
			}
		}
	}

	// ---- R-C13-7: a failed sub-compile leaves no declarations in the shared scopes
	r.Rule("R-C13-7", "the clone that compiles a test body shares the file's open scopes; when that compile fails, compileTestBody takes the names it declared there out again: every path from the sub-compile to the emission of the compile-error Signal passes a call of a function that deletes from a scope's usage map", 1)

	{
		var sub *ssa.Call

		allInstrs(fn, func(in ssa.Instruction) {
			if c, ok := in.(*ssa.Call); ok && callID(c.Common()) == "internal/language/compiler.Compiler.Compile" {
				sub = c
			}
		})

		cleans := func(in ssa.Instruction) bool {
			c, ok := in.(*ssa.Call)
			if !ok {
				return false
			}

			callee := c.Common().StaticCallee()
			if callee == nil || len(callee.Blocks) == 0 {
				return false
			}

			found := false

			allInstrs(callee, func(i ssa.Instruction) {
				d, ok := i.(*ssa.Call)
				if !ok {
					return
				}

				if b, isB := d.Call.Value.(*ssa.Builtin); isB && b.Name() == "delete" && len(d.Call.Args) == 2 && isFieldNamed(d.Call.Args[0], "usage") {
					found = true
				}
			})

			return found
		}

		key := "compiler.Compiler.compileTestBody|failed sub-compile leaves no declarations behind"

		if sub == nil {
			r.Anchor("R-C13-7", "the sub-compile call in compileTestBody")
		} else if hit := pathAvoiding(sub, cutEdges(fn, func(f Fact) bool {
			// the compile failed: paths on which its error is nil are not of interest
			e, ok := f.V.(*ssa.Extract)

			return f.Kind == "nil" && ok && e.Tuple == ssa.Value(sub) && e.Index == 1
		}), cleans, func(i ssa.Instruction) bool { return emitOf(i) == opSignal }); hit != nil {
			r.Violate("R-C13-7", key, w.pos(hit.Pos()), "the compile-error path is reached without the names the failed body had declared in the shared (file-level) scopes being removed: they stay behind as 'declared but never used', the check of the file's top-level scope turns them into a compile error of the whole file, and not one test of the file runs")
		} else {
			r.Discharge("R-C13-7", key, w.pos(sub.Pos()), "usage maps of the shared scopes are restored before the error is signalled")
		}
	}

	// ---- R-C13-1
	var compileCall *ssa.Call

	allInstrs(fn, func(in ssa.Instruction) {
		if c, ok := in.(*ssa.Call); ok && callID(c.Common()) == "internal/language/compiler.Compiler.Compile" {
			compileCall = c
		}
	})

	if compileCall == nil {
		r.Anchor("R-C13-1", "call of Compiler.Compile in compileTestBody")

		return
	}

	key := "compiler.Compiler.compileTestBody|body compiled by a clone"
	if derivesFrom(compileCall.Call.Args[0], func(v ssa.Value) bool {
		c, ok := v.(*ssa.Call)

		return ok && callID(c.Common()) == "internal/language/compiler.Compiler.Clone"
	}, nil) {
		r.Discharge("R-C13-1", key, w.pos(compileCall.Pos()), "receiver is c.Clone(…)")
	} else {
		r.Violate("R-C13-1", key, w.pos(compileCall.Pos()), "the test body is compiled by the file's own compiler: a compile error in one test leaves that compiler's state (and error) in the way of every later test")
	}

	isCompileErr := func(v ssa.Value) bool {
		ex, ok := v.(*ssa.Extract)

		return ok && ex.Tuple == ssa.Value(compileCall) && ex.Index == 1
	}

	key = "compiler.Compiler.compileTestBody|sub-compile error reaches no return"
	leak := ""

	for _, ret := range returnsOf(fn) {
		for _, v := range retResults(ret) {
			if derivesFrom(v, isCompileErr, func(string) bool { return true }) {
				leak = w.pos(ret.Pos())
			}
		}
	}

	if leak != "" {
		r.Violate("R-C13-1", key, leak, "the error of compiling one test's body is returned from compileTestBody: the whole file stops compiling and no later test runs")
	} else {
		r.Discharge("R-C13-1", key, w.pos(fn.Pos()), "only pushed and signalled")
	}

	// ---- R-C13-2
	var tryEmit ssa.Instruction

	allInstrs(fn, func(in ssa.Instruction) {
		if emitOf(in) == opTry && tryEmit == nil {
			tryEmit = in
		}
	})

	if tryEmit == nil {
		r.Violate("R-C13-2", "compiler.Compiler.compileTestBody|Try emitted", w.pos(fn.Pos()), "compileTestBody no longer wraps the test in a try: a failing test stops the run")
	} else {
		for name, op := range map[string]int64{"CallTest": opCallTest, "Signal": opSignal} {
			n := 0
			bad := ""

			allInstrs(fn, func(in ssa.Instruction) {
				if emitOf(in) != op {
					return
				}

				n++

				if !instrDominates(tryEmit, in) {
					bad = w.pos(in.Pos())
				}
			})

			key := "compiler.Compiler.compileTestBody|" + name + " inside the try"

			switch {
			case n == 0:
				r.Violate("R-C13-2", key, w.pos(fn.Pos()), "no emission of "+name+" found")
			case bad != "":
				r.Violate("R-C13-2", key, bad, name+" is emitted on a path that has not emitted Try: an error there is not caught by the test's own try")
			default:
				r.Discharge("R-C13-2", key, w.pos(tryEmit.Pos()), "dominated by Emit(Try)")
			}
		}

		key := "compiler.Compiler.compileTestBody|TryPop on every successful path"

		escape := pathAvoiding(tryEmit, nil, func(i ssa.Instruction) bool { return emitOf(i) == opTryPop }, func(i ssa.Instruction) bool {
			ret, ok := i.(*ssa.Return)

			return ok && retMayBeNilError(ret)
		})
		if escape != nil {
			r.Violate("R-C13-2", key, w.pos(escape.Pos()), "a successful path leaves the test's try active: the next test's errors are delivered to this test's catch")
		} else {
			r.Discharge("R-C13-2", key, w.pos(tryEmit.Pos()), "")
		}
	}

	// ---- R-C13-4: a failed sub-compile leaves nothing in the parent compiler
	r.Rule("R-C13-4", "Compiler.Compile closes the compiler (which merges a clone's state into its parent) only on the path where every statement compiled: Close is not deferred, and no call of Close lies on a path to a return of a statement's error", 1)

	if cf := w.ssaFunc(cp, "Compiler.Compile"); cf == nil {
		r.Anchor("R-C13-4", "compiler.Compiler.Compile")
	} else {
		isClose := func(c *ssa.CallCommon) bool {
			return callID(c) == "internal/language/compiler.Compiler.Close"
		}

		key := "compiler.Compiler.Compile|Close only after a successful compile"
		problem := ""
		nClose := 0

		allInstrs(cf, func(in ssa.Instruction) {
			switch x := in.(type) {
			case *ssa.Defer:
				if isClose(x.Common()) {
					problem = "Close is deferred (" + w.pos(x.Pos()) + "): it also runs when a statement failed to compile, and for a cloned compiler Close copies the half-compiled state (open scopes, unused-variable records) into the parent — one @test that does not compile then fails the whole file"
				}

				if mc := calleeFunction(x.Common()); mc != nil && mc.Parent() == cf {
					allInstrs(mc, func(i2 ssa.Instruction) {
						if c2, ok := i2.(*ssa.Call); ok && isClose(c2.Common()) {
							problem = "Close is called from a deferred function (" + w.pos(x.Pos()) + "): it also runs when a statement failed to compile"
						}
					})
				}
			case *ssa.Call:
				if !isClose(x.Common()) {
					return
				}

				nClose++

				// from this Close, no return of a non-nil statement error
				bad := pathAvoiding(in, nil, func(ssa.Instruction) bool { return false }, func(i ssa.Instruction) bool {
					ret, ok := i.(*ssa.Return)
					if !ok {
						return false
					}

					// returns the result of this very Close call: fine
					for _, v := range retResults(ret) {
						if ex, ok := resolveLocal(v).(*ssa.Extract); ok && ex.Tuple == ssa.Value(x) {
							return false
						}
					}

					return !retMayBeNilError(ret)
				})

				if bad != nil {
					problem = "Close at " + w.pos(x.Pos()) + " is followed by a return of a compile error (" + w.pos(bad.Pos()) + ")"
				}
			}
		})

		switch {
		case problem != "":
			r.Violate("R-C13-4", key, w.pos(cf.Pos()), problem)
		case nClose == 0:
			r.Violate("R-C13-4", key, w.pos(cf.Pos()), "Compile no longer closes the compiler")
		default:
			r.Discharge("R-C13-4", key, w.pos(cf.Pos()), "closed only by the final return c.Close()")
		}
	}

	// ---- R-C13-3
	tokenT, _ := lookupObj(tp, "Token").(*types.TypeName)
	if tokenT == nil {
		r.Anchor("R-C13-3", "tokenizer.Token")

		return
	}

	isSpellingCall := func(v ssa.Value) *ssa.Call {
		c, ok := v.(*ssa.Call)
		if !ok || callID(c.Common()) != "internal/language/tokenizer.Token.Spelling" {
			return nil
		}

		return c
	}

	// receiver is (a copy of) a package-level token variable of package tokenizer
	specialRecv := func(c *ssa.Call) string {
		name := ""

		derivesFrom(c.Call.Args[0], func(v ssa.Value) bool {
			if g, ok := v.(*ssa.Global); ok && g.Pkg != nil && g.Pkg.Pkg == tp.Types && strings.HasSuffix(g.Name(), "Token") {
				name = g.Name()

				return true
			}

			return false
		}, nil)

		return name
	}

	// spellings of the tokens that decide where a test body ends ("{", "}", "@"), read from tokenizer's initialiser
	extent := map[string]string{}

	for _, f := range w.srcFuncs(tp) {
		allInstrs(f, func(in ssa.Instruction) {
			st, ok := in.(*ssa.Store)
			if !ok {
				return
			}

			g, ok := st.Addr.(*ssa.Global)
			if !ok || (g.Name() != "BlockBeginToken" && g.Name() != "BlockEndToken" && g.Name() != "DirectiveToken") {
				return
			}

			if c, ok := st.Val.(*ssa.Call); ok && len(c.Call.Args) == 1 {
				if sp, isC := constString(c.Call.Args[0]); isC {
					extent[sp] = g.Name()
				}
			}
		})
	}

	if len(extent) != 3 {
		r.Anchor("R-C13-3", "spellings of tokenizer.BlockBeginToken / BlockEndToken / DirectiveToken")
	}

	examined := 0

	for _, f := range w.srcFuncs(cp) {
		n := 0

		allInstrs(f, func(in ssa.Instruction) {
			b, ok := in.(*ssa.BinOp)
			if !ok || (b.Op != token.EQL && b.Op != token.NEQ) {
				return
			}

			cx, cy := isSpellingCall(b.X), isSpellingCall(b.Y)
			if cx == nil && cy == nil {
				return
			}

			examined++

			var special string

			if cx != nil {
				special = specialRecv(cx)
			}

			if special == "" && cy != nil {
				special = specialRecv(cy)
			}

			// a literal with the spelling of one of the extent-deciding tokens
			if special == "" {
				for _, side := range []ssa.Value{b.X, b.Y} {
					if lit, isC := constString(side); isC && extent[lit] != "" {
						special = extent[lit]
					}
				}
			}

			if special == "" || special == "EmptyToken" {
				return // EmptyToken is the "no token / no name" marker with the empty spelling, not a structural token
			}

			n++

			key := fnKey(f) + "|spelling compared with tokenizer." + special
			if n > 1 {
				key += "#" + sprintInt(n)
			}

			if why, ok := c13SpellingOK[fnKey(f)+"|"+special]; ok {
				r.Except("R-C13-3", key, w.pos(in.Pos()), why)
			} else {
				r.Violate("R-C13-3", key, w.pos(in.Pos()), "a token is recognised by spelling only: a string literal spelled like tokenizer."+special+" is taken for the structural token (in the test-extent scanner this swallows the following tests)")
			}
		})
	}

	r.Unit("spelling_comparisons_examined", examined)

	if examined < 10 {
		r.Violate("R-C13-3", "compiler|spelling comparisons examined", "", "only "+sprintInt(examined)+" comparisons with Token.Spelling() found in package compiler (expected dozens): the rule is not looking at the code it should")
	}
}

var c13SpellingOK = map[string]string{}
