package main

import (
	"go/token"
	"strings"

	"golang.org/x/tools/go/ssa"
)

// R-C21-6: a token found in the token cache is accepted only after the
// revocation list has been asked about it at the time of this request.
//
// tokens.Blacklist purges the token cache, but a validation that was already
// under way when the token was revoked finishes afterwards and caches what it
// validated. From then on the cache hit is the only test the token meets, and
// each hit extends the cache entry's life. (The JWT cache of ValidateJWT asks
// the revocation list on every hit for the same reason.)
func c21CacheHitRevocation(w *World, r *Report) {
	r.Rule("R-C21-6", "Session.Authenticate accepts a full token from the token cache only behind the not-revoked answer of the revocation list (tokens.IsIDBlacklisted / IsBlacklisted, directly or through a helper of package router): with those edges, the edges for cached values that are not this server's tokens, and the validators removed, no consistent path stores a possibly-true Session.Authenticated", 1)

	rp := w.pkg("internal/router")
	if rp == nil {
		return
	}

	auth := w.ssaFunc(rp, "Session.Authenticate")
	if auth == nil {
		r.Anchor("R-C21-6", "router.Session.Authenticate")

		return
	}

	isRevocationCall := func(c *ssa.Call, depth int) bool { return false }

	isRevocationCall = func(c *ssa.Call, depth int) bool {
		id := callID(c.Common())
		if strings.HasSuffix(id, "language/tokens.IsIDBlacklisted") || strings.HasSuffix(id, "language/tokens.IsBlacklisted") {
			return true
		}

		callee := c.Common().StaticCallee()
		if depth >= 2 || callee == nil || len(callee.Blocks) == 0 || callee.Pkg == nil || callee.Pkg.Pkg != rp.Types {
			return false
		}

		found := false

		allInstrs(callee, func(in ssa.Instruction) {
			if cc, ok := in.(*ssa.Call); ok && isRevocationCall(cc, depth+1) {
				found = true
			}
		})

		return found
	}

	nRevocation := 0

	cuts := cutEdges(auth, func(f Fact) bool {
		if f.Kind != "false" {
			return false
		}

		// "not revoked"
		if derivesFrom(f.V, func(s ssa.Value) bool {
			c, ok := s.(*ssa.Call)

			return ok && isRevocationCall(c, 0)
		}, nil) {
			nRevocation++

			return true
		}

		// cached value is not a full token of this server: the comma-ok of the
		// *Token assertion, possibly and-ed with "the pointer is not nil"
		return c21IsFullFlag(f.V, 0)
	})

	validators := 0

	var find *ssa.Call

	for _, b := range auth.Blocks {
		for _, in := range b.Instrs {
			c, ok := in.(*ssa.Call)
			if !ok {
				continue
			}

			id := callID(c.Common())
			if id == "internal/caches.Find" {
				find = c
			}

			if strings.HasSuffix(id, "auth.TokenUnwrap") || strings.HasSuffix(id, "auth.ValidatePassword") || strings.HasSuffix(id, "oauth.ValidateJWT") {
				validators++

				for si := range b.Succs {
					cuts[Edge{b, si}] = true
				}
			}
		}
	}

	key := "router.Session.Authenticate|cache hit behind the revocation list"

	switch {
	case find == nil || validators < 3:
		r.Anchor("R-C21-6", "caches.Find and the three credential validators in Session.Authenticate")
	default:
		bad := ""
		exhausted := false

		walkPathsOpt(auth, cuts, walkOpts{exhausted: &exhausted}, func(b *ssa.BasicBlock, facts pathFacts) bool {
			for _, in := range b.Instrs {
				st, ok := in.(*ssa.Store)
				if !ok || !isFieldNamed(st.Addr, "Authenticated") {
					continue
				}

				if absValue(st.Val, facts) != 'F' {
					bad = w.pos(in.Pos())

					return true
				}
			}

			return false
		})

		switch {
		case exhausted:
			r.Violate("R-C21-6", key, w.pos(find.Pos()), "undecided: the path search ran out of budget")
		case bad != "" && nRevocation == 0:
			r.Violate("R-C21-6", key, w.pos(find.Pos()), "a token found in the token cache is accepted without the revocation list being asked: a validation in flight when the token was revoked puts it back into the cache after the purge, and from then on every request carrying the revoked token is accepted, each hit extending the entry's life")
		case bad != "":
			r.Violate("R-C21-6", key, bad, "the session can be marked authenticated from the token cache on a path that does not pass the not-revoked answer of the revocation list")
		default:
			r.Discharge("R-C21-6", key, w.pos(find.Pos()), "authenticated from the cache only behind the not-revoked answer")
		}
	}
}

// c21IsFullFlag: v is the "this cache entry is a full token" flag and nothing else.
func c21IsFullFlag(v ssa.Value, depth int) bool {
	if depth > 4 {
		return false
	}

	isAssert := func(x ssa.Value, index int) bool {
		e, ok := x.(*ssa.Extract)
		if !ok || e.Index != index {
			return false
		}

		_, isTA := e.Tuple.(*ssa.TypeAssert)

		return isTA
	}

	switch x := v.(type) {
	case *ssa.Extract:
		return isAssert(x, 1)
	case *ssa.BinOp:
		return x.Op == token.NEQ && ((isAssert(x.X, 0) && isNilConst(x.Y)) || (isAssert(x.Y, 0) && isNilConst(x.X)))
	case *ssa.Phi:
		some := false

		for _, e := range x.Edges {
			if b, isC := constBool(e); isC && !b {
				continue
			}

			if !c21IsFullFlag(e, depth+1) {
				return false
			}

			some = true
		}

		return some
	}

	return false
}

// R-C21-7: a revocation lookup that failed leaves nothing in the revocation
// cache. IsBlacklisted and IsIDBlacklisted cache what the store answered so
// that the next lookup is served from memory; if the "not revoked" sentinel is
// cached on a path where the read failed with anything but "not found", every
// later request carrying a revoked token is accepted from the cache (and each
// hit renews the entry).
func c21FailedLookupNotCached(w *World, r *Report) {
	c21FailedLookup(w, r, "R-C21-7", []string{"IsBlacklisted", "IsIDBlacklisted"}, 2)
}

// c21FailedLookup is the analysis of R-C21-7; C22 runs it for the JWT path
// (IsIDBlacklisted) as R-C22-9.
func c21FailedLookup(w *World, r *Report, rule string, names []string, floor int) {
	r.Rule(rule, "in tokens."+strings.Join(names, " and tokens.")+" no caches.Add on the revocation cache (called directly, or from a deferred function when the function returns) is reachable from the store read once the edges 'the read error is nil' and 'the read error is ErrNotFound' are removed", floor)

	tp := w.pkg("internal/language/tokens")
	if tp == nil {
		return
	}

	for _, name := range names {
		fn := w.ssaFunc(tp, name)
		if fn == nil {
			r.Anchor(rule, "tokens."+name)

			continue
		}

		var read *ssa.Call

		allInstrs(fn, func(in ssa.Instruction) {
			if c, ok := in.(*ssa.Call); ok && callID(c.Common()) == "internal/resources.ResHandle.Read" {
				read = c
			}
		})

		key := "tokens." + name + "|failed lookup not cached"

		if read == nil {
			r.Anchor(rule, "the store read in tokens."+name)

			continue
		}

		isReadErr := func(v ssa.Value) bool {
			return derivesFrom(v, func(s ssa.Value) bool {
				e, ok := s.(*ssa.Extract)

				return ok && e.Tuple == ssa.Value(read) && e.Index == 1
			}, nil)
		}

		cuts := cutEdges(fn, func(f Fact) bool {
			switch f.Kind {
			case "nil":
				return isReadErr(f.V)
			case "true":
				c, ok := f.V.(*ssa.Call)
				if !ok || !strings.HasSuffix(callID(c.Common()), "errors.Equal") && !strings.HasSuffix(callID(c.Common()), "errors.Equals") {
					return false
				}

				hasErr, hasNotFound := false, false

				for _, a := range c.Call.Args {
					if isReadErr(a) {
						hasErr = true
					}

					if derivesFrom(a, func(s ssa.Value) bool {
						g, isG := s.(*ssa.Global)

						return isG && g.Name() == "ErrNotFound"
					}, nil) {
						hasNotFound = true
					}
				}

				return hasErr && hasNotFound
			}

			return false
		})

		if len(cuts) == 0 {
			r.Violate(rule, key, w.pos(read.Pos()), "the error of the revocation store read is never tested")

			continue
		}

		isAdd := func(i ssa.Instruction) bool {
			c, ok := i.(*ssa.Call)

			return ok && callID(c.Common()) == "internal/caches.Add"
		}

		// a deferred function that fills the cache runs at every return
		deferredAdd := false

		for _, d := range deferredCalls(fn) {
			if g := calleeFunction(d.Common()); g != nil {
				allInstrs(g, func(in ssa.Instruction) {
					if isAdd(in) {
						deferredAdd = true
					}
				})
			}
		}

		hit := pathAvoiding(read, cuts, func(ssa.Instruction) bool { return false }, func(i ssa.Instruction) bool {
			if _, isRun := i.(*ssa.RunDefers); isRun && deferredAdd {
				return true
			}

			return isAdd(i)
		})

		if hit != nil {
			r.Violate(rule, key, w.pos(read.Pos()), "the revocation cache is filled on a path where the store read failed (neither answered nor reported 'not found'): the failed lookup's request is refused, but the cached 'not revoked' entry decides every later request for that token, and each hit renews it")
		} else {
			r.Discharge(rule, key, w.pos(read.Pos()), "cache fills only behind a nil or not-found read error")
		}
	}
}
