package main

import (
	"fmt"
	"os"
	"go/constant"
	"go/token"
	"go/types"
	"sort"
	"strings"

	"golang.org/x/tools/go/ssa"
)

// ---------------------------------------------------------------------------
// Callees

// staticCallee returns the statically resolved callee (function, method or
// interface method) of a call instruction as a *types.Func, or nil for dynamic
// calls through function values.
func staticCallee(c *ssa.CallCommon) *types.Func {
	if c.IsInvoke() {
		return c.Method
	}

	switch v := c.Value.(type) {
	case *ssa.Function:
		if o, ok := v.Object().(*types.Func); ok {
			return o
		}

		if v.Origin() != nil {
			if o, ok := v.Origin().Object().(*types.Func); ok {
				return o
			}
		}
	case *ssa.MakeClosure:
		if f, ok := v.Fn.(*ssa.Function); ok {
			if o, ok := f.Object().(*types.Func); ok {
				return o
			}
		}
	}

	return nil
}

// calleeFunction returns the *ssa.Function called, if static (incl. closures).
func calleeFunction(c *ssa.CallCommon) *ssa.Function {
	if c.IsInvoke() {
		return nil
	}

	switch v := c.Value.(type) {
	case *ssa.Function:
		return v
	case *ssa.MakeClosure:
		if f, ok := v.Fn.(*ssa.Function); ok {
			return f
		}
	}

	return nil
}

// funcID renders "pkgpath.Func" or "pkgpath.(T).Method" with the repository
// module prefix stripped ("internal/caches.Find", "os.Rename",
// "(*os.File).Close" -> "os.File.Close").
func funcID(f *types.Func) string {
	if f == nil {
		return ""
	}

	pkg := ""
	if f.Pkg() != nil {
		pkg = strings.TrimPrefix(strings.TrimPrefix(f.Pkg().Path(), modPath), "/")
	}

	sig, _ := f.Type().(*types.Signature)
	if sig != nil && sig.Recv() != nil {
		t := sig.Recv().Type()
		if p, ok := t.(*types.Pointer); ok {
			t = p.Elem()
		}

		if n, ok := t.(*types.Named); ok {
			tp := ""
			if n.Obj().Pkg() != nil {
				tp = strings.TrimPrefix(strings.TrimPrefix(n.Obj().Pkg().Path(), modPath), "/")
			}

			return tp + "." + n.Obj().Name() + "." + f.Name()
		}

		if _, ok := t.Underlying().(*types.Interface); ok {
			return pkg + ".<iface>." + f.Name()
		}
	}

	return pkg + "." + f.Name()
}

// callID is funcID of the static callee of a call instruction ("" if dynamic).
func callID(c *ssa.CallCommon) string { return funcID(staticCallee(c)) }

// isCallTo reports whether instr is a call (plain, go or defer not included
// unless asked) to one of ids.
func callTo(instr ssa.Instruction, ids ...string) *ssa.CallCommon {
	ci, ok := instr.(ssa.CallInstruction)
	if !ok {
		return nil
	}

	id := callID(ci.Common())
	for _, want := range ids {
		if id == want {
			return ci.Common()
		}
	}

	return nil
}

// callArgs returns the arguments of a call including the receiver as arg 0 for
// method calls (both static methods and interface invokes).
func callArgs(c *ssa.CallCommon) []ssa.Value {
	if c.IsInvoke() {
		return append([]ssa.Value{c.Value}, c.Args...)
	}

	return c.Args
}

// ---------------------------------------------------------------------------
// Value helpers

// stripValue looks through conversions that do not change identity.
func stripValue(v ssa.Value) ssa.Value {
	for {
		switch x := v.(type) {
		case *ssa.ChangeType:
			v = x.X
		case *ssa.MakeInterface:
			v = x.X
		case *ssa.ChangeInterface:
			v = x.X
		default:
			return v
		}
	}
}

func isNilConst(v ssa.Value) bool {
	c, ok := v.(*ssa.Const)

	return ok && c.IsNil()
}

func constString(v ssa.Value) (string, bool) {
	c, ok := stripValue(v).(*ssa.Const)
	if !ok || c.Value == nil || c.Value.Kind() != constant.String {
		return "", false
	}

	return constant.StringVal(c.Value), true
}

func constInt(v ssa.Value) (int64, bool) {
	c, ok := stripValue(v).(*ssa.Const)
	if !ok || c.Value == nil || c.Value.Kind() != constant.Int {
		return 0, false
	}

	return c.Int64(), true
}

func constBool(v ssa.Value) (bool, bool) {
	c, ok := stripValue(v).(*ssa.Const)
	if !ok || c.Value == nil || c.Value.Kind() != constant.Bool {
		return false, false
	}

	return constant.BoolVal(c.Value), true
}

// resultOf: if v is Extract(call, i) or the call itself, return the call and
// result index.
func resultOf(v ssa.Value) (*ssa.Call, int) {
	switch x := v.(type) {
	case *ssa.Extract:
		if c, ok := x.Tuple.(*ssa.Call); ok {
			return c, x.Index
		}
	case *ssa.Call:
		return x, 0
	}

	return nil, -1
}

// ---------------------------------------------------------------------------
// Branch facts

// Fact is what one outgoing edge of an If establishes.
type Fact struct {
	// Kind: "nil" (V is nil), "nonnil", "eq" (V == C), "ne" (V != C),
	// "true" (V is true), "false", "cmp" (X Op Y holds).
	Kind string
	V    ssa.Value
	C    *ssa.Const
	Op   token.Token // for cmp
	X, Y ssa.Value   // for cmp
}

// edgeFacts decodes the condition of an If into the facts established on the
// true (succ 0) or false (succ 1) edge.
func edgeFacts(cond ssa.Value, branch bool) []Fact {
	switch c := cond.(type) {
	case *ssa.UnOp:
		if c.Op == token.NOT {
			return edgeFacts(c.X, !branch)
		}
	case *ssa.BinOp:
		op := c.Op
		if !branch {
			switch op {
			case token.EQL:
				op = token.NEQ
			case token.NEQ:
				op = token.EQL
			case token.LSS:
				op = token.GEQ
			case token.LEQ:
				op = token.GTR
			case token.GTR:
				op = token.LEQ
			case token.GEQ:
				op = token.LSS
			}
		}

		facts := []Fact{{Kind: "cmp", Op: op, X: c.X, Y: c.Y}}

		// the comparison's own boolean value
		if branch {
			facts = append(facts, Fact{Kind: "true", V: cond})
		} else {
			facts = append(facts, Fact{Kind: "false", V: cond})
		}

		if op == token.EQL || op == token.NEQ {
			x, y := c.X, c.Y
			if _, ok := x.(*ssa.Const); ok {
				x, y = y, x
			}

			if k, ok := y.(*ssa.Const); ok {
				switch {
				case k.IsNil() && op == token.EQL:
					facts = append(facts, Fact{Kind: "nil", V: x})
				case k.IsNil():
					facts = append(facts, Fact{Kind: "nonnil", V: x})
				case op == token.EQL:
					facts = append(facts, Fact{Kind: "eq", V: x, C: k})
				default:
					facts = append(facts, Fact{Kind: "ne", V: x, C: k})
				}

				if b, ok := constBool(k); ok && !k.IsNil() {
					// x == true / x != false etc.
					if (op == token.EQL) == b {
						facts = append(facts, Fact{Kind: "true", V: x})
					} else {
						facts = append(facts, Fact{Kind: "false", V: x})
					}
				}
			}
		}

		return facts
	}

	if branch {
		return []Fact{{Kind: "true", V: cond}}
	}

	return []Fact{{Kind: "false", V: cond}}
}

// Edge identifies a CFG edge from block From to its Succs[Idx].
type Edge struct {
	From *ssa.BasicBlock
	Idx  int
}

// cutEdges returns every If-edge of fn for which pred(fact) holds for one of
// the facts the edge establishes.
func cutEdges(fn *ssa.Function, pred func(f Fact) bool) map[Edge]bool {
	cuts := map[Edge]bool{}

	for _, b := range fn.Blocks {
		if len(b.Instrs) == 0 {
			continue
		}

		ifi, ok := b.Instrs[len(b.Instrs)-1].(*ssa.If)
		if !ok {
			continue
		}

		for idx, branch := range []bool{true, false} {
			for _, f := range withCellFacts(edgeFacts(ifi.Cond, branch)) {
				if pred(f) {
					cuts[Edge{b, idx}] = true

					break
				}
			}
		}
	}

	return cuts
}

// reach computes the blocks reachable from start without crossing a cut edge.
// If stopAt returns true for a block, its successors are not followed (the
// block itself is marked reachable).
func reach(start *ssa.BasicBlock, cuts map[Edge]bool, stopAt func(b *ssa.BasicBlock) bool) map[*ssa.BasicBlock]bool {
	seen := map[*ssa.BasicBlock]bool{start: true}
	work := []*ssa.BasicBlock{start}

	for len(work) > 0 {
		b := work[len(work)-1]
		work = work[:len(work)-1]

		if stopAt != nil && stopAt(b) {
			continue
		}

		for i, s := range b.Succs {
			if cuts[Edge{b, i}] || seen[s] {
				continue
			}

			seen[s] = true
			work = append(work, s)
		}
	}

	return seen
}

// instrReachableAfterCut reports whether the given instruction can execute when
// the cut edges are removed, starting at fn's entry.
func instrReachableAfterCut(fn *ssa.Function, target ssa.Instruction, cuts map[Edge]bool) bool {
	if len(fn.Blocks) == 0 {
		return false
	}

	return reach(fn.Blocks[0], cuts, nil)[target.Block()]
}

// ---------------------------------------------------------------------------
// Instruction-level path queries

type instrPoint struct {
	b *ssa.BasicBlock
	i int // index in b.Instrs
}

func pointOf(instr ssa.Instruction) instrPoint {
	b := instr.Block()
	for i, in := range b.Instrs {
		if in == instr {
			return instrPoint{b, i}
		}
	}

	return instrPoint{b, -1}
}

// pathAvoiding searches for a path from just after `from` to any instruction
// satisfying isTarget, that does not execute an instruction satisfying
// isBarrier and does not cross a cut edge.  It returns the first target found
// (nil if every path hits a barrier first).  Deferred calls are not considered
// here; see deferredCalls.
func pathAvoiding(from ssa.Instruction, cuts map[Edge]bool, isBarrier, isTarget func(ssa.Instruction) bool) ssa.Instruction {
	p := pointOf(from)

	type state struct {
		b     *ssa.BasicBlock
		start int
	}

	seen := map[*ssa.BasicBlock]bool{}
	work := []state{{p.b, p.i + 1}}

	for len(work) > 0 {
		s := work[len(work)-1]
		work = work[:len(work)-1]
		blocked := false

		for i := s.start; i < len(s.b.Instrs); i++ {
			in := s.b.Instrs[i]
			if isBarrier(in) {
				blocked = true

				break
			}

			if isTarget(in) {
				return in
			}
		}

		if blocked {
			continue
		}

		for i, succ := range s.b.Succs {
			if cuts[Edge{s.b, i}] || seen[succ] {
				continue
			}

			seen[succ] = true
			work = append(work, state{succ, 0})
		}
	}

	return nil
}

// pathFromEntryAvoiding is pathAvoiding starting at the function entry.
func pathFromEntryAvoiding(fn *ssa.Function, cuts map[Edge]bool, isBarrier, isTarget func(ssa.Instruction) bool) ssa.Instruction {
	if len(fn.Blocks) == 0 {
		return nil
	}

	b := fn.Blocks[0]
	seen := map[*ssa.BasicBlock]bool{b: true}
	work := []*ssa.BasicBlock{b}

	for len(work) > 0 {
		b = work[len(work)-1]
		work = work[:len(work)-1]
		blocked := false

		for _, in := range b.Instrs {
			if isBarrier(in) {
				blocked = true

				break
			}

			if isTarget(in) {
				return in
			}
		}

		if blocked {
			continue
		}

		for i, succ := range b.Succs {
			if cuts[Edge{b, i}] || seen[succ] {
				continue
			}

			seen[succ] = true
			work = append(work, succ)
		}
	}

	return nil
}

// instrDominates: a executes before b on every path from entry to b.
func instrDominates(a, b ssa.Instruction) bool {
	pa, pb := pointOf(a), pointOf(b)
	if pa.b == pb.b {
		return pa.i < pb.i
	}

	return pa.b.Dominates(pb.b)
}

// deferredCalls lists the Defer instructions of fn.
func deferredCalls(fn *ssa.Function) []*ssa.Defer {
	var out []*ssa.Defer

	for _, b := range fn.Blocks {
		for _, in := range b.Instrs {
			if d, ok := in.(*ssa.Defer); ok {
				out = append(out, d)
			}
		}
	}

	return out
}

// allInstrs visits every instruction of fn in block order.
func allInstrs(fn *ssa.Function, visit func(in ssa.Instruction)) {
	for _, b := range fn.Blocks {
		for _, in := range b.Instrs {
			visit(in)
		}
	}
}

// allCalls visits every call/go/defer instruction of fn.
func allCalls(fn *ssa.Function, visit func(ci ssa.CallInstruction)) {
	allInstrs(fn, func(in ssa.Instruction) {
		if ci, ok := in.(ssa.CallInstruction); ok {
			visit(ci)
		}
	})
}

// returnsOf lists Return instructions of fn.
func returnsOf(fn *ssa.Function) []*ssa.Return {
	var out []*ssa.Return

	allInstrs(fn, func(in ssa.Instruction) {
		if r, ok := in.(*ssa.Return); ok {
			out = append(out, r)
		}
	})

	return out
}

// ---------------------------------------------------------------------------
// Value provenance (backwards slice through pure operations)

// derivesFrom reports whether v is computed from a value satisfying isSource
// through phis, conversions, string concatenation/slicing, field/index loads
// of the same aggregate, and calls listed in through (by callID; nil = none).
func derivesFrom(v ssa.Value, isSource func(ssa.Value) bool, through func(id string) bool) bool {
	seen := map[ssa.Value]bool{}

	var rec func(v ssa.Value) bool

	rec = func(v ssa.Value) bool {
		if v == nil || seen[v] {
			return false
		}

		seen[v] = true

		if isSource(v) {
			return true
		}

		switch x := v.(type) {
		case *ssa.Phi:
			for _, e := range x.Edges {
				if rec(e) {
					return true
				}
			}
		case *ssa.ChangeType:
			return rec(x.X)
		case *ssa.Convert:
			return rec(x.X)
		case *ssa.MakeInterface:
			return rec(x.X)
		case *ssa.ChangeInterface:
			return rec(x.X)
		case *ssa.TypeAssert:
			return rec(x.X)
		case *ssa.Extract:
			return rec(x.Tuple)
		case *ssa.BinOp:
			return rec(x.X) || rec(x.Y)
		case *ssa.UnOp:
			if x.Op == token.MUL {
				// load of a local variable cell: follow what was stored
				if vals, ok := storedValues(x.X); ok {
					for _, sv := range vals {
						if rec(sv) {
							return true
						}
					}

					return false
				}
			}

			return rec(x.X)
		case *ssa.Slice:
			return rec(x.X)
		case *ssa.Alloc:
			if vals, ok := storedValues(x); ok {
				for _, sv := range vals {
					if rec(sv) {
						return true
					}
				}
			}

			return false
		case *ssa.Field:
			return rec(x.X)
		case *ssa.FieldAddr:
			return rec(x.X)
		case *ssa.Index:
			return rec(x.X)
		case *ssa.IndexAddr:
			return rec(x.X)
		case *ssa.Lookup:
			return rec(x.X)
		case *ssa.Call:
			if through != nil && through(callID(x.Common())) {
				for _, a := range callArgs(x.Common()) {
					if rec(a) {
						return true
					}
				}
			}
		}

		return false
	}

	return rec(v)
}

// fnKey renders a stable name for an SSA function: "pkg.Func",
// "pkg.T.Method", "pkg.Func$1".
func fnKey(fn *ssa.Function) string {
	if fn == nil {
		return "?"
	}

	if fn.Parent() != nil {
		return fnKey(fn.Parent()) + "$" + strings.TrimPrefix(fn.Name(), fn.Parent().Name()+"$")
	}

	if o, ok := fn.Object().(*types.Func); ok {
		id := funcID(o)
		// shorten package path to its last element for readability
		if i := strings.LastIndex(id[:strings.Index(id+".", ".")], "/"); i >= 0 {
			id = id[i+1:]
		}

		return id
	}

	return fn.String()
}

func sortedKeys[M ~map[string]V, V any](m M) []string {
	out := make([]string, 0, len(m))
	for k := range m {
		out = append(out, k)
	}

	sort.Strings(out)

	return out
}

func sprintType(v any) string { return fmt.Sprintf("%T", v) }

// storedValues: if addr is a local variable cell (an Alloc, or a FreeVar bound
// to an Alloc of an enclosing function) whose address does not escape other
// than into closures, return every value stored into it anywhere in the
// function nest. ok=false when addr is not such a cell.
func storedValues(addr ssa.Value) (vals []ssa.Value, ok bool) {
	cell := localCell(addr)
	if cell == nil {
		return nil, false
	}

	root := cell.Parent()
	for root.Parent() != nil {
		root = root.Parent()
	}

	var visit func(f *ssa.Function)

	visit = func(f *ssa.Function) {
		allInstrs(f, func(in ssa.Instruction) {
			if st, isStore := in.(*ssa.Store); isStore && localCell(st.Addr) == cell {
				vals = append(vals, st.Val)
			}
		})

		for _, a := range f.AnonFuncs {
			visit(a)
		}
	}

	visit(root)

	return vals, true
}

// localCell resolves an address to the Alloc it denotes: the Alloc itself or a
// FreeVar bound (through MakeClosure) to an Alloc in an enclosing function.
func localCell(addr ssa.Value) *ssa.Alloc {
	switch x := addr.(type) {
	case *ssa.Alloc:
		return x
	case *ssa.FreeVar:
		fn := x.Parent()
		parent := fn.Parent()

		if parent == nil {
			return nil
		}

		idx := -1

		for i, fv := range fn.FreeVars {
			if fv == x {
				idx = i
			}
		}

		var out *ssa.Alloc

		var visit func(f *ssa.Function)

		visit = func(f *ssa.Function) {
			allInstrs(f, func(in ssa.Instruction) {
				if mc, ok := in.(*ssa.MakeClosure); ok && mc.Fn == fn && idx >= 0 && idx < len(mc.Bindings) {
					if c := localCell(mc.Bindings[idx]); c != nil {
						out = c
					}
				}
			})
		}

		visit(parent)

		return out
	}

	return nil
}

// resolveLocal looks through loads of single-assignment local cells (variables
// captured by closures are Allocs in SSA) and identity conversions.
func resolveLocal(v ssa.Value) ssa.Value {
	for i := 0; i < 8; i++ {
		v = stripValue(v)

		u, ok := v.(*ssa.UnOp)
		if !ok || u.Op != token.MUL {
			return v
		}

		vals, ok := storedValues(u.X)
		if !ok {
			return v
		}

		// ignore zero-value initialisations
		var real []ssa.Value

		for _, sv := range vals {
			if c, isC := sv.(*ssa.Const); isC && (c.Value == nil) {
				continue
			}

			real = append(real, sv)
		}

		if len(real) != 1 {
			return v
		}

		v = real[0]
	}

	return v
}

// withCellFacts adds, for every fact about a load of a local variable cell
// (named results and variables captured by closures are cells in SSA), the
// same fact about the value most recently stored into that cell.
func withCellFacts(facts []Fact) []Fact {
	out := facts

	for _, f := range facts {
		if f.V == nil {
			continue
		}

		if u, ok := f.V.(*ssa.UnOp); ok && u.Op == token.MUL {
			if v := cellValueAt(u); v != nil {
				g := f
				g.V = v
				out = append(out, g)
			}
		}
	}

	return out
}

// cellValueAt returns the value held by a local cell at the point of the load:
// the last store in the same block before the load, else the last store in
// the nearest dominating block provided no other block stores to the cell in
// between (approximated: exactly one storing block dominates and it is the
// immediate dominator chain's first hit).  nil when unknown.
func cellValueAt(load *ssa.UnOp) ssa.Value {
	cell := localCell(load.X)
	if cell == nil {
		return nil
	}

	b := load.Block()
	idx := len(b.Instrs)

	for i, in := range b.Instrs {
		if in == ssa.Instruction(load) {
			idx = i
		}
	}

	for blk := b; blk != nil; blk = blk.Idom() {
		for i := idx - 1; i >= 0; i-- {
			if st, ok := blk.Instrs[i].(*ssa.Store); ok && localCell(st.Addr) == cell {
				return st.Val
			}
		}

		if next := blk.Idom(); next != nil {
			idx = len(next.Instrs)
			// a merge point whose other predecessors may have stored: give up
			// unless the idom is the only predecessor
			if len(blk.Preds) != 1 {
				return nil
			}
		}
	}

	return nil
}

// dumpFn writes the SSA of fn to stderr when EGOCHECK_DUMP names it.
func dumpFn(fn *ssa.Function) {
	if fn != nil && os.Getenv("EGOCHECK_DUMP") == fnKey(fn) {
		fn.WriteTo(os.Stderr)
	}
}

// retResult returns result i of a Return, looking through the spill that
// go/ssa inserts in functions with defers (*t0 = v; rundefers; t = *t0;
// return t).
func retResult(ret *ssa.Return, i int) ssa.Value {
	v := ret.Results[i]

	u, ok := v.(*ssa.UnOp)
	if !ok || u.Op != token.MUL {
		return v
	}

	if _, isAlloc := u.X.(*ssa.Alloc); !isAlloc {
		return v
	}

	b := ret.Block()
	for j := len(b.Instrs) - 1; j >= 0; j-- {
		if st, ok := b.Instrs[j].(*ssa.Store); ok && st.Addr == u.X {
			return st.Val
		}
	}

	if cv := cellValueAt(u); cv != nil {
		return cv
	}

	return v
}

// retResults returns all results of a Return through retResult.
func retResults(ret *ssa.Return) []ssa.Value {
	out := make([]ssa.Value, len(ret.Results))
	for i := range ret.Results {
		out[i] = retResult(ret, i)
	}

	return out
}

func sprintInt(n int) string { return fmt.Sprintf("%d", n) }

// ---------------------------------------------------------------------------
// Loops

type loopInfo struct {
	header *ssa.BasicBlock
	latch  []*ssa.BasicBlock // sources of back edges
	body   map[*ssa.BasicBlock]bool
}

// naturalLoops finds the natural loops of fn (one per header).
func naturalLoops(fn *ssa.Function) []*loopInfo {
	byHeader := map[*ssa.BasicBlock]*loopInfo{}

	var order []*ssa.BasicBlock

	for _, b := range fn.Blocks {
		for _, s := range b.Succs {
			if s.Dominates(b) {
				li := byHeader[s]
				if li == nil {
					li = &loopInfo{header: s, body: map[*ssa.BasicBlock]bool{s: true}}
					byHeader[s] = li
					order = append(order, s)
				}

				li.latch = append(li.latch, b)

				// body: blocks that reach the latch without passing the header
				work := []*ssa.BasicBlock{b}
				for len(work) > 0 {
					x := work[len(work)-1]
					work = work[:len(work)-1]

					if li.body[x] {
						continue
					}

					li.body[x] = true
					work = append(work, x.Preds...)
				}
			}
		}
	}

	var out []*loopInfo
	for _, h := range order {
		out = append(out, byHeader[h])
	}

	return out
}

// iterationAvoiding searches, inside one loop, for a path from the header
// around to the header again (one full iteration) that executes no instruction
// satisfying isBarrier and crosses no cut edge. It returns the latch block of
// such a path, or nil when every iteration passes a barrier (or leaves the
// loop).  The search is path-sensitive for nil/non-nil and true/false tests of
// one and the same SSA value: a path that would take contradictory branches on
// the same value is not followed.
func iterationAvoiding(li *loopInfo, cuts map[Edge]bool, isBarrier func(ssa.Instruction) bool) *ssa.BasicBlock {
	blocked := func(b *ssa.BasicBlock) bool {
		for _, in := range b.Instrs {
			if isBarrier(in) {
				return true
			}
		}

		return false
	}

	if blocked(li.header) {
		return nil
	}

	type state struct {
		b     *ssa.BasicBlock
		facts string
	}

	worthy := factWorthy(li.header.Parent())
	seen := map[state]bool{}

	var found *ssa.BasicBlock

	var walk func(b *ssa.BasicBlock, facts map[ssa.Value]string, depth int)

	sig := func(f map[ssa.Value]string) string {
		parts := make([]string, 0, len(f))
		for v, k := range f {
			parts = append(parts, v.Name()+"="+k)
		}

		sort.Strings(parts)

		return strings.Join(parts, ",")
	}

	step := func(from *ssa.BasicBlock, idx int, facts map[ssa.Value]string) (map[ssa.Value]string, bool) {
		ifi, ok := from.Instrs[len(from.Instrs)-1].(*ssa.If)
		if !ok {
			return facts, true
		}

		nf := facts

		for _, f := range withCellFacts(edgeFacts(ifi.Cond, idx == 0)) {
			var k string

			switch f.Kind {
			case "nil", "nonnil", "true", "false":
				k = f.Kind
			default:
				continue
			}

			opp := map[string]string{"nil": "nonnil", "nonnil": "nil", "true": "false", "false": "true"}[k]
			if facts[f.V] == opp {
				return nil, false // contradictory with an earlier branch on the same value
			}

			if facts[f.V] == "" {
				if len(nf) > 40 || !worthy[f.V] {
					continue // bound the state space
				}

				cp := map[ssa.Value]string{}
				for a, b := range nf {
					cp[a] = b
				}

				cp[f.V] = k
				nf = cp
			}
		}

		return nf, true
	}

	walk = func(b *ssa.BasicBlock, facts map[ssa.Value]string, depth int) {
		if found != nil || depth > 400 {
			return
		}

		st := state{b, sig(facts)}
		if seen[st] {
			return
		}

		seen[st] = true

		if b != li.header && blocked(b) {
			return
		}

		for i, s := range b.Succs {
			if cuts[Edge{b, i}] {
				continue
			}

			nf, ok := step(b, i, facts)
			if !ok {
				continue
			}

			if s == li.header {
				if b != li.header {
					found = b

					return
				}

				continue
			}

			if li.body[s] {
				walk(s, nf, depth+1)
			}
		}
	}

	walk(li.header, map[ssa.Value]string{}, 0)

	return found
}

func sortStrings(s []string) { sort.Strings(s) }

// factWorthy returns the values for which a branch fact can ever matter on a
// later branch of the same function: values tested by two or more Ifs, and
// values that feed a phi (their fact is transferred to the phi).
func factWorthy(fn *ssa.Function) map[ssa.Value]bool {
	count := map[ssa.Value]int{}

	for _, b := range fn.Blocks {
		if len(b.Instrs) == 0 {
			continue
		}

		ifi, ok := b.Instrs[len(b.Instrs)-1].(*ssa.If)
		if !ok {
			continue
		}

		seen := map[ssa.Value]bool{}

		for _, f := range withCellFacts(edgeFacts(ifi.Cond, true)) {
			if f.V != nil && !seen[f.V] {
				seen[f.V] = true
				count[f.V]++
			}
		}
	}

	out := map[ssa.Value]bool{}

	for v, n := range count {
		if n >= 2 {
			out[v] = true

			continue
		}

		if refs := v.Referrers(); refs != nil {
			for _, r := range *refs {
				switch r.(type) {
				case *ssa.Phi, *ssa.Return, *ssa.Store:
					out[v] = true
				}
			}
		}
	}

	// phis themselves
	for _, b := range fn.Blocks {
		for _, in := range b.Instrs {
			if ph, ok := in.(*ssa.Phi); ok {
				out[ph] = true
			}
		}
	}

	return out
}

// instrReachableFrom: b can execute after a on some path of their function.
func instrReachableFrom(a, b ssa.Instruction) bool {
	return pathAvoiding(a, nil, func(ssa.Instruction) bool { return false }, func(i ssa.Instruction) bool { return i == b }) != nil
}
