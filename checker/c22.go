package main

import (
	"go/token"
	"go/types"
	"strings"

	"golang.org/x/tools/go/packages"

	"golang.org/x/tools/go/ssa"
)

// C22 JWT bearer tokens are verified and revocable.

func init() {
	register(&propertyCheck{
		id: "C22", level: "other", needs: loadNeeds{ssa: true},
		decides: "every accepting return of ValidateJWT lies behind a revocation lookup for the token's ID (or the token has no ID); the only JWT parse entry is jwt.ParseWithClaims with expiry required and issuer/audience options applied whenever configured; " +
			"claims are returned only on the nil-error and token.Valid edges; the key function accepts asymmetric signing methods only; ParseUnverified is never called.",
		misses: "JWKS fetching and key rotation, clock handling inside the jwt library, fail-open behaviour when the revocation store returns an error, cluster propagation of revocations.",
		run:    runC22,
	})
}

const jwtPkg = "github.com/golang-jwt/jwt/v5"

var c22AllowedMethods = map[string]bool{
	"SigningMethodECDSA": true, "SigningMethodRSA": true, "SigningMethodRSAPSS": true, "SigningMethodEd25519": true,
}

func runC22(w *World, r *Report) {
	r.Rule("R-C22-1", "edge cut: with the edges {revocation lookup says not revoked, token ID empty} removed, no nil-error return of ValidateJWT and no success answer of any other OAuth handler that consults the list is reachable; a lookup that failed is not an answer", 3)
	r.Rule("R-C22-2", "parser discipline in server/oauth: ParseWithClaims is the only parse entry; WithExpirationRequired always, WithIssuer/WithAudience whenever configured; claims returned only behind err==nil and token.Valid", 5)
	r.Rule("R-C22-3", "the verification-key function returns a key only for asymmetric signing methods (type-switch cases within the allowed set, erroring default)", 2)
	r.Rule("R-C22-4", "no call of jwt ParseUnverified anywhere in the repository", 1)
	c22RevocationAcknowledged(w, r)
	c22KeySetReplaced(w, r)
	c21FailedLookup(w, r, "R-C22-9", []string{"IsIDBlacklisted"}, 1)

	op := w.pkg("internal/server/oauth")
	if op == nil {
		r.Anchor("R-C22-1", "package internal/server/oauth")

		return
	}

	c22KeyAgreement(w, r)

	// ---- R-C22-1
	if fn := w.ssaFunc(op, "ValidateJWT"); fn == nil {
		r.Anchor("R-C22-1", "oauth.ValidateJWT")
	} else {
		var lookups []*ssa.Call

		allInstrs(fn, func(in ssa.Instruction) {
			if c, ok := in.(*ssa.Call); ok && callID(c.Common()) == "internal/language/tokens.IsIDBlacklisted" {
				lookups = append(lookups, c)
			}
		})

		if len(lookups) == 0 {
			r.Violate("R-C22-1", "oauth.ValidateJWT|no-lookup", w.pos(fn.Pos()), "ValidateJWT never consults the revocation list")
		}

		isLookupResult := func(v ssa.Value, idx int) bool {
			c, i := resultOf(v)
			if c == nil || i != idx {
				return false
			}

			for _, l := range lookups {
				if l == c {
					return true
				}
			}

			return false
		}

		isIDValue := func(v ssa.Value) bool {
			for _, l := range lookups {
				if sameFieldLoad(v, l.Call.Args[0]) {
					return true
				}
			}

			return false
		}

		cuts := cutEdges(fn, func(f Fact) bool {
			switch f.Kind {
			case "false":
				return isLookupResult(f.V, 0)
			case "eq":
				s, ok := constString(f.C)

				return ok && s == "" && isIDValue(f.V)
			}

			return false
		})

		reachable := reach(fn.Blocks[0], cuts, nil)
		n := 0

		for _, ret := range returnsOf(fn) {
			res := retResults(ret)
			if len(res) != 3 || !isNilConst(res[2]) {
				continue
			}

			n++

			key := "oauth.ValidateJWT|accept-return"
			if reachable[ret.Block()] {
				r.Violate("R-C22-1", key, w.pos(ret.Pos()), "this accepting return is reachable without any revocation lookup for the token's ID: a revoked JWT is accepted on this path")
			} else {
				r.Discharge("R-C22-1", key, w.pos(ret.Pos()), "reachable only through {the lookup answered not revoked | empty token ID}")
			}
		}

		if n == 0 {
			r.Anchor("R-C22-1", "nil-error returns of ValidateJWT")
		}
	}

	// the same discipline in every other function of the OAuth packages that consults the list
	for _, p := range w.pkgsUnder("internal/server/oauth") {
		for _, fn := range w.srcFuncs(p) {
			if fn.Name() == "ValidateJWT" {
				continue
			}

			var lookups []*ssa.Call

			allInstrs(fn, func(in ssa.Instruction) {
				if c, ok := in.(*ssa.Call); ok && callID(c.Common()) == "internal/language/tokens.IsIDBlacklisted" {
					lookups = append(lookups, c)
				}
			})

			if len(lookups) == 0 {
				continue
			}

			cuts := cutEdges(fn, func(f Fact) bool {
				switch f.Kind {
				case "false":
					c, i := resultOf(f.V)
					for _, l := range lookups {
						if c == l && i == 0 {
							return true
						}
					}
				case "eq":
					if s, ok := constString(f.C); ok && s == "" {
						for _, l := range lookups {
							if sameFieldLoad(f.V, l.Call.Args[0]) {
								return true
							}
						}
					}
				}

				return false
			})

			n := 0

			allInstrs(fn, func(in ssa.Instruction) {
				// the success answer: util.WriteJSON or WriteHeader(200)
				isAnswer := callTo(in, "internal/util.WriteJSON") != nil

				if c := callTo(in, "net/http.ResponseWriter.WriteHeader"); c != nil {
					if k, isC := constInt(c.Args[0]); isC && k == 200 {
						isAnswer = true
					}
				}

				if !isAnswer {
					return
				}

				n++

				key := fnKey(fn) + "|answer behind the revocation lookup"
				if n > 1 {
					key += "#" + sprintInt(n)
				}

				if instrReachableAfterCut(fn, in, cuts) {
					r.Violate("R-C22-1", key, w.pos(in.Pos()), "this handler answers with the token's claims on a path where the revocation lookup did not say 'not revoked' (a failed lookup is skipped over): a revoked token is honoured while the list cannot be read")
				} else {
					r.Discharge("R-C22-1", key, w.pos(in.Pos()), "reachable only through {the lookup answered not revoked | empty token ID}")
				}
			})
		}
	}

	c22CacheExpiry(w, r, op)

	// ---- R-C22-2
	if fn := w.ssaFunc(op, "parseAndValidateJWT"); fn == nil {
		r.Anchor("R-C22-2", "oauth.parseAndValidateJWT")
	} else {
		var parse *ssa.Call

		calls := map[string][]*ssa.Call{}

		allInstrs(fn, func(in ssa.Instruction) {
			if c, ok := in.(*ssa.Call); ok {
				id := callID(c.Common())
				if strings.HasPrefix(id, jwtPkg+".") {
					calls[strings.TrimPrefix(id, jwtPkg+".")] = append(calls[strings.TrimPrefix(id, jwtPkg+".")], c)
				}
			}
		})

		if len(calls["ParseWithClaims"]) == 1 {
			parse = calls["ParseWithClaims"][0]
		}

		if parse == nil {
			r.Violate("R-C22-2", "oauth.parseAndValidateJWT|ParseWithClaims", w.pos(fn.Pos()), "expected exactly one jwt.ParseWithClaims call")
		} else {
			optsArg := parse.Call.Args[len(parse.Call.Args)-1]

			type opt struct {
				name, param string
			}

			for _, o := range []opt{{"WithExpirationRequired", ""}, {"WithIssuer", "issuer"}, {"WithAudience", "audience"}} {
				key := "oauth.parseAndValidateJWT|" + o.name
				cs := calls[o.name]

				if len(cs) == 0 {
					r.Violate("R-C22-2", key, w.pos(parse.Pos()), "jwt."+o.name+" is never applied: the corresponding claim is not validated")

					continue
				}

				// flows into the options passed to the parser
				var seeds []ssa.Value
				for _, c := range cs {
					seeds = append(seeds, c)
				}

				if !flowForward(fn, seeds, flowOpts{}).has(optsArg) {
					r.Violate("R-C22-2", key, w.pos(cs[0].Pos()), "the option value never reaches the options passed to ParseWithClaims")

					continue
				}

				// executed on every path to the parse call on which it is configured
				var cuts map[Edge]bool

				if o.param != "" {
					var pv ssa.Value

					for _, p := range fn.Params {
						if p.Name() == o.param {
							pv = p
						}
					}

					if pv == nil {
						r.Anchor("R-C22-2", "parameter "+o.param+" of parseAndValidateJWT")

						continue
					}

					cuts = cutEdges(fn, func(f Fact) bool {
						s, ok := "", false
						if f.C != nil {
							s, ok = constString(f.C)
						}

						return f.Kind == "eq" && f.V == pv && ok && s == ""
					})
				}

				isOpt := func(i ssa.Instruction) bool {
					for _, c := range cs {
						if i == ssa.Instruction(c) {
							return true
						}
					}

					return false
				}

				if esc := pathFromEntryAvoiding(fn, cuts, isOpt, func(i ssa.Instruction) bool { return i == ssa.Instruction(parse) }); esc != nil {
					r.Violate("R-C22-2", key, w.pos(parse.Pos()), "ParseWithClaims can be reached without jwt."+o.name+" although it is configured")
				} else {
					r.Discharge("R-C22-2", key, w.pos(cs[0].Pos()), "applied on every path to the parser"+map[bool]string{true: " on which " + o.param + " is configured", false: ""}[o.param != ""])
				}
			}

			// claims returned only behind err == nil and token.Valid
			var errV, tokV ssa.Value

			if parse.Referrers() != nil {
				for _, ref := range *parse.Referrers() {
					if e, ok := ref.(*ssa.Extract); ok {
						if e.Index == 1 {
							errV = e
						} else {
							tokV = e
						}
					}
				}
			}

			guards := map[string]map[Edge]bool{
				"err==nil": cutEdges(fn, func(f Fact) bool { return f.Kind == "nil" && errV != nil && f.V == errV }),
				"token.Valid": cutEdges(fn, func(f Fact) bool {
					return f.Kind == "true" && tokV != nil && isFieldLoadOf(f.V, tokV, "Valid")
				}),
			}

			for _, g := range sortedKeys(guards) {
				key := "oauth.parseAndValidateJWT|success-behind-" + g
				reachable := reach(fn.Blocks[0], guards[g], nil)
				bad := ""

				for _, ret := range returnsOf(fn) {
					res := retResults(ret)
					if len(res) == 2 && isNilConst(res[1]) && reachable[ret.Block()] {
						bad = w.pos(ret.Pos())
					}
				}

				if bad != "" || len(guards[g]) == 0 {
					r.Violate("R-C22-2", key, bad, "claims are returned as valid on a path that does not pass the "+g+" edge")
				} else {
					r.Discharge("R-C22-2", key, w.pos(parse.Pos()), "every nil-error return lies behind "+g)
				}
			}
		}
	}

	// ---- R-C22-3 key function
	if fn := w.ssaFunc(op, "selectVerificationKey"); fn == nil {
		r.Anchor("R-C22-3", "oauth.selectVerificationKey")
	} else {
		// reachable from the keyfunc handed to ParseWithClaims
		nAllowed := 0
		cuts := map[Edge]bool{}

		for _, b := range fn.Blocks {
			ifi, ok := b.Instrs[len(b.Instrs)-1].(*ssa.If)
			if !ok {
				continue
			}

			ex, ok := ifi.Cond.(*ssa.Extract)
			if !ok {
				continue
			}

			ta, ok := ex.Tuple.(*ssa.TypeAssert)
			if !ok || !ta.CommaOk {
				continue
			}

			nt := namedOf(ta.AssertedType)
			key := "oauth.selectVerificationKey|method " + types.TypeString(ta.AssertedType, shortQual)

			if nt != nil && nt.Obj().Pkg() != nil && nt.Obj().Pkg().Path() == jwtPkg && c22AllowedMethods[nt.Obj().Name()] {
				nAllowed++
				cuts[Edge{b, 0}] = true

				r.Discharge("R-C22-3", key, w.pos(ta.Pos()), "asymmetric signing method")
			} else if nt != nil && nt.Obj().Pkg() != nil && nt.Obj().Pkg().Path() == jwtPkg {
				r.Violate("R-C22-3", key, w.pos(ta.Pos()), "the key function accepts a signing method outside the asymmetric set (HMAC/none would let a caller sign tokens with public material)")
			}
		}

		reachable := reach(fn.Blocks[0], cuts, nil)
		bad := ""

		for _, ret := range returnsOf(fn) {
			res := retResults(ret)
			if len(res) == 2 && isNilConst(res[1]) && reachable[ret.Block()] {
				bad = w.pos(ret.Pos())
			}
		}

		if bad != "" || nAllowed == 0 {
			r.Violate("R-C22-3", "oauth.selectVerificationKey|key-return", bad, "a verification key is returned on a path that did not establish an allowed asymmetric signing method")
		} else {
			r.Discharge("R-C22-3", "oauth.selectVerificationKey|key-return", w.pos(fn.Pos()), "keys are returned only behind an allowed-method case")
		}
	}

	// ---- R-C22-4 who-may-call over the repository
	nCalls := 0

	for _, p := range w.pkgs {
		for _, fn := range w.srcFuncs(p) {
			allCalls(fn, func(ci ssa.CallInstruction) {
				id := callID(ci.Common())
				if !strings.HasPrefix(id, jwtPkg+".") {
					return
				}

				nCalls++

				name := strings.TrimPrefix(id, jwtPkg+".")
				if strings.Contains(name, "ParseUnverified") {
					r.Violate("R-C22-4", fnKey(fn)+"|"+name, w.pos(ci.Pos()), "ParseUnverified accepts a token without verifying its signature")
				}

				if name == "Parse" || name == "ParseWithClaims" || name == "Parser.Parse" || name == "Parser.ParseWithClaims" {
					if fnKey(fn) == "oauth.parseAndValidateJWT" || !strings.HasPrefix(p.PkgPath, modPath+"/internal/server/oauth") || strings.HasSuffix(p.PkgPath, "/authserver") {
						r.Discharge("R-C22-4", fnKey(fn)+"|"+name, w.pos(ci.Pos()), "verified parse entry")
					} else {
						r.Violate("R-C22-4", fnKey(fn)+"|"+name, w.pos(ci.Pos()), "a second JWT parse entry in the resource-server package bypasses parseAndValidateJWT's options")
					}
				}
			})
		}
	}

	r.Unit("jwt_library_call_sites", nCalls)
}

// sameFieldLoad: a and b are loads of the same field of the same base value
// (go/ssa does no CSE, so two reads of x.F are distinct values).
func sameFieldLoad(a, b ssa.Value) bool {
	a, b = stripValue(a), stripValue(b)
	if a == b {
		return true
	}

	fa, oka := fieldOf(a)
	fb, okb := fieldOf(b)

	if !oka || !okb {
		return false
	}

	return fa.field == fb.field && (fa.base == fb.base || sameFieldLoad(fa.base, fb.base))
}

type fieldRef struct {
	base  ssa.Value
	field int
}

func fieldOf(v ssa.Value) (fieldRef, bool) {
	if u, ok := v.(*ssa.UnOp); ok {
		v = u.X
	}

	switch x := v.(type) {
	case *ssa.FieldAddr:
		return fieldRef{x.X, x.Field}, true
	case *ssa.Field:
		return fieldRef{x.X, x.Field}, true
	}

	return fieldRef{}, false
}

// c22CacheExpiry: R-C22-5. The validation cache may not outlive the token:
// the Expires stored in a JWT cache entry must be the token's own exp on every
// path on which the token carries one.
func c22CacheExpiry(w *World, r *Report, op *packages.Package) {
	r.Rule("R-C22-5", "the Expires field of the entry stored in the JWT validation cache derives from claims.ExpiresAt on every path where ExpiresAt is non-nil (phi edges carrying any other value must be unreachable once the ExpiresAt==nil edges are removed); cache hits are accepted only behind time.Now().Before(entry.Expires)", 2)

	fn := w.ssaFunc(op, "ValidateJWT")
	if fn == nil {
		r.Anchor("R-C22-5", "oauth.ValidateJWT")

		return
	}

	isExpiresAt := func(v ssa.Value) bool {
		return derivesFrom(v, func(s ssa.Value) bool {
			switch x := s.(type) {
			case *ssa.FieldAddr:
				return fieldName(x.X.Type(), x.Field) == "ExpiresAt"
			case *ssa.Field:
				return fieldName(x.X.Type(), x.Field) == "ExpiresAt"
			}

			return false
		}, nil)
	}

	// edges that establish ExpiresAt == nil
	nilCuts := cutEdges(fn, func(f Fact) bool { return f.Kind == "nil" && isFieldNamed(f.V, "ExpiresAt") })
	reachable := reach(fn.Blocks[0], nilCuts, nil)

	n := 0

	allInstrs(fn, func(in ssa.Instruction) {
		st, ok := in.(*ssa.Store)
		if !ok {
			return
		}

		fa, ok := st.Addr.(*ssa.FieldAddr)
		if !ok || fieldName(fa.X.Type(), fa.Field) != "Expires" || namedOf(fa.X.Type()) == nil || namedOf(fa.X.Type()).Obj().Name() != "JWTCacheEntry" {
			return
		}

		n++

		key := "oauth.ValidateJWT|JWTCacheEntry.Expires"

		// leaves of the stored value through phis, with the predecessor block of each
		type leaf struct {
			v    ssa.Value
			pred *ssa.BasicBlock
		}

		var leaves []leaf

		seen := map[ssa.Value]bool{}

		var rec func(v ssa.Value, pred *ssa.BasicBlock)

		rec = func(v ssa.Value, pred *ssa.BasicBlock) {
			if ph, ok := v.(*ssa.Phi); ok {
				if seen[ph] {
					return
				}

				seen[ph] = true

				for i, e := range ph.Edges {
					rec(e, ph.Block().Preds[i])
				}

				return
			}

			if u, ok := v.(*ssa.UnOp); ok && u.Op == token.MUL {
				if vals, isCell := storedValues(u.X); isCell {
					for _, sv := range vals {
						if si, isInstr := sv.(ssa.Instruction); isInstr {
							rec(sv, si.Block())
						} else {
							rec(sv, nil)
						}
					}

					return
				}
			}

			leaves = append(leaves, leaf{v, pred})
		}

		rec(st.Val, st.Block())

		bad := ""

		for _, l := range leaves {
			if isExpiresAt(l.v) {
				continue
			}

			if l.pred == nil || reachable[l.pred] {
				bad = valueName(l.v)
			}
		}

		if bad != "" || len(nilCuts) == 0 {
			r.Violate("R-C22-5", key, w.pos(in.Pos()), "the cache entry's Expires can be something other than the token's exp ("+bad+") although the token carries an exp: a cache hit then accepts the token after it expired")
		} else {
			r.Discharge("R-C22-5", key, w.pos(in.Pos()), "Expires is claims.ExpiresAt whenever the token has one")
		}
	})

	if n == 0 {
		r.Anchor("R-C22-5", "store to JWTCacheEntry.Expires in ValidateJWT")
	}

	// cache hit accepted only behind Now().Before(entry.Expires)
	cuts := cutEdges(fn, func(f Fact) bool {
		c, ok := f.V.(*ssa.Call)
		if !ok || f.Kind != "true" || callID(c.Common()) != "time.Time.Before" {
			return false
		}

		return len(c.Call.Args) == 2 && isFieldNamed(c.Call.Args[1], "Expires")
	})

	var find *ssa.Call

	allInstrs(fn, func(in ssa.Instruction) {
		if c, ok := in.(*ssa.Call); ok && callID(c.Common()) == "internal/caches.Find" {
			find = c
		}
	})

	key := "oauth.ValidateJWT|cache-hit-behind-expiry"

	if find == nil || len(cuts) == 0 {
		r.Violate("R-C22-5", key, w.pos(fn.Pos()), "no time.Now().Before(entry.Expires) guard on the cache-hit path")

		return
	}

	// returns of cached data: results derive from the cache entry
	bad := ""
	reach2 := reach(fn.Blocks[0], cuts, nil)

	for _, ret := range returnsOf(fn) {
		res := retResults(ret)
		if len(res) != 3 || !isNilConst(res[2]) {
			continue
		}

		fromCache := derivesFrom(res[0], func(s ssa.Value) bool {
			c, _ := resultOf(s)

			return c == find
		}, nil)

		if fromCache && reach2[ret.Block()] {
			bad = w.pos(ret.Pos())
		}
	}

	if bad != "" {
		r.Violate("R-C22-5", key, bad, "a cached identity is returned without the entry's expiry having been tested")
	} else {
		r.Discharge("R-C22-5", key, w.pos(find.Pos()), "cached identity returned only behind Now().Before(entry.Expires)")
	}
}

// c22KeyAgreement: R-C22-6.  The revocation list is written by tokens.Blacklist / tokens.Delete and
// read by tokens.IsIDBlacklisted (which ValidateJWT calls with the token's jti).  Writer and reader
// must derive the stored / looked-up key from their id parameter in the same way: the set of
// strings.* transformations applied to the parameter has to be the same in all three, otherwise an
// id that the transformation changes (upper-case letters, surrounding blanks) is revoked under one
// key and looked up under another.
func c22KeyAgreement(w *World, r *Report) {
	r.Rule("R-C22-6", "revocation key agreement: tokens.Blacklist, tokens.Delete and tokens.IsIDBlacklisted apply the same string transformations to their id parameter", 3)

	tp := w.pkg("internal/language/tokens")
	if tp == nil {
		r.Anchor("R-C22-6", "package internal/language/tokens")

		return
	}

	sets := map[string]string{}
	pos := map[string]string{}

	for _, name := range []string{"Blacklist", "Delete", "IsIDBlacklisted"} {
		fn := w.ssaFunc(tp, name)
		if fn == nil || len(fn.Params) == 0 {
			r.Anchor("R-C22-6", "tokens."+name)

			continue
		}

		id := fn.Params[0]
		tr := map[string]bool{}

		fromID := func(v ssa.Value) bool {
			return derivesFrom(v, func(s ssa.Value) bool { return s == ssa.Value(id) }, func(cid string) bool { return strings.HasPrefix(cid, "strings.") })
		}

		allInstrs(fn, func(in ssa.Instruction) {
			c, ok := in.(*ssa.Call)
			if !ok {
				return
			}

			cid := callID(c.Common())
			if !strings.HasPrefix(cid, "strings.") {
				return
			}

			switch cid {
			case "strings.ToLower", "strings.ToUpper", "strings.TrimSpace", "strings.Trim", "strings.TrimPrefix", "strings.TrimSuffix", "strings.ReplaceAll", "strings.Replace", "strings.Title", "strings.TrimLeft", "strings.TrimRight", "strings.ToTitle":
			default:
				return
			}

			if len(c.Call.Args) > 0 && fromID(c.Call.Args[0]) {
				tr[cid] = true
			}
		})

		sets[name] = strings.Join(sortedKeys(tr), ",")
		pos[name] = w.pos(fn.Pos())
	}

	if len(sets) != 3 {
		return
	}

	for _, name := range []string{"Blacklist", "Delete"} {
		key := "tokens." + name + "|same key as tokens.IsIDBlacklisted"
		if sets[name] == sets["IsIDBlacklisted"] {
			what := "no transformation"
			if sets[name] != "" {
				what = sets[name]
			}

			r.Discharge("R-C22-6", key, pos[name], what+" on both sides")
		} else {
			r.Violate("R-C22-6", key, pos[name], "the id is stored after {"+sets[name]+"} but looked up after {"+sets["IsIDBlacklisted"]+"}: a token whose id the transformation changes (an upper-case jti from an external issuer) is revoked under a key the validator never asks for, so it stays accepted until it expires")
		}
	}

	r.Discharge("R-C22-6", "tokens.IsIDBlacklisted|reference", pos["IsIDBlacklisted"], "transformations: {"+sets["IsIDBlacklisted"]+"}")
}
