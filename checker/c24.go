package main

import (
	"go/token"
	"go/types"
	"strings"

	"golang.org/x/tools/go/ssa"
)

// C24 Failed logins lock the account as configured.

func init() {
	register(&propertyCheck{
		id: "C24", level: "other", needs: loadNeeds{ssa: true},
		decides: "the lockout protocol around every password check and the shape of the limiter: each call of auth.ValidatePassword reachable in request handling is unreachable once the 'not locked' edge of CheckRateLimit (for the same user value) is removed, is followed by RecordFailure on every failing path and RecordSuccess on every succeeding path; the attempts table is touched only under its mutex and only with a key derived from the lower-cased username parameter; " +
			"with the limit at zero no lockout state is read or written; the lock is set on the 'failures >= limit' edge (not '=='), and RecordSuccess removes the record.",
		misses: "the arithmetic of counts and deadlines over arbitrary histories and clocks, WebAuthn and token logins (no password is checked), pruning of old records.",
		run:    runC24,
	})
}

func runC24(w *World, r *Report) {
	defer c24LockedIsPositive(w, r)

	r.Rule("R-C24-1", "call-site protocol: every ValidatePassword call (also through a thin wrapper) is behind CheckRateLimit's not-locked edge on the same user value, and its false / true outcome leads to RecordFailure / RecordSuccess before any return", 6)
	r.Rule("R-C24-2", "guarded-by and keying: loginAttempts is accessed only with loginAttemptsMu held and only with a key derived from strings.ToLower(username parameter)", 5)
	r.Rule("R-C24-3", "zero limit: in CheckRateLimit and RecordFailure every access to the attempts table is unreachable once the 'limit != 0' edge is removed", 2)
	r.Rule("R-C24-7", "the limit 0 (lockout disabled) is never a parse failure in disguise: every value getMaxAttempts returns is a non-zero constant or the number of a (value, error) parse returned only behind that error == nil; a helper that returns a bare int is followed (3 levels)", 2)
	r.Rule("R-C24-6", "the lockout deadline RecordFailure stores is computed from time.Now() of that call, never from a time kept in the attempt record", 1)
	r.Rule("R-C24-4", "the lockout deadline is stored only on an edge establishing failures >= limit (or >), never on an equality; RecordSuccess deletes the user's record on every path", 2)

	rp := w.pkg("internal/router")
	ap := w.pkg("internal/server/auth")

	if rp == nil || ap == nil {
		r.Anchor("R-C24-1", "packages router / server/auth")

		return
	}

	const vp = "internal/server/auth.ValidatePassword"

	// thin wrappers: functions whose result is exactly ValidatePassword(...) of their parameters
	wrappers := map[*ssa.Function]bool{}

	for _, p := range w.pkgs {
		for _, fn := range w.srcFuncs(p) {
			if fn.Signature.Results().Len() != 1 {
				continue
			}

			calls, other := 0, 0

			allInstrs(fn, func(in ssa.Instruction) {
				if c, ok := in.(*ssa.Call); ok {
					if callID(c.Common()) == vp {
						calls++
					} else if _, isBuiltin := c.Call.Value.(*ssa.Builtin); !isBuiltin {
						other++
					}
				}
			})

			if calls == 1 && other == 0 && len(fn.Blocks) <= 4 {
				wrappers[fn] = true
			}
		}
	}

	isPwCheck := func(c *ssa.Call) bool {
		if callID(c.Common()) == vp {
			return true
		}

		cf := calleeFunction(c.Common())

		return cf != nil && wrappers[cf]
	}

	nSites := 0

	for _, p := range w.pkgs {
		for _, fn := range w.srcFuncs(p) {
			if wrappers[fn] {
				continue
			}

			allInstrs(fn, func(in ssa.Instruction) {
				c, ok := in.(*ssa.Call)
				if !ok || !isPwCheck(c) {
					return
				}

				nSites++

				fk := fnKey(fn)
				userArg := c.Call.Args[1]

				// (a) behind CheckRateLimit not-locked
				var limits []*ssa.Call

				allInstrs(fn, func(i2 ssa.Instruction) {
					if cc, ok := i2.(*ssa.Call); ok && callID(cc.Common()) == "internal/router.CheckRateLimit" {
						limits = append(limits, cc)
					}
				})

				sameUser := func(a, b ssa.Value) bool {
					return stripValue(a) == stripValue(b) || sameSliceValue(a, b)
				}

				var lim *ssa.Call

				for _, l := range limits {
					if sameUser(l.Call.Args[0], userArg) {
						lim = l
					}
				}

				keyA := fk + "|ValidatePassword behind CheckRateLimit"

				if lim == nil {
					r.Violate("R-C24-1", keyA, w.pos(c.Pos()), "the password is checked without CheckRateLimit having been consulted for the same user value: a locked account still gets its password verified")
				} else {
					cuts := cutEdges(fn, func(f Fact) bool {
						if f.Kind != "cmp" || f.X != ssa.Value(lim) {
							return false
						}

						k, isC := constInt(f.Y)

						return isC && k == 0 && (f.Op == token.LEQ || f.Op == token.EQL)
					})

					if len(cuts) == 0 || instrReachableAfterCut(fn, c, cuts) {
						r.Violate("R-C24-1", keyA, w.pos(c.Pos()), "the password check is reachable although CheckRateLimit reported the account locked (its result is not tested on every path)")
					} else {
						r.Discharge("R-C24-1", keyA, w.pos(c.Pos()), "reachable only on the not-locked edge")
					}
				}

				// (b)/(c) outcomes recorded
				for _, out := range []struct {
					name, fact, rec string
				}{{"failure", "true", "internal/router.RecordFailure"}, {"success", "false", "internal/router.RecordSuccess"}} {
					key := fk + "|" + out.name + " recorded"

					// remove the edges of the other outcome
					cuts := cutEdges(fn, func(f Fact) bool {
						return f.Kind == out.fact && derivesFrom(f.V, func(s ssa.Value) bool { return s == ssa.Value(c) }, nil)
					})

					isRec := func(i ssa.Instruction) bool {
						cc, ok := i.(*ssa.Call)
						if !ok || callID(cc.Common()) != out.rec {
							return false
						}

						u := cc.Call.Args[len(cc.Call.Args)-1]

						return sameUser(u, userArg)
					}

					if len(cuts) == 0 {
						r.Violate("R-C24-1", key, w.pos(c.Pos()), "the result of the password check is never branched on")

						continue
					}

					if esc := pathAvoiding(c, cuts, isRec, isReturn); esc != nil {
						r.Violate("R-C24-1", key, w.pos(esc.Pos()), "a return is reachable after a password "+out.name+" without "+lastSeg(out.rec)+" for that user: the failure count is wrong from then on")
					} else {
						r.Discharge("R-C24-1", key, w.pos(c.Pos()), lastSeg(out.rec)+" on every path")
					}
				}
			})
		}
	}

	r.Unit("password_check_sites", nSites)

	// ---- the limiter itself
	var limiterFns []*ssa.Function

	for _, fn := range w.srcFuncs(rp) {
		if strings.HasSuffix(w.relFile(fn.Pos()), "ratelimit.go") {
			limiterFns = append(limiterFns, fn)
		}
	}

	entry := entryLocksets(limiterFns, nil)

	isTableAccess := func(in ssa.Instruction) (ssa.Value, bool, bool) { // key, write, ok
		isTab := func(v ssa.Value) bool {
			u, ok := v.(*ssa.UnOp)
			if !ok {
				return false
			}

			g, ok := u.X.(*ssa.Global)

			return ok && g.Name() == "loginAttempts"
		}

		switch x := in.(type) {
		case *ssa.Lookup:
			if isTab(x.X) {
				return x.Index, false, true
			}
		case *ssa.MapUpdate:
			if isTab(x.Map) {
				return x.Key, true, true
			}
		case *ssa.Range:
			if isTab(x.X) {
				return nil, false, true
			}
		case *ssa.Call:
			if b, ok := x.Call.Value.(*ssa.Builtin); ok && b.Name() == "delete" && isTab(x.Call.Args[0]) {
				return x.Call.Args[1], true, true
			}
		}

		return nil, false, false
	}

	for _, fn := range limiterFns {
		ls := computeLocksets(fn, entry[fn], nil)

		allInstrs(fn, func(in ssa.Instruction) {
			k, write, ok := isTableAccess(in)
			if !ok {
				return
			}

			key := fnKey(fn) + "|loginAttempts " + map[bool]string{true: "write", false: "read"}[write]
			held := ls.heldAt(in)["router.loginAttemptsMu"]

			var problems []string

			if held != 'W' {
				problems = append(problems, "accessed without loginAttemptsMu")
			}

			if k != nil {
				// the key must be ToLower(username parameter), or a range variable of the table itself (pruning)
				fromUser := derivesFrom(k, func(s ssa.Value) bool {
					p, isP := s.(*ssa.Parameter)

					return isP && p.Name() == "username"
				}, func(id string) bool { return id == "strings.ToLower" })

				lowered := derivesFrom(k, func(s ssa.Value) bool {
					c, isC := s.(*ssa.Call)

					return isC && callID(c.Common()) == "strings.ToLower"
				}, nil)

				fromRange := derivesFrom(k, func(s ssa.Value) bool {
					_, isNext := s.(*ssa.Next)

					return isNext
				}, nil)

				switch {
				case fromRange:
				case !fromUser:
					problems = append(problems, "key is not derived from the username parameter alone")
				case !lowered:
					problems = append(problems, "key is not lower-cased: spellings of one account get separate failure records")
				}
			}

			if len(problems) > 0 {
				r.Violate("R-C24-2", key, w.pos(in.Pos()), strings.Join(problems, "; "))
			} else {
				r.Discharge("R-C24-2", key, w.pos(in.Pos()), "under loginAttemptsMu; key = ToLower(username)")
			}
		})
	}

	// ---- R-C24-3 zero limit
	for _, name := range []string{"CheckRateLimit", "RecordFailure"} {
		fn := w.ssaFunc(rp, name)
		if fn == nil {
			r.Anchor("R-C24-3", "router."+name)

			continue
		}

		cuts := cutEdges(fn, func(f Fact) bool {
			if f.Kind != "ne" || f.C == nil {
				return false
			}

			k, isC := constInt(f.C)

			return isC && k == 0 && derivesFrom(f.V, func(s ssa.Value) bool {
				c, ok := s.(*ssa.Call)

				return ok && callID(c.Common()) == "internal/router.getMaxAttempts"
			}, nil)
		})

		bad := ""

		allInstrs(fn, func(in ssa.Instruction) {
			if _, _, ok := isTableAccess(in); ok && (len(cuts) == 0 || instrReachableAfterCut(fn, in, cuts)) {
				bad = w.pos(in.Pos())
			}
		})

		key := "router." + name + "|zero-limit"
		if bad != "" {
			r.Violate("R-C24-3", key, bad, "the attempts table is consulted even when the configured limit is zero: accounts can be locked although lockout is disabled")
		} else {
			r.Discharge("R-C24-3", key, w.pos(fn.Pos()), "every table access lies behind limit != 0")
		}
	}

	// ---- R-C24-7 the limit is a checked parse
	if fn := w.ssaFunc(rp, "getMaxAttempts"); fn == nil {
		r.Anchor("R-C24-7", "router.getMaxAttempts")
	} else {
		c24LimitSources(w, r, fn, "router.getMaxAttempts", 0, map[*ssa.Function]bool{})
	}

	// ---- R-C24-8
	if fn := w.ssaFunc(rp, "RecordFailure"); fn != nil {
		c24CountThenCompare(w, r, fn)
	}

	// ---- R-C24-4
	if fn := w.ssaFunc(rp, "RecordFailure"); fn != nil {
		isFailures := func(v ssa.Value) bool { return isFieldNamed(v, "failures") }
		isLimit := func(v ssa.Value) bool {
			return derivesFrom(v, func(s ssa.Value) bool {
				c, ok := s.(*ssa.Call)

				return ok && callID(c.Common()) == "internal/router.getMaxAttempts"
			}, nil)
		}

		cuts := cutEdges(fn, func(f Fact) bool {
			if f.Kind != "cmp" {
				return false
			}

			return ((f.Op == token.GEQ || f.Op == token.GTR) && isFailures(f.X) && isLimit(f.Y)) ||
				((f.Op == token.LEQ || f.Op == token.LSS) && isLimit(f.X) && isFailures(f.Y))
		})

		n := 0

		allInstrs(fn, func(in ssa.Instruction) {
			st, ok := in.(*ssa.Store)
			if !ok || !isFieldNamed(st.Addr, "lockedUntil") {
				return
			}

			n++

			// R-C24-6: the deadline counts from now, not from a time kept in the record
			{
				key6 := "router.RecordFailure|deadline counted from now"

				fromNow := derivesFrom(st.Val, func(v ssa.Value) bool {
					c, ok := v.(*ssa.Call)

					return ok && callID(c.Common()) == "time.Now"
				}, func(id string) bool { return strings.HasPrefix(id, "time.") })

				fromRecord := derivesFrom(st.Val, func(v ssa.Value) bool {
					fa, ok := v.(*ssa.FieldAddr)

					return ok && (fieldName(fa.X.Type(), fa.Field) == "lastFailure" || fieldName(fa.X.Type(), fa.Field) == "lockedUntil")
				}, func(id string) bool { return strings.HasPrefix(id, "time.") })

				switch {
				case fromRecord:
					r.Violate("R-C24-6", key6, w.pos(in.Pos()), "the lockout deadline is computed from a time stored in the attempt record (the previous failure, or the old deadline), not from the present: the lockout is shortened by the gap between failures, and not applied at all when the gap exceeds the lockout duration")
				case fromNow:
					r.Discharge("R-C24-6", key6, w.pos(in.Pos()), "time.Now() plus the lockout duration")
				default:
					r.Violate("R-C24-6", key6, w.pos(in.Pos()), "the lockout deadline does not derive from time.Now()")
				}
			}

			key := "router.RecordFailure|lock-on-threshold"
			if len(cuts) == 0 || instrReachableAfterCut(fn, in, cuts) {
				r.Violate("R-C24-4", key, w.pos(in.Pos()), "the lockout deadline is not set behind a 'failures >= limit' comparison (an equality test stops relocking once the count has passed the limit)")
			} else {
				r.Discharge("R-C24-4", key, w.pos(in.Pos()), "set only on failures >= limit")
			}
		})

		if n == 0 {
			r.Anchor("R-C24-4", "store to lockedUntil in RecordFailure")
		}
	} else {
		r.Anchor("R-C24-4", "router.RecordFailure")
	}

	if fn := w.ssaFunc(rp, "RecordSuccess"); fn != nil {
		isDel := func(i ssa.Instruction) bool {
			_, write, ok := isTableAccess(i)
			c, isCall := i.(*ssa.Call)

			return ok && write && isCall && mutName(c) == "delete"
		}

		key := "router.RecordSuccess|clears-record"
		if esc := pathFromEntryAvoiding(fn, nil, isDel, isReturn); esc != nil {
			r.Violate("R-C24-4", key, w.pos(esc.Pos()), "RecordSuccess can return without deleting the user's failure record: earlier failures keep counting after a successful login")
		} else {
			r.Discharge("R-C24-4", key, w.pos(fn.Pos()), "deletes the record on every path")
		}
	} else {
		r.Anchor("R-C24-4", "router.RecordSuccess")
	}
}

// c24LockedIsPositive: R-C24-5.  Callers decide "locked" by CheckRateLimit(...) > 0, so while the
// lock is active the function must return a value that is positive by construction: a positive
// constant, or <expression> + k with a constant k >= 1 (the seconds are truncated, and the last
// second of a lockout truncates to 0).
func c24LockedIsPositive(w *World, r *Report) {
	r.Rule("R-C24-5", "while the lockout deadline lies in the future CheckRateLimit returns a value that is positive by construction (constant > 0, or … + k with k >= 1)", 1)

	rp := w.pkg("internal/router")
	if rp == nil {
		return
	}

	fn := w.ssaFunc(rp, "CheckRateLimit")
	if fn == nil {
		r.Anchor("R-C24-5", "router.CheckRateLimit")

		return
	}

	// the edges on which the deadline is known to be in the future: time.Now().Before(lockedUntil) true,
	// time.Until(lockedUntil) > 0, lockedUntil.After(now) true
	locked := cutEdges(fn, func(f Fact) bool {
		switch f.Kind {
		case "true":
			if c, ok := f.V.(*ssa.Call); ok {
				id := callID(c.Common())

				return id == "time.Time.Before" || id == "time.Time.After"
			}
		case "cmp":
			for _, v := range []ssa.Value{f.X, f.Y} {
				if c, ok := v.(*ssa.Call); ok && callID(c.Common()) == "time.Until" {
					return f.Op == token.GTR || f.Op == token.GEQ || f.Op == token.LSS || f.Op == token.LEQ
				}
			}
		}

		return false
	})

	if len(locked) == 0 {
		r.Anchor("R-C24-5", "the test of the lockout deadline in CheckRateLimit")

		return
	}

	positive := func(v ssa.Value) bool {
		v = resolveLocal(v)

		if k, isC := constInt(v); isC {
			return k > 0
		}

		if b, ok := v.(*ssa.BinOp); ok && b.Op == token.ADD {
			if k, isC := constInt(b.Y); isC && k >= 1 {
				return true
			}

			if k, isC := constInt(b.X); isC && k >= 1 {
				return true
			}
		}

		if c, ok := v.(*ssa.Call); ok {
			if bi, isB := c.Call.Value.(*ssa.Builtin); isB && bi.Name() == "max" {
				for _, a := range c.Call.Args {
					if k, isC := constInt(a); isC && k >= 1 {
						return true
					}
				}
			}
		}

		return false
	}

	n := 0

	for _, ret := range returnsOf(fn) {
		// the synthetic return of the recover block is not a path of the function
		if fn.Recover != nil && ret.Block() == fn.Recover {
			continue
		}

		// returns that are reachable only through a "locked" edge
		if instrReachableAfterCut(fn, ret, locked) {
			continue
		}

		n++

		key := "router.CheckRateLimit|locked return is positive"
		if n > 1 {
			key += "#" + sprintInt(n)
		}

		if positive(retResult(ret, 0)) {
			r.Discharge("R-C24-5", key, w.pos(ret.Pos()), "")
		} else {
			r.Violate("R-C24-5", key, w.pos(ret.Pos()), "the value returned while the account is locked is not positive by construction (it can round or truncate to 0): callers treat 0 as 'not locked', so in the last fraction of a second of a lockout the password is checked and a correct one logs in")
		}
	}

	if n == 0 {
		r.Anchor("R-C24-5", "a return of CheckRateLimit behind the lockout-deadline test")
	}
}

// c24LimitSources classifies every value fn can return (first result).
func c24LimitSources(w *World, r *Report, fn *ssa.Function, via string, depth int, seen map[*ssa.Function]bool) {
	if seen[fn] {
		return
	}

	seen[fn] = true
	n := 0

	for _, b := range fn.Blocks {
		if len(b.Instrs) == 0 {
			continue
		}

		ret, ok := b.Instrs[len(b.Instrs)-1].(*ssa.Return)
		if !ok || len(ret.Results) == 0 {
			continue
		}

		var leaves []ssa.Value

		visited := map[ssa.Value]bool{}

		var collect func(v ssa.Value)

		collect = func(v ssa.Value) {
			if visited[v] {
				return
			}

			visited[v] = true

			switch x := v.(type) {
			case *ssa.Phi:
				for _, e := range x.Edges {
					collect(e)
				}
			case *ssa.Convert:
				collect(x.X)
			case *ssa.ChangeType:
				collect(x.X)
			default:
				leaves = append(leaves, v)
			}
		}

		collect(retResult(ret, 0))

		for _, lv := range leaves {
			n++
			key := via + "|limit source " + valueName(lv)
			if n > 1 {
				key += " #" + sprintInt(n)
			}

			pos := w.pos(lv.Pos())
			if lv.Pos() == token.NoPos {
				pos = w.pos(ret.Pos())
			}

			if k, isC := constInt(lv); isC {
				if k != 0 {
					r.Discharge("R-C24-7", key, pos, "non-zero constant")
				} else {
					r.Violate("R-C24-7", key, pos, "a constant 0 is returned as the limit: lockout is switched off without the setting saying so")
				}

				continue
			}

			if ex, isEx := lv.(*ssa.Extract); isEx && ex.Index == 0 {
				call, isCall := ex.Tuple.(*ssa.Call)
				sig := (*types.Tuple)(nil)

				if isCall {
					sig = call.Common().Signature().Results()
				}

				if isCall && sig.Len() == 2 && isErrorType(sig.At(1).Type()) {
					cuts := cutEdges(fn, func(f Fact) bool {
						if f.Kind != "nil" {
							return false
						}

						e2, ok := f.V.(*ssa.Extract)

						return ok && e2.Tuple == ex.Tuple && e2.Index == 1
					})

					if len(cuts) > 0 && !instrReachableAfterCut(fn, ret, cuts) {
						r.Discharge("R-C24-7", key, pos, "returned only behind err == nil of "+callID(call.Common()))
					} else {
						r.Violate("R-C24-7", key, pos, "the number parsed by "+callID(call.Common())+" is returned without its error being nil: a text that is not a number reads as 0, and 0 switches the lockout off")
					}

					continue
				}
			}

			if call, isCall := lv.(*ssa.Call); isCall {
				if callee := call.Common().StaticCallee(); callee != nil && len(callee.Blocks) > 0 && depth < 3 {
					r.Discharge("R-C24-7", key, pos, "followed into "+fnKey(callee))
					c24LimitSources(w, r, callee, via+" -> "+fnKey(callee), depth+1, seen)

					continue
				}
			}

			r.Violate("R-C24-7", key, pos, "the limit comes from a value the analysis cannot show to be a checked parse")
		}
	}
}

// c24CountThenCompare: R-C24-8. Every write of a failure count in
// RecordFailure is followed, on every path to a return, by the comparison of
// the count with the limit: a path that records a failure and returns without
// comparing can never lock the account (with the limit 1 the very first wrong
// password has to lock it).
func c24CountThenCompare(w *World, r *Report, fn *ssa.Function) {
	r.Rule("R-C24-8", "RecordFailure compares after it counts: from every store of a non-zero failure count (rec.failures++, or a record created with a count) each path to a return passes the comparison of the count with the limit", 1)

	isFailures := func(v ssa.Value) bool { return isFieldNamed(v, "failures") }
	isLimit := func(v ssa.Value) bool {
		return derivesFrom(v, func(s ssa.Value) bool {
			c, ok := s.(*ssa.Call)

			return ok && callID(c.Common()) == "internal/router.getMaxAttempts"
		}, nil)
	}

	isCompare := func(in ssa.Instruction) bool {
		bo, ok := in.(*ssa.BinOp)
		if !ok {
			return false
		}

		switch bo.Op {
		case token.GEQ, token.GTR, token.LEQ, token.LSS, token.EQL, token.NEQ:
			return (isFailures(bo.X) && isLimit(bo.Y)) || (isLimit(bo.X) && isFailures(bo.Y))
		}

		return false
	}

	n := 0

	allInstrs(fn, func(in ssa.Instruction) {
		st, ok := in.(*ssa.Store)
		if !ok {
			return
		}

		fa, ok := st.Addr.(*ssa.FieldAddr)
		if !ok || fieldName(fa.X.Type(), fa.Field) != "failures" {
			return
		}

		if k, isC := constInt(st.Val); isC && k == 0 {
			return
		}

		n++

		key := "router.RecordFailure|count then compare"
		if n > 1 {
			key += " #" + sprintInt(n)
		}

		escape := pathAvoiding(st, nil, isCompare, func(i ssa.Instruction) bool {
			_, isRet := i.(*ssa.Return)

			return isRet
		})

		if escape != nil {
			r.Violate("R-C24-8", key, w.pos(st.Pos()), "a failure is counted here and the function can return (at "+w.pos(escape.Pos())+") without comparing the count with the limit: on that path the account is never locked, so with the limit 1 the first wrong password does not lock it and the next attempt has its password checked")
		} else {
			r.Discharge("R-C24-8", key, w.pos(st.Pos()), "the comparison with the limit lies on every path to a return")
		}
	})

	if n == 0 {
		r.Anchor("R-C24-8", "a store of the failure count in router.RecordFailure")
	}
}
