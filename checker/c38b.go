package main

import (
	"go/token"
	"strings"

	"golang.org/x/tools/go/ssa"
)

// c38ExactMembership: R-C38-8. NegotiateLanguage returns the candidate taken
// from the header, not the catalog's spelling of it, so "is supported" has to
// mean "is, byte for byte, a key the catalog stores translations under". Any
// looser test (case folding, prefix match) lets a tag through that no
// messages[key][lang] lookup will ever hit.
func c38ExactMembership(w *World, r *Report) {
	r.Rule("R-C38-8", "catalog membership is exact: every `return true` of i18n.isSupportedLanguage lies behind the true edge of `lang == <an element of SupportedLanguages()>` (string equality on the parameter itself)", 1)

	ip := w.pkg("internal/i18n")
	if ip == nil {
		return
	}

	fn := w.ssaFunc(ip, "isSupportedLanguage")
	if fn == nil || len(fn.Params) != 1 {
		r.Anchor("R-C38-8", "i18n.isSupportedLanguage(lang)")

		return
	}

	lang := ssa.Value(fn.Params[0])

	fromCatalog := func(v ssa.Value) bool {
		return derivesFrom(v, func(s ssa.Value) bool {
			c, ok := s.(*ssa.Call)

			return ok && strings.HasSuffix(callID(c.Common()), "i18n.SupportedLanguages")
		}, nil)
	}

	cuts := cutEdges(fn, func(f Fact) bool {
		if f.Kind != "cmp" || f.Op != token.EQL {
			return false
		}

		return (f.X == lang && fromCatalog(f.Y)) || (f.Y == lang && fromCatalog(f.X))
	})

	n := 0

	for _, ret := range returnsOf(fn) {
		if b, ok := constBool(retResult(ret, 0)); ok && !b {
			continue
		}

		n++
		key := "i18n.isSupportedLanguage|return " + valueName(retResult(ret, 0))

		if instrReachableAfterCut(fn, ret, cuts) {
			r.Violate("R-C38-8", key, w.pos(ret.Pos()), "a tag is reported as supported without being equal to a catalog language code: NegotiateLanguage then returns a tag (for instance \"e\\u017f\", which case-folds to \"es\") under which no translation is stored")
		} else {
			r.Discharge("R-C38-8", key, w.pos(ret.Pos()), "behind lang == catalog element")
		}
	}

	if n == 0 {
		r.Anchor("R-C38-8", "a true return in i18n.isSupportedLanguage")
	}
}
