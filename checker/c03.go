package main

import (
	"go/ast"
	"go/token"
	"go/types"
	"sort"
	"strings"

	"golang.org/x/tools/go/packages"
	"golang.org/x/tools/go/ssa"
)

// numericSwitches lists, for every function of pkg (optionally restricted to
// files), each type switch that has at least two numeric basic cases: the set
// of numeric case types, whether it has a default, and the switch node.
type numSwitch struct {
	fn     *ast.FuncDecl
	ts     *ast.TypeSwitchStmt
	types  map[string]bool
	cases  map[string]*ast.CaseClause
	hasDef bool
	ord    int
}

func numericSwitches(pkg *packages.Package, universe map[string]bool) []numSwitch {
	var out []numSwitch

	for _, fd := range funcDecls(pkg) {
		if fd.Body == nil {
			continue
		}

		ord := 0

		ast.Inspect(fd.Body, func(n ast.Node) bool {
			ts, ok := n.(*ast.TypeSwitchStmt)
			if !ok {
				return true
			}

			cases, _, deflt := typeSwitchCases(pkg.TypesInfo, ts)
			set := map[string]bool{}

			for k := range cases {
				if universe[k] {
					set[k] = true
				}
			}

			if len(set) >= 2 {
				ord++
				out = append(out, numSwitch{fd, ts, set, cases, deflt != nil, ord})
			}

			return true
		})
	}

	return out
}

func setString(m map[string]bool) string {
	var ks []string
	for k := range m {
		ks = append(ks, k)
	}

	sort.Strings(ks)

	return strings.Join(ks, ",")
}


// C03 Arithmetic follows the documented typing rules.

func init() {
	register(&propertyCheck{
		id: "C03", level: "other", needs: loadNeeds{ssa: true},
		decides: "that the per-type dispatch of the arithmetic, comparison and coercion routines is complete and type-consistent: (1) each routine's type switch covers the numeric universe the language defines for it (the universe is read from data.IsNumeric; relational operators and exponent exclude complex, modulo is integers only) — a missing case is an operand type for which the operation fails or falls to a wrong default; (2) inside `case T` every type assertion to a numeric type asserts T and every value pushed or stored has static type T, so the Go operator of T — and hence Go's wrapping — is what runs; " +
			"(3) every handler that takes operand constness into account passes the real strict flag to data.Normalize (a constant false only where strict mode is excluded); (4) the compiler's ++ and -- add an untyped constant, like x += 1.",
		misses: "the numeric values themselves, the lossless-conversion arithmetic inside Coerce*, and every cell of the language reference that depends on run-time values.",
		run:    runC03,
	})
}

// expected universe per routine ("U" all numeric types; "U-complex"; "int")
var c03Routines = map[string]string{
	"internal/language/bytecode.addByteCode":                "U",
	"internal/language/bytecode.subtractByteCode":           "U",
	"internal/language/bytecode.multiplyByteCode":           "U",
	"internal/language/bytecode.divideByteCode":             "U",
	"internal/language/bytecode.negateByteCode":             "U",
	"internal/language/bytecode.incrementByteCode":          "U",
	"internal/language/bytecode.notByteCode":                "U",
	"internal/language/bytecode.genericEqualCompare":        "U",
	"internal/language/bytecode.notEqualByteCode":           "U",
	"internal/language/bytecode.lessThanByteCode":           "U-complex",
	"internal/language/bytecode.lessThanOrEqualByteCode":    "U-complex",
	"internal/language/bytecode.greaterThanByteCode":        "U-complex",
	"internal/language/bytecode.greaterThanOrEqualByteCode": "U-complex",
	"internal/language/bytecode.exponentByteCode":           "U-complex",
	"internal/language/bytecode.moduloByteCode":             "int",
	"internal/language/data.Coerce":                         "U",
	"internal/language/data.coerceBool":                     "U",
	"internal/language/data.coerceToByte":                   "U",
	"internal/language/data.coerceToInt8":                   "U",
	"internal/language/data.coerceToInt16":                  "U",
	"internal/language/data.coerceToUInt16":                 "U",
	"internal/language/data.coerceInt32":                    "U",
	"internal/language/data.coerceUInt32":                   "U",
	"internal/language/data.coerceToInt":                    "U",
	"internal/language/data.coerceUInt":                     "U",
	"internal/language/data.coerceToInt64":                  "U",
	"internal/language/data.coerceUInt64":                   "U",
	"internal/language/data.coerceFloat32":                  "U",
	"internal/language/data.coerceFloat64":                  "U",
	"internal/language/data.coerceComplex64":                "U",
	"internal/language/data.coerceComplex128":               "U",
	"internal/language/data.coerceString":                   "U-complex",
	"internal/language/data.KindOf":                         "U",
	"internal/language/data.TypeOf":                         "U",
	"internal/language/data.Format":                         "U",
	"internal/language/data.FormatWithType":                 "U",
}

func runC03(w *World, r *Report) {
	r.Rule("R-C03-1", "numeric universe coverage: the type switch of each arithmetic / comparison / coercion routine has a case for every type of the universe the language defines for it", 400)
	r.Rule("R-C03-2", "case/type agreement: inside `case T` (T numeric) of those routines every assertion to a numeric type asserts T, and every numeric value pushed or stored has static type T (comparisons push bool)", 300)
	r.Rule("R-C03-3", "strict flag: a data.Normalize call in package bytecode that passes a variable constness flag passes the run-time strict flag, or lies on the not-strict edge", 5)
	c03IsNumericAgrees(w, r)
	r.Rule("R-C03-4", "++ and -- add or subtract the untyped constant 1: the Push that feeds the auto-increment opcode carries data.Constant(1), with the literal 1", 4)

	dp := w.pkg("internal/language/data")
	bp := w.pkg("internal/language/bytecode")
	cp := w.pkg("internal/language/compiler")

	if dp == nil || bp == nil || cp == nil {
		r.Anchor("R-C03-1", "packages language/data, language/bytecode, language/compiler")

		return
	}

	// the numeric universe, read from the first case of data.IsNumeric
	universe := map[string]bool{}

	for _, fd := range funcDecls(dp) {
		if fd.Name.Name != "IsNumeric" || fd.Recv != nil {
			continue
		}

		ast.Inspect(fd.Body, func(n ast.Node) bool {
			ts, ok := n.(*ast.TypeSwitchStmt)
			if !ok || len(universe) > 0 {
				return true
			}

			for _, s := range ts.Body.List {
				cc := s.(*ast.CaseClause)
				if len(cc.List) < 5 {
					continue
				}

				for _, e := range cc.List {
					if tv, ok := dp.TypesInfo.Types[e]; ok {
						if b, isB := tv.Type.(*types.Basic); isB {
							universe[b.Name()] = true
						}
					}
				}

				break
			}

			return false
		})
	}

	if len(universe) < 14 {
		r.Anchor("R-C03-1", "the numeric type list of data.IsNumeric (found "+sprintInt(len(universe))+" types)")

		return
	}

	r.Unit("numeric_universe", len(universe))

	subset := func(kind string) map[string]bool {
		out := map[string]bool{}

		for t := range universe {
			b := types.Universe.Lookup(t).Type().(*types.Basic)

			switch kind {
			case "U":
				out[t] = true
			case "U-complex":
				if b.Info()&types.IsComplex == 0 {
					out[t] = true
				}
			case "int":
				if b.Info()&types.IsInteger != 0 {
					out[t] = true
				}
			}
		}

		return out
	}

	numericName := func(t types.Type) string {
		b, ok := t.(*types.Basic)
		if !ok {
			return ""
		}

		n := b.Name()
		if n == "byte" {
			n = "uint8"
		}

		if b.Info()&types.IsNumeric == 0 {
			return ""
		}

		return n
	}

	canon := func(n string) string {
		if n == "byte" {
			return "uint8"
		}

		return n
	}

	seenRoutine := map[string]bool{}

	for _, pkg := range []*packages.Package{bp, dp} {
		all := map[string]bool{}
		for t := range universe {
			all[t] = true
			all[canon(t)] = true
		}

		all["byte"] = true

		for _, ns := range numericSwitches(pkg, all) {
			if ns.fn.Recv != nil {
				continue
			}

			id := strings.TrimPrefix(pkg.PkgPath, pkg.PkgPath[:strings.Index(pkg.PkgPath, "internal/")]) + "." + ns.fn.Name.Name

			kind, ok := c03Routines[id]
			if !ok || ns.ord != 1 {
				continue
			}

			seenRoutine[id] = true

			short := pkg.Name + "." + ns.fn.Name.Name
			have := map[string]bool{}

			for k := range ns.types {
				have[canon(k)] = true
			}

			for _, t := range sortedKeys(subset(kind)) {
				key := short + "|case " + t
				if have[canon(t)] {
					r.Discharge("R-C03-1", key, w.pos(ns.ts.Pos()), "")
				} else {
					r.Violate("R-C03-1", key, w.pos(ns.ts.Pos()), "no case for "+t+": the operation fails (or takes the default branch) for an operand type the language defines it for")
				}
			}

			// ---- R-C03-2 inside each single-type numeric clause
			isComparison := strings.Contains(ns.fn.Name.Name, "Than") || strings.Contains(ns.fn.Name.Name, "Equal") || ns.fn.Name.Name == "coerceBool"

			for tname, cc := range ns.cases {
				if len(cc.List) != 1 {
					continue
				}

				tv, ok := pkg.TypesInfo.Types[cc.List[0]]
				if !ok || numericName(tv.Type) == "" {
					continue
				}

				caseT := numericName(tv.Type)

				if !strings.HasPrefix(id, "internal/language/bytecode.") {
					continue // the coercion routines convert between types by design
				}

				n := 0

				for _, st := range cc.Body {
					ast.Inspect(st, func(x ast.Node) bool {
						switch e := x.(type) {
						case *ast.TypeSwitchStmt:
							return false
						case *ast.TypeAssertExpr:
							if e.Type == nil {
								return true
							}

							at, ok := pkg.TypesInfo.Types[e.Type]
							if !ok || numericName(at.Type) == "" {
								return true
							}

							n++

							key := short + "|case " + tname + " assertion"
							if n > 1 {
								key += "#" + sprintInt(n)
							}

							if numericName(at.Type) == caseT {
								r.Discharge("R-C03-2", key, w.pos(e.Pos()), "")
							} else {
								r.Violate("R-C03-2", key, w.pos(e.Pos()), "inside case "+tname+" the partner operand is asserted to "+at.Type.String()+": the assertion panics (or the wrong operator runs) for this operand type")
							}
						case *ast.CallExpr:
							se, ok := e.Fun.(*ast.SelectorExpr)
							if !ok || (se.Sel.Name != "push" && se.Sel.Name != "set") || len(e.Args) == 0 {
								return true
							}

							arg := e.Args[len(e.Args)-1]

							at, ok := pkg.TypesInfo.Types[arg]
							if !ok {
								return true
							}

							key := short + "|case " + tname + " result type"

							switch {
							case isComparison:
								if b, isB := at.Type.Underlying().(*types.Basic); isB && b.Info()&types.IsBoolean == 0 && numericName(at.Type) != "" {
									r.Violate("R-C03-2", key, w.pos(arg.Pos()), "a comparison pushes a "+at.Type.String())
								}
							case numericName(at.Type) == "":
								// an interface or constant wrapper: not decided here
							case numericName(at.Type) == caseT:
								r.Discharge("R-C03-2", key, w.pos(arg.Pos()), "")
							default:
								r.Violate("R-C03-2", key, w.pos(arg.Pos()), "inside case "+tname+" the result has static type "+at.Type.String()+": the value changes type (and wraps differently) for this operand type")
							}
						}

						return true
					})
				}
			}
		}
	}

	for _, id := range sortedKeys(c03Routines) {
		if !seenRoutine[id] {
			r.Anchor("R-C03-1", "type switch of "+id)
		}
	}

	// ---- R-C03-3 strict flag
	strictConst := lookupConstIntAny(w, "internal/defs", "StrictTypeEnforcement")

	for _, fn := range w.srcFuncs(bp) {
		n := 0

		allInstrs(fn, func(in ssa.Instruction) {
			c := callTo(in, "internal/language/data.Normalize")
			if c == nil || len(c.Args) != 5 {
				return
			}

			_, k1 := constBool(c.Args[1])
			_, k3 := constBool(c.Args[3])

			if k1 && k3 {
				return // no constness information at this site (comparisons, constant folding)
			}

			n++

			key := fnKey(fn) + "|Normalize strict flag"
			if n > 1 {
				key += "#" + sprintInt(n)
			}

			if _, isC := constBool(c.Args[4]); !isC {
				r.Discharge("R-C03-3", key, w.pos(in.Pos()), "run-time strict flag")

				return
			}

			// constant flag: allowed only where strict mode is excluded
			cuts := cutEdges(fn, func(f Fact) bool {
				if f.Kind != "ne" && !(f.Kind == "cmp" && f.Op == token.NEQ) {
					return false
				}

				v := f.V
				if f.Kind == "cmp" {
					v = f.X
				}

				u, ok := v.(*ssa.UnOp)
				if !ok {
					return false
				}

				fa, ok := u.X.(*ssa.FieldAddr)
				if !ok || fieldName(fa.X.Type(), fa.Field) != "typeStrictness" {
					return false
				}

				var k int64 = -1

				if f.Kind == "ne" {
					k, _ = constInt(f.C)
				} else {
					k, _ = constInt(f.Y)
				}

				return strictConst != nil && k == *strictConst
			})

			if len(cuts) > 0 && !instrReachableAfterCut(fn, in, cuts) {
				r.Discharge("R-C03-3", key, w.pos(in.Pos()), "constant false on the not-strict edge")
			} else {
				r.Violate("R-C03-3", key, w.pos(in.Pos()), "operand constness is passed to Normalize but the strict flag is a constant: in strict mode an untyped constant is not adapted (or a lossy conversion is not rejected) by this handler, unlike its siblings")
			}
		})
	}

	// ---- R-C03-4 ++ / --
	opPush := lookupConstInt(bp, "Push")

	if opPush == nil {
		r.Anchor("R-C03-4", "bytecode.Push")

		return
	}

	for _, fn := range w.srcFuncs(cp) {
		n := 0

		for _, b := range fn.Blocks {
			for i, in := range b.Instrs {
				// Emit(autoMode): the opcode operand is a variable named autoMode
				c, ok := in.(*ssa.Call)
				if !ok || callID(c.Common()) != "internal/language/bytecode.ByteCode.Emit" {
					continue
				}

				if _, isC := constInt(c.Call.Args[1]); isC {
					continue
				}

				if !derivesFrom(c.Call.Args[1], func(v ssa.Value) bool {
					switch x := v.(type) {
					case *ssa.Parameter:
						return x.Name() == "autoMode"
					case *ssa.Alloc:
						return x.Comment == "autoMode"
					case *ssa.Phi:
						return x.Comment == "autoMode"
					}

					return false
				}, nil) {
					continue
				}

				// the closest preceding Emit(Push, …) in the block
				for j := i - 1; j >= 0; j-- {
					pc, ok := b.Instrs[j].(*ssa.Call)
					if !ok || emitOf(pc) != *opPush {
						continue
					}

					n++

					key := fnKey(fn) + "|auto-increment operand is a constant"
					if n > 1 {
						key += "#" + sprintInt(n)
					}

					if c03PushesConstant(pc) {
						r.Discharge("R-C03-4", key, w.pos(pc.Pos()), "data.Constant(1)")
					} else {
						r.Violate("R-C03-4", key, w.pos(pc.Pos()), "the operand ++/-- push is not the untyped constant 1 (a typed int 1, or a computed step such as -1): under strict type checking x++ or x-- is then rejected for some numeric types although x += 1 / x -= 1 are accepted (-1 does not adapt losslessly to an unsigned type)")
					}

					break
				}
			}
		}
	}
}

// c03PushesConstant: the variadic operand of this Emit(Push, …) is data.Constant(…).
func c03PushesConstant(pc *ssa.Call) bool {
	if len(pc.Call.Args) < 3 {
		return false
	}

	found := false

	// the variadic slice is built from an array whose element 0 is stored just before
	if sl, ok := pc.Call.Args[2].(*ssa.Slice); ok {
		if al, ok := sl.X.(*ssa.Alloc); ok {
			for _, ref := range *al.Referrers() {
				ia, ok := ref.(*ssa.IndexAddr)
				if !ok {
					continue
				}

				for _, r2 := range *ia.Referrers() {
					if st, ok := r2.(*ssa.Store); ok {
						if derivesFrom(st.Val, func(v ssa.Value) bool {
							c, ok := v.(*ssa.Call)
							if !ok || callID(c.Common()) != "internal/language/data.Constant" || len(c.Call.Args) != 1 {
								return false
							}

							// the step is the literal 1: a computed step (+1 / -1) is a
							// different operand for "--", and -1 does not adapt losslessly
							// to an unsigned type in strict mode
							k, isC := constInt(c.Call.Args[0])

							return isC && k == 1
						}, nil) {
							found = true
						}
					}
				}
			}
		}
	}

	return found
}
