package main

import (
	"go/ast"
	"go/types"
	"sort"
	"strings"

	"golang.org/x/tools/go/packages"
	"golang.org/x/tools/go/ssa"
)

// C15 SQL endpoints authorize every table the statement touches.

func init() {
	register(&propertyCheck{
		id: "C15", level: "other", needs: loadNeeds{ssa: true},
		decides: "the table extractor and both SQL authorizers are complete over the syntax tree: every node-bearing field of every sqlparse/ast node flows into its Children() result (so ast.Walk reaches every subquery); " +
			"Tables() passes every node-bearing field of every DML statement to its read/write/admin collectors; StatementKind(), Tables(), the UsageMode switches and the schema-kind predicates are exhaustive; " +
			"for a non-administrator no success return of either authorizer is reachable for a schema-changing statement without the DSN-administrator check; and only text that passed the authorizer reaches Exec/Query.",
		misses: "views/CTEs that resolve to other tables at execution time, the semantics of Authorized itself (C43), whether the parser's tree matches what the database executes, statement splitting.",
		run:    runC15,
	})
}

// frozen exceptions for R-C15-2 (one named field each, with reason)
var c15TablesExceptions = map[string]string{
	"CreateTableStmt.Columns":     "column DEFAULT/CHECK/GENERATED expressions: SQLite and PostgreSQL reject subqueries there, so no table can be read through them; the statement needs DSN-admin authority anyway",
	"CreateTableStmt.Constraints": "table CHECK constraints: subqueries are rejected by both backends; FOREIGN KEY targets are metadata, not row access",
	"AlterTableStmt.Action":       "ADD COLUMN default/check expressions: subqueries rejected by both backends",
	"CreateIndexStmt.Columns":     "index expressions: subqueries prohibited by both backends",
}

type sqlAstInfo struct {
	astPkg    *packages.Package
	node      *types.Interface
	stmt      *types.Interface
	nodeTypes []*types.Named
	stmtTypes []*types.Named
}

func loadSQLAst(w *World, r *Report, rule string) *sqlAstInfo {
	a := &sqlAstInfo{astPkg: w.pkg("internal/sqlparse/ast")}
	if a.astPkg == nil {
		r.Anchor(rule, "package internal/sqlparse/ast")

		return nil
	}

	a.node = ifaceOf(a.astPkg, "Node")
	a.stmt = ifaceOf(a.astPkg, "Statement")

	if a.node == nil || a.stmt == nil {
		r.Anchor(rule, "ast.Node / ast.Statement interfaces")

		return nil
	}

	for _, n := range implementers(a.astPkg, a.node) {
		if _, ok := n.Underlying().(*types.Struct); ok {
			a.nodeTypes = append(a.nodeTypes, n)
		}
	}

	a.stmtTypes = implementers(a.astPkg, a.stmt)

	return a
}

// checkChildren is shared by C15 (R-C15-1) and C16 (R-C16-3).
func checkChildren(w *World, r *Report, a *sqlAstInfo, rule string) {
	nodesFn := w.ssaFunc(a.astPkg, "nodes")
	if nodesFn == nil {
		r.Anchor(rule, "ast.nodes helper")
	}

	nodeSlice := types.NewSlice(lookupObj(a.astPkg, "Node").Type())

	for _, n := range a.nodeTypes {
		name := n.Obj().Name()
		fn := w.ssaFunc(a.astPkg, name+".Children")

		if fn == nil {
			r.Anchor(rule, "ast."+name+".Children")

			continue
		}

		fields := nodeFields(n, a.node)
		for _, f := range fields {
			key := "ast." + name + ".Children|" + f
			acc := fieldAccesses(fn, n, f)

			if len(acc) == 0 {
				r.Violate(rule, key, w.pos(fn.Pos()), "field "+name+"."+f+" can hold a syntax node but Children() never reads it: ast.Walk (and therefore Tables()) cannot see table references below it")

				continue
			}

			fl := flowForward(fn, acc, flowOpts{})
			reached := false

			for _, ret := range returnsOf(fn) {
				for _, res := range retResults(ret) {
					if fl.has(res) {
						reached = true
					}
				}
			}

			if reached {
				r.Discharge(rule, key, w.pos(fn.Pos()), "field value flows into the returned []Node")
			} else {
				r.Violate(rule, key, w.pos(fn.Pos()), "field "+name+"."+f+" is read in Children() but its value never reaches the returned slice")
			}
		}

		// arguments of nodes(...) must be Node or []Node, anything else is
		// silently dropped by its type switch.
		allInstrs(fn, func(in ssa.Instruction) {
			c, ok := in.(*ssa.Call)
			if !ok || calleeFunction(c.Common()) != nodesFn || nodesFn == nil || len(c.Call.Args) != 1 {
				return
			}

			sl, ok := c.Call.Args[0].(*ssa.Slice)
			if !ok {
				return
			}

			arr := sl.X

			allInstrs(fn, func(in2 ssa.Instruction) {
				st, ok := in2.(*ssa.Store)
				if !ok {
					return
				}

				ia, ok := st.Addr.(*ssa.IndexAddr)
				if !ok || ia.X != arr {
					return
				}

				mi, ok := st.Val.(*ssa.MakeInterface)
				if !ok {
					return
				}

				t := mi.X.Type()
				key := "ast." + name + ".Children|nodes-arg:" + valueName(mi.X)

				if types.Implements(t, a.node) || types.Identical(t, nodeSlice) {
					r.Discharge(rule, key, w.pos(c.Pos()), "argument type "+types.TypeString(t, shortQual)+" is handled by nodes()")
				} else {
					r.Violate(rule, key, w.pos(c.Pos()), "argument of type "+types.TypeString(t, shortQual)+" is neither Node nor []Node: nodes() drops it silently, hiding the subtree from ast.Walk")
				}
			})
		})
	}
}

func shortQual(p *types.Package) string { return p.Name() }

func runC15(w *World, r *Report) {
	c15FormatterNames(w, r, "R-C15-9")
	r.Rule("R-C15-1", "every node-bearing field of every sqlparse/ast node type flows into the result of its Children(); every argument of nodes() is a Node or []Node", 60)
	r.Rule("R-C15-2", "in each case of Tables() every node-bearing field of the statement type is passed to read/write/admin (or the whole statement is walked); DDL expression fields are frozen exceptions", 20)
	r.Rule("R-C15-3", "StatementKind() and Tables() have a case for every ast.Statement implementer; authorizers' switches cover every UsageMode; schema-kind predicates cover every Create/Drop/Alter kind", 40)
	r.Rule("R-C15-4", "edge cut: with the edges {schema-kind predicate false, DDL-authority true, administrator bypass} removed, no success return of an authorizer is reachable", 2)
	r.Rule("R-C15-5", "the SQL text that reaches execution is the statement the authorizer handed back (the formatter's print of the parse it checked), executed only on the authorizer's success edge; the text that came in is never executed", 4)

	a := loadSQLAst(w, r, "R-C15-1")
	if a == nil {
		return
	}

	r.Unit("ast_node_types", len(a.nodeTypes))
	r.Unit("ast_statement_types", len(a.stmtTypes))

	checkChildren(w, r, a, "R-C15-1")

	sp := w.pkg("internal/sqlparse")
	if sp == nil {
		r.Anchor("R-C15-2", "package internal/sqlparse")

		return
	}

	c15Tables(w, r, a, sp)
	c15Switches(w, r, a, sp)
	c15Gate(w, r, sp)
	c15ExecOnlyAuthorized(w, r)
	c15EveryUsageChecked(w, r)
	c15NoRefDropped(w, r, sp)
}

// c15NoRefDropped: R-C15-7.  Tables() is the over-approximation the authorizers rely on: every
// *ast.TableRef the walker meets must be reported.  In each closure of Tables() that tests a node
// for being a *ast.TableRef, every path from the ok-edge to the closure's return appends to the
// result; a path that leaves a reference out (because of its name, a flag, a set built elsewhere)
// makes the statement read a table nobody authorized.
func c15NoRefDropped(w *World, r *Report, sp *packages.Package) {
	r.Rule("R-C15-7", "no table reference is left out: in Tables() every path from the point where a node is found to be a *ast.TableRef to the end of the visitor appends a usage to the result", 1)

	tf := w.ssaFunc(sp, "Sqlparse.Tables")
	if tf == nil {
		r.Anchor("R-C15-7", "sqlparse.Sqlparse.Tables")

		return
	}

	var closures []*ssa.Function

	var add func(f *ssa.Function)

	add = func(f *ssa.Function) {
		for _, a := range f.AnonFuncs {
			closures = append(closures, a)
			add(a)
		}
	}

	add(tf)

	n := 0

	for _, fn := range closures {
		for _, b := range fn.Blocks {
			ifi, ok := b.Instrs[len(b.Instrs)-1].(*ssa.If)
			if !ok {
				continue
			}

			isRefTest := false

			for _, f := range edgeFacts(ifi.Cond, true) {
				if f.Kind != "true" {
					continue
				}

				if ex, ok := f.V.(*ssa.Extract); ok && ex.Index == 1 {
					if ta, ok := ex.Tuple.(*ssa.TypeAssert); ok && ta.CommaOk {
						if nt := namedOf(ta.AssertedType); nt != nil && nt.Obj().Name() == "TableRef" {
							isRefTest = true
						}
					}
				}
			}

			if !isRefTest {
				continue
			}

			n++

			key := fnKey(fn) + "|every TableRef is reported"
			if n > 1 {
				key += "#" + sprintInt(n)
			}

			// appends: a store into the captured result slice (the cell named out)
			isAppend := func(in ssa.Instruction) bool {
				st, ok := in.(*ssa.Store)
				if !ok {
					return false
				}

				switch a := st.Addr.(type) {
				case *ssa.FreeVar:
					return a.Name() == "out"
				case *ssa.Alloc:
					return a.Comment == "out"
				}

				return false
			}

			first := b.Succs[0].Instrs[0]
			if isAppend(first) {
				r.Discharge("R-C15-7", key, w.pos(ifi.Pos()), "")

				continue
			}

			if exit := pathAvoiding(first, nil, isAppend, func(in ssa.Instruction) bool {
				_, isRet := in.(*ssa.Return)

				return isRet
			}); exit != nil {
				r.Violate("R-C15-7", key, w.pos(ifi.Cond.Pos()), "a table reference can be skipped (return at "+w.pos(exit.Pos())+" without appending it): the authorizers never see that table, so the statement reads it without any grant being checked")
			} else {
				r.Discharge("R-C15-7", key, w.pos(ifi.Pos()), "appended on every path")
			}
		}
	}

	if n == 0 {
		r.Anchor("R-C15-7", "the *ast.TableRef test in Tables()'s visitor")
	}
}

// c15EveryUsageChecked: R-C15-6. In the loop over p.Tables() every iteration
// must pass the true edge of an authorization call; no path (an early
// `continue`, a memo of already-seen names) may skip the check for a usage.
func c15EveryUsageChecked(w *World, r *Report) {
	r.Rule("R-C15-8", "in each authorizer a caller whose tables must be checked reaches a success return only through the exit of the loop over Tables(): no earlier test (statement kind, DSN-wide authority) answers for the tables the statement reads", 2)
	r.Rule("R-C15-6", "loop must-pass-through: in each authorizer every iteration of the loop over Tables() crosses the true edge of an authorization call (Authorized / authorizedForTable / authorizedForDDL); the no-case-matched exit of the exhaustive UsageMode switch is treated as infeasible", 2)

	type target struct{ pkg, fn string }

	for _, t := range []target{{"internal/server/tables", "authorizeStatement"}, {"internal/server/tables/scripting", "authorizeAndClassifySQL"}} {
		p := w.pkg(t.pkg)
		fn := w.ssaFunc(p, t.fn)

		if fn == nil {
			r.Anchor("R-C15-6", t.pkg+"."+t.fn)

			continue
		}

		// the loop that ranges over the result of Tables()
		var tables *ssa.Call

		allInstrs(fn, func(in ssa.Instruction) {
			if c, ok := in.(*ssa.Call); ok && callID(c.Common()) == "internal/sqlparse.Sqlparse.Tables" {
				tables = c
			}
		})

		var loop *loopInfo

		for _, li := range naturalLoops(fn) {
			// an IndexAddr on the Tables() slice inside the body
			for b := range li.body {
				for _, in := range b.Instrs {
					if ia, ok := in.(*ssa.IndexAddr); ok && tables != nil && ia.X == ssa.Value(tables) {
						loop = li
					}
				}
			}
		}

		key := fnKey(fn) + "|Tables()-loop"

		if tables == nil || loop == nil {
			r.Anchor("R-C15-6", "loop over Tables() in "+t.fn)

			continue
		}

		isAuth := func(v ssa.Value) bool {
			c, ok := v.(*ssa.Call)
			if !ok {
				return false
			}

			cf := calleeFunction(c.Common())
			if cf == nil {
				// dynamic call through AuthorizedFunc is wrapped by authorizedForTable
				return false
			}

			switch cf.Name() {
			case "Authorized", "authorizedForTable":
				return true
			}

			return ddlAuthorityFunction(cf)
		}

		nAuth := 0

		cuts := cutEdges(fn, func(f Fact) bool {
			if f.Kind == "true" && isAuth(f.V) {
				nAuth++

				return true
			}

			return false
		})

		// infeasible exit of the exhaustive switch on t.Usage: among the Ifs
		// that compare one value with constants, the false edge of the last.
		groups := map[ssa.Value][]*ssa.BasicBlock{}

		for b := range loop.body {
			if ifi, ok := b.Instrs[len(b.Instrs)-1].(*ssa.If); ok {
				if bo, ok := ifi.Cond.(*ssa.BinOp); ok && bo.Op.String() == "==" {
					if _, isC := bo.Y.(*ssa.Const); isC && isFieldNamed(bo.X, "Usage") {
						groups[bo.X] = append(groups[bo.X], b)
					}
				}
			}
		}

		for _, blocks := range groups {
			inGroup := map[*ssa.BasicBlock]bool{}
			for _, b := range blocks {
				inGroup[b] = true
			}

			for _, b := range blocks {
				if !inGroup[b.Succs[1]] {
					cuts[Edge{b, 1}] = true
				}
			}
		}

		if nAuth < 3 {
			r.Violate("R-C15-6", key, w.pos(fn.Pos()), "fewer than three authorization branches found in the loop over Tables()")

			continue
		}

		// ---- R-C15-8: a checked caller gets a success answer only after the loop has seen every table
		{
			key8 := fnKey(fn) + "|success only after the Tables() loop"

			// edges that leave the loop from its header (the loop is done), and the
			// edges on which no check applies (administrator / no session)
			cuts8 := cutEdges(fn, func(f Fact) bool {
				if f.Kind != "true" {
					return false
				}

				_, isCmp := f.V.(*ssa.BinOp)
				_, isCall := f.V.(*ssa.Call)

				return !isCmp && !isCall // a boolean flag: noAuthCheck, session.Admin
			})

			for i, succ := range loop.header.Succs {
				if !loop.body[succ] {
					cuts8[Edge{loop.header, i}] = true
				}
			}

			bad := ""

			for b := range reach(fn.Blocks[0], cuts8, nil) {
				ret, ok := b.Instrs[len(b.Instrs)-1].(*ssa.Return)
				if !ok || loop.body[b] {
					continue
				}

				res := retResults(ret)
				last := res[len(res)-1]

				success := false

				if isErrorType(last.Type()) {
					success = isNilConst(last)
				} else if k, isC := constInt(last); isC {
					success = k == 200
				}

				if success {
					bad = w.pos(ret.Pos())
				}
			}

			if bad != "" {
				r.Violate("R-C15-8", key8, bad, "a caller whose tables must be checked is answered with success at "+bad+" without the loop over Tables() having run to its end: the tables the statement reads (CREATE TABLE … AS SELECT, CREATE VIEW) are never compared with the caller's grants")
			} else {
				r.Discharge("R-C15-8", key8, w.pos(fn.Pos()), "every success return of a checked caller lies behind the exit of the loop over Tables()")
			}
		}

		if latch := iterationAvoiding(loop, cuts, func(ssa.Instruction) bool { return false }); latch != nil {
			pos := w.pos(fn.Pos())
			if len(latch.Instrs) > 0 {
				pos = w.pos(latch.Instrs[len(latch.Instrs)-1].Pos())

				for _, in := range latch.Instrs {
					if in.Pos().IsValid() {
						pos = w.pos(in.Pos())
					}
				}
			}

			r.Violate("R-C15-6", key, pos, "an iteration of the loop over Tables() can complete without any authorization call succeeding (a skip/continue path): that table usage is executed unchecked")
		} else {
			r.Discharge("R-C15-6", key, w.pos(tables.Pos()), "every iteration crosses an authorization true-edge or returns")
		}
	}
}

func isFieldNamed(v ssa.Value, name string) bool {
	if u, ok := v.(*ssa.UnOp); ok {
		v = u.X
	}

	switch x := v.(type) {
	case *ssa.FieldAddr:
		return fieldName(x.X.Type(), x.Field) == name
	case *ssa.Field:
		return fieldName(x.X.Type(), x.Field) == name
	}

	return false
}

func findTypeSwitch(fd *ast.FuncDecl) *ast.TypeSwitchStmt {
	var ts *ast.TypeSwitchStmt

	ast.Inspect(fd.Body, func(n ast.Node) bool {
		if t, ok := n.(*ast.TypeSwitchStmt); ok && ts == nil {
			ts = t

			return false
		}

		return true
	})

	return ts
}

func c15Tables(w *World, r *Report, a *sqlAstInfo, sp *packages.Package) {
	fd := w.funcDecl(sp, "Sqlparse.Tables")
	if fd == nil {
		r.Anchor("R-C15-2", "sqlparse.Sqlparse.Tables")

		return
	}

	info := sp.TypesInfo

	// local collector closures: read / write / admin
	collectors := map[types.Object]string{}

	ast.Inspect(fd.Body, func(n ast.Node) bool {
		as, ok := n.(*ast.AssignStmt)
		if !ok || len(as.Lhs) != 1 || len(as.Rhs) != 1 {
			return true
		}

		if _, isFn := as.Rhs[0].(*ast.FuncLit); !isFn {
			return true
		}

		if id, ok := as.Lhs[0].(*ast.Ident); ok {
			if o := info.Defs[id]; o != nil {
				collectors[o] = id.Name
			}
		}

		return true
	})

	if len(collectors) < 3 {
		r.Anchor("R-C15-2", "read/write/admin collector closures in Tables()")

		return
	}

	ts := findTypeSwitch(fd)
	if ts == nil {
		r.Anchor("R-C15-2", "type switch in Tables()")

		return
	}

	cases, _, _ := typeSwitchCases(info, ts)

	for _, st := range a.stmtTypes {
		name := st.Obj().Name()
		cc := cases["*ast."+name]

		if cc == nil {
			continue // reported by R-C15-3
		}

		fields := nodeFields(st, a.node)
		if len(fields) == 0 {
			continue
		}

		bound := caseBoundObj(info, cc)
		covered := map[string]bool{}
		whole := false

		// a field is covered when s.F occurs inside an argument of a call to
		// a collector closure (possibly wrapped: admin(tableRefName(s.Table)),
		// read(s.From...)), or inside a range statement whose body passes the
		// loop variable to a collector.
		var scan func(n ast.Node, inCollector bool)

		scan = func(n ast.Node, inCollector bool) {
			ast.Inspect(n, func(m ast.Node) bool {
				switch x := m.(type) {
				case *ast.CallExpr:
					if o := calleeObj(info, x); o != nil && collectors[o] != "" {
						for _, arg := range x.Args {
							scan(arg, true)
						}

						return false
					}
				case *ast.RangeStmt:
					// for _, v := range s.F { collector(v) }
					passes := false

					if vid, ok := x.Value.(*ast.Ident); ok && x.Value != nil {
						vo := info.Defs[vid]

						ast.Inspect(x.Body, func(k ast.Node) bool {
							if ce, ok := k.(*ast.CallExpr); ok {
								if o := calleeObj(info, ce); o != nil && collectors[o] != "" {
									for _, arg := range ce.Args {
										ast.Inspect(arg, func(q ast.Node) bool {
											if id, ok := q.(*ast.Ident); ok && info.Uses[id] == vo && vo != nil {
												passes = true
											}

											return true
										})
									}
								}
							}

							return true
						})
					}

					if passes {
						scan(x.X, true)
					}

					scan(x.Body, inCollector)

					return false
				case *ast.SelectorExpr:
					if id, ok := ast.Unparen(x.X).(*ast.Ident); ok && bound != nil && info.Uses[id] == bound && inCollector {
						covered[x.Sel.Name] = true
					}
				case *ast.Ident:
					if bound != nil && info.Uses[x] == bound && inCollector {
						// the statement itself handed to a collector (read(s))
						whole = true
					}
				}

				return true
			})
		}

		for _, s := range cc.Body {
			scan(s, false)
		}

		// `s` inside `s.F` also matches the Ident case; whole is only true when
		// s is an argument by itself.
		whole = false

		for _, s := range cc.Body {
			ast.Inspect(s, func(m ast.Node) bool {
				if ce, ok := m.(*ast.CallExpr); ok {
					if o := calleeObj(info, ce); o != nil && collectors[o] != "" {
						for _, arg := range ce.Args {
							if id, ok := ast.Unparen(arg).(*ast.Ident); ok && bound != nil && info.Uses[id] == bound {
								whole = true
							}
						}
					}
				}

				return true
			})
		}

		for _, f := range fields {
			key := "sqlparse.Sqlparse.Tables|" + name + "." + f

			switch {
			case whole:
				r.Discharge("R-C15-2", key, w.pos(cc.Pos()), "the whole statement is walked")
			case covered[f]:
				r.Discharge("R-C15-2", key, w.pos(cc.Pos()), "field passed to a collector")
			case c15TablesExceptions[name+"."+f] != "":
				r.Except("R-C15-2", key, w.pos(cc.Pos()), c15TablesExceptions[name+"."+f])
			default:
				r.Violate("R-C15-2", key, w.pos(cc.Pos()), "Tables() never inspects "+name+"."+f+": a subquery placed there reads tables that no authorizer checks")
			}
		}
	}
}

func c15Switches(w *World, r *Report, a *sqlAstInfo, sp *packages.Package) {
	info := sp.TypesInfo

	for _, fname := range []string{"Sqlparse.StatementKind", "Sqlparse.Tables"} {
		fd := w.funcDecl(sp, fname)
		if fd == nil {
			r.Anchor("R-C15-3", "sqlparse."+fname)

			continue
		}

		ts := findTypeSwitch(fd)
		if ts == nil {
			r.Anchor("R-C15-3", "type switch in "+fname)

			continue
		}

		cases, _, _ := typeSwitchCases(info, ts)
		for _, st := range a.stmtTypes {
			key := "sqlparse." + fname + "|case *ast." + st.Obj().Name()
			if cases["*ast."+st.Obj().Name()] != nil {
				r.Discharge("R-C15-3", key, w.pos(ts.Pos()), "case present")
			} else {
				r.Violate("R-C15-3", key, w.pos(ts.Pos()), "statement type *ast."+st.Obj().Name()+" has no case: it is classified as unknown / reports no tables")
			}
		}
	}

	// StatementKind() must map each DDL statement type to a kind that the
	// schema-kind predicates treat as schema altering.
	kindT := lookupObj(sp, "StatementKind")
	usageT := lookupObj(sp, "UsageMode")

	if kindT == nil || usageT == nil {
		r.Anchor("R-C15-3", "sqlparse.StatementKind / UsageMode types")

		return
	}

	ddlKinds := map[string]string{} // exact const value -> name

	if fd := w.funcDecl(sp, "Sqlparse.StatementKind"); fd != nil {
		if ts := findTypeSwitch(fd); ts != nil {
			cases, _, _ := typeSwitchCases(info, ts)
			for tname, cc := range cases {
				n := strings.TrimPrefix(tname, "*ast.")
				if !(strings.HasPrefix(n, "Create") || strings.HasPrefix(n, "Drop") || strings.HasPrefix(n, "Alter")) {
					continue
				}

				for _, s := range cc.Body {
					if rs, ok := s.(*ast.ReturnStmt); ok && len(rs.Results) == 1 {
						if tv, ok := info.Types[rs.Results[0]]; ok && tv.Value != nil {
							ddlKinds[tv.Value.ExactString()] = types.ExprString(rs.Results[0])
						}
					}
				}
			}
		}
	}

	// also by constant name
	for _, c := range constsOfType(sp, kindT.Type()) {
		n := strings.TrimPrefix(c.Name(), "Stmt")
		if strings.HasPrefix(n, "Create") || strings.HasPrefix(n, "Drop") || strings.HasPrefix(n, "Alter") {
			ddlKinds[c.Val().ExactString()] = c.Name()
		}
	}

	r.Unit("ddl_statement_kinds", len(ddlKinds))

	for _, rel := range []string{"internal/server/tables", "internal/server/tables/scripting"} {
		p := w.pkg(rel)
		if p == nil {
			r.Anchor("R-C15-3", "package "+rel)

			continue
		}

		nUsage, nPred := 0, 0

		for _, fd := range funcDecls(p) {
			// switches over a UsageMode value
			ast.Inspect(fd.Body, func(n ast.Node) bool {
				sw, ok := n.(*ast.SwitchStmt)
				if !ok || sw.Tag == nil {
					return true
				}

				tv, ok := p.TypesInfo.Types[sw.Tag]
				if !ok || !types.Identical(tv.Type, usageT.Type()) {
					return true
				}

				nUsage++

				cs, deflt := constSwitchCases(p.TypesInfo, sw)
				for _, c := range constsOfType(sp, usageT.Type()) {
					key := declName(p, fd) + "|switch UsageMode case " + c.Name()

					switch {
					case cs[c.Val().ExactString()] != nil:
						r.Discharge("R-C15-3", key, w.pos(sw.Pos()), "case present")
					case deflt != nil && endsInReturn(deflt.Body):
						r.Discharge("R-C15-3", key, w.pos(sw.Pos()), "handled by a returning default")
					default:
						r.Violate("R-C15-3", key, w.pos(sw.Pos()), "usage mode "+c.Name()+" falls through the switch unchecked: tables used that way are authorized without any test")
					}
				}

				return true
			})

			// schema-kind predicates: func(kind StatementKind) bool
			sig := p.TypesInfo.Defs[fd.Name].Type().(*types.Signature)
			if sig.Params().Len() == 1 && sig.Results().Len() == 1 && types.Identical(sig.Params().At(0).Type(), kindT.Type()) &&
				types.Identical(sig.Results().At(0).Type(), types.Typ[types.Bool]) {
				trueSet := kindPredicateTrueSet(p.TypesInfo, fd)

				// a predicate about schema kinds says true for at least one of them; a
				// predicate over other kinds (transaction control) is not a DDL gate
				about := false

				for val := range ddlKinds {
					if trueSet[val] {
						about = true
					}
				}

				if !about {
					continue
				}

				nPred++

				for _, val := range sortedKeys(ddlKinds) {
					key := declName(p, fd) + "|" + ddlKinds[val]
					if trueSet[val] {
						r.Discharge("R-C15-3", key, w.pos(fd.Pos()), "kind is treated as schema altering")
					} else {
						r.Violate("R-C15-3", key, w.pos(fd.Pos()), "schema-changing kind "+ddlKinds[val]+" is not in the predicate's true set: such statements skip the DSN-administrator gate")
					}
				}
			}
		}

		if nUsage == 0 {
			r.Anchor("R-C15-3", "switch over sqlparse.UsageMode in "+rel)
		}

		if nPred == 0 {
			r.Anchor("R-C15-3", "schema-kind predicate func(StatementKind) bool in "+rel)
		}
	}
}

func endsInReturn(body []ast.Stmt) bool {
	if len(body) == 0 {
		return false
	}

	_, ok := body[len(body)-1].(*ast.ReturnStmt)

	return ok
}

// kindPredicateTrueSet: constant values listed in cases whose body is
// `return true` in a func(kind) bool { switch kind {...} }.
func kindPredicateTrueSet(info *types.Info, fd *ast.FuncDecl) map[string]bool {
	out := map[string]bool{}

	ast.Inspect(fd.Body, func(n ast.Node) bool {
		sw, ok := n.(*ast.SwitchStmt)
		if !ok {
			return true
		}

		for _, s := range sw.Body.List {
			cc := s.(*ast.CaseClause)
			if len(cc.Body) != 1 {
				continue
			}

			rs, ok := cc.Body[0].(*ast.ReturnStmt)
			if !ok || len(rs.Results) != 1 {
				continue
			}

			if tv, ok := info.Types[rs.Results[0]]; !ok || tv.Value == nil || tv.Value.ExactString() != "true" {
				continue
			}

			for _, e := range cc.List {
				if tv, ok := info.Types[e]; ok && tv.Value != nil {
					out[tv.Value.ExactString()] = true
				}
			}
		}

		return false
	})

	return out
}

// c15Gate: R-C15-4
func c15Gate(w *World, r *Report, sp *packages.Package) {
	kindT := lookupObj(sp, "StatementKind")

	type target struct{ pkg, fn string }

	for _, t := range []target{{"internal/server/tables", "authorizeStatement"}, {"internal/server/tables/scripting", "authorizeAndClassifySQL"}} {
		p := w.pkg(t.pkg)
		fn := w.ssaFunc(p, t.fn)

		if fn == nil {
			r.Anchor("R-C15-4", t.pkg+"."+t.fn)

			continue
		}

		isKindPred := func(v ssa.Value) bool {
			c, ok := v.(*ssa.Call)
			if !ok {
				return false
			}

			f := staticCallee(c.Common())
			if f == nil {
				return false
			}

			sig := f.Type().(*types.Signature)

			return sig.Recv() == nil && sig.Params().Len() == 1 && kindT != nil && types.Identical(sig.Params().At(0).Type(), kindT.Type()) &&
				sig.Results().Len() == 1 && types.Identical(sig.Results().At(0).Type(), types.Typ[types.Bool])
		}

		isDDLAuth := func(v ssa.Value) bool {
			c, ok := v.(*ssa.Call)
			if !ok {
				return false
			}

			cf := calleeFunction(c.Common())

			return cf != nil && ddlAuthorityFunction(cf)
		}

		isAdminBypass := func(v ssa.Value) bool {
			return derivesFrom(v, func(s ssa.Value) bool {
				switch x := s.(type) {
				case *ssa.FieldAddr:
					return fieldName(x.X.Type(), x.Field) == "Admin"
				case *ssa.Field:
					return fieldName(x.X.Type(), x.Field) == "Admin"
				}

				return false
			}, nil)
		}

		nPred, nAuth := 0, 0

		cuts := cutEdges(fn, func(f Fact) bool {
			switch f.Kind {
			case "false":
				if isKindPred(f.V) {
					nPred++

					return true
				}
			case "true":
				if isDDLAuth(f.V) {
					nAuth++

					return true
				}

				if isAdminBypass(f.V) {
					return true
				}
			}

			return false
		})

		key := fnKey(fn) + "|success-return"

		if nPred == 0 || nAuth == 0 {
			r.Violate("R-C15-4", key, w.pos(fn.Pos()), "the authorizer does not branch on a schema-kind predicate and a DSN-administrator check: a schema-changing statement that names no table (DROP INDEX) is authorized with no check at all")

			continue
		}

		var bad *ssa.Return

		reachable := reach(fn.Blocks[0], cuts, nil)
		for _, ret := range returnsOf(fn) {
			if !reachable[ret.Block()] {
				continue
			}

			for _, res := range retResults(ret) {
				if v, ok := constInt(res); ok && v == 200 {
					bad = ret
				}
			}
		}

		if bad != nil {
			r.Violate("R-C15-4", key, w.pos(bad.Pos()), "this http.StatusOK return stays reachable for a schema-changing statement from a caller without DSN-administrator authority")
		} else {
			r.Discharge("R-C15-4", key, w.pos(fn.Pos()), "every OK return lies behind {kind not schema-altering | DDL authority | administrator}")
		}
	}
}

// ddlAuthorityFunction: the function's result is built from a permission check
// for defs.DSNAdminPermission and/or DSNService.AuthDSN(..., DSNAdminAction).
func ddlAuthorityFunction(fn *ssa.Function) bool {
	if fn.Signature.Results().Len() != 1 || !types.Identical(fn.Signature.Results().At(0).Type(), types.Typ[types.Bool]) {
		return false
	}

	found := false

	allCalls(fn, func(ci ssa.CallInstruction) {
		for _, a := range ci.Common().Args {
			if s, ok := constString(a); ok && s == "ego.dsn.admin" {
				found = true
			}
		}
	})

	return found
}

// c15ExecOnlyAuthorized: R-C15-5
func c15ExecOnlyAuthorized(w *World, r *Report) {
	// (a) tables.SQLTransaction: statements argument of executeStatements is
	// result 0 of authorizeAndFormatStatements and the call is behind its
	// status <= 200 edge.
	tp := w.pkg("internal/server/tables")
	if fn := w.ssaFunc(tp, "SQLTransaction"); fn == nil {
		r.Anchor("R-C15-5", "tables.SQLTransaction")
	} else {
		var auth *ssa.Call

		var execs []*ssa.Call

		allInstrs(fn, func(in ssa.Instruction) {
			if c, ok := in.(*ssa.Call); ok {
				switch callID(c.Common()) {
				case "internal/server/tables.authorizeAndFormatStatements":
					auth = c
				case "internal/server/tables.executeStatements":
					execs = append(execs, c)
				}
			}
		})

		if auth == nil || len(execs) == 0 {
			r.Anchor("R-C15-5", "authorizeAndFormatStatements / executeStatements calls in SQLTransaction")
		}

		for _, ex := range execs {
			key := "tables.SQLTransaction|executeStatements"
			fromAuth := derivesFrom(ex.Call.Args[0], func(v ssa.Value) bool {
				c, i := resultOf(v)

				return c == auth && i == 0 && auth != nil
			}, nil)

			onlyAuth := !derivesFrom(ex.Call.Args[0], func(v ssa.Value) bool {
				c, _ := resultOf(v)
				if c == nil || c == auth {
					return false
				}

				return true // any other call result mixed in (e.g. getStatementsFromRequest)
			}, nil)

			var statusV ssa.Value

			if auth != nil && auth.Referrers() != nil {
				for _, ref := range *auth.Referrers() {
					if e, ok := ref.(*ssa.Extract); ok && e.Index == 2 {
						statusV = e
					}
				}
			}

			cuts := cutEdges(fn, func(f Fact) bool {
				// status <= 200, i.e. the false edge of status > 200
				return f.Kind == "cmp" && statusV != nil && f.X == statusV && (f.Op.String() == "<=" || f.Op.String() == "==" || f.Op.String() == "<")
			})

			switch {
			case !fromAuth || !onlyAuth:
				r.Violate("R-C15-5", key, w.pos(ex.Pos()), "the statements executed are not (only) the first result of authorizeAndFormatStatements: unauthorized text can reach the database")
			case instrReachableAfterCut(fn, ex, cuts):
				r.Violate("R-C15-5", key, w.pos(ex.Pos()), "executeStatements is reachable when authorizeAndFormatStatements reported a failure status")
			default:
				r.Discharge("R-C15-5", key, w.pos(ex.Pos()), "executes result 0 of the authorizer, behind its status<=200 edge")
			}
		}
	}

	// (b) scripting: every function that calls authorizeAndClassifySQL runs
	// database calls taking the same text only on its nil-error edge; and
	// doSQL / doRows are the only executors of task SQL.
	sc := w.pkg("internal/server/tables/scripting")
	if sc == nil {
		r.Anchor("R-C15-5", "package scripting")

		return
	}

	n := 0

	for _, fn := range w.srcFuncs(sc) {
		var auths []*ssa.Call

		allInstrs(fn, func(in ssa.Instruction) {
			if c, ok := in.(*ssa.Call); ok && callID(c.Common()) == "internal/server/tables/scripting.authorizeAndClassifySQL" {
				auths = append(auths, c)
			}
		})

		for _, auth := range auths {
			n++

			raw := auth.Call.Args[1]

			var errV, outV ssa.Value

			nres := auth.Call.Signature().Results().Len()

			if auth.Referrers() != nil {
				for _, ref := range *auth.Referrers() {
					if e, ok := ref.(*ssa.Extract); ok {
						switch {
						case e.Index == nres-1:
							errV = e
						case e.Index == 0 && isStringType(e.Type()):
							outV = e
						}
					}
				}
			}

			if outV == nil {
				r.Violate("R-C15-5", fnKey(fn)+"|authorizeAndClassifySQL", w.pos(auth.Pos()), "the authorizer hands back no statement text (or it is ignored): whatever is executed afterwards is the text that came in, which the database may read differently from the parser that authorized it")

				continue
			}

			cuts := cutEdges(fn, func(f Fact) bool { return f.Kind == "nil" && f.V == errV && errV != nil })

			fromOut := func(v ssa.Value) bool {
				return derivesFrom(v, func(x ssa.Value) bool { return x == outV }, func(string) bool { return false })
			}

			fromRaw := func(v ssa.Value) bool {
				return derivesFrom(v, func(x ssa.Value) bool {
					return x != outV && (x == raw || sameSliceValue(x, raw))
				}, func(string) bool { return false })
			}

			var sinks []*ssa.Call

			allInstrs(fn, func(in ssa.Instruction) {
				c, ok := in.(*ssa.Call)
				if !ok || c == auth || !isSQLExecutor(callID(c.Common())) {
					return
				}

				for _, arg := range callArgs(c.Common()) {
					if !isStringType(arg.Type()) {
						continue
					}

					switch {
					case fromOut(arg):
						sinks = append(sinks, c)
					case fromRaw(arg) && instrReachableFrom(auth, c):
						r.Violate("R-C15-5", fnKey(fn)+"|"+lastSeg(callID(c.Common()))+" raw text", w.pos(c.Pos()), "the text executed here is the text that was given to the authorizer, not the statement it handed back: where the parser and the database read the bytes differently (an e'…' escape string on SQLite) a table can hide from the authorization inside what the parser took for a string literal")
					}
				}
			})

			sort.Slice(sinks, func(i, j int) bool { return sinks[i].Pos() < sinks[j].Pos() })

			if len(sinks) == 0 {
				r.Violate("R-C15-5", fnKey(fn)+"|authorizeAndClassifySQL", w.pos(auth.Pos()), "no executor of the authorizer's output found after the authorizer call")
			}

			for _, s := range sinks {
				key := fnKey(fn) + "|" + lastSeg(callID(s.Common()))
				sink := s
				if errV == nil || pathAvoiding(auth, cuts, func(ssa.Instruction) bool { return false }, func(i ssa.Instruction) bool { return i == ssa.Instruction(sink) }) != nil {
					r.Violate("R-C15-5", key, w.pos(s.Pos()), "the SQL text is executed on a path where authorizeAndClassifySQL's error is not known to be nil")
				} else {
					r.Discharge("R-C15-5", key, w.pos(s.Pos()), "executes the authorizer's output, only on its nil-error edge")
				}
			}
		}
	}

	// (c) the authorizer's output is the formatter's
	if fn := w.ssaFunc(sc, "authorizeAndClassifySQL"); fn == nil {
		r.Anchor("R-C15-5", "scripting.authorizeAndClassifySQL")
	} else {
		key := "scripting.authorizeAndClassifySQL|text handed back"
		bad := ""

		// the edges on which no authorization applies (no session / administrator)
		cuts := cutEdges(fn, func(f Fact) bool {
			if f.Kind != "true" {
				return false
			}

			_, isCmp := f.V.(*ssa.BinOp)

			return !isCmp // a boolean flag such as noAuthCheck (phi of the || of its two tests)
		})

		reachable := reach(fn.Blocks[0], cuts, nil)

		for _, ret := range returnsOf(fn) {
			res := retResults(ret)
			if len(res) < 2 || !isNilConst(res[len(res)-1]) {
				continue // failure return
			}

			v := resolveLocal(res[0])

			isFormat := derivesFrom(v, func(x ssa.Value) bool {
				c, ok := x.(*ssa.Call)

				return ok && strings.HasSuffix(callID(c.Common()), "sqlparse.Sqlparse.Format")
			}, nil)

			if !isFormat && reachable[ret.Block()] {
				bad = w.pos(ret.Pos())
			}
		}

		if bad != "" {
			r.Violate("R-C15-5", key, bad, "a success return for a caller whose tables were checked hands back text that is not the formatter's print of the parsed statement")
		} else {
			r.Discharge("R-C15-5", key, w.pos(fn.Pos()), "every success return outside the no-session / administrator edges hands back Sqlparse.Format()")
		}
	}

	if n == 0 {
		r.Anchor("R-C15-5", "calls of scripting.authorizeAndClassifySQL")
	}
}

func isSQLExecutor(id string) bool {
	switch id {
	case "internal/server/tables/database.Database.Exec", "internal/server/tables/database.Database.Query",
		"internal/server/tables/scripting.readTxRowResultSet", "internal/server/tables/scripting.readTxRowData",
		"database/sql.DB.Exec", "database/sql.DB.Query", "database/sql.Tx.Exec", "database/sql.Tx.Query":
		return true
	}

	return strings.HasPrefix(id, "internal/server/tables/database.Database.")
}

func lastSeg(id string) string {
	if i := strings.LastIndex(id, "/"); i >= 0 {
		return id[i+1:]
	}

	return id
}

// c15RawFieldOK: string fields of AST nodes that the formatter may write as
// they are, each with the reason the text cannot be anything but what the
// parser put there from a closed set.
var c15RawFieldOK = map[string]string{
	"ast.BinaryExpr.Op":       "set by the expression parser from operator tokens and keyword matches (AND, OR, ||, <= …), never from an identifier's text",
	"ast.UnaryExpr.Op":        "set from operator tokens / NOT",
	"ast.LikeExpr.Op":         "one of LIKE, GLOB, REGEXP, MATCH, ILIKE, chosen by keyword match",
	"ast.CompoundSelect.Op":   "one of UNION, UNION ALL, INTERSECT, EXCEPT, chosen by keyword match",
	"ast.JoinClause.JoinType": "assembled from the join keywords the parser matched",
	"ast.InsertStmt.OrAction": "the parser accepts only REPLACE, IGNORE, ABORT, FAIL, ROLLBACK here",
	"ast.UpdateStmt.OrAction": "the parser accepts only REPLACE, IGNORE, ABORT, FAIL, ROLLBACK here",
	"ast.BeginStmt.Mode":      "transaction control text; the SQL endpoints refuse transaction control statements before executing anything (R-C17-6)",
	"ast.Placeholder.Text":    "the lexer's own placeholder token (?, ?N, $N, :name, @name)",
	"ast.Literal.Value":       "numeric / keyword literals are lexer tokens; string and blob literals are re-escaped by the literal printer",
	"ast.TypeName.Args":       "integers, printed with strconv.Itoa",
}

// c15FormatterNames: R-C15-9 (shared with C16). What Format writes is what
// the SQL endpoints execute; what Tables() reports is what they authorize. A
// name that came from a quoted identifier may contain anything, so a string
// field of an AST node is written to the output only through a quoting writer
// (ident, dottedName, the type-name word loop), unless the field is in the
// table above.
func c15FormatterNames(w *World, r *Report, ruleID string) {
	r.Rule(ruleID, "the formatter writes names as names: in package sqlparse every printer.write whose text comes from a string field of an AST node is either on the frozen list of fields the parser fills from a closed set, or writes a value that passed quoteIdent or was found to be a bare identifier (isBareIdent true edge)", 12)

	sp := w.pkg("internal/sqlparse")
	if sp == nil {
		return
	}

	seen := map[string]int{}

	for _, fn := range w.srcFuncs(sp) {
		allInstrs(fn, func(in ssa.Instruction) {
			c, ok := in.(*ssa.Call)
			if !ok || !strings.HasSuffix(callID(c.Common()), "sqlparse.printer.write") || len(c.Call.Args) < 2 {
				return
			}

			a := c.Call.Args[1]
			if _, isC := constString(a); isC {
				return
			}

			// which AST field does the text come from?
			src := ""

			derivesFrom(a, func(s ssa.Value) bool {
				var fa *ssa.FieldAddr

				if u, ok := s.(*ssa.UnOp); ok {
					fa, _ = u.X.(*ssa.FieldAddr)
				}

				if fa != nil && strings.Contains(fa.X.Type().String(), "sqlparse/ast.") {
					n := namedOf(fa.X.Type())
					if n != nil {
						src = "ast." + n.Obj().Name() + "." + fieldName(fa.X.Type(), fa.Field)
					}

					return src != ""
				}

				return false
			}, func(string) bool { return true })

			if src == "" {
				return
			}

			key := fnKey(fn) + "|writes " + src
			seen[key]++

			if k := seen[key]; k > 1 {
				key += " #" + sprintInt(k)
			}

			// quoted, or known bare?
			if qc, isCall := a.(*ssa.Call); isCall && strings.HasSuffix(callID(qc.Common()), "sqlparse.quoteIdent") {
				r.Discharge(ruleID, key, w.pos(c.Pos()), "through quoteIdent")

				return
			}

			bare := false

			for _, f := range dominatingFacts(c.Block()) {
				if f.Kind != "true" {
					continue
				}

				if bc, isCall := f.V.(*ssa.Call); isCall && strings.HasSuffix(callID(bc.Common()), "sqlparse.isBareIdent") && len(bc.Call.Args) == 1 && bc.Call.Args[0] == a {
					bare = true
				}
			}

			if bare {
				r.Discharge(ruleID, key, w.pos(c.Pos()), "only when isBareIdent holds for this text")

				return
			}

			if why, ok := c15RawFieldOK[src]; ok {
				r.Except(ruleID, key, w.pos(c.Pos()), why)

				return
			}

			r.Violate(ruleID, key, w.pos(c.Pos()), "the text of "+src+" is written into the SQL as it is: when it came from a quoted identifier it can hold SQL of its own (`\"f(1), (SELECT … FROM secret), g\"(2)`), which the table analysis of the parsed statement never saw but the database executes")
		})
	}
}
