package main

import (
	"strings"

	"golang.org/x/tools/go/ssa"
)

// R-C20-8: a federated identity is judged by its token, never by the local
// account of the same name.
//
// In OAuth resource-server / hybrid mode Session.Authenticate accepts a JWT of
// the identity provider; the subject becomes Session.User and the token's
// claims become Session.Permissions. The permission gate's fallback -- look the
// permission up in the local user database under Session.User -- is for
// identities that were established against that database. Applied to a
// federated identity whose token carries no permissions, it hands that
// identity whatever the local account of the same name may do ("admin" exists
// on every server).
func c20FederatedIdentity(w *World, r *Report) {
	r.Rule("R-C20-8", "the permission gate looks a permission up in the local user database only for a local identity: in the router and server packages every auth.GetPermission / GetPermissions call made under a Session's User is unreachable once the 'Session.Federated is false' edges are removed, and Session.Authenticate stores Session.Federated next to Session.Authenticated on the JWT path", 6)

	rp := w.pkg("internal/router")
	if rp == nil {
		return
	}

	serve := w.ssaFunc(rp, "Router.ServeHTTP")
	authn := w.ssaFunc(rp, "Session.Authenticate")

	if serve == nil || authn == nil {
		r.Anchor("R-C20-8", "router.Router.ServeHTTP and router.Session.Authenticate")

		return
	}

	// ---- every lookup of the local user database under the session's user
	n := 0

	isSessionUser := func(v ssa.Value) bool {
		return derivesFrom(v, func(s ssa.Value) bool {
			u, ok := s.(*ssa.UnOp)
			if !ok {
				return false
			}

			fa, ok := u.X.(*ssa.FieldAddr)

			return ok && fieldName(fa.X.Type(), fa.Field) == "User" && strings.HasSuffix(fa.X.Type().String(), "router.Session")
		}, nil)
	}

	for _, p := range w.pkgs {
		rel := p.PkgPath
		if !strings.Contains(rel, "/internal/router") && !strings.Contains(rel, "/internal/server/") {
			continue
		}

		for _, fn := range w.srcFuncs(p) {
			if fn == authn {
				continue // establishes local identities itself
			}

			cuts := cutEdges(fn, func(f Fact) bool {
				return f.Kind == "false" && (isFieldNamed(f.V, "Federated") || derivesFrom(f.V, func(s ssa.Value) bool { return isFieldNamed(s, "Federated") }, nil))
			})

			count := 0

			allInstrs(fn, func(in ssa.Instruction) {
				c, ok := in.(*ssa.Call)
				if !ok {
					return
				}

				id := callID(c.Common())
				if id != "internal/server/auth.GetPermission" && id != "internal/server/auth.GetPermissions" {
					return
				}

				if len(c.Call.Args) < 2 || !isSessionUser(c.Call.Args[1]) {
					return
				}

				n++
				count++

				key := fnKey(fn) + "|" + strings.TrimPrefix(id, "internal/server/auth.") + " only for a local identity"
				if count > 1 {
					key += " #" + sprintInt(count)
				}

				if len(cuts) == 0 || instrReachableAfterCut(fn, in, cuts) {
					r.Violate("R-C20-8", key, w.pos(in.Pos()), "the local user database is consulted under Session.User also when the identity came from an identity provider's JWT: a federated user whose token grants nothing is given the permissions of the local account of the same name (a JWT for subject \"admin\" opens what the local admin may use)")
				} else {
					r.Discharge("R-C20-8", key, w.pos(in.Pos()), "reachable only when Session.Federated is false")
				}
			})
		}
	}

	if n == 0 {
		r.Anchor("R-C20-8", "lookups of the local user database under Session.User")
	}

	// ---- the mark
	var jwt *ssa.Call

	allInstrs(authn, func(in ssa.Instruction) {
		if c, ok := in.(*ssa.Call); ok && strings.HasSuffix(callID(c.Common()), "oauth.ValidateJWT") {
			jwt = c
		}
	})

	key := "router.Session.Authenticate|JWT identities are marked federated"

	if jwt == nil {
		r.Anchor("R-C20-8", "the ValidateJWT call in router.Session.Authenticate")

		return
	}

	marked, unmarked := 0, ""

	allInstrs(authn, func(in ssa.Instruction) {
		st, ok := in.(*ssa.Store)
		if !ok || !isFieldNamed(st.Addr, "Authenticated") || !instrDominates(jwt, st) {
			return
		}

		// only the stores on the JWT path: the block returns before the native-token code
		found := false

		for _, other := range st.Block().Instrs {
			if o, ok := other.(*ssa.Store); ok && isFieldNamed(o.Addr, "Federated") && o.Val == st.Val {
				found = true
			}
		}

		// a store that is also reachable without passing the JWT validation belongs to the local path
		if pathFromEntryAvoiding(authn, nil, func(i ssa.Instruction) bool { return i == ssa.Instruction(jwt) }, func(i ssa.Instruction) bool { return i == ssa.Instruction(st) }) != nil {
			return
		}

		if found {
			marked++
		} else {
			unmarked = w.pos(st.Pos())
		}
	})

	switch {
	case unmarked != "":
		r.Violate("R-C20-8", key, unmarked, "Session.Authenticated is set on the JWT path without Session.Federated being set to the same value")
	case marked == 0:
		r.Violate("R-C20-8", key, w.pos(jwt.Pos()), "no store of Session.Federated accompanies the authentication result of a JWT")
	default:
		r.Discharge("R-C20-8", key, w.pos(jwt.Pos()), "Federated stored with the same value as Authenticated")
	}
}
