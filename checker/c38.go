package main

import (
	"go/ast"
	"go/constant"
	"go/token"
	"go/types"
	"regexp"
	"sort"
	"strconv"
	"strings"

	"golang.org/x/tools/go/packages"
	"golang.org/x/tools/go/ssa"
)

// C38 Every user-visible message has localized text.

func init() {
	register(&propertyCheck{
		id: "C38", level: "proof", needs: loadNeeds{ssa: true},
		decides: "exactly as quantified over the finite domain 'constant message keys referenced in the source x shipped languages': every key that reaches a localization lookup as a compile-time constant (through i18n.T/Text/L/M/E and their *Lang forms, errors.Message and the Err* table, the ui logging and Say functions, CLI option descriptions, and every wrapper found by a parameter-flow fixpoint) has non-empty English text in the message table the build embeds; " +
			"every translation's key exists in English and uses the same {{placeholder}} set; NegotiateLanguage returns only the empty string or a value that passed isSupportedLanguage.",
		misses: "keys computed at run time (listed as information), whether the English text is the right text, text quality of translations.",
		run:    runC38,
	})
}

type i18nSink struct {
	keyIdx int    // index of the key argument (receiver counted for methods)
	prefix string // implicit key prefix
	kind   string // "exact" | "log" | "say" | "errmsg"
}

var keyLikeDotted = regexp.MustCompile(`^[A-Za-z0-9_]+([.\-][A-Za-z0-9_\-]+)+$`)
var keyLikeWord = regexp.MustCompile(`^[A-Za-z0-9_]+([.\-][A-Za-z0-9_\-]+)*$`)
var placeholderRE = regexp.MustCompile(`\{\{\s*([A-Za-z0-9_.\-]+)[^}]*\}\}`)

func runC38(w *World, r *Report) {
	defer c38Forwarding(w, r)
	defer c38ExactMembership(w, r)

	r.Rule("R-C38-1", "every constant key reaching a localization lookup has non-empty English text in the embedded message table", 1500)
	r.Rule("R-C38-2", "every key of every non-English language exists in English and uses the same {{placeholder}} names", 3000)
	r.Rule("R-C38-3", "every return value of NegotiateLanguage is \"\" or lies behind the true edge of isSupportedLanguage on that value", 2)
	r.Rule("R-C38-4", "every constant CLI option Description / ParmDesc key resolves directly or with the opt. prefix", 200)

	ip := w.pkg("internal/i18n")
	if ip == nil {
		r.Anchor("R-C38-1", "package internal/i18n")

		return
	}

	msgs := loadMessageTable(ip)
	if len(msgs) < 1000 {
		r.Anchor("R-C38-1", "i18n.messages table (generated messages.go)")

		return
	}

	langs := map[string]bool{}

	for _, m := range msgs {
		for l := range m {
			langs[l] = true
		}
	}

	r.Unit("message_keys", len(msgs))
	r.Unit("languages", sortedKeys(langs))
	r.Assume("the message table analysed is the one `go generate ./internal/i18n` builds from internal/i18n/languages/messages_*.txt in the snapshot (translations identical to English are omitted by the generator and fall back to English)")

	hasEn := func(k string) bool { return msgs[k]["en"] != "" }

	// ---- R-C38-2
	for _, k := range sortedKeys(msgs) {
		en, ok := msgs[k]["en"]

		for _, l := range sortedKeys(msgs[k]) {
			if l == "en" {
				continue
			}

			key := "messages|" + l + ":" + k

			switch {
			case !ok:
				r.Violate("R-C38-2", key, "internal/i18n/languages/messages_"+l+".txt", "key "+k+" is translated to "+l+" but has no English text")
			case msgs[k][l] == "":
				r.Violate("R-C38-2", key, "internal/i18n/languages/messages_"+l+".txt", "empty "+l+" text for "+k)
			case !sameStrings(placeholders(en), placeholders(msgs[k][l])):
				r.Violate("R-C38-2", key, "internal/i18n/languages/messages_"+l+".txt", "placeholders differ from English: en="+strings.Join(placeholders(en), ",")+" "+l+"="+strings.Join(placeholders(msgs[k][l]), ","))
			default:
				r.Discharge("R-C38-2", key, "", "present in English; same placeholders")
			}
		}

		if ok && en == "" {
			r.Violate("R-C38-2", "messages|en:"+k, "internal/i18n/languages/messages_en.txt", "empty English text for "+k)
		}
	}

	// ---- sinks and wrappers
	sinks := map[*types.Func]i18nSink{}

	add := func(pkgRel, name string, s i18nSink) {
		p := w.pkg(pkgRel)
		if p == nil {
			r.Anchor("R-C38-1", "package "+pkgRel)

			return
		}

		var obj types.Object

		if i := strings.Index(name, "."); i >= 0 {
			if tn, ok := p.Types.Scope().Lookup(name[:i]).(*types.TypeName); ok {
				obj, _, _ = types.LookupFieldOrMethod(types.NewPointer(tn.Type()), true, p.Types, name[i+1:])
			}
		} else {
			obj = p.Types.Scope().Lookup(name)
		}

		f, ok := obj.(*types.Func)
		if !ok {
			r.Anchor("R-C38-1", pkgRel+"."+name)

			return
		}

		sinks[f] = s
	}

	add("internal/i18n", "T", i18nSink{0, "", "exact"})
	add("internal/i18n", "Text", i18nSink{1, "", "exact"})
	add("internal/i18n", "L", i18nSink{0, "label.", "exact"})
	add("internal/i18n", "LLang", i18nSink{1, "label.", "exact"})
	add("internal/i18n", "M", i18nSink{0, "msg.", "exact"})
	add("internal/i18n", "MLang", i18nSink{1, "msg.", "exact"})
	add("internal/i18n", "E", i18nSink{0, "error.", "exact"})
	add("internal/i18n", "ELang", i18nSink{1, "error.", "exact"})
	add("internal/errors", "Message", i18nSink{0, "error.", "errmsg"})
	add("internal/cli/ui", "Log", i18nSink{1, "log.", "log"})
	add("internal/cli/ui", "WriteLog", i18nSink{1, "log.", "log"})
	add("internal/cli/ui", "FormatLogMessage", i18nSink{1, "log.", "log"})
	add("internal/cli/ui", "Say", i18nSink{0, "", "say"})
	add("internal/cli/ui", "SayAlways", i18nSink{0, "", "say"})

	base := map[*types.Func]bool{}
	for f := range sinks {
		base[f] = true
	}

	// wrapper fixpoint: a function whose string parameter reaches a sink's
	// key argument unchanged (or with a constant prefix) is itself a sink.
	var allFns []*ssa.Function

	for _, p := range w.pkgs {
		allFns = append(allFns, w.srcFuncs(p)...)
	}

	for changed := true; changed; {
		changed = false

		for _, fn := range allFns {
			obj, _ := fn.Object().(*types.Func)
			if obj == nil || base[obj] {
				continue
			}

			if _, done := sinks[obj]; done {
				continue
			}

			allCalls(fn, func(ci ssa.CallInstruction) {
				callee := staticCallee(ci.Common())

				s, ok := sinks[callee]
				if !ok || callee == nil {
					return
				}

				args := callArgs(ci.Common())
				if s.keyIdx >= len(args) {
					return
				}

				pre, par := constPrefixOfParam(args[s.keyIdx])
				if par == nil || par.Parent() != fn {
					return
				}

				idx := -1

				for i, p := range fn.Params {
					if p == par {
						idx = i
					}
				}

				if idx < 0 {
					return
				}

				if _, done := sinks[obj]; !done {
					sinks[obj] = i18nSink{idx, s.prefix + pre, s.kind}
					changed = true
				}
			})
		}
	}

	wrappers := []string{}

	for f, s := range sinks {
		if !base[f] {
			wrappers = append(wrappers, funcID(f)+"(arg "+strconv.Itoa(s.keyIdx)+", prefix "+strconv.Quote(s.prefix)+")")
		}
	}

	sort.Strings(wrappers)
	r.Unit("wrapper_sinks_found", wrappers)

	// ---- call sites
	nonConst := 0

	var dynSamples []string

	for _, fn := range allFns {
		// do not judge the lookup functions' own bodies
		allCalls(fn, func(ci ssa.CallInstruction) {
			callee := staticCallee(ci.Common())

			s, ok := sinks[callee]
			if !ok || callee == nil {
				return
			}

			args := callArgs(ci.Common())
			if s.keyIdx >= len(args) {
				return
			}

			consts, dynamic := constStringsOf(args[s.keyIdx])
			if dynamic {
				if obj, _ := fn.Object().(*types.Func); obj != nil {
					if _, isWrapper := sinks[obj]; isWrapper {
						return // the wrapper's own forwarding call
					}
				}

				nonConst++

				if len(dynSamples) < 40 {
					dynSamples = append(dynSamples, w.pos(ci.Pos())+" "+funcID(callee))
				}
			}

			for _, k := range consts {
				full, judge := resolveKey(s, k, fn)
				if !judge {
					continue
				}

				key := fnKey(fn) + "|" + lastSeg(funcID(callee)) + "(" + k + ")"

				if hasEn(full) {
					r.Discharge("R-C38-1", key, w.pos(ci.Pos()), full)
				} else {
					r.Violate("R-C38-1", key, w.pos(ci.Pos()), "message key "+strconv.Quote(full)+" has no English text: the user sees the raw key")
				}
			}
		})
	}

	r.Unit("non_constant_key_call_sites", nonConst)
	r.Unit("non_constant_key_samples", dynSamples)

	// ---- R-C38-4 CLI option descriptions
	cliPkg := w.pkg("internal/cli/cli")
	if cliPkg == nil {
		r.Anchor("R-C38-4", "package internal/cli/cli")
	} else {
		optT, _ := lookupObj(cliPkg, "Option").(*types.TypeName)
		if optT == nil {
			r.Anchor("R-C38-4", "cli.Option")
		} else {
			for _, p := range w.pkgs {
				for _, file := range p.Syntax {
					ast.Inspect(file, func(n ast.Node) bool {
						cl, ok := n.(*ast.CompositeLit)
						if !ok {
							return true
						}

						tv, ok := p.TypesInfo.Types[cl]
						if !ok || namedOf(tv.Type) == nil || namedOf(tv.Type).Obj() != optT {
							return true
						}

						name := ""

						for _, el := range cl.Elts {
							kv, ok := el.(*ast.KeyValueExpr)
							if !ok {
								continue
							}

							id, _ := kv.Key.(*ast.Ident)
							if id == nil {
								continue
							}

							cv := p.TypesInfo.Types[kv.Value].Value
							if id.Name == "LongName" && cv != nil && cv.Kind() == constant.String {
								name = constant.StringVal(cv)
							}
						}

						for _, el := range cl.Elts {
							kv, ok := el.(*ast.KeyValueExpr)
							if !ok {
								continue
							}

							id, _ := kv.Key.(*ast.Ident)
							if id == nil || (id.Name != "Description" && id.Name != "ParmDesc") {
								continue
							}

							cv := p.TypesInfo.Types[kv.Value].Value
							if cv == nil || cv.Kind() != constant.String {
								continue
							}

							k := constant.StringVal(cv)
							if k == "" || strings.Contains(k, " ") {
								continue
							}

							// ParmDesc doubles as literal placeholder text
							// ("dsn-name", "<text>"): only dotted lower-case
							// spellings are message keys.
							if id.Name == "ParmDesc" && (!keyLikeDotted.MatchString(k) || k != strings.ToLower(k) || !strings.Contains(k, ".")) {
								continue
							}

							key := p.Types.Name() + "|Option(" + name + ")." + id.Name + "=" + k

							if hasEn(k) || hasEn("opt."+k) {
								r.Discharge("R-C38-4", key, w.pos(kv.Pos()), "resolves")
							} else {
								r.Violate("R-C38-4", key, w.pos(kv.Pos()), "CLI help key "+strconv.Quote(k)+" has no English text (neither as written nor with the opt. prefix)")
							}
						}

						return true
					})
				}
			}
		}
	}

	// ---- R-C38-3
	if fn := w.ssaFunc(ip, "NegotiateLanguage"); fn == nil {
		r.Anchor("R-C38-3", "i18n.NegotiateLanguage")
	} else {
		supported := w.ssaFunc(ip, "isSupportedLanguage")

		for _, ret := range returnsOf(fn) {
			v := retResult(ret, 0)
			key := "i18n.NegotiateLanguage|return " + valueName(v)

			if s, ok := constString(v); ok && s == "" {
				r.Discharge("R-C38-3", key, w.pos(ret.Pos()), "returns no language")

				continue
			}

			// cut the true edges of isSupportedLanguage(<the returned value or what it derives from>)
			cuts := cutEdges(fn, func(f Fact) bool {
				c, ok := f.V.(*ssa.Call)
				if !ok || f.Kind != "true" || supported == nil || calleeFunction(c.Common()) != supported {
					return false
				}

				arg := c.Call.Args[0]

				return arg == v || sameFieldLoad(arg, v) || derivesFrom(v, func(s ssa.Value) bool { return s == arg }, nil)
			})

			if len(cuts) == 0 || instrReachableAfterCut(fn, ret, cuts) {
				r.Violate("R-C38-3", key, w.pos(ret.Pos()), "a language tag is returned without having passed isSupportedLanguage")
			} else {
				r.Discharge("R-C38-3", key, w.pos(ret.Pos()), "behind the true edge of isSupportedLanguage")
			}
		}
	}
}

// resolveKey decides whether a constant is a message key (and which) for the
// given sink; free text passed to the tolerant entry points is not judged.
func resolveKey(s i18nSink, k string, fn *ssa.Function) (string, bool) {
	switch s.kind {
	case "exact":
		if s.prefix == "" {
			if !keyLikeDotted.MatchString(k) {
				return "", false
			}

			return k, true
		}

		if !keyLikeWord.MatchString(k) {
			return "", false
		}

		return s.prefix + strings.TrimPrefix(k, s.prefix), true
	case "errmsg":
		if strings.HasPrefix(k, "_") {
			return "", false // flow-control signals, documented as not localized
		}

		inErrTable := fn != nil && fn.Pkg != nil && fn.Pkg.Pkg.Path() == modPath+"/internal/errors" && fn.Name() == "init"
		if inErrTable {
			if !keyLikeWord.MatchString(k) {
				return "", false
			}

			return "error." + strings.TrimPrefix(k, "error."), true
		}

		if !keyLikeDotted.MatchString(k) || k != strings.ToLower(k) {
			return "", false
		}

		return "error." + strings.TrimPrefix(k, "error."), true
	case "log":
		// FormatLogMessage: a key only when it has a dot and no space
		if strings.Count(k, ".") == 0 || strings.Contains(k, " ") || !keyLikeDotted.MatchString(k) {
			return "", false
		}

		if strings.HasPrefix(k, "log.") {
			return k, true
		}

		return "log." + k, true
	case "say":
		if strings.Index(k, ".") <= 0 || !keyLikeDotted.MatchString(k) {
			return "", false
		}

		return k, true
	}

	return "", false
}

// constPrefixOfParam: v is a Parameter, or constant + Parameter.
func constPrefixOfParam(v ssa.Value) (string, *ssa.Parameter) {
	v = stripValue(v)

	if p, ok := v.(*ssa.Parameter); ok {
		return "", p
	}

	if b, ok := v.(*ssa.BinOp); ok && b.Op == token.ADD {
		if s, isC := constString(b.X); isC {
			if p, ok := stripValue(b.Y).(*ssa.Parameter); ok {
				return s, p
			}
		}
	}

	return "", nil
}

// constStringsOf collects the constant strings a value may hold (through phis
// and single-assignment locals); dynamic reports a non-constant contribution.
func constStringsOf(v ssa.Value) (out []string, dynamic bool) {
	seen := map[ssa.Value]bool{}

	var rec func(v ssa.Value)

	rec = func(v ssa.Value) {
		v = stripValue(v)
		if seen[v] {
			return
		}

		seen[v] = true

		switch x := v.(type) {
		case *ssa.Const:
			if s, ok := constString(x); ok {
				out = append(out, s)
			} else {
				dynamic = true
			}
		case *ssa.Phi:
			for _, e := range x.Edges {
				rec(e)
			}
		case *ssa.UnOp:
			if vals, ok := storedValues(x.X); ok && x.Op == token.MUL {
				for _, sv := range vals {
					rec(sv)
				}

				return
			}

			dynamic = true
		default:
			dynamic = true
		}
	}

	rec(v)

	return
}

func placeholders(s string) []string {
	set := map[string]bool{}
	for _, m := range placeholderRE.FindAllStringSubmatch(s, -1) {
		set[m[1]] = true
	}

	return sortedKeys(set)
}

func sameStrings(a, b []string) bool {
	if len(a) != len(b) {
		return false
	}

	for i := range a {
		if a[i] != b[i] {
			return false
		}
	}

	return true
}

// loadMessageTable reads the composite literal of the generated
// `var messages = map[string]map[string]string{...}`.
func loadMessageTable(ip *packages.Package) map[string]map[string]string {
	out := map[string]map[string]string{}

	for _, f := range ip.Syntax {
		for _, d := range f.Decls {
			gd, ok := d.(*ast.GenDecl)
			if !ok || gd.Tok != token.VAR {
				continue
			}

			for _, sp := range gd.Specs {
				vs := sp.(*ast.ValueSpec)
				if len(vs.Names) != 1 || vs.Names[0].Name != "messages" || len(vs.Values) != 1 {
					continue
				}

				cl, ok := vs.Values[0].(*ast.CompositeLit)
				if !ok {
					continue
				}

				for _, el := range cl.Elts {
					kv := el.(*ast.KeyValueExpr)
					k := constStr(ip.TypesInfo, kv.Key)
					inner, ok := kv.Value.(*ast.CompositeLit)

					if !ok {
						continue
					}

					m := map[string]string{}

					for _, e2 := range inner.Elts {
						kv2 := e2.(*ast.KeyValueExpr)
						m[constStr(ip.TypesInfo, kv2.Key)] = constStr(ip.TypesInfo, kv2.Value)
					}

					out[k] = m
				}
			}
		}
	}

	return out
}

func constStr(info *types.Info, e ast.Expr) string {
	if tv, ok := info.Types[e]; ok && tv.Value != nil && tv.Value.Kind() == constant.String {
		return constant.StringVal(tv.Value)
	}

	return ""
}

// c38Forwarding: R-C38-4.  Every public lookup function of package i18n takes the substitution
// values as a variadic map and hands them on to the function that does the work.  A call from such
// a function to another one with the same variadic parameter type (a wrapper calling translate, or
// translate calling itself for the English fallback) must pass the caller's own variadic parameter
// on; a call that leaves it out returns the message with its {{placeholders}} unfilled.
func c38Forwarding(w *World, r *Report) {
	r.Rule("R-C38-7", "parameter forwarding in package i18n: a function with a variadic map parameter that calls a function with the same variadic parameter passes its own parameter on", 6)

	ip := w.pkg("internal/i18n")
	if ip == nil || w.prog == nil {
		r.Anchor("R-C38-7", "package internal/i18n (SSA)")

		return
	}

	variadicOf := func(fn *ssa.Function) *ssa.Parameter {
		if fn == nil || !fn.Signature.Variadic() || len(fn.Params) == 0 {
			return nil
		}

		p := fn.Params[len(fn.Params)-1]

		sl, ok := p.Type().Underlying().(*types.Slice)
		if !ok {
			return nil
		}

		if _, isMap := sl.Elem().Underlying().(*types.Map); !isMap {
			return nil
		}

		return p
	}

	n := 0

	for _, fn := range w.srcFuncs(ip) {
		own := variadicOf(fn)
		if own == nil {
			continue
		}

		count := map[string]int{}

		allInstrs(fn, func(in ssa.Instruction) {
			c, ok := in.(*ssa.Call)
			if !ok {
				return
			}

			cf := calleeFunction(c.Common())

			cp := variadicOf(cf)
			if cp == nil || !types.Identical(cp.Type(), own.Type()) {
				return
			}

			n++

			key := fnKey(fn) + "|forwards its values to " + fnKey(cf)
			count[key]++

			if k := count[key]; k > 1 {
				key += "#" + sprintInt(k)
			}

			last := c.Call.Args[len(c.Call.Args)-1]
			if resolveLocal(last) == ssa.Value(own) {
				r.Discharge("R-C38-7", key, w.pos(in.Pos()), "")
			} else {
				r.Violate("R-C38-7", key, w.pos(in.Pos()), "the substitution values are not handed on: the text comes back with its {{placeholders}} unfilled whenever this path is taken (for instance a language that falls back to the English text)")
			}
		})
	}

	if n == 0 {
		r.Anchor("R-C38-7", "forwarding calls in package i18n")
	}
}
