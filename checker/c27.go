package main

import (
	"go/types"
	"strings"

	"golang.org/x/tools/go/ssa"
)

// C27 Decryption never accepts a forged ciphertext.

func init() {
	register(&propertyCheck{
		id: "C27", level: "other", needs: loadNeeds{ssa: true},
		decides: "in the decrypt call trees of internal/util and internal/cli/settings every return of text with a nil error is authenticated: the text derives from the plaintext of cipher.AEAD.Open (or from another function of the tree) and the return is reachable only through that call's nil-error edge; no return hands back constant text with a nil error.",
		misses: "key-derivation strength, equality of the round trip, misuse of nonces, which of the three formats is selected for a given input.",
		run:    runC27,
	})
}

func runC27(w *World, r *Report) {
	defer c27WholePassphrase(w, r)

	r.Rule("R-C27-5", "what a decrypt tree hands to its text decoder (base64 / hex DecodeString) is the caller's ciphertext itself, the ciphertext with a constant-length head sliced off, or strings.TrimPrefix / CutPrefix of it: no other text function stands between the input and the decoder, so exactly one text decodes to the authenticated bytes", 2)
	r.Rule("R-C27-6", "an encrypted text is decoded only from its canonical form: in the decrypt trees every successful return after a base64 DecodeString lies behind the true edge of EncodeToString(decoded bytes) == the text that was decoded", 1)
	r.Rule("R-C27-1", "every nil-error return in a decrypt call tree returns text derived from AEAD.Open's plaintext (or a tree function's result) and is unreachable once that call's nil-error edge is removed", 6)
	r.Rule("R-C27-2", "every decrypt call tree contains a call of cipher.AEAD.Open reachable from its entry point", 2)
	r.Rule("R-C27-3", "key provenance: the key given to aes.NewCipher in a decrypt tree is, on every path (all phi edges, all stored values, all call sites), computed from the caller's passphrase parameter; a key from any other source (a cache, a constant) lets a different passphrase decrypt", 2)

	for _, rel := range []string{"internal/util", "internal/cli/settings"} {
		p := w.pkg(rel)
		entry := w.ssaFunc(p, "Decrypt")

		if entry == nil {
			r.Anchor("R-C27-1", rel+".Decrypt")

			continue
		}

		tree := map[*ssa.Function]bool{}

		var order []*ssa.Function

		var visit func(f *ssa.Function)

		visit = func(f *ssa.Function) {
			if tree[f] || f.Blocks == nil || f.Pkg != entry.Pkg {
				return
			}

			tree[f] = true
			order = append(order, f)

			allCalls(f, func(ci ssa.CallInstruction) {
				if cf := calleeFunction(ci.Common()); cf != nil {
					// key-derivation helpers return no error and are not part of the text path
					if cf.Signature.Results().Len() == 2 {
						visit(cf)
					}
				}
			})
		}

		visit(entry)

		c27DecoderInput(w, r, rel, order)
		c27CanonicalText(w, r, rel, order)

		hasOpen := false

		// a tree function that cannot reach AEAD.Open (a text decoder, a key
		// derivation) is not a decryption: its results are not plaintext, and
		// its own returns are not judged as such
		opens := map[*ssa.Function]bool{}

		for changed := true; changed; {
			changed = false

			for _, fn := range order {
				if opens[fn] {
					continue
				}

				allInstrs(fn, func(in ssa.Instruction) {
					if c, ok := in.(*ssa.Call); ok {
						if cf := calleeFunction(c.Common()); isAEADOpen(c) || cf != nil && opens[cf] {
							if !opens[fn] {
								opens[fn] = true
								changed = true
							}
						}
					}
				})
			}
		}

		for fn := range tree {
			if !opens[fn] {
				delete(tree, fn)
			}
		}

		for _, fn := range order {
			if !opens[fn] {
				continue
			}

			allInstrs(fn, func(in ssa.Instruction) {
				if c, ok := in.(*ssa.Call); ok && isAEADOpen(c) {
					hasOpen = true
				}
			})

			for _, ret := range returnsOf(fn) {
				res := retResults(ret)
				if len(res) != 2 {
					continue
				}

				// an error that is nil on some incoming edge only (a named result
				// left unset by a switch without default): the text on that edge
				// has to be authenticated text all the same
				if ep, isPhi := stripValue(res[1]).(*ssa.Phi); isPhi {
					tp, _ := stripValue(res[0]).(*ssa.Phi)

					for i, e := range ep.Edges {
						if !isNilConst(stripValue(e)) {
							continue
						}

						text := res[0]
						if tp != nil && tp.Block() == ep.Block() {
							text = tp.Edges[i]
						}

						key := fnKey(fn) + "|nil-error-edge"

						authenticated := derivesFrom(text, func(v ssa.Value) bool {
							c, idx := resultOf(v)
							if c == nil || idx != 0 {
								return false
							}

							cf := calleeFunction(c.Common())

							return isAEADOpen(c) || cf != nil && tree[cf]
						}, nil)

						if authenticated {
							r.Discharge("R-C27-1", key, w.pos(ret.Pos()), "")
						} else {
							r.Violate("R-C27-1", key, w.pos(ret.Pos()), "on one path into this return the error is nil and the text does not come from an authenticated decryption: an input that no branch decrypts (for instance one shorter than every format) is reported as successfully decrypted to empty text")
						}
					}

					continue
				}

				if !isNilConst(res[1]) {
					continue
				}

				key := fnKey(fn) + "|nil-error-return"

				// the authenticated sources the text may come from
				var srcCall *ssa.Call

				ok := derivesFrom(res[0], func(v ssa.Value) bool {
					c, idx := resultOf(v)
					if c == nil || idx != 0 {
						return false
					}

					if isAEADOpen(c) {
						srcCall = c

						return true
					}

					if cf := calleeFunction(c.Common()); cf != nil && tree[cf] {
						srcCall = c

						return true
					}

					return false
				}, nil)

				if !ok || srcCall == nil {
					r.Violate("R-C27-1", key, w.pos(ret.Pos()), "text is returned with a nil error although it does not come from an authenticated decryption (AEAD.Open): a truncated or forged ciphertext is reported as successfully decrypted")

					continue
				}

				var errV ssa.Value

				if srcCall.Referrers() != nil {
					for _, ref := range *srcCall.Referrers() {
						if e, ok := ref.(*ssa.Extract); ok && e.Index == 1 {
							errV = e
						}
					}
				}

				cuts := cutEdges(fn, func(f Fact) bool { return f.Kind == "nil" && errV != nil && f.V == errV })
				if errV == nil || instrReachableAfterCut(fn, ret, cuts) {
					r.Violate("R-C27-1", key, w.pos(ret.Pos()), "the decrypted text is returned on a path that does not test the error of "+callID(srcCall.Common())+lastSeg(ifaceCallName(srcCall)))
				} else {
					r.Discharge("R-C27-1", key, w.pos(ret.Pos()), "plaintext of "+nameOfCall(srcCall)+", behind its nil-error edge")
				}
			}
		}

		c27KeyProvenance(w, r, order, tree)

		if hasOpen {
			r.Discharge("R-C27-2", rel+".Decrypt|AEAD.Open", w.pos(entry.Pos()), "tree of "+itoa(len(order))+" functions reaches cipher.AEAD.Open")
		} else {
			r.Violate("R-C27-2", rel+".Decrypt|AEAD.Open", w.pos(entry.Pos()), "no authenticated decryption (cipher.AEAD.Open) in the decrypt call tree")
		}

		r.Unit("decrypt_tree_functions_"+lastSeg(rel), len(order))
	}
}

func isAEADOpen(c *ssa.Call) bool {
	if !c.Call.IsInvoke() || c.Call.Method == nil || c.Call.Method.Name() != "Open" {
		return false
	}

	return c.Call.Method.Pkg() != nil && c.Call.Method.Pkg().Path() == "crypto/cipher"
}

func ifaceCallName(c *ssa.Call) string {
	if c.Call.IsInvoke() {
		return c.Call.Method.Name()
	}

	return ""
}

func nameOfCall(c *ssa.Call) string {
	if c.Call.IsInvoke() {
		return c.Call.Method.Pkg().Name() + "." + c.Call.Method.Name()
	}

	return lastSeg(callID(c.Common()))
}

func itoa(n int) string {
	return sprintInt(n)
}

// c27KeyProvenance: R-C27-3.
func c27KeyProvenance(w *World, r *Report, order []*ssa.Function, tree map[*ssa.Function]bool) {
	// call sites of tree functions, by callee
	sites := map[*ssa.Function][]*ssa.Call{}

	for _, fn := range order {
		allInstrs(fn, func(in ssa.Instruction) {
			if c, ok := in.(*ssa.Call); ok {
				if cf := calleeFunction(c.Common()); cf != nil && tree[cf] {
					sites[cf] = append(sites[cf], c)
				}
			}
		})
	}

	isPassParam := func(p *ssa.Parameter) bool {
		n := strings.ToLower(p.Name())

		return strings.Contains(n, "pass") && types.Identical(p.Type().Underlying(), types.Typ[types.String])
	}

	var allDerive func(v ssa.Value, fn *ssa.Function, depth int, seen map[ssa.Value]bool) (bool, string)

	allDerive = func(v ssa.Value, fn *ssa.Function, depth int, seen map[ssa.Value]bool) (bool, string) {
		v = stripValue(v)
		if seen[v] {
			return true, "" // cycle through a phi: decided by the other edges
		}

		seen[v] = true

		if depth > 8 {
			return false, "derivation too deep"
		}

		switch x := v.(type) {
		case *ssa.Parameter:
			if isPassParam(x) {
				return true, ""
			}

			// a key parameter of a tree function: every call site must supply a derived key
			idx := -1

			for i, p := range x.Parent().Params {
				if p == x {
					idx = i
				}
			}

			cs := sites[x.Parent()]
			if idx < 0 || len(cs) == 0 {
				return false, "parameter " + x.Name() + " of " + fnKey(x.Parent()) + " is not the passphrase and has no in-tree caller"
			}

			for _, c := range cs {
				if ok, why := allDerive(c.Call.Args[idx], c.Parent(), depth+1, map[ssa.Value]bool{}); !ok {
					return false, why
				}
			}

			return true, ""
		case *ssa.Phi:
			for _, e := range x.Edges {
				if ok, why := allDerive(e, fn, depth, seen); !ok {
					return false, why
				}
			}

			return true, ""
		case *ssa.Call:
			// a function of the passphrase: some argument derives from it
			var last string

			for _, a := range callArgs(x.Common()) {
				if ok, why := allDerive(a, fn, depth+1, seen); ok {
					return true, ""
				} else {
					last = why
				}
			}

			if last == "" {
				last = "result of " + nameOfCall(x) + " does not depend on the passphrase"
			}

			return false, last
		case *ssa.Convert:
			return allDerive(x.X, fn, depth, seen)
		case *ssa.Slice:
			return allDerive(x.X, fn, depth, seen)
		case *ssa.Extract:
			return allDerive(x.Tuple, fn, depth, seen)
		case *ssa.TypeAssert:
			return allDerive(x.X, fn, depth, seen)
		case *ssa.UnOp:
			if vals, ok := storedValues(x.X); ok {
				if len(vals) == 0 {
					return false, "uninitialised local"
				}

				for _, sv := range vals {
					if ok, why := allDerive(sv, fn, depth, seen); !ok {
						return false, why
					}
				}

				return true, ""
			}

			return false, "loaded from " + valueName(x.X) + " (not computed from the passphrase)"
		case *ssa.Alloc:
			vals, _ := storedValues(x)
			for _, sv := range vals {
				if ok, why := allDerive(sv, fn, depth, seen); !ok {
					return false, why
				}
			}

			return len(vals) > 0, "local never assigned"
		case *ssa.Const:
			return false, "constant key"
		}

		return false, valueName(v) + " is not computed from the passphrase"
	}

	for _, fn := range order {
		allInstrs(fn, func(in ssa.Instruction) {
			c, ok := in.(*ssa.Call)
			if !ok || callID(c.Common()) != "crypto/aes.NewCipher" {
				return
			}

			key := fnKey(fn) + "|aes.NewCipher-key"

			if ok, why := allDerive(c.Call.Args[0], fn, 0, map[ssa.Value]bool{}); ok {
				r.Discharge("R-C27-3", key, w.pos(c.Pos()), "key is a function of the passphrase on every path")
			} else {
				r.Violate("R-C27-3", key, w.pos(c.Pos()), "the cipher key can come from something other than the caller's passphrase ("+why+"): decryption may then succeed for a different passphrase")
			}
		})
	}
}

// c27WholePassphrase: R-C27-4.  Two different passphrases must not derive the same key, so the
// bytes handed to a key-derivation function are the whole passphrase: a plain []byte(passphrase)
// conversion of a string parameter (or the parameter itself), never a slice of a fixed-size
// scratch buffer, a sub-slice, or a value that went through copy().
func c27WholePassphrase(w *World, r *Report) {
	r.Rule("R-C27-4", "the password argument of every key-derivation call in package util (argon2.IDKey, pbkdf2.Key, md5.Sum, sha256.Sum256) is a plain conversion of a string parameter: no truncation, no fixed-size buffer", 3)

	up := w.pkg("internal/util")
	if up == nil {
		return
	}

	kdf := map[string]int{ // callee -> index of the password argument
		"golang.org/x/crypto/argon2.IDKey": 0, "golang.org/x/crypto/argon2.Key": 0, "golang.org/x/crypto/pbkdf2.Key": 0,
		"crypto/md5.Sum": 0, "crypto/sha256.Sum256": 0, "crypto/sha1.Sum": 0, "golang.org/x/crypto/scrypt.Key": 0,
	}

	n := 0

	for _, fn := range w.srcFuncs(up) {
		count := 0

		allInstrs(fn, func(in ssa.Instruction) {
			c, ok := in.(*ssa.Call)
			if !ok {
				return
			}

			id := callID(c.Common())
			if id == "" {
				if f := staticCallee(c.Common()); f != nil && f.Pkg() != nil {
					id = f.Pkg().Path() + "." + f.Name()
				}
			}

			idx, isKDF := kdf[id]
			if !isKDF || len(c.Call.Args) <= idx {
				return
			}

			// only derivations from a passphrase: the argument must come from a string parameter at all
			arg := c.Call.Args[idx]

			fromParam := derivesFrom(arg, func(v ssa.Value) bool {
				p, ok := v.(*ssa.Parameter)

				return ok && isStringType(p.Type())
			}, nil)

			if !fromParam {
				if _, isSlice := arg.(*ssa.Slice); !isSlice {
					return
				}
			}

			n++
			count++

			key := fnKey(fn) + "|" + id[strings.LastIndex(id, "/")+1:] + " gets the whole passphrase"
			if count > 1 {
				key += "#" + sprintInt(count)
			}

			plain := false

			switch x := arg.(type) {
			case *ssa.Convert:
				_, plain = x.X.(*ssa.Parameter)
			case *ssa.Parameter:
				plain = true
			}

			if plain {
				r.Discharge("R-C27-4", key, w.pos(in.Pos()), "[]byte(parameter)")
			} else {
				r.Violate("R-C27-4", key, w.pos(in.Pos()), "the key is derived from bytes that are not a plain conversion of the passphrase (a slice of a buffer, a copy, a truncation): two passphrases that agree on the part that is used derive the same key, so a ciphertext opens under a wrong passphrase")
			}
		})
	}

	if n == 0 {
		r.Anchor("R-C27-4", "key-derivation calls in package util")
	}
}

// c27DecoderInput: R-C27-5.
func c27DecoderInput(w *World, r *Report, rel string, tree []*ssa.Function) {
	for _, fn := range tree {
		n := 0

		allInstrs(fn, func(in ssa.Instruction) {
			c, ok := in.(*ssa.Call)
			if !ok {
				return
			}

			id := callID(c.Common())
			if id != "encoding/base64.Encoding.DecodeString" && id != "encoding/hex.DecodeString" {
				return
			}

			arg := c.Call.Args[len(c.Call.Args)-1]

			n++

			key := fnKey(fn) + "|decoder input"
			if n > 1 {
				key += " #" + sprintInt(n)
			}

			isParam := func(v ssa.Value) bool {
				_, ok := v.(*ssa.Parameter)

				return ok
			}

			classify := func(arg ssa.Value) string {
				verdict := ""

				switch x := arg.(type) {
				case *ssa.Parameter:
					verdict = "the ciphertext parameter itself"
				case *ssa.Slice:
					if isParam(x.X) && x.High == nil {
						if _, isC := constInt(x.Low); isC || x.Low == nil {
							verdict = "the ciphertext with a constant-length marker sliced off"
						}
					}
				case *ssa.Call:
					cid := callID(x.Common())
					if (cid == "strings.TrimPrefix" || cid == "strings.CutPrefix") && len(x.Call.Args) == 2 && isParam(x.Call.Args[0]) {
						verdict = "strings.TrimPrefix of the ciphertext"
					}
				case *ssa.Extract:
					if xc, ok := x.Tuple.(*ssa.Call); ok && callID(xc.Common()) == "strings.CutPrefix" && x.Index == 0 && isParam(xc.Call.Args[0]) {
						verdict = "strings.CutPrefix of the ciphertext"
					}
				}

				if verdict == "" && !derivesFrom(arg, isParam, func(string) bool { return true }) {
					verdict = "not computed from a parameter (an internal constant or intermediate)"
				}

				return verdict
			}

			// a decoding helper: the text is its parameter, and what matters is
			// what each caller in the tree hands it
			if p, isP := arg.(*ssa.Parameter); isP && len(tree) > 0 && fn != tree[0] {
				idx := -1

				for i, q := range fn.Params {
					if q == p {
						idx = i
					}
				}

				for _, caller := range tree {
					allInstrs(caller, func(ci ssa.Instruction) {
						cc, ok := ci.(*ssa.Call)
						if !ok || calleeFunction(cc.Common()) != fn || idx < 0 || idx >= len(cc.Call.Args) {
							return
						}

						ckey := fnKey(caller) + "|decoder input through " + fnKey(fn)

						if v := classify(cc.Call.Args[idx]); v != "" {
							r.Discharge("R-C27-5", ckey, w.pos(cc.Pos()), v)
						} else {
							r.Violate("R-C27-5", ckey, w.pos(cc.Pos()), "the text handed to the decoder is computed from the ciphertext by something other than slicing off a constant-length marker ("+valueName(cc.Call.Args[idx])+"): texts other than the genuine ciphertext decode to the same authenticated bytes and are accepted, or genuine ciphertexts stop decoding")
						}
					})
				}

				return
			}

			verdict := classify(arg)

			if verdict != "" {
				r.Discharge("R-C27-5", key, w.pos(c.Pos()), verdict)
			} else {
				r.Violate("R-C27-5", key, w.pos(c.Pos()), "the text handed to the decoder is computed from the ciphertext by something other than slicing off a constant-length marker ("+valueName(arg)+"): texts other than the genuine ciphertext decode to the same authenticated bytes and are accepted, or genuine ciphertexts stop decoding")
			}
		})
	}
}
