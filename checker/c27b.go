package main

import (
	"go/token"

	"golang.org/x/tools/go/ssa"
)

// c27CanonicalText: R-C27-6. base64 decoding is many-to-one: the decoder skips
// CR and LF and ignores the unused low bits of the last symbol before the
// padding. The authenticated decryption only sees the decoded bytes, so every
// text in such a class decrypts; "any altered ciphertext is refused" needs the
// text itself to be checked against the one canonical encoding of its bytes.
func c27CanonicalText(w *World, r *Report, rel string, tree []*ssa.Function) {
	canonicalText(w, r, "R-C27-6", "encoding/base64.Encoding.DecodeString", "encoding/base64.Encoding.EncodeToString", tree)
}

// canonicalText is the analysis of R-C27-6 for one decoder / encoder pair; C21
// runs it for the hex text of a native token (R-C21-8).
func canonicalText(w *World, r *Report, rule, decoder, encoder string, tree []*ssa.Function) {
	for _, fn := range tree {
		allInstrs(fn, func(in ssa.Instruction) {
			d, ok := in.(*ssa.Call)
			if !ok || callID(d.Common()) != decoder {
				return
			}

			text := stripValue(d.Call.Args[len(d.Call.Args)-1])
			key := fnKey(fn) + "|decoded text is the canonical text"

			fromDecoder := func(v ssa.Value) bool {
				return derivesFrom(v, func(s ssa.Value) bool {
					e, ok := s.(*ssa.Extract)

					return ok && e.Tuple == ssa.Value(d) && e.Index == 0
				}, nil)
			}

			isReencoded := func(v ssa.Value) bool {
				c, ok := stripValue(v).(*ssa.Call)
				if !ok || callID(c.Common()) != encoder {
					return false
				}

				return fromDecoder(c.Call.Args[len(c.Call.Args)-1])
			}

			cuts := cutEdges(fn, func(f Fact) bool {
				if f.Kind != "cmp" || f.Op != token.EQL {
					return false
				}

				return isReencoded(f.X) && stripValue(f.Y) == text || isReencoded(f.Y) && stripValue(f.X) == text
			})

			if len(cuts) == 0 {
				r.Violate(rule, key, w.pos(in.Pos()), "the decoded bytes are used without comparing their re-encoding with the text that was given: the decoder maps several texts to the same bytes (base64 skips line breaks and ignores the spare bits of the last symbol, hex accepts upper-case digits), so an edited text decodes to the same bytes and is accepted")

				return
			}

			hit := pathAvoiding(d, cuts, func(ssa.Instruction) bool { return false }, func(i ssa.Instruction) bool {
				ret, ok := i.(*ssa.Return)

				return ok && len(ret.Results) == 2 && isNilConst(stripValue(retResult(ret, 1)))
			})

			if hit != nil {
				r.Violate(rule, key, w.pos(hit.Pos()), "a successful return is reachable from the decoder without the canonical-text comparison having held")
			} else {
				r.Discharge(rule, key, w.pos(in.Pos()), "success only behind EncodeToString(decoded) == text")
			}
		})
	}
}
