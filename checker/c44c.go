package main

import (
	"strings"

	"golang.org/x/tools/go/packages"
	"golang.org/x/tools/go/ssa"
)

// R-C44-8: the configuration store does not write the values of secret
// settings to the log.
//
// The server log is returned to clients by the log endpoint, so what the
// settings package logs about a value is part of a response. In package
// settings every ui.Log record is examined: a value that is stored into, or
// read out of, a configuration's Items map and then put into the record must
// first pass a function that answers a constant whenever
// defs.RestrictedSettings[key] is true for the key of that item.

func c44SettingsLog(w *World, r *Report, defs *packages.Package) {
	r.Rule("R-C44-8", "the configuration store logs no secret: in package settings a value written to or read from a configuration's Items map reaches a ui.Log record only through a function that returns a constant whenever defs.RestrictedSettings[key] is true for the item's key (the server log is returned by the log endpoint)", 2)

	sp := w.pkg("internal/cli/settings")
	if sp == nil {
		r.Anchor("R-C44-8", "package internal/cli/settings")

		return
	}

	isItemsMap := func(v ssa.Value) bool {
		u, ok := v.(*ssa.UnOp)
		if !ok {
			return false
		}

		fa, ok := u.X.(*ssa.FieldAddr)

		return ok && fieldName(fa.X.Type(), fa.Field) == "Items"
	}

	isRestrictedLookup := func(v ssa.Value, key ssa.Value) bool {
		lk, ok := v.(*ssa.Lookup)
		if !ok || resolveLocal(lk.Index) != resolveLocal(key) {
			return false
		}

		ld, ok := lk.X.(*ssa.UnOp)
		if !ok {
			return false
		}

		g, ok := ld.X.(*ssa.Global)

		return ok && g.Name() == "RestrictedSettings" && g.Pkg.Pkg.Path() == defs.PkgPath
	}

	// masks reports whether fn answers a constant whenever its parameter ki
	// names a restricted setting.
	masks := func(fn *ssa.Function, ki int) bool {
		if len(fn.Blocks) == 0 || ki >= len(fn.Params) {
			return false
		}

		key := fn.Params[ki]

		cuts := cutEdges(fn, func(f Fact) bool { return f.Kind == "false" && isRestrictedLookup(f.V, key) })
		if len(cuts) == 0 {
			return false
		}

		ok := true

		for _, ret := range returnsOf(fn) {
			if !instrReachableAfterCut(fn, ret, cuts) {
				continue
			}

			for _, v := range retResults(ret) {
				if _, isConst := stripValue(v).(*ssa.Const); !isConst {
					ok = false
				}
			}
		}

		return ok
	}

	n := 0

	for _, fn := range w.srcFuncs(sp) {
		// item values of this function: stored into / looked up from an Items map
		type item struct {
			val, key ssa.Value
		}

		var items []item

		allInstrs(fn, func(in ssa.Instruction) {
			switch x := in.(type) {
			case *ssa.MapUpdate:
				if isItemsMap(x.Map) {
					items = append(items, item{stripValue(x.Value), x.Key})
				}
			case *ssa.Lookup:
				if isItemsMap(x.X) {
					items = append(items, item{x, x.Index})
				}
			}
		})

		if len(items) == 0 {
			continue
		}

		keyOf := func(v ssa.Value) (ssa.Value, bool) {
			v = stripValue(v)
			if ex, ok := v.(*ssa.Extract); ok {
				v = ex.Tuple
			}

			for _, it := range items {
				iv := it.val
				if ex, ok := iv.(*ssa.Extract); ok {
					iv = ex.Tuple
				}

				if iv == v || resolveLocal(iv) == resolveLocal(v) {
					return it.key, true
				}
			}

			return nil, false
		}

		allInstrs(fn, func(in ssa.Instruction) {
			c := callTo(in, "internal/cli/ui.Log")
			if c == nil || len(c.Args) < 3 {
				return
			}

			rec := stripValue(c.Args[2])

			mk, ok := rec.(*ssa.MakeMap)
			if !ok {
				return
			}

			for _, ref := range *mk.Referrers() {
				mu, ok := ref.(*ssa.MapUpdate)
				if !ok || mu.Map != ssa.Value(mk) {
					continue
				}

				field, _ := constString(mu.Key)
				v := stripValue(mu.Value)

				// through a masking function?
				if call, isCall := v.(*ssa.Call); isCall {
					callee := call.Common().StaticCallee()
					masked, carries := false, false

					for ai, a := range call.Common().Args {
						if _, isItem := keyOf(a); !isItem {
							continue
						}

						carries = true

						// the key of that item must be another argument, and the callee must mask on it
						k, _ := keyOf(a)

						for ki, ka := range call.Common().Args {
							if ki != ai && resolveLocal(ka) == resolveLocal(k) && callee != nil && masks(callee, ki) {
								masked = true
							}
						}
					}

					if !carries {
						continue
					}

					n++
					key := fnKey(fn) + "|log field " + field

					if masked {
						r.Discharge("R-C44-8", key, w.pos(mu.Pos()), "through "+fnKey(callee)+", which returns a constant for a restricted key")
					} else {
						r.Violate("R-C44-8", key, w.pos(mu.Pos()), "a configuration value is logged through a function that does not hide it when defs.RestrictedSettings names its key")
					}

					continue
				}

				if _, isItem := keyOf(v); isItem {
					n++

					r.Violate("R-C44-8", fnKey(fn)+"|log field "+field, w.pos(mu.Pos()), "the value of a configuration item is written to the log as it is: with the APP logger on, the server token key, the logon tokens and the OAuth client secret held in the configuration are in the server log, which the log endpoint returns to its caller")
				}
			}
		})
	}

	r.Unit("settings_log_records_with_item_values", n)

	_ = strings.TrimSpace
}
