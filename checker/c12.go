package main

import (
	"go/types"
	"sort"
	"strings"

	"golang.org/x/tools/go/ssa"
)

// C12 Diagnostics modes do not change behaviour.

func init() {
	register(&propertyCheck{
		id: "C12", level: "other", needs: loadNeeds{ssa: true},
		decides: "that profiling and tracing code cannot write interpreter state, and that no lock taken by the interpreter outlives the function that took it: (1) effect confinement — in package bytecode, the functions that exist only for diagnostics (traceInstruction, Context.traceLine, Context.FlushProfileTimer, ByteCode.ensureProfileSlot) and every block that is executed only on the true edge of a diagnostics test (profilingActive.Load(), Context.Tracing(), c.tracing, ui.IsActive(TraceLogger)) store to no field of Context other than the profiling fields and call nothing that (transitively, within the package) does, nor a symbol-table mutator; " +
			"(2) lock pairing — every Lock/RLock in packages bytecode and debugger is released on every path to a return or by a deferred unlock, so the early return that hands control to the debugger cannot leave the context mutex held.",
		misses: "the interactive debugger's own command loop, interleaving of trace text with program output on the same writer (listed as info where tracing writes to c.output), timing.",
		run:    runC12,
	})
}

// Context fields diagnostics code may write.
var c12AllowedFields = map[string]bool{"profileSlot": true, "profileStart": true}

func runC12(w *World, r *Report) {
	r.Rule("R-C12-1", "effect confinement: diagnostics-only functions and blocks guarded by a diagnostics test write no Context field except {profileSlot, profileStart}, call no function that does, and call no symbol-table mutator", 15)
	r.Rule("R-C12-4", "no nested acquisition of the context mutex: a function that holds bytecode.Context.mux calls on that context no method that takes it again (profiling, tracing and line bookkeeping run under it while a goroutine is being launched)", 3)
	noNestedAcquire(w, r, "R-C12-4", "internal/language/bytecode", "Context")
	c12SignalsAreNotErrors(w, r)
	c12TraceNotCaptured(w, r)
	c12DebuggerKeepsOutcome(w, r)
	c12DiagnosticOutputNotCaptured(w, r)
	r.Rule("R-C12-2", "lock pairing: every Lock/RLock in packages bytecode and debugger is released on all paths to a return (directly or by defer)", 10)

	bp := w.pkg("internal/language/bytecode")
	dp := w.pkg("internal/language/debugger")

	if bp == nil || dp == nil {
		r.Anchor("R-C12-1", "packages language/bytecode, language/debugger")

		return
	}

	fns := w.srcFuncs(bp)
	r.Unit("functions_bytecode", len(fns))

	isCtx := func(t types.Type) bool {
		n := namedOf(t)

		return n != nil && n.Obj().Name() == "Context" && n.Obj().Pkg() == bp.Types
	}

	// ---- direct effects per function
	type effects map[string]string // effect name -> position of one witness

	direct := map[*ssa.Function]effects{}
	inPkg := map[*ssa.Function]bool{}

	for _, fn := range fns {
		inPkg[fn] = true
	}

	ctxFieldOfAddr := func(addr ssa.Value) string {
		switch x := addr.(type) {
		case *ssa.FieldAddr:
			if isCtx(x.X.Type()) {
				return fieldName(x.X.Type(), x.Field)
			}
		case *ssa.IndexAddr:
			// c.stack[i] = v
			if u, ok := x.X.(*ssa.UnOp); ok {
				if fa, ok := u.X.(*ssa.FieldAddr); ok && isCtx(fa.X.Type()) {
					return fieldName(fa.X.Type(), fa.Field) + "[]"
				}
			}
		}

		return ""
	}

	symMutators := map[string]bool{"Set": true, "SetAlways": true, "Create": true, "Delete": true, "SetConstant": true, "SetWithAttributes": true, "SetReadOnly": true, "SetGlobal": true, "SetAlwaysRegister": true}

	for _, fn := range fns {
		e := effects{}

		allInstrs(fn, func(in ssa.Instruction) {
			switch x := in.(type) {
			case *ssa.Store:
				if f := ctxFieldOfAddr(x.Addr); f != "" && !c12AllowedFields[f] {
					e["Context."+f] = w.pos(x.Pos())
				}
			case *ssa.MapUpdate:
				if u, ok := x.Map.(*ssa.UnOp); ok {
					if fa, ok := u.X.(*ssa.FieldAddr); ok && isCtx(fa.X.Type()) {
						e["Context."+fieldName(fa.X.Type(), fa.Field)+"[]"] = w.pos(x.Pos())
					}
				}
			case ssa.CallInstruction:
				id := callID(x.Common())
				if strings.HasPrefix(id, "internal/language/symbols.SymbolTable.") && symMutators[strings.TrimPrefix(id, "internal/language/symbols.SymbolTable.")] {
					e["symbol table ("+strings.TrimPrefix(id, "internal/language/symbols.SymbolTable.")+")"] = w.pos(in.Pos())
				}

				// atomic fields of Context: c.running.Store(…)
				if strings.HasPrefix(id, "sync/atomic.") && (strings.HasSuffix(id, ".Store") || strings.HasSuffix(id, ".Add") || strings.HasSuffix(id, ".Swap") || strings.HasSuffix(id, ".CompareAndSwap")) && len(x.Common().Args) > 0 {
					if f := ctxFieldOfAddr(x.Common().Args[0]); f != "" && !c12AllowedFields[f] {
						e["Context."+f] = w.pos(in.Pos())
					}
				}
			}
		})

		direct[fn] = e
	}

	// ---- transitive closure within the package (static callees and closures)
	total := map[*ssa.Function]effects{}

	for fn, e := range direct {
		t := effects{}
		for k, v := range e {
			t[k] = v
		}

		total[fn] = t
	}

	calleesOf := func(fn *ssa.Function) []*ssa.Function {
		var out []*ssa.Function

		allInstrs(fn, func(in ssa.Instruction) {
			if ci, ok := in.(ssa.CallInstruction); ok {
				if cf := calleeFunction(ci.Common()); cf != nil && inPkg[cf] {
					out = append(out, cf)
				}
			}

			if mc, ok := in.(*ssa.MakeClosure); ok {
				if cf, ok := mc.Fn.(*ssa.Function); ok && inPkg[cf] {
					out = append(out, cf)
				}
			}
		})

		return out
	}

	callees := map[*ssa.Function][]*ssa.Function{}
	for _, fn := range fns {
		callees[fn] = calleesOf(fn)
	}

	for changed := true; changed; {
		changed = false

		for _, fn := range fns {
			for _, cf := range callees[fn] {
				for k := range total[cf] {
					if _, have := total[fn][k]; !have {
						total[fn][k] = "via " + fnKey(cf)
						changed = true
					}
				}
			}
		}
	}

	effectList := func(e effects) string {
		var ks []string
		for k := range e {
			ks = append(ks, k)
		}

		sort.Strings(ks)

		if len(ks) > 4 {
			ks = append(ks[:4], "…")
		}

		return strings.Join(ks, ", ")
	}

	// ---- (a) diagnostics-only functions
	for _, name := range []string{"traceInstruction", "Context.traceLine", "Context.FlushProfileTimer", "ByteCode.ensureProfileSlot"} {
		fn := w.ssaFunc(bp, name)
		if fn == nil {
			r.Anchor("R-C12-1", "bytecode."+name)

			continue
		}

		key := fnKey(fn) + "|diagnostics function writes no interpreter state"
		if e := total[fn]; len(e) > 0 {
			r.Violate("R-C12-1", key, w.pos(fn.Pos()), "writes "+effectList(e)+": running with the diagnostic switched on changes what the program does")
		} else {
			r.Discharge("R-C12-1", key, w.pos(fn.Pos()), "no store to Context outside the profiling fields, no symbol-table mutation")
		}
	}

	// ---- (b) guarded blocks
	isGuard := func(v ssa.Value) string {
		switch x := v.(type) {
		case *ssa.Call:
			switch id := callID(x.Common()); id {
			case "internal/language/bytecode.Context.Tracing":
				return "c.Tracing()"
			case "internal/cli/ui.IsActive":
				if len(x.Call.Args) == 1 {
					if k, isC := constInt(x.Call.Args[0]); isC {
						if tl := lookupConstIntAny(w, "internal/cli/ui", "TraceLogger"); tl != nil && *tl == k {
							return "ui.IsActive(TraceLogger)"
						}
					}
				}
			case "sync/atomic.Bool.Load":
				if g, ok := x.Call.Args[0].(*ssa.Global); ok && g.Name() == "profilingActive" {
					return "profilingActive.Load()"
				}
			}
		case *ssa.UnOp:
			if fa, ok := x.X.(*ssa.FieldAddr); ok && isCtx(fa.X.Type()) && fieldName(fa.X.Type(), fa.Field) == "tracing" {
				return "c.tracing"
			}
		}

		return ""
	}

	nGuards := 0

	for _, fn := range fns {
		count := map[string]int{}

		for _, b := range fn.Blocks {
			if len(b.Instrs) == 0 {
				continue
			}

			ifi, ok := b.Instrs[len(b.Instrs)-1].(*ssa.If)
			if !ok {
				continue
			}

			// the true edge of `guard` or of `x && guard` (the last test of a conjunction)
			for _, f := range edgeFacts(ifi.Cond, true) {
				if f.Kind != "true" {
					continue
				}

				g := isGuard(f.V)
				if g == "" {
					continue
				}

				tb := b.Succs[0]
				if len(tb.Preds) != 1 {
					continue
				}

				nGuards++

				key := fnKey(fn) + "|block under " + g
				count[key]++

				if n := count[key]; n > 1 {
					key += "#" + sprintInt(n)
				}

				problems := effects{}

				var infos []string

				for _, d := range fn.Blocks {
					if !tb.Dominates(d) {
						continue
					}

					for _, in := range d.Instrs {
						switch x := in.(type) {
						case *ssa.Store:
							if fl := ctxFieldOfAddr(x.Addr); fl != "" && !c12AllowedFields[fl] {
								problems["Context."+fl] = w.pos(x.Pos())
							}
						case ssa.CallInstruction:
							id := callID(x.Common())
							if strings.HasPrefix(id, "internal/language/symbols.SymbolTable.") && symMutators[strings.TrimPrefix(id, "internal/language/symbols.SymbolTable.")] {
								problems["symbol table"] = w.pos(in.Pos())
							}

							if cf := calleeFunction(x.Common()); cf != nil && inPkg[cf] {
								for k := range total[cf] {
									problems[k+" (through "+fnKey(cf)+")"] = w.pos(in.Pos())
								}
							}

							// writes to the program's own output writer under the guard
							if id == "fmt.Fprintln" || id == "fmt.Fprintf" || id == "fmt.Fprint" {
								if len(x.Common().Args) > 0 {
									if derivesFrom(x.Common().Args[0], func(s ssa.Value) bool {
										fa, ok := s.(*ssa.FieldAddr)

										return ok && isCtx(fa.X.Type()) && fieldName(fa.X.Type(), fa.Field) == "output"
									}, nil) {
										infos = append(infos, w.pos(in.Pos()))
									}
								}
							}
						}
					}
				}

				if len(problems) > 0 {
					first := ""
					for _, k := range sortedKeys(problems) {
						first = problems[k]

						break
					}

					r.Violate("R-C12-1", key, first, "code that runs only when the diagnostic is on writes "+effectList(problems)+": the program behaves differently with it switched on")
				} else {
					r.Discharge("R-C12-1", key, w.pos(ifi.Pos()), "no interpreter state written")
				}

				for _, p := range infos {
					r.Info("R-C12-1", key+"|writes to c.output", p, "trace mode writes to the program's output writer here (trace text shares the writer by design; not judged)")
				}
			}
		}
	}

	r.Unit("diagnostic_guards", nGuards)

	if nGuards < 10 {
		r.Violate("R-C12-1", "bytecode|diagnostic guards found", "", "only "+sprintInt(nGuards)+" diagnostics tests found in package bytecode (expected more than ten)")
	}

	// ------------------------------------------------------------ R-C12-2
	nLocks := 0

	for _, p := range []*struct {
		name string
		fns  []*ssa.Function
	}{{"bytecode", fns}, {"debugger", w.srcFuncs(dp)}} {
		for _, fn := range p.fns {
			leaks := unbalancedLocks(fn, nil)
			leakAt := map[ssa.Instruction]lockLeak{}

			for _, l := range leaks {
				leakAt[l.lock] = l
			}

			count := map[string]int{}

			allInstrs(fn, func(in ssa.Instruction) {
				ci, ok := in.(*ssa.Call)
				if !ok {
					return
				}

				op, ok := mutexOp(ci.Common())
				if !ok || (op.kind != "Lock" && op.kind != "RLock") {
					return
				}

				// a mutex held in a plain local is a value of the Ego program (sync.Mutex
				// method dispatch in callNative.go), not interpreter state: Lock() there is
				// supposed to return with the program's mutex held
				if !strings.Contains(op.id, ".") {
					return
				}

				nLocks++

				key := fnKey(fn) + "|" + op.kind + " " + op.id + " released on every exit"
				count[key]++

				if n := count[key]; n > 1 {
					key += "#" + sprintInt(n)
				}

				if l, bad := leakAt[in]; bad {
					if why, ok := c12LockOK[key]; ok {
						r.Except("R-C12-2", key, w.pos(in.Pos()), why)
					} else {
						r.Violate("R-C12-2", key, w.pos(in.Pos()), "the return at "+w.pos(l.exit.Pos())+" is reached with "+op.id+" still held: the next statement (or the debugger taking over) blocks forever")
					}
				} else {
					r.Discharge("R-C12-2", key, w.pos(in.Pos()), "released or deferred on all paths")
				}
			})
		}
	}

	r.Unit("lock_sites", nLocks)

	// ------------------------------------------------------------ R-C12-3
	// No method is called with a mutex of its receiver held that the method itself takes
	// (sync.Mutex and sync.RWMutex are not re-entrant): the seeded case is a trace message
	// built inside a locked region by a String() method that read-locks the same mutex.
	r.Rule("R-C12-3", "no re-entrant locking: in packages bytecode, data and debugger no method that locks a mutex of its receiver (directly or through other methods of the receiver) is called while the caller holds that mutex of the same value", 20)

	dpk := w.pkg("internal/language/data")
	if dpk == nil {
		r.Anchor("R-C12-3", "package language/data")

		return
	}

	var scope []*ssa.Function

	scope = append(scope, fns...)
	scope = append(scope, w.srcFuncs(dp)...)
	scope = append(scope, w.srcFuncs(dpk)...)

	// acquires[m] = names of the receiver's mutex fields m locks
	acquires := map[*ssa.Function]map[string]string{}

	recvOf := func(fn *ssa.Function) ssa.Value {
		if fn.Signature.Recv() == nil || len(fn.Params) == 0 {
			return nil
		}

		return fn.Params[0]
	}

	for _, fn := range scope {
		rv := recvOf(fn)
		if rv == nil {
			continue
		}

		allInstrs(fn, func(in ssa.Instruction) {
			ci, ok := in.(*ssa.Call) // deferred unlocks are not acquisitions; a deferred Lock does not occur
			if !ok {
				return
			}

			op, ok := mutexOp(ci.Common())
			if !ok || (op.kind != "Lock" && op.kind != "RLock") {
				return
			}

			// the mutex is a field of the receiver
			var fa *ssa.FieldAddr

			switch x := ci.Call.Args[0].(type) {
			case *ssa.FieldAddr:
				fa = x
			case *ssa.UnOp:
				fa, _ = x.X.(*ssa.FieldAddr)
			}

			if fa == nil || fa.X != rv {
				return
			}

			if acquires[fn] == nil {
				acquires[fn] = map[string]string{}
			}

			acquires[fn][fieldName(fa.X.Type(), fa.Field)] = op.kind
		})
	}

	for changed := true; changed; {
		changed = false

		for _, fn := range scope {
			rv := recvOf(fn)
			if rv == nil {
				continue
			}

			allInstrs(fn, func(in ssa.Instruction) {
				ci, ok := in.(*ssa.Call)
				if !ok {
					return
				}

				cf := calleeFunction(ci.Common())
				if cf == nil || len(acquires[cf]) == 0 || len(ci.Call.Args) == 0 || ci.Call.Args[0] != rv {
					return
				}

				for f, k := range acquires[cf] {
					if acquires[fn] == nil {
						acquires[fn] = map[string]string{}
					}

					if _, have := acquires[fn][f]; !have {
						acquires[fn][f] = k
						changed = true
					}
				}
			})
		}
	}

	nCalls := 0

	for _, fn := range scope {
		ls := computeLocksets(fn, nil, nil)
		count := map[string]int{}

		allInstrs(fn, func(in ssa.Instruction) {
			ci, ok := in.(*ssa.Call)
			if !ok {
				return
			}

			cf := calleeFunction(ci.Common())
			if cf == nil || len(acquires[cf]) == 0 || len(ci.Call.Args) == 0 {
				return
			}

			nCalls++

			base := lockPath(ci.Call.Args[0])
			held := ls.heldAt(in)

			key := fnKey(fn) + "|calls " + fnKey(cf) + " without holding its lock"
			count[key]++

			if n := count[key]; n > 1 {
				key += "#" + sprintInt(n)
			}

			bad := ""

			for f, want := range acquires[cf] {
				if mode, ok := held[base+"."+f]; ok {
					if want == "Lock" || mode == 'W' {
						bad = base + "." + f
					}
				}
			}

			if bad != "" {
				r.Violate("R-C12-3", key, w.pos(in.Pos()), fnKey(cf)+" locks "+bad+", which the caller already holds here: the goroutine blocks on its own lock (with the seeded form, only when the trace logger is active)")
			} else {
				r.Discharge("R-C12-3", key, w.pos(in.Pos()), "")
			}
		})
	}

	r.Unit("calls_to_locking_methods", nCalls)
}

// c12LockOK: locks that are intentionally handed to the caller (named, with reason).
var c12LockOK = map[string]string{}

func lookupConstIntAny(w *World, rel, name string) *int64 {
	p := w.pkg(rel)
	if p == nil {
		return nil
	}

	return lookupConstInt(p, name)
}

// c12SignalsAreNotErrors: R-C12-5. The values instructions return to talk to the
// run loop (stop, hand control to the debugger, a panic is unwinding) are not
// errors of the program: handleCatch must pass each through before it looks at
// the try stack, or a diagnostic mode changes which catch blocks run.
var c12Signals = []string{"ErrStop", "ErrSignalDebugger", "ErrPanicActive"}

func c12SignalsAreNotErrors(w *World, r *Report) {
	r.Rule("R-C12-5", "bytecode.handleCatch passes every run-loop signal (ErrStop, ErrSignalDebugger, ErrPanicActive) through without consulting the try stack: the jump to a catch address is unreachable once the 'err is not this signal' edge of its test is removed", 3)

	bp := w.pkg("internal/language/bytecode")

	fn := w.ssaFunc(bp, "handleCatch")
	if fn == nil {
		r.Anchor("R-C12-5", "bytecode.handleCatch")

		return
	}

	// the dispatch: the store of the catch address into the program counter
	var dispatch ssa.Instruction

	allInstrs(fn, func(in ssa.Instruction) {
		if st, ok := in.(*ssa.Store); ok && isFieldNamed(st.Addr, "programCounter") {
			dispatch = in
		}
	})

	if dispatch == nil {
		r.Anchor("R-C12-5", "the store to Context.programCounter in handleCatch")

		return
	}

	for _, sig := range c12Signals {
		key := "bytecode.handleCatch|passes " + sig + " through"

		n := 0

		cuts := cutEdges(fn, func(f Fact) bool {
			if f.Kind != "false" {
				return false
			}

			c, ok := f.V.(*ssa.Call)
			if !ok || !strings.HasSuffix(callID(c.Common()), "errors.Equals") || len(c.Call.Args) != 2 {
				return false
			}

			for _, a := range c.Call.Args {
				if derivesFrom(a, func(v ssa.Value) bool {
					g, isG := v.(*ssa.Global)

					return isG && g.Name() == sig
				}, nil) {
					n++

					return true
				}
			}

			return false
		})

		switch {
		case n == 0:
			r.Violate("R-C12-5", key, w.pos(fn.Pos()), "handleCatch never tests for "+sig+": when an instruction returns it inside a try body, the signal is taken for an error of the program and the catch block runs (under --debug every statement start returns ErrSignalDebugger, so the first statement of every try body jumps to its catch block)")
		case instrReachableAfterCut(fn, dispatch, cuts):
			r.Violate("R-C12-5", key, w.pos(dispatch.Pos()), "the jump to the catch address is reachable for "+sig)
		default:
			r.Discharge("R-C12-5", key, w.pos(fn.Pos()), "returned before the try stack is consulted")
		}
	}
}
