package main

import (
	"go/ast"
	"go/token"
	"go/types"
	"strings"

	"golang.org/x/tools/go/ssa"
)

// C02 Performance settings never change program behaviour.

func init() {
	register(&propertyCheck{
		id: "C02", level: "other", needs: loadNeeds{ssa: true},
		decides: "that the optimizer's rewrite table, the fused opcodes and the global-table cache are structurally unable to introduce a case the plain path does not have: (1) dispatch completeness — every opcode that is emitted anywhere in the repository, or named as an Operation in the peephole table, has a handler assigned in the dispatch table (the run loop silently skips an opcode without one); " +
			"(2) peephole table well-formedness — every named placeholder used in a rule's Replacement is bound in its Pattern, and no rule has an empty Pattern; (3) the fused Increment handler covers every operand type Add covers (a type missing there makes `x = x + k` fail only when optimized); (4) the global-table cache remembers a table only on the true edge of IsGlobalSingleton() and is read and written only when GlobalCacheEnabled is set.",
		misses: "the equality of results across settings for arbitrary programs; the slot-eligibility analysis of local-variable registers; symbol-table allocation sizes; that a rewrite rule's replacement computes what its pattern computed.",
		run:    runC02,
	})
}

func runC02(w *World, r *Report) {
	r.Rule("R-C02-1", "dispatch completeness: every opcode emitted (Emit/EmitAt with a constant opcode) or used as Operation in the peephole table has a dispatchTable assignment", 100)
	r.Rule("R-C02-2", "peephole rules: Pattern is not empty; every named placeholder of Replacement occurs in Pattern", 20)
	r.Rule("R-C02-3", "fused handler coverage: the type switch of incrementByteCode has every numeric and string case addByteCode has", 10)
	r.Rule("R-C02-4", "global cache: cacheGlobalTable only behind IsGlobalSingleton() == true and GlobalCacheEnabled; cachedGlobalTable only behind GlobalCacheEnabled", 8)

	c02Declarations(w, r)
	c02ClosureScanIgnoresDepth(w, r)
	c02RegisterSiblings(w, r)

	bp := w.pkg("internal/language/bytecode")
	if bp == nil {
		r.Anchor("R-C02-1", "package language/bytecode")

		return
	}

	// ---- opcode names
	opT, _ := lookupObj(bp, "Opcode").(*types.TypeName)
	if opT == nil {
		r.Anchor("R-C02-1", "bytecode.Opcode")

		return
	}

	names := map[int64]string{}

	for _, c := range constsOfType(bp, opT.Type()) {
		if v := lookupConstInt(bp, c.Name()); v != nil {
			if _, dup := names[*v]; !dup {
				names[*v] = c.Name()
			}
		}
	}

	// ---- handlers assigned
	handled := map[int64]bool{}

	if init := w.ssaFunc(bp, "initializeDispatch"); init == nil {
		r.Anchor("R-C02-1", "bytecode.initializeDispatch")

		return
	} else {
		allInstrs(init, func(in ssa.Instruction) {
			st, ok := in.(*ssa.Store)
			if !ok {
				return
			}

			ia, ok := st.Addr.(*ssa.IndexAddr)
			if !ok {
				return
			}

			if k, isC := constInt(ia.Index); isC && !isNilConst(st.Val) {
				handled[k] = true
			}
		})
	}

	r.Unit("opcodes_with_handler", len(handled))

	// ---- opcodes emitted anywhere
	emitted := map[int64]string{}

	for _, p := range w.pkgs {
		for _, fn := range w.srcFuncs(p) {
			allInstrs(fn, func(in ssa.Instruction) {
				if k := emitOf(in); k >= 0 {
					if _, seen := emitted[k]; !seen {
						emitted[k] = w.pos(in.Pos())
					}
				}
			})
		}
	}

	// ---- the peephole table (AST)
	type rule struct {
		desc        string
		pos         token.Pos
		patternN    int
		patNames    map[string]bool
		replNames   map[string]token.Pos
		patternSeen bool
	}

	var rules []rule

	placeholderNames := func(n ast.Node, into func(name string, pos token.Pos)) {
		ast.Inspect(n, func(x ast.Node) bool {
			cl, ok := x.(*ast.CompositeLit)
			if !ok {
				return true
			}

			if id, ok := cl.Type.(*ast.Ident); !ok || id.Name != "placeholder" {
				return true
			}

			// a placeholder with an Operation (optRead, optRunConstantFragment, OptCount) computes its
			// operand from a register or a fragment; its Name is a label, not a binding
			computed := false

			for _, e := range cl.Elts {
				if kv, ok := e.(*ast.KeyValueExpr); ok {
					if k, ok := kv.Key.(*ast.Ident); ok && k.Name == "Operation" {
						computed = true
					}
				}
			}

			for _, e := range cl.Elts {
				kv, ok := e.(*ast.KeyValueExpr)
				if !ok {
					continue
				}

				if k, ok := kv.Key.(*ast.Ident); ok && k.Name == "Name" && !computed {
					if tv, ok := bp.TypesInfo.Types[kv.Value]; ok && tv.Value != nil {
						into(strings.Trim(tv.Value.ExactString(), `"`), cl.Pos())
					}
				}
			}

			return true
		})
	}

	for _, file := range bp.Syntax {
		for _, d := range file.Decls {
			gd, ok := d.(*ast.GenDecl)
			if !ok || gd.Tok != token.VAR {
				continue
			}

			for _, sp := range gd.Specs {
				vs := sp.(*ast.ValueSpec)
				if len(vs.Names) != 1 || vs.Names[0].Name != "optimizations" || len(vs.Values) != 1 {
					continue
				}

				tbl, ok := vs.Values[0].(*ast.CompositeLit)
				if !ok {
					continue
				}

				for _, el := range tbl.Elts {
					rl, ok := el.(*ast.CompositeLit)
					if !ok {
						continue
					}

					ru := rule{pos: rl.Pos(), patNames: map[string]bool{}, replNames: map[string]token.Pos{}}

					for _, f := range rl.Elts {
						kv, ok := f.(*ast.KeyValueExpr)
						if !ok {
							continue
						}

						k, _ := kv.Key.(*ast.Ident)
						if k == nil {
							continue
						}

						switch k.Name {
						case "Description":
							if tv, ok := bp.TypesInfo.Types[kv.Value]; ok && tv.Value != nil {
								ru.desc = strings.Trim(tv.Value.ExactString(), `"`)
							}
						case "Pattern":
							ru.patternSeen = true

							if cl, ok := kv.Value.(*ast.CompositeLit); ok {
								ru.patternN = len(cl.Elts)
							}

							placeholderNames(kv.Value, func(n string, _ token.Pos) { ru.patNames[n] = true })
						case "Replacement":
							placeholderNames(kv.Value, func(n string, p token.Pos) { ru.replNames[n] = p })
						}

						// opcodes named in the rule
						if k.Name == "Pattern" || k.Name == "Replacement" {
							ast.Inspect(kv.Value, func(x ast.Node) bool {
								ikv, ok := x.(*ast.KeyValueExpr)
								if !ok {
									return true
								}

								if ik, ok := ikv.Key.(*ast.Ident); ok && ik.Name == "Operation" {
									if tv, ok := bp.TypesInfo.Types[ikv.Value]; ok && tv.Value != nil && types.Identical(tv.Type, opT.Type()) {
										if v, exact := constantInt64(tv.Value); exact {
											if _, seen := emitted[v]; !seen {
												emitted[v] = w.pos(ikv.Pos())
											}
										}
									}
								}

								return true
							})
						}
					}

					rules = append(rules, ru)
				}
			}
		}
	}

	if len(rules) < 10 {
		r.Anchor("R-C02-2", "the optimizations table (found "+sprintInt(len(rules))+" rules)")
	}

	// R-C02-1
	for k, where := range emitted {
		name := names[k]
		if name == "" {
			name = "opcode#" + sprintInt(int(k))
		}

		key := "bytecode.dispatchTable|handler for " + name
		if name == "NoOperation" {
			r.Except("R-C02-1", key, where, "the one opcode that is meant to be skipped: the placeholder the function compiler patches into AllocateLocal")

			continue
		}

		if handled[k] {
			r.Discharge("R-C02-1", key, where, "")
		} else {
			r.Violate("R-C02-1", key, where, "the opcode "+name+" is emitted (or produced by a peephole rule) but has no handler in the dispatch table: the run loop skips it without a word, so the program silently does something else")
		}
	}

	// R-C02-2
	seenDesc := map[string]int{}

	for _, ru := range rules {
		d := ru.desc
		if d == "" {
			d = "rule at " + w.pos(ru.pos)
		}

		seenDesc[d]++

		if n := seenDesc[d]; n > 1 {
			d += "#" + sprintInt(n)
		}

		key := "bytecode.optimizations|" + d

		var problems []string

		if !ru.patternSeen || ru.patternN == 0 {
			problems = append(problems, "the rule has no pattern")
		}

		for n, p := range ru.replNames {
			if !ru.patNames[n] {
				problems = append(problems, "the replacement uses placeholder \""+n+"\" ("+w.pos(p)+"), which the pattern never binds: the rewritten instruction gets an empty operand")
			}
		}

		if len(problems) > 0 {
			r.Violate("R-C02-2", key, w.pos(ru.pos), problems[0])
		} else {
			r.Discharge("R-C02-2", key, w.pos(ru.pos), "")
		}
	}

	// ---- R-C02-3
	{
		all := map[string]bool{}
		for _, t := range []string{"int8", "int16", "uint16", "int32", "uint32", "int", "uint", "int64", "uint64", "byte", "uint8", "float32", "float64", "complex64", "complex128", "string"} {
			all[t] = true
		}

		var add, inc *numSwitch

		sw := numericSwitches(bp, all)
		for i := range sw {
			if sw[i].fn.Recv != nil || sw[i].ord != 1 {
				continue
			}

			switch sw[i].fn.Name.Name {
			case "addByteCode":
				add = &sw[i]
			case "incrementByteCode":
				inc = &sw[i]
			}
		}

		if add == nil || inc == nil {
			r.Anchor("R-C02-3", "type switches of addByteCode / incrementByteCode")
		} else {
			for _, t := range sortedKeys(add.types) {
				key := "bytecode.incrementByteCode|covers " + t
				if inc.types[t] {
					r.Discharge("R-C02-3", key, w.pos(inc.ts.Pos()), "")
				} else {
					r.Violate("R-C02-3", key, w.pos(inc.ts.Pos()), "Add handles "+t+" but the fused Increment does not: `x = x + k` on that type works unoptimized and fails once the optimizer fuses it")
				}
			}
		}
	}

	// ---- R-C02-5: compile-time substitution of a constant for a name
	r.Rule("R-C02-5", "constant folding of names: every emission of Push <value of a named constant> in place of a Load is behind ego.compiler.constfold and behind the test that the name is not a local that shadows the constant (nonConstLocalNames)", 1)

	if cp := w.pkg("internal/language/compiler"); cp == nil {
		r.Anchor("R-C02-5", "package language/compiler")
	} else {
		opPush := lookupConstInt(bp, "Push")

		nSub := 0

		for _, fn := range w.srcFuncs(cp) {
			// reads of c.constantValues[name] whose value is pushed
			allInstrs(fn, func(in ssa.Instruction) {
				if opPush == nil || emitOf(in) != *opPush {
					return
				}

				call := in.(*ssa.Call)

				fromConstTable := false

				if len(call.Call.Args) >= 3 {
					if sl, ok := call.Call.Args[2].(*ssa.Slice); ok {
						if al, ok := sl.X.(*ssa.Alloc); ok {
							for _, ref := range *al.Referrers() {
								if ia, ok := ref.(*ssa.IndexAddr); ok {
									for _, r2 := range *ia.Referrers() {
										if st, ok := r2.(*ssa.Store); ok && derivesFrom(st.Val, func(v ssa.Value) bool {
											lk, ok := v.(*ssa.Lookup)
											if !ok {
												return false
											}

											u, ok := lk.X.(*ssa.UnOp)
											if !ok {
												return false
											}

											fa, ok := u.X.(*ssa.FieldAddr)

											return ok && fieldName(fa.X.Type(), fa.Field) == "constantValues"
										}, nil) {
											fromConstTable = true
										}
									}
								}
							}
						}
					}
				}

				if !fromConstTable {
					return
				}

				nSub++

				key := fnKey(fn) + "|constant substituted for a name"
				if nSub > 1 {
					key += "#" + sprintInt(nSub)
				}

				isFieldLoad := func(v ssa.Value, name string) bool {
					u, ok := v.(*ssa.UnOp)
					if !ok {
						return false
					}

					fa, ok := u.X.(*ssa.FieldAddr)

					return ok && fieldName(fa.X.Type(), fa.Field) == name
				}

				// remove the edges on which the name is known not to be a shadowing local: the push must become unreachable
				shadowCuts := cutEdges(fn, func(f Fact) bool {
					if f.Kind != "false" {
						return false
					}

					lk, ok := f.V.(*ssa.Lookup)

					return ok && isFieldLoad(lk.X, "nonConstLocalNames")
				})

				foldCuts := cutEdges(fn, func(f Fact) bool { return f.Kind == "true" && isFieldLoad(f.V, "constFold") })

				switch {
				case len(foldCuts) == 0 || instrReachableAfterCut(fn, in, foldCuts):
					r.Violate("R-C02-5", key, w.pos(in.Pos()), "a constant is substituted for a name on a path where constant folding is switched off")
				case len(shadowCuts) == 0 || instrReachableAfterCut(fn, in, shadowCuts):
					r.Violate("R-C02-5", key, w.pos(in.Pos()), "a constant's value is substituted for a name without testing that the name is not a local variable shadowing the constant (nonConstLocalNames): a loop variable or var named like a package constant reads as the constant when folding is on")
				default:
					r.Discharge("R-C02-5", key, w.pos(in.Pos()), "behind constFold and !nonConstLocalNames[name]")
				}
			})
		}

		if nSub == 0 {
			r.Anchor("R-C02-5", "Emit(Push, c.constantValues[name]) in package compiler")
		}
	}

	// ---- R-C02-4
	var enabled *ssa.Global

	if sp := w.ssaPkgs[bp.PkgPath]; sp != nil {
		enabled, _ = sp.Members["GlobalCacheEnabled"].(*ssa.Global)
	}

	if enabled == nil {
		r.Anchor("R-C02-4", "bytecode.GlobalCacheEnabled")

		return
	}

	isEnabledLoad := func(v ssa.Value) bool {
		u, ok := v.(*ssa.UnOp)

		return ok && u.X == ssa.Value(enabled)
	}

	for _, fn := range w.srcFuncs(bp) {
		count := map[string]int{}

		allInstrs(fn, func(in ssa.Instruction) {
			c, ok := in.(*ssa.Call)
			if !ok {
				return
			}

			id := callID(c.Common())
			if id != "internal/language/bytecode.ByteCode.cacheGlobalTable" && id != "internal/language/bytecode.ByteCode.cachedGlobalTable" {
				return
			}

			short := strings.TrimPrefix(id, "internal/language/bytecode.ByteCode.")
			key := fnKey(fn) + "|" + short + " guarded"
			count[key]++

			if n := count[key]; n > 1 {
				key += "#" + sprintInt(n)
			}

			enCuts := cutEdges(fn, func(f Fact) bool { return f.Kind == "true" && isEnabledLoad(f.V) })
			if len(enCuts) == 0 || instrReachableAfterCut(fn, in, enCuts) {
				r.Violate("R-C02-4", key, w.pos(in.Pos()), "the global-table cache is used on a path where ego.runtime.globalcache is off: switching the setting off does not switch the behaviour off")

				return
			}

			if short == "cacheGlobalTable" {
				table := c.Call.Args[2]

				sCuts := cutEdges(fn, func(f Fact) bool {
					if f.Kind != "true" {
						return false
					}

					sc, ok := f.V.(*ssa.Call)

					return ok && callID(sc.Common()) == "internal/language/symbols.SymbolTable.IsGlobalSingleton" && sc.Call.Args[0] == table
				})

				if len(sCuts) == 0 || instrReachableAfterCut(fn, in, sCuts) {
					r.Violate("R-C02-4", key, w.pos(in.Pos()), "a table is remembered for this instruction without having been found to be a global singleton: a later execution of the same instruction in another scope (a goroutine, a service request) reads or writes the remembered table instead of its own")

					return
				}
			}

			r.Discharge("R-C02-4", key, w.pos(in.Pos()), "")
		})
	}
}

// ---------------------------------------------------------------------------
// R-C02-6 / R-C02-7 (added after two divergences a seeding sub-agent noticed on
// the unmodified tree).

func c02Declarations(w *World, r *Report) {
	r.Rule("R-C02-6", "a := declaration never meets the value an earlier loop iteration left: the register store the compiler emits for a declaration (patchStore, declSlot >= 0) is an opcode whose handler does not type-check against the register's old value, and the create-if-absent opcode used in a loop body that keeps one scope resets a variable it finds", 2)
	r.Rule("R-C02-7", "a name-based load resolves lexically whether registers are on or off: SymbolTable.Get, the lookup behind the Load opcode, does not answer from the register bank's slot-name table", 1)

	bp := w.pkg("internal/language/bytecode")
	cp := w.pkg("internal/language/compiler")
	sp := w.pkg("internal/language/symbols")

	if bp == nil || cp == nil || sp == nil {
		r.Anchor("R-C02-6", "packages bytecode / compiler / symbols")

		return
	}

	// opcode -> handler
	handlers := map[int64]*ssa.Function{}

	if init := w.ssaFunc(bp, "initializeDispatch"); init != nil {
		allInstrs(init, func(in ssa.Instruction) {
			st, ok := in.(*ssa.Store)
			if !ok {
				return
			}

			ia, ok := st.Addr.(*ssa.IndexAddr)
			if !ok {
				return
			}

			if k, isC := constInt(ia.Index); isC {
				if f, isFn := stripValue(st.Val).(*ssa.Function); isFn {
					handlers[k] = f
				}
			}
		})
	}

	callsNamed := func(fn *ssa.Function, suffix string) bool {
		found := false

		allCalls(fn, func(ci ssa.CallInstruction) {
			if strings.HasSuffix(callID(ci.Common()), suffix) {
				found = true
			}
		})

		return found
	}

	// (a) the register declaration store
	{
		key := "compiler.Compiler.patchStore|register declaration store"

		ps := w.ssaFunc(cp, "Compiler.patchStore")
		if ps == nil {
			r.Anchor("R-C02-6", "compiler.Compiler.patchStore")
		} else {
			var declSlot ssa.Value

			for _, p := range ps.Params {
				if p.Name() == "declSlot" {
					declSlot = p
				}
			}

			cuts := cutEdges(ps, func(f Fact) bool {
				// the edges on which declSlot >= 0 does not hold
				return f.Kind == "cmp" && f.X == declSlot && f.Op == token.LSS
			})

			var ops []int64

			allInstrs(ps, func(in ssa.Instruction) {
				k := emitOf(in)
				if k < 0 {
					return
				}

				// emitted only when declSlot >= 0: unreachable once the true edge is cut
				trueCuts := cutEdges(ps, func(f Fact) bool { return f.Kind == "cmp" && f.X == declSlot && f.Op == token.GEQ })
				if len(trueCuts) > 0 && !instrReachableAfterCut(ps, in, trueCuts) {
					ops = append(ops, k)
				}
			})

			_ = cuts

			switch {
			case declSlot == nil || len(ops) == 0:
				r.Violate("R-C02-6", key, w.pos(ps.Pos()), "the store emitted for a register declaration (declSlot >= 0) was not found in patchStore")
			default:
				bad := ""

				for _, k := range ops {
					h := handlers[k]
					if h == nil {
						bad = "opcode " + sprintInt(int(k)) + " has no handler"

						continue
					}

					if callsNamed(h, "bytecode.Context.checkTypeRegister") {
						bad = "the handler " + fnKey(h) + " checks the new value against what the register already holds"
					}
				}

				if bad != "" {
					r.Violate("R-C02-6", key, w.pos(ps.Pos()), bad+": in a loop, `v := a[i]` over values of different types stops with a type error when registers are on and runs when they are off")
				} else {
					r.Discharge("R-C02-6", key, w.pos(ps.Pos()), "emits an opcode whose handler stores without consulting the old value")
				}
			}
		}
	}

	// (b) the create-if-absent opcode resets what it finds, when told it is a declaration
	{
		key := "bytecode.symbolCreateIfByteCode|redeclaration resets"

		h := w.ssaFunc(bp, "symbolCreateIfByteCode")
		if h == nil {
			r.Anchor("R-C02-6", "bytecode.symbolCreateIfByteCode")
		} else {
			resets := false

			allInstrs(h, func(in ssa.Instruction) {
				c := callTo(in, "internal/language/symbols.SymbolTable.SetAlways")
				if c == nil || len(c.Args) < 3 {
					return
				}

				if mi, ok := c.Args[2].(*ssa.MakeInterface); ok {
					if n := namedOf(mi.X.Type()); n != nil && n.Obj().Name() == "UndefinedValue" {
						resets = true
					}
				}
			})

			// and the compiler passes the flag where a loop body keeps one scope
			flagged := false

			for _, fn := range w.srcFuncs(cp) {
				var idem []*ssa.Call

				allInstrs(fn, func(in ssa.Instruction) {
					if c, ok := in.(*ssa.Call); ok && strings.HasSuffix(callID(c.Common()), "compiler.Compiler.inIdempotentDeclScope") {
						idem = append(idem, c)
					}
				})

				if len(idem) == 0 {
					continue
				}

				cuts := cutEdges(fn, func(f Fact) bool {
					if f.Kind != "true" {
						return false
					}

					for _, c := range idem {
						if f.V == ssa.Value(c) {
							return true
						}
					}

					return false
				})

				allInstrs(fn, func(in ssa.Instruction) {
					if emitOf(in) < 0 || instrReachableAfterCut(fn, in, cuts) {
						return
					}

					// an operand that is a list ([]any{name, true}) rather than the bare name
					c := in.(*ssa.Call)
					if len(c.Call.Args) < 3 {
						return
					}

					// the variadic operand array: stores through &varargs[i]
					sl, ok := c.Call.Args[2].(*ssa.Slice)
					if !ok {
						return
					}

					allInstrs(fn, func(i2 ssa.Instruction) {
						st, ok := i2.(*ssa.Store)
						if !ok {
							return
						}

						ia, ok := st.Addr.(*ssa.IndexAddr)
						if !ok || ia.X != sl.X {
							return
						}

						if mi, ok := st.Val.(*ssa.MakeInterface); ok {
							if _, isSlice := mi.X.Type().Underlying().(*types.Slice); isSlice {
								flagged = true
							}
						}
					})
				})
			}

			switch {
			case !resets:
				r.Violate("R-C02-6", key, w.pos(h.Pos()), "SymbolOptCreate leaves a variable it finds as it is: with optimization on, a loop body keeps one scope and `v := a[i]` is checked against the type the previous iteration stored, while -o 0 runs it in a fresh scope")
			case !flagged:
				r.Violate("R-C02-6", key, w.pos(h.Pos()), "the compiler does not tell SymbolOptCreate that the := in a shared loop scope is a declaration (no list operand on the inIdempotentDeclScope edge)")
			default:
				r.Discharge("R-C02-6", key, w.pos(h.Pos()), "resets the variable to undefined when the compiler marks the instruction as a declaration running again")
			}
		}
	}

	// R-C02-7
	{
		key := "symbols.SymbolTable.Get|slot-name fallback"

		get := w.ssaFunc(sp, "SymbolTable.Get")
		if get == nil {
			r.Anchor("R-C02-7", "symbols.SymbolTable.Get")
		} else if callsNamed(get, "symbols.SymbolTable.slotValueByName") || callsNamed(get, "symbols.SymbolTable.slotIndexByName") {
			r.Violate("R-C02-7", key, w.pos(get.Pos()), "Get answers a name from the register bank's slot-name table before walking to the parent scope: with ego.compiler.registers on, a local declared in an inner block (`if … { x := 5 }`) still answers a later name-based load of a global x in the same function (f() returns 5), with registers off the global is read (100)")
		} else {
			r.Discharge("R-C02-7", key, w.pos(get.Pos()), "no by-name access to the register bank")
		}
	}
}
