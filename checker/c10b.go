package main

import (
	"go/token"
	"go/types"

	"golang.org/x/tools/go/ssa"
)

// R-C10-7: a return statement leaves none of the function's open stack
// markers behind.
//
// Every range loop and every try block keeps a marker on the value stack for
// as long as it runs. A return from inside them leaves those markers between
// the call frame and the returned value(s); returnByteCode has to remove all of
// them, not one: a marker left behind is handed to the caller by callFramePop
// in place of the function's result ("function did not return the expected
// number of values" for a return from two nested range loops, from a try
// inside a loop, or from a try inside a try).
func c10ReturnDropsMarkers(w *World, r *Report) {
	r.Rule("R-C10-7", "returnByteCode removes every open marker: on the single-value path (operand == 1) stack markers are popped in a loop bounded by the frame pointer (or the stack pointer is reset from it), and on the multi-value path (operand > 1) the stack pointer is recomputed from the frame pointer so that only the result marker and the values remain above the frame", 2)

	bp := w.pkg("internal/language/bytecode")
	if bp == nil {
		return
	}

	fn := w.ssaFunc(bp, "returnByteCode")
	if fn == nil {
		r.Anchor("R-C10-7", "bytecode.returnByteCode")

		return
	}

	isConstInt := func(v ssa.Value, k int64) bool {
		c, ok := constInt(v)

		return ok && c == k
	}

	// edges that establish operand == 1 / operand != 1 / operand > 0
	eq1 := cutEdges(fn, func(f Fact) bool { return f.Kind == "eq" && f.C != nil && isConstInt(f.C, 1) })
	ne1 := cutEdges(fn, func(f Fact) bool { return f.Kind == "ne" && f.C != nil && isConstInt(f.C, 1) })
	gt0 := cutEdges(fn, func(f Fact) bool {
		return f.Kind == "cmp" && ((f.Op == token.GTR && isConstInt(f.Y, 0)) || (f.Op == token.LSS && isConstInt(f.X, 0)))
	})

	if len(eq1) == 0 || len(ne1) == 0 || len(gt0) == 0 {
		r.Anchor("R-C10-7", "the tests operand > 0 and operand == 1 in bytecode.returnByteCode")

		return
	}

	onlyVia := func(in ssa.Instruction, cuts ...map[Edge]bool) bool {
		for _, c := range cuts {
			if instrReachableAfterCut(fn, in, c) {
				return false
			}
		}

		return true
	}

	resetsFromFrame := func(in ssa.Instruction) bool {
		st, ok := in.(*ssa.Store)
		if !ok || !isFieldNamed(st.Addr, "stackPointer") {
			return false
		}

		return derivesFrom(st.Val, func(s ssa.Value) bool { return isFieldNamed(s, "framePointer") }, nil)
	}

	// ---- single value
	single := ""

	for _, li := range naturalLoops(fn) {
		pops, tests, bounded := false, false, false

		for b := range li.body {
			for _, in := range b.Instrs {
				if c, ok := in.(*ssa.Call); ok {
					switch callID(c.Common()) {
					case "internal/language/bytecode.Context.Pop":
						pops = true
					case "internal/language/bytecode.isStackMarker":
						tests = true
					}
				}

				if bo, ok := in.(*ssa.BinOp); ok && (isFieldNamed(bo.X, "framePointer") || isFieldNamed(bo.Y, "framePointer")) {
					bounded = true
				}
			}
		}

		if pops && tests && bounded && len(li.header.Instrs) > 0 && onlyVia(li.header.Instrs[0], eq1) {
			single = "markers popped in a loop bounded by the frame pointer"
		}
	}

	if single == "" {
		allInstrs(fn, func(in ssa.Instruction) {
			if resetsFromFrame(in) && onlyVia(in, eq1) {
				single = "stack pointer reset from the frame pointer"
			}
		})
	}

	key := "bytecode.returnByteCode|single value: all markers removed"
	if single != "" {
		r.Discharge("R-C10-7", key, w.pos(fn.Pos()), single)
	} else {
		r.Violate("R-C10-7", key, w.pos(fn.Pos()), "on the single-value path at most one stack marker is removed: a return from inside two constructs that keep a marker on the stack (nested range loops, a try in a loop, a try in a try) hands the second marker to the caller as the function's result")
	}

	// ---- several values
	multi := false

	allInstrs(fn, func(in ssa.Instruction) {
		if resetsFromFrame(in) && onlyVia(in, ne1, gt0) {
			multi = true
		}
	})

	key = "bytecode.returnByteCode|several values: gap above the frame closed"
	if multi {
		r.Discharge("R-C10-7", key, w.pos(fn.Pos()), "stack pointer recomputed from the frame pointer")
	} else {
		r.Violate("R-C10-7", key, w.pos(fn.Pos()), "on the multi-value path the markers of the loops and try blocks the return statement leaves stay between the call frame and the returned values, and are copied to the caller's stack with them")
	}
}

// R-C10-8: break / continue unwind to the loop they jump to.
//
// A jump out of try statements has to close exactly the tries (and scopes)
// opened since the *target* loop began. A labelled break/continue, or a
// continue inside a switch, targets a loop that is not the innermost entry of
// the compiler's loop stack; measuring against the innermost entry leaves the
// tries between the two armed, and a later error in the same function is then
// delivered to a catch block whose try was left long before.
func c10UnwindToTarget(w *World, r *Report) {
	r.Rule("R-C10-8", "loop exits unwind relative to their target: in emitScopeUnwindTo every read of a loop's tryDepth / scopeDepth is a read of the target-loop parameter (none through the compiler's current loop), and compileBreak / compileContinue hand emitScopeUnwindTo the same loop whose breaks / continues list receives the fixup", 4)

	cp := w.pkg("internal/language/compiler")
	if cp == nil {
		return
	}

	fn := w.ssaFunc(cp, "Compiler.emitScopeUnwindTo")
	if fn == nil {
		r.Anchor("R-C10-8", "compiler.Compiler.emitScopeUnwindTo")

		return
	}

	var target *ssa.Parameter

	for _, p := range fn.Params {
		if n := namedOf(p.Type()); n != nil && n.Obj().Name() == "loop" {
			target = p
		}
	}

	if target == nil {
		r.Anchor("R-C10-8", "the *loop parameter of emitScopeUnwindTo")

		return
	}

	for _, field := range []string{"tryDepth", "scopeDepth"} {
		fromTarget, other := 0, ""

		allInstrs(fn, func(in ssa.Instruction) {
			fa, ok := in.(*ssa.FieldAddr)
			if !ok || fieldName(fa.X.Type(), fa.Field) != field {
				return
			}

			if n := namedOf(fa.X.Type()); n == nil || n.Obj().Name() != "loop" {
				return
			}

			if resolveLocal(fa.X) == ssa.Value(target) || fa.X == ssa.Value(target) {
				fromTarget++
			} else {
				other = w.pos(fa.Pos())
			}
		})

		key := "compiler.Compiler.emitScopeUnwindTo|" + field + " of the target loop"

		switch {
		case other != "":
			r.Violate("R-C10-8", key, other, "the unwind is measured against a loop other than the one the jump targets ("+field+" read through the compiler's current loop): for a labelled break/continue, or a continue inside a switch, the try statements between the two loops are left armed")
		case fromTarget == 0:
			r.Violate("R-C10-8", key, w.pos(fn.Pos()), "emitScopeUnwindTo no longer reads "+field+" of its target loop")
		default:
			r.Discharge("R-C10-8", key, w.pos(fn.Pos()), "read only from the target-loop parameter")
		}
	}

	for name, list := range map[string]string{"Compiler.compileBreak": "breaks", "Compiler.compileContinue": "continues"} {
		cf := w.ssaFunc(cp, name)
		if cf == nil {
			r.Anchor("R-C10-8", "compiler."+name)

			continue
		}

		var arg, base ssa.Value

		allInstrs(cf, func(in ssa.Instruction) {
			if c, ok := in.(*ssa.Call); ok && c.Common().StaticCallee() == fn && len(c.Call.Args) >= 2 {
				arg = c.Call.Args[1]
			}

			if st, ok := in.(*ssa.Store); ok {
				if fa, ok := st.Addr.(*ssa.FieldAddr); ok && fieldName(fa.X.Type(), fa.Field) == list {
					base = fa.X
				}
			}
		})

		key := "compiler." + name + "|unwinds to the loop that gets the fixup"

		switch {
		case arg == nil || base == nil:
			r.Violate("R-C10-8", key, w.pos(cf.Pos()), "could not find the call of emitScopeUnwindTo and the store to the loop's "+list+" list")
		case arg != base && resolveLocal(arg) != resolveLocal(base):
			r.Violate("R-C10-8", key, w.pos(cf.Pos()), "the loop handed to emitScopeUnwindTo is not the loop whose "+list+" list receives the branch: the jump unwinds to one loop and lands in another")
		default:
			r.Discharge("R-C10-8", key, w.pos(cf.Pos()), "same loop value")
		}
	}
}

// R-C10-9: handleCatch counts the markers of live frames only.
//
// Every Try pushes a "try" marker; taking a catch consumes the marker and
// marks the frame spent (addr = 0). When an error is caught by an outer frame,
// the unwind has to pop one marker for that frame plus one for every frame
// above it that is still live -- the same "addr > 0" test the search for the
// catching frame uses. Counting by any other property of the frame pops past
// the catching try's own marker (or stops short of it): the error then
// surfaces as "stack underflow" instead of reaching the catch block.
func c10MarkerCount(w *World, r *Report) {
	r.Rule("R-C10-9", "in bytecode.handleCatch the count of try markers to unwind is incremented only behind 'the frame's catch address is greater than zero' (the liveness test the search for the catching frame uses)", 1)

	bp := w.pkg("internal/language/bytecode")
	if bp == nil {
		return
	}

	fn := w.ssaFunc(bp, "handleCatch")
	if fn == nil {
		r.Anchor("R-C10-9", "bytecode.handleCatch")

		return
	}

	n := 0

	allInstrs(fn, func(in ssa.Instruction) {
		bo, ok := in.(*ssa.BinOp)
		if !ok || bo.Op != token.ADD {
			return
		}

		if k, isC := constInt(bo.Y); !isC || k != 1 {
			return
		}

		// the counter starts at 1 (the catching frame's own marker); the loop
		// index next to it starts at tryIndex+1
		ph, isPhi := bo.X.(*ssa.Phi)
		if !isPhi {
			return
		}

		startsAtOne := false

		for _, e := range ph.Edges {
			if k, isC := constInt(e); isC && k == 1 {
				startsAtOne = true
			}
		}

		if !startsAtOne {
			return
		}

		n++

		key := "bytecode.handleCatch|marker counted for a live frame"
		if n > 1 {
			key += " #" + sprintInt(n)
		}

		live := false

		for _, f := range dominatingFacts(bo.Block()) {
			if f.Kind != "cmp" {
				continue
			}

			zero := func(v ssa.Value) bool { k, ok := constInt(v); return ok && k == 0 }

			if (f.Op == token.GTR && isFieldNamed(f.X, "addr") && zero(f.Y)) || (f.Op == token.LSS && zero(f.X) && isFieldNamed(f.Y, "addr")) {
				live = true
			}
		}

		if live {
			r.Discharge("R-C10-9", key, w.pos(bo.Pos()), "behind addr > 0")
		} else {
			r.Violate("R-C10-9", key, w.pos(bo.Pos()), "a frame above the catching one is counted as holding a try marker by a test other than 'its catch address is greater than zero': a spent frame (its catch already taken, e.g. the fallback of a '?:' optional) is counted again, the unwind pops past the catching try's own marker, and the error ends as 'stack underflow' instead of reaching the catch block")
		}
	})

	if n == 0 {
		r.Anchor("R-C10-9", "a counter that starts at 1 and is incremented in bytecode.handleCatch")
	}
}

// R-C10-10: a deferred call that has run is off the defer stack.
//
// RunDefers is emitted before the code that evaluates a return statement's
// expressions (the repository's own tests rely on deferred closures seeing and
// changing a returned local). If one of those expressions panics, the
// unwinding runs whatever the function's defer stack still holds; unless
// RunDefers removed what it ran, every deferred call runs a second time.
func c10DefersRunOnce(w *World, r *Report) {
	r.Rule("R-C10-10", "what RunDefers ran cannot run again: on every path from the call of invokeDeferredStatements in runDefersByteCode to a return the context's defer stack is stored (reset), or invokeDeferredStatements itself takes each statement off the stack inside its loop", 1)

	bp := w.pkg("internal/language/bytecode")
	if bp == nil {
		return
	}

	run := w.ssaFunc(bp, "runDefersByteCode")
	inv := w.ssaFunc(bp, "Context.invokeDeferredStatements")

	if run == nil || inv == nil {
		r.Anchor("R-C10-10", "bytecode.runDefersByteCode and bytecode.Context.invokeDeferredStatements")

		return
	}

	isReset := func(in ssa.Instruction) bool {
		st, ok := in.(*ssa.Store)
		if !ok {
			return false
		}

		fa, ok := st.Addr.(*ssa.FieldAddr)

		return ok && fieldName(fa.X.Type(), fa.Field) == "deferStack"
	}

	key := "bytecode.runDefersByteCode|defers taken off the stack"

	// (B) popped inside the loop of invokeDeferredStatements
	for _, li := range naturalLoops(inv) {
		for b := range li.body {
			for _, in := range b.Instrs {
				if isReset(in) {
					r.Discharge("R-C10-10", key, w.pos(in.Pos()), "each statement is taken off the stack inside invokeDeferredStatements' loop")

					return
				}
			}
		}
	}

	// (A) reset after the call
	var call ssa.Instruction

	allInstrs(run, func(in ssa.Instruction) {
		if c, ok := in.(*ssa.Call); ok && c.Common().StaticCallee() == inv {
			call = in
		}
	})

	if call == nil {
		r.Anchor("R-C10-10", "the call of invokeDeferredStatements in bytecode.runDefersByteCode")

		return
	}

	escape := pathAvoiding(call, nil, isReset, func(i ssa.Instruction) bool {
		_, isRet := i.(*ssa.Return)

		return isRet
	})

	if escape != nil {
		r.Violate("R-C10-10", key, w.pos(call.Pos()), "RunDefers leaves the statements it ran on the defer stack: when an expression of the return statement that follows panics (return g(), g panics, a caller recovers) the unwinding runs the function's deferred calls a second time")
	} else {
		r.Discharge("R-C10-10", key, w.pos(call.Pos()), "the defer stack is reset on every path after the statements ran")
	}
}

// R-C10-11: a catch closes what the try body left open.
//
// An error leaves the code between the try statement and the point of failure
// without running the instructions that pop its block scopes and retire its
// range loops. The catch block is compiled to run in the scope of the try
// body itself; if deeper scopes stay pushed, a variable declared in an inner
// block of the try body goes on shadowing an outer one after the catch, and a
// map a range loop was iterating over stays read-only for the rest of the
// program. The depth to return to can only come from the try frame, so the
// rule checks the data flow: Try records the context's block depth and the
// number of running range loops in its frame, and handleCatch uses both
// records, popping scopes (popScopeByteCode) and retiring loops
// (rangeDefinition.release).
func c10CatchClosesScopes(w *World, r *Report) {
	r.Rule("R-C10-11", "a catch closes what the try body left open: tryByteCode records Context.blockDepth and len(Context.rangeStack) in the try frame, and handleCatch reads both records and calls popScopeByteCode and rangeDefinition.release before it enters the catch block", 4)

	bp := w.pkg("internal/language/bytecode")
	if bp == nil {
		return
	}

	tryFn := w.ssaFunc(bp, "tryByteCode")
	catchFn := w.ssaFunc(bp, "handleCatch")

	if tryFn == nil || catchFn == nil {
		r.Anchor("R-C10-11", "bytecode.tryByteCode and bytecode.handleCatch")

		return
	}

	isTryInfo := func(t types.Type) bool {
		n := namedOf(t)

		return n != nil && n.Obj().Name() == "tryInfo"
	}

	// ---- what Try records
	recorded := map[string]bool{}

	allInstrs(tryFn, func(in ssa.Instruction) {
		st, ok := in.(*ssa.Store)
		if !ok {
			return
		}

		fa, ok := st.Addr.(*ssa.FieldAddr)
		if !ok || !isTryInfo(fa.X.Type()) {
			return
		}

		switch fieldName(fa.X.Type(), fa.Field) {
		case "blockDepth":
			if derivesFrom(st.Val, func(s ssa.Value) bool { return isFieldNamed(s, "blockDepth") }, nil) {
				recorded["blockDepth"] = true
			}
		case "ranges":
			if derivesFrom(st.Val, func(s ssa.Value) bool { return isFieldNamed(s, "rangeStack") }, func(string) bool { return true }) {
				recorded["ranges"] = true
			}
		}
	})

	for _, f := range []string{"blockDepth", "ranges"} {
		key := "bytecode.tryByteCode|records " + f
		if recorded[f] {
			r.Discharge("R-C10-11", key, w.pos(tryFn.Pos()), "stored in the try frame from the context")
		} else {
			r.Violate("R-C10-11", key, w.pos(tryFn.Pos()), "the try frame does not record the context's "+f+" at the try statement: the catch has nothing to return to, so scopes opened (or range loops running) inside the try body stay open after the catch")
		}
	}

	// ---- what handleCatch does with them
	reads := map[string]bool{}
	calls := map[string]bool{}

	allInstrs(catchFn, func(in ssa.Instruction) {
		switch x := in.(type) {
		case *ssa.Field:
			if isTryInfo(x.X.Type()) {
				reads[fieldName(x.X.Type(), x.Field)] = true
			}
		case *ssa.FieldAddr:
			if isTryInfo(x.X.Type()) {
				reads[fieldName(x.X.Type(), x.Field)] = true
			}
		case *ssa.Call:
			switch callID(x.Common()) {
			case "internal/language/bytecode.popScopeByteCode":
				calls["pop"] = true
			case "internal/language/bytecode.rangeDefinition.release":
				calls["release"] = true
			}
		}
	})

	for _, c := range []struct{ field, call, what string }{
		{"blockDepth", "pop", "pops the scopes the try body left open"},
		{"ranges", "release", "retires the range loops the try body left running"},
	} {
		key := "bytecode.handleCatch|" + c.what
		if reads[c.field] && calls[c.call] {
			r.Discharge("R-C10-11", key, w.pos(catchFn.Pos()), "uses the try frame's "+c.field)
		} else {
			r.Violate("R-C10-11", key, w.pos(catchFn.Pos()), "handleCatch enters the catch block without this step: after `x := 1; try { if … { x := 2; <error> } } catch {}` the name x still answers 2, and a map that a range loop inside the try body was iterating over stays read-only (\"cannot change an immutable map\") for the rest of the program")
		}
	}
}
