package main

import (
	"go/token"

	"golang.org/x/tools/go/ssa"
)

// R-C10-7: a return statement leaves none of the function's open stack
// markers behind.
//
// Every range loop and every try block keeps a marker on the value stack for
// as long as it runs. A return from inside them leaves those markers between
// the call frame and the returned value(s); returnByteCode has to remove all of
// them, not one: a marker left behind is handed to the caller by callFramePop
// in place of the function's result ("function did not return the expected
// number of values" for a return from two nested range loops, from a try
// inside a loop, or from a try inside a try).
func c10ReturnDropsMarkers(w *World, r *Report) {
	r.Rule("R-C10-7", "returnByteCode removes every open marker: on the single-value path (operand == 1) stack markers are popped in a loop bounded by the frame pointer (or the stack pointer is reset from it), and on the multi-value path (operand > 1) the stack pointer is recomputed from the frame pointer so that only the result marker and the values remain above the frame", 2)

	bp := w.pkg("internal/language/bytecode")
	if bp == nil {
		return
	}

	fn := w.ssaFunc(bp, "returnByteCode")
	if fn == nil {
		r.Anchor("R-C10-7", "bytecode.returnByteCode")

		return
	}

	isConstInt := func(v ssa.Value, k int64) bool {
		c, ok := constInt(v)

		return ok && c == k
	}

	// edges that establish operand == 1 / operand != 1 / operand > 0
	eq1 := cutEdges(fn, func(f Fact) bool { return f.Kind == "eq" && f.C != nil && isConstInt(f.C, 1) })
	ne1 := cutEdges(fn, func(f Fact) bool { return f.Kind == "ne" && f.C != nil && isConstInt(f.C, 1) })
	gt0 := cutEdges(fn, func(f Fact) bool {
		return f.Kind == "cmp" && ((f.Op == token.GTR && isConstInt(f.Y, 0)) || (f.Op == token.LSS && isConstInt(f.X, 0)))
	})

	if len(eq1) == 0 || len(ne1) == 0 || len(gt0) == 0 {
		r.Anchor("R-C10-7", "the tests operand > 0 and operand == 1 in bytecode.returnByteCode")

		return
	}

	onlyVia := func(in ssa.Instruction, cuts ...map[Edge]bool) bool {
		for _, c := range cuts {
			if instrReachableAfterCut(fn, in, c) {
				return false
			}
		}

		return true
	}

	resetsFromFrame := func(in ssa.Instruction) bool {
		st, ok := in.(*ssa.Store)
		if !ok || !isFieldNamed(st.Addr, "stackPointer") {
			return false
		}

		return derivesFrom(st.Val, func(s ssa.Value) bool { return isFieldNamed(s, "framePointer") }, nil)
	}

	// ---- single value
	single := ""

	for _, li := range naturalLoops(fn) {
		pops, tests, bounded := false, false, false

		for b := range li.body {
			for _, in := range b.Instrs {
				if c, ok := in.(*ssa.Call); ok {
					switch callID(c.Common()) {
					case "internal/language/bytecode.Context.Pop":
						pops = true
					case "internal/language/bytecode.isStackMarker":
						tests = true
					}
				}

				if bo, ok := in.(*ssa.BinOp); ok && (isFieldNamed(bo.X, "framePointer") || isFieldNamed(bo.Y, "framePointer")) {
					bounded = true
				}
			}
		}

		if pops && tests && bounded && len(li.header.Instrs) > 0 && onlyVia(li.header.Instrs[0], eq1) {
			single = "markers popped in a loop bounded by the frame pointer"
		}
	}

	if single == "" {
		allInstrs(fn, func(in ssa.Instruction) {
			if resetsFromFrame(in) && onlyVia(in, eq1) {
				single = "stack pointer reset from the frame pointer"
			}
		})
	}

	key := "bytecode.returnByteCode|single value: all markers removed"
	if single != "" {
		r.Discharge("R-C10-7", key, w.pos(fn.Pos()), single)
	} else {
		r.Violate("R-C10-7", key, w.pos(fn.Pos()), "on the single-value path at most one stack marker is removed: a return from inside two constructs that keep a marker on the stack (nested range loops, a try in a loop, a try in a try) hands the second marker to the caller as the function's result")
	}

	// ---- several values
	multi := false

	allInstrs(fn, func(in ssa.Instruction) {
		if resetsFromFrame(in) && onlyVia(in, ne1, gt0) {
			multi = true
		}
	})

	key = "bytecode.returnByteCode|several values: gap above the frame closed"
	if multi {
		r.Discharge("R-C10-7", key, w.pos(fn.Pos()), "stack pointer recomputed from the frame pointer")
	} else {
		r.Violate("R-C10-7", key, w.pos(fn.Pos()), "on the multi-value path the markers of the loops and try blocks the return statement leaves stay between the call frame and the returned values, and are copied to the caller's stack with them")
	}
}
