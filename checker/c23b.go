package main

import (
	"golang.org/x/tools/go/ssa"
)

// c23DeleteAnswersForItsKey: R-C23-6. consumeCode and consumeRefreshToken let
// exactly one of several concurrent requests through by asking caches.Delete
// whether it was the one that removed the entry. That only works while Delete
// answers true for a key it found and removed, and false otherwise.
func c23DeleteAnswersForItsKey(w *World, r *Report) {
	r.Rule("R-C23-6", "caches.Delete reports true only for an entry it found: every constant true that can reach its result is assigned in a block dominated by the found edge of a map lookup with the key parameter", 1)

	cp := w.pkg("internal/caches")
	if cp == nil {
		return
	}

	fn := w.ssaFunc(cp, "Delete")
	if fn == nil || len(fn.Params) < 2 {
		r.Anchor("R-C23-6", "caches.Delete(id, key)")

		return
	}

	keyParam := ssa.Value(fn.Params[1])

	foundKey := func(b *ssa.BasicBlock) bool {
		for _, f := range dominatingFacts(b) {
			e, ok := f.V.(*ssa.Extract)
			if !ok || f.Kind != "true" || e.Index != 1 {
				continue
			}

			if lk, ok := e.Tuple.(*ssa.Lookup); ok && lk.CommaOk && stripValue(lk.Index) == keyParam {
				return true
			}
		}

		return false
	}

	n, bad := 0, 0

	seen := map[ssa.Value]bool{}

	var visit func(v ssa.Value, at *ssa.BasicBlock, pos ssa.Instruction)

	visit = func(v ssa.Value, at *ssa.BasicBlock, pos ssa.Instruction) {
		v = stripValue(v)

		if b, isB := constBool(v); isB {
			if !b {
				return
			}

			n++

			if !foundKey(at) {
				bad++

				r.Violate("R-C23-6", "caches.Delete|true only for a found key", w.pos(pos.Pos()), "Delete can answer true for a key that was not in the cache: each of several concurrent redemptions of one authorization code or refresh token that looked the entry up before the first delete is told it removed it, and each is given tokens")
			}

			return
		}

		if seen[v] {
			return
		}

		seen[v] = true

		switch x := v.(type) {
		case *ssa.Phi:
			for i, e := range x.Edges {
				visit(e, x.Block().Preds[i], x)
			}
		default:
			// a value computed otherwise (a call result, a comparison): not a
			// constant answer, judged by R-C28's rules on the cache itself
			if in, ok := v.(ssa.Instruction); ok {
				n++

				if !foundKey(in.Block()) {
					bad++

					r.Violate("R-C23-6", "caches.Delete|computed answer behind the found edge", w.pos(in.Pos()), "the result of Delete is computed outside the found edge of the key lookup")
				}
			}
		}
	}

	for _, ret := range returnsOf(fn) {
		visit(retResult(ret, 0), ret.Block(), ret)
	}

	if n == 0 {
		r.Anchor("R-C23-6", "a true result in caches.Delete")
	} else if bad == 0 {
		r.Discharge("R-C23-6", "caches.Delete|true only for a found key", w.pos(fn.Pos()), "")
	}
}
