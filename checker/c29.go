package main

import (
	"go/token"
	"go/types"
	"strings"

	"golang.org/x/tools/go/ssa"
)

// C29 Cluster cache invalidation is bounded and complete.

func init() {
	register(&propertyCheck{
		id: "C29", level: "other", needs: loadNeeds{ssa: true},
		decides: "the structural bound and completeness of flush propagation: the handler of a received flush reaches caches.PurgeLocal and cannot reach (call graph over static calls, closures, interface invokes and stored function values) caches.Purge, PurgeAll, BroadcastCacheFlush, SendCacheFlush or a call through caches.OnPurge; the broadcast goroutine in caches.purge starts only on the notify edge and OnPurge is only ever set to BroadcastCacheFlush; " +
			"BroadcastCacheFlush sends exactly one message per member of ListActiveMembers' result (one call site in one loop, constant origin hop count, no early exit from the loop on a failed send); the flush handler acts only behind the hop-limit comparison.",
		misses: "delivery under message loss or delay ('each at least once' needs the network to deliver), membership changes during a broadcast, authentication of peers.",
		run:    runC29,
	})
}

func runC29(w *World, r *Report) {
	r.Rule("R-C29-1", "no re-broadcast: from cluster.FlushCacheHandler the call graph reaches caches.PurgeLocal and none of caches.Purge, caches.PurgeAll, cluster.BroadcastCacheFlush, cluster.SendCacheFlush", 5)
	r.Rule("R-C29-2", "in caches.purge the `go OnPurge(id)` is reachable only through the notify-true edge; every store to caches.OnPurge stores cluster.BroadcastCacheFlush", 2)
	r.Rule("R-C29-6", "every member has its own time budget: no deadline (context.WithTimeout / WithDeadline) created outside the loop over the members is handed to the per-member send", 1)
	r.Rule("R-C29-3", "bound and completeness: BroadcastCacheFlush calls SendCacheFlush at one site, inside one loop over the ListActiveMembers result, with a constant hop count, and no path leaves that loop other than through its header; FlushCacheHandler purges only behind Hops <= maxFlushHops", 2)

	clp := w.pkg("internal/server/cluster")
	cap := w.pkg("internal/caches")

	if clp == nil || cap == nil {
		r.Anchor("R-C29-1", "packages server/cluster / caches")

		return
	}

	handler := w.ssaFunc(clp, "FlushCacheHandler")
	bcast := w.ssaFunc(clp, "BroadcastCacheFlush")
	send := w.ssaFunc(clp, "SendCacheFlush")
	purgeLocal := w.ssaFunc(cap, "PurgeLocal")
	purge := w.ssaFunc(cap, "Purge")
	purgeAll := w.ssaFunc(cap, "PurgeAll")
	purgeInner := w.ssaFunc(cap, "purge")

	for name, f := range map[string]*ssa.Function{"cluster.FlushCacheHandler": handler, "cluster.BroadcastCacheFlush": bcast, "cluster.SendCacheFlush": send,
		"caches.PurgeLocal": purgeLocal, "caches.Purge": purge, "caches.PurgeAll": purgeAll, "caches.purge": purgeInner} {
		if f == nil {
			r.Anchor("R-C29-1", name)
		}
	}

	if handler == nil || bcast == nil || send == nil || purgeLocal == nil || purge == nil || purgeAll == nil || purgeInner == nil {
		return
	}

	cg := buildCallGraph(w)
	r.Unit("call_graph_functions", len(cg.fns))

	// the purge helper's `go OnPurge` edge is conditional on notify; follow it only from callers that pass notify=true.
	// The broadcast goroutine inside caches.purge runs only for notify=true
	// (R-C29-2 checks that, and that PurgeLocal passes false), so the call
	// graph follows that edge only from callers that can pass true: it is
	// attributed to caches.Purge / any caller with a non-false argument, which
	// the must-not-reach list below contains.
	skip := func(e cgEdge, from *ssa.Function) bool {
		_, isGo := e.site.(*ssa.Go)

		return from == purgeInner && isGo
	}

	reachable := cg.reachableFrom(handler, skip)

	if chain, ok := reachable[purgeLocal]; ok {
		r.Discharge("R-C29-1", "cluster.FlushCacheHandler|reaches caches.PurgeLocal", w.pos(handler.Pos()), chainString(chain))
	} else {
		r.Violate("R-C29-1", "cluster.FlushCacheHandler|reaches caches.PurgeLocal", w.pos(handler.Pos()), "the flush handler never purges the local cache: a peer's invalidation has no effect")
	}

	for _, bad := range []*ssa.Function{purge, purgeAll, bcast, send} {
		key := "cluster.FlushCacheHandler|must-not-reach " + fnKey(bad)
		if chain, ok := reachable[bad]; ok {
			r.Violate("R-C29-1", key, w.pos(handler.Pos()), "a received flush can be broadcast again: "+chainString(chain)+" (peers would bounce flushes between each other)")
		} else {
			r.Discharge("R-C29-1", key, w.pos(handler.Pos()), "not reachable")
		}
	}

	// every caller of purge that may pass notify=true is one of the functions the handler must not reach
	for _, fn := range cg.fns {
		allInstrs(fn, func(in ssa.Instruction) {
			c, ok := in.(*ssa.Call)
			if !ok || calleeFunction(c.Common()) != purgeInner || fn == purgeLocal {
				return
			}

			if b, isC := constBool(c.Call.Args[1]); isC && !b {
				return
			}

			key := fnKey(fn) + "|purge(notify) caller"
			if _, reach := reachable[fn]; reach {
				r.Violate("R-C29-1", key, w.pos(in.Pos()), "the flush handler reaches "+fnKey(fn)+", which purges with notification: "+chainString(reachable[fn]))
			} else {
				r.Discharge("R-C29-1", key, w.pos(in.Pos()), "notifying purge; not reachable from the flush handler")
			}
		})
	}

	// PurgeLocal itself must not notify: purge(id, false)
	allInstrs(purgeLocal, func(in ssa.Instruction) {
		c, ok := in.(*ssa.Call)
		if !ok || calleeFunction(c.Common()) != purgeInner {
			return
		}

		key := "caches.PurgeLocal|notify=false"
		if b, isC := constBool(c.Call.Args[1]); isC && !b {
			r.Discharge("R-C29-1", key, w.pos(in.Pos()), "purge(id, false)")
		} else {
			r.Violate("R-C29-1", key, w.pos(in.Pos()), "PurgeLocal asks purge to notify peers")
		}
	})

	// ---- R-C29-2
	var notify ssa.Value

	for _, p := range purgeInner.Params {
		if p.Name() == "notify" {
			notify = p
		}
	}

	cuts := cutEdges(purgeInner, func(f Fact) bool { return f.Kind == "true" && notify != nil && f.V == notify })
	nGo := 0

	allInstrs(purgeInner, func(in ssa.Instruction) {
		g, ok := in.(*ssa.Go)
		if !ok {
			return
		}

		nGo++

		key := "caches.purge|go OnPurge behind notify"
		if len(cuts) == 0 || instrReachableAfterCut(purgeInner, g, cuts) {
			r.Violate("R-C29-2", key, w.pos(in.Pos()), "the broadcast goroutine starts even when purge is told not to notify (a received flush is re-broadcast)")
		} else {
			r.Discharge("R-C29-2", key, w.pos(in.Pos()), "only on the notify edge")
		}
	})

	if nGo == 0 {
		r.Violate("R-C29-2", "caches.purge|go OnPurge behind notify", w.pos(purgeInner.Pos()), "purge never notifies peers: invalidations stay local")
	}

	nStore := 0

	for _, fn := range cg.fns {
		allInstrs(fn, func(in ssa.Instruction) {
			st, ok := in.(*ssa.Store)
			if !ok {
				return
			}

			g, ok := st.Addr.(*ssa.Global)
			if !ok || g.Name() != "OnPurge" || g.Pkg.Pkg != cap.Types {
				return
			}

			if isNilConst(st.Val) {
				return
			}

			nStore++

			key := fnKey(fn) + "|caches.OnPurge ="
			f, _ := stripValue(st.Val).(*ssa.Function)

			if ct, ok := st.Val.(*ssa.ChangeType); ok {
				f, _ = ct.X.(*ssa.Function)
			}

			if f == bcast {
				r.Discharge("R-C29-2", key, w.pos(in.Pos()), "BroadcastCacheFlush")
			} else {
				r.Violate("R-C29-2", key, w.pos(in.Pos()), "caches.OnPurge is set to something other than cluster.BroadcastCacheFlush: the bound on flush messages no longer follows from BroadcastCacheFlush's shape")
			}
		})
	}

	if nStore == 0 {
		r.Anchor("R-C29-2", "assignment of caches.OnPurge")
	}

	// ---- R-C29-3
	var sends []*ssa.Call

	allInstrs(bcast, func(in ssa.Instruction) {
		if c, ok := in.(*ssa.Call); ok && calleeFunction(c.Common()) == send {
			sends = append(sends, c)
		}
	})

	key := "cluster.BroadcastCacheFlush|one send per member"

	if len(sends) != 1 {
		r.Violate("R-C29-3", key, w.pos(bcast.Pos()), "expected exactly one SendCacheFlush call site, found "+sprintInt(len(sends)))
	} else {
		s := sends[0]

		var loops []*loopInfo

		for _, li := range naturalLoops(bcast) {
			if li.body[s.Block()] {
				loops = append(loops, li)
			}
		}

		var problems []string

		if len(loops) != 1 {
			problems = append(problems, "the send is inside "+sprintInt(len(loops))+" loops (messages per purge not bounded by the number of peers)")
		} else {
			li := loops[0]

			// the loop ranges over the ListActiveMembers result
			over := false

			for b := range li.body {
				for _, in := range b.Instrs {
					if ia, ok := in.(*ssa.IndexAddr); ok {
						if derivesFrom(ia.X, func(v ssa.Value) bool {
							c, ok := v.(*ssa.Call)

							return ok && callID(c.Common()) == "internal/server/cluster.ListActiveMembers"
						}, nil) {
							over = true
						}
					}
				}
			}

			if !over {
				problems = append(problems, "the loop does not range over the result of ListActiveMembers")
			}

			// no exit from the body other than via the header
			for b := range li.body {
				if b == li.header {
					continue
				}

				for _, succ := range b.Succs {
					if !li.body[succ] {
						problems = append(problems, "a path leaves the loop early (a failed send stops the broadcast; later peers never hear of the purge)")
					}
				}
			}
		}

		// the hop argument: the parameter of the send function named "hops" (or,
		// failing that, its last int parameter)
		hopIdx := -1

		if callee := s.Common().StaticCallee(); callee != nil {
			for pi, prm := range callee.Params {
				if b, ok := prm.Type().Underlying().(*types.Basic); ok && b.Info()&types.IsInteger != 0 {
					if prm.Name() == "hops" || hopIdx < 0 || callee.Params[hopIdx].Name() != "hops" {
						hopIdx = pi
					}
				}
			}
		}

		if hopIdx < 0 || hopIdx >= len(s.Call.Args) {
			problems = append(problems, "the send function has no hop-count parameter")
		} else if k, isC := constInt(s.Call.Args[hopIdx]); !isC {
			problems = append(problems, "the hop count of an originating flush is not a constant")
		} else if k > 1 {
			problems = append(problems, "the originating hop count is greater than 1")
		}

		// R-C29-6: every send has its own time budget
		{
			key6 := "cluster.BroadcastCacheFlush|each send has its own deadline"
			shared := false

			if len(loops) == 1 {
				li := loops[0]

				for _, a := range s.Call.Args {
					if !strings.HasSuffix(a.Type().String(), "context.Context") {
						continue
					}

					if derivesFrom(a, func(v ssa.Value) bool {
						if ex, isEx := v.(*ssa.Extract); isEx {
							v = ex.Tuple
						}

						c, ok := v.(*ssa.Call)
						if !ok {
							return false
						}

						id := callID(c.Common())

						return (id == "context.WithTimeout" || id == "context.WithDeadline") && !li.body[c.Block()]
					}, nil) {
						shared = true
					}
				}
			}

			if shared {
				r.Violate("R-C29-6", key6, w.pos(s.Pos()), "the sends to all members run under one deadline created before the loop: the time one slow member takes is taken from every member after it in join order, and once the budget is used up the remaining members are never told to discard the cache")
			} else {
				r.Discharge("R-C29-6", key6, w.pos(s.Pos()), "no deadline created outside the loop is handed to the per-member send")
			}
		}

		if len(problems) > 0 {
			r.Violate("R-C29-3", key, w.pos(s.Pos()), problems[0])
		} else {
			r.Discharge("R-C29-3", key, w.pos(s.Pos()), "one site, one loop over active members, constant hop count, no early exit")
		}
	}

	// every received flush is applied: no way through the handler that skips PurgeLocal, other than the three refusals
	r.Rule("R-C29-5", "completeness on the receiving side: every path through FlushCacheHandler to a return calls caches.PurgeLocal, except the refusals it states: invalid cluster token, undecodable body, hop limit exceeded", 1)

	{
		key := "cluster.FlushCacheHandler|every accepted flush is applied"

		cuts := cutEdges(handler, func(f Fact) bool {
			switch f.Kind {
			case "false":
				c, ok := f.V.(*ssa.Call)

				return ok && callID(c.Common()) == "internal/server/cluster.ValidateClusterToken"
			case "nonnil":
				c, idx := resultOf(f.V)
				if c == nil {
					if cc, ok := f.V.(*ssa.Call); ok {
						c, idx = cc, 0
					}
				}

				return c != nil && idx == 0 && callID(c.Common()) == "encoding/json.Decoder.Decode"
			case "cmp":
				// Hops > maxFlushHops
				if f.Op != token.GTR && f.Op != token.GEQ {
					return false
				}

				_, isC := f.Y.(*ssa.Const)

				return isC && strings.Contains(c40Describe(resolveLocal(f.X)), "Hops")
			}

			return false
		})

		isPurge := func(in ssa.Instruction) bool {
			c, ok := in.(*ssa.Call)

			return ok && calleeFunction(c.Common()) == purgeLocal
		}

		bad := pathFromEntryAvoiding(handler, cuts, isPurge, func(in ssa.Instruction) bool {
			_, isRet := in.(*ssa.Return)

			return isRet
		})

		switch {
		case len(cuts) < 3:
			r.Violate("R-C29-5", key, w.pos(handler.Pos()), "the three refusal tests of the flush handler (cluster token, body decode, hop limit) were not all found: "+sprintInt(len(cuts))+" edges")
		case bad != nil:
			r.Violate("R-C29-5", key, w.pos(bad.Pos()), "the handler can answer a well-formed, authenticated, in-limit flush without calling caches.PurgeLocal (return at "+w.pos(bad.Pos())+"): that peer keeps its stale cache")
		default:
			r.Discharge("R-C29-5", key, w.pos(handler.Pos()), "PurgeLocal is on every path to a return once the token, decode and hop-limit refusals are removed")
		}
	}

	// every purge is broadcast: no way from entry to a return that skips the member loop, other than
	// "this node is not clustered" and "the member list could not be read"
	r.Rule("R-C29-4", "completeness: every path through BroadcastCacheFlush reaches the loop over the active members, except on the not-clustered edge (ClusterName == \"\" / systemDB == nil) and the error edge of ListActiveMembers", 1)

	{
		key := "cluster.BroadcastCacheFlush|no purge is dropped"

		var header *ssa.BasicBlock

		for _, li := range naturalLoops(bcast) {
			for _, sc := range sends {
				if li.body[sc.Block()] {
					header = li.header
				}
			}
		}

		isGlobalLoad := func(v ssa.Value, name string) bool {
			u, ok := v.(*ssa.UnOp)
			if !ok {
				return false
			}

			g, ok := u.X.(*ssa.Global)

			return ok && g.Name() == name
		}

		cuts := cutEdges(bcast, func(f Fact) bool {
			switch f.Kind {
			case "eq":
				if k, ok := constString(f.C); ok && k == "" && isGlobalLoad(f.V, "ClusterName") {
					return true
				}
			case "nil":
				if isGlobalLoad(f.V, "systemDB") {
					return true
				}
			case "nonnil":
				if c, idx := resultOf(f.V); c != nil && idx == 1 && callID(c.Common()) == "internal/server/cluster.ListActiveMembers" {
					return true
				}
			}

			return false
		})

		if header == nil {
			r.Violate("R-C29-4", key, w.pos(bcast.Pos()), "no loop that sends to the members was found")
		} else if exit := pathFromEntryAvoiding(bcast, cuts, func(i ssa.Instruction) bool { return i.Block() == header }, func(i ssa.Instruction) bool {
			_, isRet := i.(*ssa.Return)

			return isRet
		}); exit != nil {
			r.Violate("R-C29-4", key, w.pos(exit.Pos()), "BroadcastCacheFlush can return without walking the member list on a path that is neither 'not clustered' nor 'member list unavailable': that purge is never announced, and a peer that cached the item again keeps serving it")
		} else {
			r.Discharge("R-C29-4", key, w.pos(bcast.Pos()), "only the not-clustered and list-error edges skip the loop")
		}
	}

	// hop limit in the handler
	hopCuts := cutEdges(handler, func(f Fact) bool {
		if f.Kind != "cmp" || (f.Op != token.LEQ && f.Op != token.LSS) {
			return false
		}

		return isFieldNamed(f.X, "Hops")
	})

	k2 := "cluster.FlushCacheHandler|purge behind hop limit"
	bad := false
	n := 0

	allInstrs(handler, func(in ssa.Instruction) {
		if c, ok := in.(*ssa.Call); ok && calleeFunction(c.Common()) == purgeLocal {
			n++

			if len(hopCuts) == 0 || instrReachableAfterCut(handler, in, hopCuts) {
				bad = true
			}
		}
	})

	switch {
	case n == 0:
		r.Violate("R-C29-3", k2, w.pos(handler.Pos()), "FlushCacheHandler does not call caches.PurgeLocal")
	case bad:
		r.Violate("R-C29-3", k2, w.pos(handler.Pos()), "the handler acts on a flush without comparing its hop count with the limit")
	default:
		r.Discharge("R-C29-3", k2, w.pos(handler.Pos()), "PurgeLocal only behind Hops <= maxFlushHops")
	}
}
