package main

import (
	"go/types"

	"golang.org/x/tools/go/ssa"
)

// Forward may-flow inside one function (flow-insensitive over memory: a store
// of a tainted value taints the root object of the address, and every value
// computed from a tainted value is tainted).
//
// callPolicy decides what a call does with tainted arguments:
//   return (resultTainted, handled). If handled is false the default applies:
//   the result is tainted when any argument (or the receiver, or a closure
//   binding) is tainted.
type flowOpts struct {
	callPolicy func(c *ssa.CallCommon, taintedArgs []bool) (result bool, handled bool)
	// sanitized values are never tainted (checked before tainting).
	sanitized func(v ssa.Value) bool
	// stopTypes: values of these basic kinds never carry taint (numbers, bools)
	cleanScalars bool
	// intoClosures: propagate through free variables into anonymous functions
	intoClosures bool
	// blockStore: a store to an address for which this returns true does not
	// propagate (the caller accounts for that memory separately)
	blockStore func(addr ssa.Value) bool
	// outParams: a call that is not handled by callPolicy and receives a
	// tainted argument may write it through any pointer argument (receiver
	// included): json.Unmarshal(b, &x), builder.WriteString(s), io.Copy(&buf, r)
	outParams bool
	// onCall is told about every call with its tainted-argument vector
	onCall func(c ssa.CallInstruction, taintedArgs []bool)
	// extraTaint returns further values a call taints (out-parameter effects
	// of summarised callees)
	extraTaint func(c *ssa.CallCommon, taintedArgs []bool) []ssa.Value
	// extractPolicy refines which results of a tuple-returning call carry taint
	extractPolicy func(e *ssa.Extract, tainted func(ssa.Value) bool) (result bool, handled bool)
}

type flowResult struct {
	tainted map[ssa.Value]bool
}

func (r *flowResult) has(v ssa.Value) bool { return r.tainted[v] }

// addrRoot follows FieldAddr/IndexAddr/Slice chains to the base object.
func addrRoot(v ssa.Value) ssa.Value {
	for {
		switch x := v.(type) {
		case *ssa.FieldAddr:
			v = x.X
		case *ssa.IndexAddr:
			v = x.X
		case *ssa.Slice:
			v = x.X
		case *ssa.ChangeType:
			v = x.X
		case *ssa.Convert:
			v = x.X
		case *ssa.UnOp:
			// load of a pointer/slice stored in a local: treat the local as the root
			return v
		default:
			return v
		}
	}
}

func isCleanScalar(t types.Type) bool {
	b, ok := t.Underlying().(*types.Basic)
	if !ok {
		return false
	}

	return b.Info()&(types.IsNumeric|types.IsBoolean) != 0
}

func flowForward(fn *ssa.Function, seeds []ssa.Value, o flowOpts) *flowResult {
	res := &flowResult{tainted: map[ssa.Value]bool{}}

	mark := func(v ssa.Value) bool {
		if v == nil || res.tainted[v] {
			return false
		}

		if o.sanitized != nil && o.sanitized(v) {
			return false
		}

		if o.cleanScalars && isCleanScalar(v.Type()) {
			return false
		}

		res.tainted[v] = true

		return true
	}

	for _, s := range seeds {
		mark(s)
	}

	fns := []*ssa.Function{fn}

	if o.intoClosures {
		var add func(f *ssa.Function)

		add = func(f *ssa.Function) {
			for _, a := range f.AnonFuncs {
				fns = append(fns, a)
				add(a)
			}
		}

		add(fn)
	}

	for changed := true; changed; {
		changed = false

		for _, f := range fns {
			for _, b := range f.Blocks {
				for _, in := range b.Instrs {
					switch x := in.(type) {
					case *ssa.Store:
						if res.tainted[x.Val] && (o.blockStore == nil || !o.blockStore(x.Addr)) {
							if mark(x.Addr) {
								changed = true
							}

							if mark(addrRoot(x.Addr)) {
								changed = true
							}
						}
					case *ssa.MapUpdate:
						if res.tainted[x.Value] || res.tainted[x.Key] {
							if mark(x.Map) {
								changed = true
							}
						}
					case *ssa.Send:
						if res.tainted[x.X] && mark(x.Chan) {
							changed = true
						}
					case ssa.CallInstruction:
						c := x.Common()
						args := callArgs(c)
						ta := make([]bool, len(args))
						any := false

						for i, a := range args {
							ta[i] = res.tainted[a]
							any = any || ta[i]
						}

						if mc, ok := c.Value.(*ssa.MakeClosure); ok {
							for _, bnd := range mc.Bindings {
								if res.tainted[bnd] {
									any = true
								}
							}
						}

						if !c.IsInvoke() && res.tainted[c.Value] {
							any = true
						}

						result, handled := false, false
						if o.callPolicy != nil {
							result, handled = o.callPolicy(c, ta)
						}

						if o.onCall != nil && any {
							o.onCall(x, ta)
						}

						if o.extraTaint != nil && any {
							for _, ev := range o.extraTaint(c, ta) {
								if mark(ev) {
									changed = true
								}

								if mark(addrRoot(ev)) {
									changed = true
								}
							}
						}

						if !handled {
							result = any

							if o.outParams && any && !isRepoCallee(c) {
								for i, a := range args {
									if ta[i] {
										continue
									}

									switch a.Type().Underlying().(type) {
									case *types.Pointer, *types.Map, *types.Slice:
										// written through (pointer / reference argument)
										if _, isParamFunc := a.(*ssa.Function); isParamFunc {
											continue
										}

										if mark(a) {
											changed = true
										}

										if mark(addrRoot(a)) {
											changed = true
										}
									case *types.Interface:
										// &x passed as any
										if mi, ok := a.(*ssa.MakeInterface); ok {
											if _, isPtr := mi.X.Type().Underlying().(*types.Pointer); isPtr {
												if mark(mi.X) {
													changed = true
												}

												if mark(addrRoot(mi.X)) {
													changed = true
												}
											}
										}
									}
								}
							}
						}

						if v, ok := in.(ssa.Value); ok && result {
							if mark(v) {
								changed = true
							}
						}

						// builtin append/copy write into their first argument
						if bi, ok := c.Value.(*ssa.Builtin); ok && bi.Name() == "copy" && len(args) == 2 && ta[1] {
							if mark(addrRoot(args[0])) {
								changed = true
							}
						}
					default:
						v, ok := in.(ssa.Value)
						if !ok {
							continue
						}

						if mc, ok := in.(*ssa.MakeClosure); ok {
							// bind taint into the closure's free variables
							if cf, ok := mc.Fn.(*ssa.Function); ok && o.intoClosures {
								for i, bnd := range mc.Bindings {
									if res.tainted[bnd] && i < len(cf.FreeVars) {
										if mark(cf.FreeVars[i]) {
											changed = true
										}
									}
								}
							}
						}

						if ex, isEx := in.(*ssa.Extract); isEx && o.extractPolicy != nil {
							if res2, handled := o.extractPolicy(ex, func(x ssa.Value) bool { return res.tainted[x] }); handled {
								if res2 && mark(v) {
									changed = true
								}

								continue
							}
						}

						ops := in.Operands(nil)
						for _, op := range ops {
							if op != nil && *op != nil && res.tainted[*op] {
								if mark(v) {
									changed = true
								}

								break
							}
						}
					}
				}
			}
		}
	}

	return res
}

// fieldLoads returns the FieldAddr/Field values in fn that select field `name`
// from a value of (pointer to) named struct type tn.
func fieldAccesses(fn *ssa.Function, tn *types.Named, name string) []ssa.Value {
	var out []ssa.Value

	allInstrs(fn, func(in ssa.Instruction) {
		switch x := in.(type) {
		case *ssa.FieldAddr:
			if namedOf(x.X.Type()) == tn && fieldName(x.X.Type(), x.Field) == name {
				out = append(out, x)
			}
		case *ssa.Field:
			if namedOf(x.X.Type()) == tn && fieldName(x.X.Type(), x.Field) == name {
				out = append(out, x)
			}
		}
	})

	return out
}

// namedOf returns the named type of t or of the type t points to.
func namedOf(t types.Type) *types.Named {
	t = types.Unalias(t)
	if p, ok := t.Underlying().(*types.Pointer); ok {
		if _, isNamed := t.(*types.Named); !isNamed {
			t = types.Unalias(p.Elem())
		}
	}

	n, _ := t.(*types.Named)

	return n
}

// isRepoCallee: the call statically targets a function of the analysed repository.
func isRepoCallee(c *ssa.CallCommon) bool {
	f := staticCallee(c)

	return f != nil && f.Pkg() != nil && len(f.Pkg().Path()) >= len(modPath) && f.Pkg().Path()[:len(modPath)] == modPath
}
