package main

import (
	"go/ast"
	"go/token"
	"go/types"
	"strings"

	"golang.org/x/tools/go/packages"
	"golang.org/x/tools/go/ssa"
)

// C32 Route resolution is deterministic and most specific.

func init() {
	register(&propertyCheck{
		id: "C32", level: "other", needs: loadNeeds{ssa: true},
		decides: "iteration-order independence of route selection: in package router every slice that is filled while ranging over a map is sorted with a total-order comparator (one that compares the route map's whole key: endpoint and method) before any order-sensitive use (indexing, ranging, slicing); in FindRoute the fewest-variables choice compares variable counts with a strict '<'.",
		misses: "whether a path matches a pattern, and the specificity policy itself beyond the fewest-variables comparison.",
		run:    runC32,
	})
}

func runC32(w *World, r *Report) {
	defer c32MinMaxIndependent(w, r)

	r.Rule("R-C32-1", "order taint: a slice appended to inside `for ... range <map>` must be passed to sort.Slice/SliceStable/Sort (or slices.Sort*) in the same function before its first order-sensitive use; the comparator for route slices must read both endpoint and method", 2)
	r.Rule("R-C32-2", "in FindRoute the variable-count minimum is selected with a strict '<' and the route returned for 'fewer variables' is the one recorded at that comparison", 1)

	rp := w.pkg("internal/router")
	if rp == nil {
		r.Anchor("R-C32-1", "package internal/router")

		return
	}

	for _, fd := range funcDecls(rp) {
		orderTaint(w, r, rp, fd, "R-C32-1", fd.Name.Name == "FindRoute")
	}

	// ---- R-C32-3: no selection inside the map loop itself
	r.Rule("R-C32-3", "FindRoute never returns (or breaks out with) a route while it is still ranging over the route map: a choice made inside the map loop is made in map-iteration order", 1)

	if fd := w.funcDecl(rp, "Router.FindRoute"); fd == nil {
		r.Anchor("R-C32-3", "router.Router.FindRoute")
	} else {
		info := rp.TypesInfo
		n := 0

		ast.Inspect(fd.Body, func(nd ast.Node) bool {
			rs, ok := nd.(*ast.RangeStmt)
			if !ok {
				return true
			}

			tv, ok := info.Types[rs.X]
			if !ok {
				return true
			}

			if _, isMap := tv.Type.Underlying().(*types.Map); !isMap {
				return true
			}

			n++

			key := "router.Router.FindRoute|range " + types.ExprString(rs.X)
			bad := token.NoPos

			var walk func(nd ast.Node, depth int)

			walk = func(nd ast.Node, depth int) {
				ast.Inspect(nd, func(x ast.Node) bool {
					switch y := x.(type) {
					case *ast.FuncLit:
						return false
					case *ast.ReturnStmt:
						if !bad.IsValid() {
							bad = y.Pos()
						}
					case *ast.BranchStmt:
						// a break that leaves the map loop (not an inner loop/switch)
						if y.Tok == token.BREAK && y.Label != nil && !bad.IsValid() {
							bad = y.Pos()
						}
					}

					return true
				})
			}

			walk(rs.Body, 0)

			if bad.IsValid() {
				r.Violate("R-C32-3", key, w.pos(bad), "a route is chosen (return / labelled break) from inside the loop over the route map: when several routes qualify, which one wins depends on Go's randomised map order")
			} else {
				r.Discharge("R-C32-3", key, w.pos(rs.Pos()), "the map loop only collects candidates")
			}

			return true
		})

		if n == 0 {
			r.Anchor("R-C32-3", "range over the route map in FindRoute")
		}
	}

	// ---- R-C32-2
	fd := w.funcDecl(rp, "Router.FindRoute")
	if fd == nil {
		r.Anchor("R-C32-2", "router.Router.FindRoute")

		return
	}

	found := false

	ast.Inspect(fd.Body, func(n ast.Node) bool {
		ifs, ok := n.(*ast.IfStmt)
		if !ok {
			return true
		}

		be, ok := ifs.Cond.(*ast.BinaryExpr)
		if !ok {
			return true
		}

		x, _ := be.X.(*ast.Ident)
		y, _ := be.Y.(*ast.Ident)

		if x == nil || y == nil || !strings.Contains(strings.ToLower(y.Name), "min") {
			return true
		}

		// the body records the candidate
		recorded := false

		for _, s := range ifs.Body.List {
			if as, ok := s.(*ast.AssignStmt); ok && len(as.Lhs) == 1 {
				if id, ok := as.Lhs[0].(*ast.Ident); ok && strings.Contains(strings.ToLower(id.Name), "fewest") {
					recorded = true
				}
			}
		}

		if !recorded {
			return true
		}

		found = true
		key := "router.Router.FindRoute|fewest-variables"

		if be.Op == token.LSS {
			r.Discharge("R-C32-2", key, w.pos(ifs.Pos()), "strict '<' keeps the first (sorted) route among ties")
		} else {
			r.Violate("R-C32-2", key, w.pos(ifs.Pos()), "the fewest-variables selection does not use a strict '<' ("+be.Op.String()+"): the preferred route is not the one with fewer variables / depends on order")
		}

		return true
	})

	if !found {
		r.Anchor("R-C32-2", "fewest-variables comparison in FindRoute")
	}
}

// orderTaint applies R-C32-1 to one function. requireKeyFields demands the
// comparator to mention endpoint and method.
func orderTaint(w *World, r *Report, p *packages.Package, fd *ast.FuncDecl, rule string, requireKeyFields bool) {
	info := p.TypesInfo

	// every statement list in the function
	var lists [][]ast.Stmt

	ast.Inspect(fd.Body, func(n ast.Node) bool {
		switch x := n.(type) {
		case *ast.BlockStmt:
			lists = append(lists, x.List)
		case *ast.CaseClause:
			lists = append(lists, x.Body)
		}

		return true
	})

	for _, list := range lists {
		for i, st := range list {
			rs, ok := st.(*ast.RangeStmt)
			if !ok {
				continue
			}

			tv, ok := info.Types[rs.X]
			if !ok {
				continue
			}

			if _, isMap := tv.Type.Underlying().(*types.Map); !isMap {
				continue
			}

			// slices appended to in the body
			tainted := map[types.Object]bool{}

			ast.Inspect(rs.Body, func(n ast.Node) bool {
				as, ok := n.(*ast.AssignStmt)
				if !ok || len(as.Lhs) != 1 || len(as.Rhs) != 1 {
					return true
				}

				call, ok := as.Rhs[0].(*ast.CallExpr)
				if !ok {
					return true
				}

				if id, ok := call.Fun.(*ast.Ident); !ok || id.Name != "append" {
					return true
				}

				if lhs, ok := as.Lhs[0].(*ast.Ident); ok {
					if o := info.Uses[lhs]; o != nil {
						// declared outside the loop body
						if o.Pos() < rs.Pos() || o.Pos() > rs.End() {
							tainted[o] = true
						}
					} else if o := info.Defs[lhs]; o != nil {
						_ = o
					}
				}

				return true
			})

			for obj := range tainted {
				key := declName(p, fd) + "|" + obj.Name() + " filled from range over map"
				sorted, cmpOK, usePos := false, true, token.NoPos

				for _, later := range list[i+1:] {
					if sorted {
						break
					}

					// a sort call on obj as a statement
					if es, ok := later.(*ast.ExprStmt); ok {
						if call, ok := es.X.(*ast.CallExpr); ok && isSortCallOn(info, call, obj) {
							sorted = true

							if requireKeyFields {
								cmpOK = comparatorMentions(call, "endpoint") && comparatorMentions(call, "method")
							}

							continue
						}
					}

					// order-sensitive use anywhere in this statement
					ast.Inspect(later, func(n ast.Node) bool {
						if usePos.IsValid() {
							return false
						}

						switch x := n.(type) {
						case *ast.IndexExpr:
							if id, ok := ast.Unparen(x.X).(*ast.Ident); ok && info.Uses[id] == obj {
								usePos = x.Pos()
							}
						case *ast.SliceExpr:
							if id, ok := ast.Unparen(x.X).(*ast.Ident); ok && info.Uses[id] == obj {
								usePos = x.Pos()
							}
						case *ast.RangeStmt:
							if id, ok := ast.Unparen(x.X).(*ast.Ident); ok && info.Uses[id] == obj {
								usePos = x.Pos()
							}
						case *ast.ReturnStmt:
							for _, res := range x.Results {
								if id, ok := ast.Unparen(res).(*ast.Ident); ok && info.Uses[id] == obj {
									usePos = x.Pos() // returned unsorted to a caller
								}
							}
						case *ast.CallExpr:
							// strings.Join(obj, ...) and friends depend on order
							if !isSortCallOn(info, x, obj) {
								for _, a := range x.Args {
									if id, ok := ast.Unparen(a).(*ast.Ident); ok && info.Uses[id] == obj {
										if fid, isId := x.Fun.(*ast.Ident); !isId || (fid.Name != "len" && fid.Name != "cap" && fid.Name != "append") {
											usePos = x.Pos()
										}
									}
								}
							}
						}

						return true
					})

					if usePos.IsValid() {
						break
					}
				}

				switch {
				case usePos.IsValid() && !sorted:
					r.Violate(rule, key, w.pos(usePos), obj.Name()+" was collected in map-iteration order and is used positionally here without having been sorted: the result depends on Go's randomised map order")
				case sorted && !cmpOK:
					r.Violate(rule, key, w.pos(rs.Pos()), obj.Name()+" is sorted, but the comparator does not compare both endpoint and method (the map's key): routes that tie keep their random relative order")
				case sorted:
					r.Discharge(rule, key, w.pos(rs.Pos()), "sorted with a total-order comparator before its first positional use")
				default:
					r.Discharge(rule, key, w.pos(rs.Pos()), "no order-sensitive use in this function")
				}
			}
		}
	}
}

func isSortCallOn(info *types.Info, call *ast.CallExpr, obj types.Object) bool {
	se, ok := call.Fun.(*ast.SelectorExpr)
	if !ok {
		return false
	}

	f, ok := info.Uses[se.Sel].(*types.Func)
	if !ok || f.Pkg() == nil {
		return false
	}

	pkg := f.Pkg().Path()
	if pkg != "sort" && pkg != "slices" {
		return false
	}

	if !strings.HasPrefix(f.Name(), "Sort") && !strings.HasPrefix(f.Name(), "Slice") && f.Name() != "Strings" && f.Name() != "Ints" && f.Name() != "Stable" {
		return false
	}

	if len(call.Args) == 0 {
		return false
	}

	found := false

	ast.Inspect(call.Args[0], func(n ast.Node) bool {
		if id, ok := n.(*ast.Ident); ok && info.Uses[id] == obj {
			found = true
		}

		return true
	})

	return found
}

func comparatorMentions(call *ast.CallExpr, field string) bool {
	if len(call.Args) < 2 {
		return false
	}

	found := false

	ast.Inspect(call.Args[1], func(n ast.Node) bool {
		if se, ok := n.(*ast.SelectorExpr); ok && se.Sel.Name == field {
			found = true
		}

		return true
	})

	return found
}

// c32MinMaxIndependent: R-C32-4.  FindRoute decides whether "fewest variables" is a meaningful
// choice by comparing the smallest and the largest variable count among the candidates.  Both are
// tracked in one loop; the two comparisons must be evaluated for every candidate.  If the test
// against the maximum is only reached when the test against the minimum failed (an else-if), a
// candidate that sets a new minimum never updates the maximum, the counts look equal, and the
// most-specific choice is skipped.
func c32MinMaxIndependent(w *World, r *Report) {
	r.Rule("R-C32-4", "in FindRoute's variable-count scan the comparison against the running maximum is evaluated on every iteration: its block is reachable, within the iteration, from both edges of the comparison against the running minimum", 1)

	rp := w.pkg("internal/router")
	if rp == nil {
		return
	}

	fn := w.ssaFunc(rp, "Router.FindRoute")
	if fn == nil {
		r.Anchor("R-C32-4", "router.Router.FindRoute")

		return
	}

	isCount := func(v ssa.Value) bool {
		return derivesFrom(v, func(s ssa.Value) bool {
			c, ok := s.(*ssa.Call)

			return ok && callID(c.Common()) == "strings.Count"
		}, nil)
	}

	n := 0

	for _, li := range naturalLoops(fn) {
		var lss, gtr *ssa.BasicBlock

		for b := range li.body {
			ifi, ok := b.Instrs[len(b.Instrs)-1].(*ssa.If)
			if !ok {
				continue
			}

			bo, ok := ifi.Cond.(*ssa.BinOp)
			if !ok {
				continue
			}

			_, xPhi := bo.X.(*ssa.Phi)
			_, yPhi := bo.Y.(*ssa.Phi)

			switch {
			case bo.Op == token.LSS && isCount(bo.X) && yPhi, bo.Op == token.GTR && isCount(bo.Y) && xPhi:
				lss = b
			case bo.Op == token.GTR && isCount(bo.X) && yPhi, bo.Op == token.LSS && isCount(bo.Y) && xPhi:
				gtr = b
			}
		}

		if lss == nil || gtr == nil {
			continue
		}

		n++

		key := "router.Router.FindRoute|maximum tracked independently of the minimum"

		reach := func(from *ssa.BasicBlock) bool {
			seen := map[*ssa.BasicBlock]bool{from: true}
			work := []*ssa.BasicBlock{from}

			for len(work) > 0 {
				b := work[0]
				work = work[1:]

				if b == gtr {
					return true
				}

				for _, sc := range b.Succs {
					if !seen[sc] && li.body[sc] && sc != li.header {
						seen[sc] = true
						work = append(work, sc)
					}
				}
			}

			return false
		}

		if reach(lss.Succs[0]) && reach(lss.Succs[1]) {
			r.Discharge("R-C32-4", key, w.pos(gtr.Instrs[len(gtr.Instrs)-1].(*ssa.If).Cond.Pos()), "")
		} else {
			r.Violate("R-C32-4", key, w.pos(gtr.Instrs[len(gtr.Instrs)-1].(*ssa.If).Cond.Pos()), "the comparison with the running maximum is skipped for a candidate that sets a new minimum (else-if): with counts in decreasing order the maximum stays at its start value, 'fewest variables' is never chosen, and the first candidate in sort order — the least specific one — is returned")
		}
	}

	if n == 0 {
		r.Anchor("R-C32-4", "the min/max variable-count loop in FindRoute")
	}
}
