package main

import (
	"go/token"
	"strings"

	"golang.org/x/tools/go/ssa"
)

// C23 OAuth codes and refresh tokens are single-use.

func init() {
	register(&propertyCheck{
		id: "C23", level: "other", needs: loadNeeds{ssa: true},
		decides: "a code or refresh token is redeemed only by the request whose caches.Delete actually removed it (Delete is the one operation that is atomic under the cache lock): in every function that looks up and removes an entry of the OAuth code / refresh caches, every return that can report success lies behind the true edge of Delete's result; " +
			"those caches are read nowhere else; token issuance in the grant handlers is reachable only through the consume function's success edge and verifyPKCE's nil-error edge; verifyPKCE returns nil only for an absent challenge or an equal computed challenge.",
		misses: "the atomicity of caches.Delete itself (guarded-by rule of C28), expiry timing, the hash comparison's value-level correctness, client authentication.",
		run:    runC23,
	})
}

const cachesPkg = "internal/caches."

func runC23(w *World, r *Report) {
	r.Rule("R-C23-1", "edge cut: in each consume function (Find + Delete on one OAuth cache class) no return that can report success is reachable once the true edge of caches.Delete's result is removed", 2)
	r.Rule("R-C23-2", "who-may-read: caches.Find on the OAuth code / refresh classes is called only from consume functions", 2)
	r.Rule("R-C23-3", "edge cut: token creation in each grant handler is unreachable once {consume found, verifyPKCE nil} edges are removed", 3)
	r.Rule("R-C23-4", "edge cut: verifyPKCE's nil returns are unreachable once {challenge empty, computed == challenge} edges are removed", 1)

	c23DeleteAnswersForItsKey(w, r)

	ap := w.pkg("internal/server/oauth/authserver")
	cp := w.pkg("internal/caches")

	if ap == nil || cp == nil {
		r.Anchor("R-C23-1", "packages authserver / caches")

		return
	}

	classVal := map[int64]string{}

	for _, name := range []string{"OAuthCodeCache", "OAuthRefreshCache"} {
		c := lookupConstInt(cp, name)
		if c == nil {
			r.Anchor("R-C23-1", "caches."+name)

			continue
		}

		classVal[*c] = name
	}

	consume := map[*ssa.Function]string{}

	// who reads these classes
	for _, p := range w.pkgs {
		for _, fn := range w.srcFuncs(p) {
			var finds, deletes []*ssa.Call

			allInstrs(fn, func(in ssa.Instruction) {
				c, ok := in.(*ssa.Call)
				if !ok {
					return
				}

				id := callID(c.Common())
				if id != cachesPkg+"Find" && id != cachesPkg+"Delete" {
					return
				}

				cl, isConst := constInt(c.Call.Args[0])
				if !isConst || classVal[cl] == "" {
					return
				}

				if id == cachesPkg+"Find" {
					finds = append(finds, c)
				} else {
					deletes = append(deletes, c)
				}
			})

			for _, f := range finds {
				cl, _ := constInt(f.Call.Args[0])
				key := fnKey(fn) + "|Find(" + classVal[cl] + ")"

				var del *ssa.Call

				for _, d := range deletes {
					dcl, _ := constInt(d.Call.Args[0])
					if dcl == cl && stripValue(d.Call.Args[1]) == stripValue(f.Call.Args[1]) {
						del = d
					}
				}

				if del == nil {
					r.Violate("R-C23-2", key, w.pos(f.Pos()), "the "+classVal[cl]+" entry is read without being removed in the same function: the code/token can be redeemed again")

					continue
				}

				r.Discharge("R-C23-2", key, w.pos(f.Pos()), "read only inside a consume function (paired with Delete on the same key)")
				consume[fn] = classVal[cl]

				// R-C23-1
				k1 := fnKey(fn) + "|success-behind-Delete(" + classVal[cl] + ")"
				cuts := cutEdges(fn, func(fc Fact) bool { return fc.Kind == "true" && fc.V == ssa.Value(del) })
				reachable := reach(fn.Blocks[0], cuts, nil)
				bad := ""

				for _, ret := range returnsOf(fn) {
					res := retResults(ret)
					if len(res) != 2 {
						continue
					}

					if b, isConst := constBool(res[1]); isConst && !b {
						continue // reports failure
					}

					if reachable[ret.Block()] {
						bad = w.pos(ret.Pos())
					}
				}

				if bad != "" {
					r.Violate("R-C23-1", k1, bad, "this return can report success although this request's caches.Delete did not remove the entry (result ignored or not tested): two concurrent requests can both redeem the same "+strings.TrimSuffix(strings.TrimPrefix(classVal[cl], "OAuth"), "Cache")+" value")
				} else {
					r.Discharge("R-C23-1", k1, w.pos(del.Pos()), "success is returned only on the true edge of Delete's result")
				}
			}
		}
	}

	// R-C23-5: the atomicity of caches.Delete that R-C23-1 relies on
	r.Rule("R-C23-5", "caches.Delete is atomic: the lookups that decide its result and the removal share one critical section (rule R-C28-3 applied to internal/caches)", 3)

	if ci := loadCaches(w, r); ci != nil {
		c28Atomic(w, r, ci, "R-C23-5")
	}

	// R-C23-3: grant handlers
	nGrant := 0

	for _, fn := range w.srcFuncs(ap) {
		var consumes, pkce, creates []*ssa.Call

		allInstrs(fn, func(in ssa.Instruction) {
			c, ok := in.(*ssa.Call)
			if !ok {
				return
			}

			if cf := calleeFunction(c.Common()); cf != nil {
				if consume[cf] != "" {
					consumes = append(consumes, c)
				}

				switch cf.Name() {
				case "verifyPKCE":
					pkce = append(pkce, c)
				case "createAccessToken", "generateRefreshToken", "createIDToken":
					creates = append(creates, c)
				}
			}
		})

		if len(consumes) == 0 || len(creates) == 0 {
			continue
		}

		nGrant++

		for _, cons := range consumes {
			var found ssa.Value

			if cons.Referrers() != nil {
				for _, ref := range *cons.Referrers() {
					if e, ok := ref.(*ssa.Extract); ok && e.Index == 1 {
						found = e
					}
				}
			}

			cuts := cutEdges(fn, func(fc Fact) bool { return fc.Kind == "true" && found != nil && fc.V == found })
			checkCreates(w, r, fn, creates, cuts, found != nil, "consume-success", "the consume function did not report success")
		}

		if consumeKind(consume, consumes) == "OAuthCodeCache" {
			if len(pkce) == 0 {
				r.Violate("R-C23-3", fnKey(fn)+"|verifyPKCE", w.pos(fn.Pos()), "the authorization-code grant never verifies the PKCE code_verifier")
			}

			for _, pk := range pkce {
				cuts := cutEdges(fn, func(fc Fact) bool { return fc.Kind == "nil" && fc.V == ssa.Value(pk) })
				checkCreates(w, r, fn, creates, cuts, true, "verifyPKCE-nil", "verifyPKCE reported an error (or its result is not tested)")
			}
		}
	}

	if nGrant < 2 {
		r.Anchor("R-C23-3", "grant handlers calling a consume function and a token constructor")
	}

	// R-C23-4
	if fn := w.ssaFunc(ap, "verifyPKCE"); fn == nil {
		r.Anchor("R-C23-4", "authserver.verifyPKCE")
	} else {
		var pending ssa.Value
		if len(fn.Params) > 0 {
			pending = fn.Params[0]
		}

		isChallenge := func(v ssa.Value) bool {
			return derivesFrom(v, func(s ssa.Value) bool {
				switch x := s.(type) {
				case *ssa.FieldAddr:
					return fieldName(x.X.Type(), x.Field) == "CodeChallenge"
				case *ssa.Field:
					return fieldName(x.X.Type(), x.Field) == "CodeChallenge"
				}

				return false
			}, nil)
		}

		_ = pending

		cuts := cutEdges(fn, func(fc Fact) bool {
			if fc.Kind == "eq" && fc.C != nil {
				if s, ok := constString(fc.C); ok && s == "" && isChallenge(fc.V) {
					return true
				}
			}

			if fc.Kind == "cmp" && fc.Op == token.EQL && fc.X != nil && fc.Y != nil {
				// computed == pending.CodeChallenge, neither side constant
				_, cx := fc.X.(*ssa.Const)
				_, cy := fc.Y.(*ssa.Const)

				if !cx && !cy && (isChallenge(fc.X) || isChallenge(fc.Y)) {
					other := fc.X
					if isChallenge(fc.X) {
						other = fc.Y
					}

					// the other side derives from the verifier parameter through the hash
					return derivesFrom(other, func(s ssa.Value) bool {
						p, ok := s.(*ssa.Parameter)

						return ok && p.Name() != "pending" && len(fn.Params) > 1 && p == fn.Params[1]
					}, func(string) bool { return true })
				}
			}

			return false
		})

		reachable := reach(fn.Blocks[0], cuts, nil)
		bad := ""

		for _, ret := range returnsOf(fn) {
			res := retResults(ret)
			if len(res) == 1 && isNilConst(res[0]) && reachable[ret.Block()] {
				bad = w.pos(ret.Pos())
			}
		}

		if bad != "" || len(cuts) < 2 {
			r.Violate("R-C23-4", "authserver.verifyPKCE|nil-return", bad, "verifyPKCE can return nil although a challenge is recorded and the hash of the presented verifier was not found equal to it")
		} else {
			r.Discharge("R-C23-4", "authserver.verifyPKCE|nil-return", w.pos(fn.Pos()), "nil only behind {no challenge | S256(verifier) == challenge}")
		}
	}
}

func consumeKind(consume map[*ssa.Function]string, calls []*ssa.Call) string {
	for _, c := range calls {
		if cf := calleeFunction(c.Common()); cf != nil {
			return consume[cf]
		}
	}

	return ""
}

func checkCreates(w *World, r *Report, fn *ssa.Function, creates []*ssa.Call, cuts map[Edge]bool, haveGuard bool, guard, why string) {
	reachable := reach(fn.Blocks[0], cuts, nil)

	for _, cr := range creates {
		key := fnKey(fn) + "|" + calleeFunction(cr.Common()).Name() + "-behind-" + guard
		if !haveGuard || len(cuts) == 0 || reachable[cr.Block()] {
			r.Violate("R-C23-3", key, w.pos(cr.Pos()), "tokens are issued on a path where "+why)
		} else {
			r.Discharge("R-C23-3", key, w.pos(cr.Pos()), "reachable only through the "+guard+" edge")
		}
	}
}
