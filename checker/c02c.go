package main

import (
	"go/token"
	"go/types"
	"strings"

	"golang.org/x/tools/go/ssa"
)

// c02ClosureScanIgnoresDepth: R-C02-8. With the optimizer on, the compiler
// leaves out a block's (or a loop iteration's) own scope when a token scan of
// the body finds nothing that could tell the difference. A function literal,
// go or defer can: it captures the scope it is created in, at whatever brace
// depth it stands, and the loop variable it reads resolves through that scope
// to the one the iterations would share. The scanners therefore look for these
// tokens at every depth; a scan that looks only at the body's top level makes
// `for i := … { if c { fs = append(fs, func() int { return i }) } }` return
// the final i from every closure at -O1..3 and each iteration's i at -O0.
func c02ClosureScanIgnoresDepth(w *World, r *Report) {
	r.Rule("R-C02-8", "scope-elision scans see closures at every depth: in each compiler function that walks the token stream with a brace-depth counter, the Is(FuncToken)/Is(GoToken)/Is(DeferToken) tests are reachable from the function entry without crossing a branch decided by the depth counter (the scanners concerned: those that give func, go and defer one shared answer)", 9)

	cp := w.pkg("internal/language/compiler")
	if cp == nil {
		r.Anchor("R-C02-8", "package internal/language/compiler")

		return
	}

	tokenOf := func(in ssa.Instruction) string {
		c, ok := in.(*ssa.Call)
		if !ok || !strings.HasSuffix(callID(c.Common()), "tokenizer.Token.Is") {
			return ""
		}

		args := callArgs(c.Common())
		if len(args) < 2 {
			return ""
		}

		ld, ok := stripValue(args[1]).(*ssa.UnOp)
		if !ok || ld.Op != token.MUL {
			return ""
		}

		g, ok := ld.X.(*ssa.Global)
		if !ok {
			return ""
		}

		return g.Name()
	}

	for _, fn := range w.srcFuncs(cp) {
		// the depth counter: the int variable stepped up by one where the
		// block-begin token was just seen, together with the phis that carry
		// it round the loop
		depth := map[ssa.Value]bool{}
		begins := false

		isIntPhi := func(v ssa.Value) bool {
			p, ok := v.(*ssa.Phi)
			if !ok {
				return false
			}

			b, isB := p.Type().Underlying().(*types.Basic)

			return isB && b.Kind() == types.Int
		}

		step := func(v ssa.Value) (ssa.Value, bool) {
			bo, ok := v.(*ssa.BinOp)
			if !ok || (bo.Op != token.ADD && bo.Op != token.SUB) || !isIntPhi(bo.X) {
				return nil, false
			}

			if k, isK := constInt(bo.Y); !isK || k != 1 {
				return nil, false
			}

			return bo.X, true
		}

		var phis []*ssa.Phi

		allInstrs(fn, func(in ssa.Instruction) {
			if tokenOf(in) == "BlockBeginToken" {
				begins = true
			}

			if p, ok := in.(*ssa.Phi); ok && isIntPhi(p) {
				phis = append(phis, p)
			}

			bo, ok := in.(*ssa.BinOp)
			if !ok || bo.Op != token.ADD {
				return
			}

			x, ok := step(bo)
			if !ok {
				return
			}

			// directly on the true edge of tok.Is(BlockBeginToken)
			blk := bo.Block()
			if len(blk.Preds) != 1 {
				return
			}

			ifi, ok := blk.Preds[0].Instrs[len(blk.Preds[0].Instrs)-1].(*ssa.If)
			if !ok || blk.Preds[0].Succs[0] != blk {
				return
			}

			if c, isC := ifi.Cond.(*ssa.Call); isC && tokenOf(c) == "BlockBeginToken" {
				depth[x] = true
			}
		})

		for changed := len(depth) > 0; changed; {
			changed = false

			for _, p := range phis {
				for _, e := range p.Edges {
					other := e
					if x, ok := step(e); ok {
						other = x
					}

					if !isIntPhi(other) {
						continue
					}

					if depth[p] && !depth[other] {
						depth[other], changed = true, true
					}

					if depth[other] && !depth[p] {
						depth[p], changed = true, true
					}
				}
			}
		}

		if !begins || len(depth) == 0 {
			continue
		}

		isDepth := func(v ssa.Value) bool {
			if v == nil {
				return false
			}

			if depth[v] {
				return true
			}

			bo, ok := v.(*ssa.BinOp)

			return ok && depth[bo.X]
		}

		cuts := map[Edge]bool{}

		for _, b := range fn.Blocks {
			ifi, ok := b.Instrs[len(b.Instrs)-1].(*ssa.If)
			if !ok {
				continue
			}

			cmp, ok := ifi.Cond.(*ssa.BinOp)
			if ok && (isDepth(cmp.X) || isDepth(cmp.Y)) {
				cuts[Edge{b, 0}] = true
				cuts[Edge{b, 1}] = true
			}
		}

		// the scanners this rule is about give func, go and defer one answer:
		// the three tests share their true successor
		var tests []*ssa.Call

		shared := map[*ssa.BasicBlock]int{}

		allInstrs(fn, func(in ssa.Instruction) {
			name := tokenOf(in)
			if name != "FuncToken" && name != "GoToken" && name != "DeferToken" {
				return
			}

			c := in.(*ssa.Call)
			blk := c.Block()

			if ifi, ok := blk.Instrs[len(blk.Instrs)-1].(*ssa.If); ok && ifi.Cond == ssa.Value(c) {
				tests = append(tests, c)
				shared[blk.Succs[0]]++
			}
		})

		if len(tests) < 3 || len(shared) != 1 {
			continue
		}

		for _, c := range tests {
			name := tokenOf(c)
			key := fnKey(fn) + "|" + name + " seen at every depth"

			if instrReachableAfterCut(fn, c, cuts) {
				r.Discharge("R-C02-8", key, w.pos(c.Pos()), "reached without a depth test")
			} else {
				r.Violate("R-C02-8", key, w.pos(c.Pos()), "the scan looks for this token only at some brace depths: a closure, go or defer in a nested block of the body is not seen, the scope it would capture is elided at optimizer levels 1-3, and the closures of all iterations share one loop variable (3 3 3 instead of 0 1 2)")
			}
		}
	}
}
