package main

import (
	"go/ast"
	"go/constant"
	"go/token"
	"go/types"
	"sort"

	"golang.org/x/tools/go/packages"
)

// implementers lists the named (non-interface) types declared in pkg for which
// T or *T implements iface, sorted by name.
func implementers(pkg *packages.Package, iface *types.Interface) []*types.Named {
	var out []*types.Named

	scope := pkg.Types.Scope()
	for _, name := range scope.Names() {
		tn, ok := scope.Lookup(name).(*types.TypeName)
		if !ok || tn.IsAlias() {
			continue
		}

		n, ok := tn.Type().(*types.Named)
		if !ok {
			continue
		}

		if _, isIface := n.Underlying().(*types.Interface); isIface {
			continue
		}

		if types.Implements(n, iface) || types.Implements(types.NewPointer(n), iface) {
			out = append(out, n)
		}
	}

	sort.Slice(out, func(i, j int) bool { return out[i].Obj().Name() < out[j].Obj().Name() })

	return out
}

func ifaceOf(pkg *packages.Package, name string) *types.Interface {
	o := lookupObj(pkg, name)
	if o == nil {
		return nil
	}

	i, _ := o.Type().Underlying().(*types.Interface)

	return i
}

// bearsNode reports whether a value of type t can hold (directly, through
// pointers, slices, arrays, maps or nested plain structs) a value implementing
// iface.
func bearsNode(t types.Type, iface *types.Interface, seen map[types.Type]bool) bool {
	t = types.Unalias(t)
	if seen[t] {
		return false
	}

	seen[t] = true

	if types.Implements(t, iface) {
		return true
	}

	switch u := t.Underlying().(type) {
	case *types.Interface:
		// an interface whose method set includes iface's
		return types.Implements(t, iface)
	case *types.Pointer:
		if types.Implements(t, iface) {
			return true
		}

		return bearsNode(u.Elem(), iface, seen)
	case *types.Slice:
		return bearsNode(u.Elem(), iface, seen)
	case *types.Array:
		return bearsNode(u.Elem(), iface, seen)
	case *types.Map:
		return bearsNode(u.Elem(), iface, seen) || bearsNode(u.Key(), iface, seen)
	case *types.Struct:
		if types.Implements(types.NewPointer(t), iface) {
			return true
		}

		for i := 0; i < u.NumFields(); i++ {
			if bearsNode(u.Field(i).Type(), iface, seen) {
				return true
			}
		}
	}

	return false
}

// nodeFields returns the names of the direct fields of struct type n that can
// hold a node (see bearsNode), in declaration order.
func nodeFields(n *types.Named, iface *types.Interface) []string {
	st, ok := n.Underlying().(*types.Struct)
	if !ok {
		return nil
	}

	var out []string

	for i := 0; i < st.NumFields(); i++ {
		f := st.Field(i)
		if f.Embedded() {
			// embedded bases (BaseNode, BaseStmt) carry spans only; if one
			// ever bears a node it is reported under its own name.
			if !bearsNode(f.Type(), iface, map[types.Type]bool{}) {
				continue
			}
		}

		if bearsNode(f.Type(), iface, map[types.Type]bool{}) {
			out = append(out, f.Name())
		}
	}

	return out
}

// typeSwitchCases maps each type listed in a case of ts to its clause;
// hasDefault reports a default clause.
func typeSwitchCases(info *types.Info, ts *ast.TypeSwitchStmt) (cases map[string]*ast.CaseClause, typesByName map[string]types.Type, deflt *ast.CaseClause) {
	cases = map[string]*ast.CaseClause{}
	typesByName = map[string]types.Type{}

	for _, s := range ts.Body.List {
		cc := s.(*ast.CaseClause)
		if cc.List == nil {
			deflt = cc

			continue
		}

		for _, e := range cc.List {
			tv, ok := info.Types[e]
			if !ok {
				continue
			}

			if tv.IsNil() {
				cases["nil"] = cc

				continue
			}

			k := types.TypeString(tv.Type, func(p *types.Package) string { return p.Name() })
			cases[k] = cc
			typesByName[k] = tv.Type
		}
	}

	return
}

// switchSubject returns the expression a type switch inspects.
func switchSubject(ts *ast.TypeSwitchStmt) ast.Expr {
	var e ast.Expr

	switch a := ts.Assign.(type) {
	case *ast.AssignStmt:
		e = a.Rhs[0]
	case *ast.ExprStmt:
		e = a.X
	}

	if ta, ok := e.(*ast.TypeAssertExpr); ok {
		return ta.X
	}

	return nil
}

// caseBoundObj returns the implicit object the clause binds (the "s" of
// "switch s := x.(type)"), or nil.
func caseBoundObj(info *types.Info, cc *ast.CaseClause) types.Object {
	return info.Implicits[cc]
}

// constSwitchCases collects the constant values (as exact strings) listed in
// the cases of an expression switch, mapped to their clause.
func constSwitchCases(info *types.Info, sw *ast.SwitchStmt) (map[string]*ast.CaseClause, *ast.CaseClause) {
	out := map[string]*ast.CaseClause{}

	var deflt *ast.CaseClause

	for _, s := range sw.Body.List {
		cc := s.(*ast.CaseClause)
		if cc.List == nil {
			deflt = cc

			continue
		}

		for _, e := range cc.List {
			if tv, ok := info.Types[e]; ok && tv.Value != nil {
				out[tv.Value.ExactString()] = cc
			}
		}
	}

	return out, deflt
}

// constsOfType lists package-level constants of pkg whose type is exactly t.
func constsOfType(pkg *packages.Package, t types.Type) []*types.Const {
	var out []*types.Const

	scope := pkg.Types.Scope()
	for _, name := range scope.Names() {
		if c, ok := scope.Lookup(name).(*types.Const); ok && types.Identical(c.Type(), t) {
			out = append(out, c)
		}
	}

	sort.Slice(out, func(i, j int) bool {
		if out[i].Val().Kind() == out[j].Val().Kind() && constant.Compare(out[i].Val(), token.NEQ, out[j].Val()) {
			return constant.Compare(out[i].Val(), token.LSS, out[j].Val())
		}

		return out[i].Name() < out[j].Name()
	})

	return out
}

// selectorsOn collects the field names selected directly on object obj inside
// node (x.F where x resolves to obj).
func selectorsOn(info *types.Info, node ast.Node, obj types.Object) map[string][]*ast.SelectorExpr {
	out := map[string][]*ast.SelectorExpr{}

	ast.Inspect(node, func(n ast.Node) bool {
		se, ok := n.(*ast.SelectorExpr)
		if !ok {
			return true
		}

		if id, ok := ast.Unparen(se.X).(*ast.Ident); ok && info.Uses[id] == obj {
			out[se.Sel.Name] = append(out[se.Sel.Name], se)
		}

		return true
	})

	return out
}

// calleeObj resolves the object a call expression calls (function, method,
// or local variable holding a closure).
func calleeObj(info *types.Info, call *ast.CallExpr) types.Object {
	switch f := ast.Unparen(call.Fun).(type) {
	case *ast.Ident:
		return info.Uses[f]
	case *ast.SelectorExpr:
		if sel, ok := info.Selections[f]; ok {
			return sel.Obj()
		}

		return info.Uses[f.Sel]
	case *ast.IndexExpr:
		if id, ok := f.X.(*ast.Ident); ok {
			return info.Uses[id]
		}
	}

	return nil
}

// funcBodies yields every function declaration of a package.
func funcDecls(pkg *packages.Package) []*ast.FuncDecl {
	var out []*ast.FuncDecl

	for _, f := range pkg.Syntax {
		for _, d := range f.Decls {
			if fd, ok := d.(*ast.FuncDecl); ok && fd.Body != nil {
				out = append(out, fd)
			}
		}
	}

	return out
}

// lookupConstInt returns the value of an integer package-level constant.
func lookupConstInt(pkg *packages.Package, name string) *int64 {
	c, ok := lookupObj(pkg, name).(*types.Const)
	if !ok || c.Val().Kind() != constant.Int {
		return nil
	}

	v, exact := constant.Int64Val(c.Val())
	if !exact {
		return nil
	}

	return &v
}

// constStringOf returns the value of a string package-level constant ("" if absent).
func constStringOf(pkg *packages.Package, name string) string {
	c, ok := lookupObj(pkg, name).(*types.Const)
	if !ok || c.Val().Kind() != constant.String {
		return ""
	}

	return constant.StringVal(c.Val())
}

// constantInt64 returns the int64 value of an integer constant.
func constantInt64(v constant.Value) (int64, bool) {
	if v == nil || v.Kind() != constant.Int {
		return 0, false
	}

	return constant.Int64Val(v)
}
