package main

import (
	"strings"

	"golang.org/x/tools/go/ssa"
)

// c43GrantsOfTheCaller: R-C43-8. tables.Authorized(session, user, table, ops…)
// looks up the grants of `user`. "Grants for one user never authorize another"
// needs that user to be the authenticated caller: the User field of a session,
// directly or through parameters that only ever receive it.
func c43GrantsOfTheCaller(w *World, r *Report) {
	r.Rule("R-C43-8", "the grants consulted are the caller's: at every tables.Authorized call the user argument is the User field of a router.Session, or a parameter that receives such a value at every call of the enclosing function in the table packages (followed three levels)", 10)

	var pkgs []*ssa.Function

	for _, p := range w.pkgsUnder("internal/server/tables") {
		pkgs = append(pkgs, w.srcFuncs(p)...)
	}

	isSessionUser := func(v ssa.Value) bool {
		base, name := fieldLoadBase(v)

		return base != nil && name == "User" && strings.HasSuffix(strings.TrimPrefix(base.Type().String(), "*"), "router.Session")
	}

	var ok func(v ssa.Value, depth int) (bool, string)

	ok = func(v ssa.Value, depth int) (bool, string) {
		v = stripValue(v)

		if isSessionUser(v) {
			return true, ""
		}

		if ph, isPhi := v.(*ssa.Phi); isPhi {
			for _, e := range ph.Edges {
				if good, why := ok(e, depth); !good {
					return false, why
				}
			}

			return true, ""
		}

		p, isParam := v.(*ssa.Parameter)
		if !isParam || depth >= 3 {
			return false, "the user is " + valueName(v)
		}

		fn := p.Parent()
		idx := -1

		for i, q := range fn.Params {
			if q == p {
				idx = i
			}
		}

		callers := 0

		for _, g := range pkgs {
			var bad string

			allInstrs(g, func(in ssa.Instruction) {
				c, isCall := in.(ssa.CallInstruction)
				if !isCall || calleeFunction(c.Common()) != fn || bad != "" {
					return
				}

				callers++

				args := callArgs(c.Common())
				if idx >= len(args) {
					bad = "a call with fewer arguments"

					return
				}

				if good, why := ok(args[idx], depth+1); !good {
					bad = fnKey(g) + " passes " + strings.TrimPrefix(why, "the user is ")
				}
			})

			if bad != "" {
				return false, bad
			}
		}

		if callers == 0 {
			return false, "parameter " + p.Name() + " of " + fnKey(fn) + ", which has no caller in the table packages"
		}

		return true, ""
	}

	for _, fn := range pkgs {
		allInstrs(fn, func(in ssa.Instruction) {
			c, isCall := in.(*ssa.Call)
			if !isCall || !strings.HasSuffix(callID(c.Common()), "server/tables.Authorized") {
				return
			}

			args := callArgs(c.Common())
			if len(args) < 2 {
				return
			}

			key := fnKey(fn) + "|Authorized for the session's user"

			if good, why := ok(args[1], 0); good {
				r.Discharge("R-C43-8", key, w.pos(in.Pos()), "")
			} else {
				r.Violate("R-C43-8", key, w.pos(in.Pos()), "the grants looked up are not necessarily the caller's ("+why+"): a user without a grant can name a user who has one (`?user=alice`) and read alice's restricted table")
			}
		})
	}
}
