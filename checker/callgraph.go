package main

import (
	"go/types"
	"strings"

	"golang.org/x/tools/go/ssa"
)

// Repository call graph (E6): static callees, closures, go/defer targets, and
// interface invokes resolved by class-hierarchy analysis over repository types.
// Calls through plain function values (fields, package variables) are resolved
// to every function stored into that field / variable anywhere in the
// repository (a points-to approximation by storage location).

type callGraph struct {
	w       *World
	fns     []*ssa.Function
	byName  map[string][]*ssa.Function // method name -> repo methods (for CHA)
	stored  map[string][]*ssa.Function // storage location -> functions stored there
	callees map[*ssa.Function][]cgEdge
}

type cgEdge struct {
	site   ssa.Instruction
	callee *ssa.Function
	how    string // "static" | "closure" | "invoke" | "value:<loc>"
}

func storageKey(addr ssa.Value) string {
	switch x := addr.(type) {
	case *ssa.Global:
		return "g:" + x.Pkg.Pkg.Path() + "." + x.Name()
	case *ssa.FieldAddr:
		if n := namedOf(x.X.Type()); n != nil && n.Obj().Pkg() != nil {
			return "f:" + n.Obj().Pkg().Path() + "." + n.Obj().Name() + "." + fieldName(x.X.Type(), x.Field)
		}
	case *ssa.Field:
		if n := namedOf(x.X.Type()); n != nil && n.Obj().Pkg() != nil {
			return "f:" + n.Obj().Pkg().Path() + "." + n.Obj().Name() + "." + fieldName(x.X.Type(), x.Field)
		}
	}

	return ""
}

func buildCallGraph(w *World) *callGraph {
	cg := &callGraph{w: w, byName: map[string][]*ssa.Function{}, stored: map[string][]*ssa.Function{}, callees: map[*ssa.Function][]cgEdge{}}

	for _, p := range w.pkgs {
		cg.fns = append(cg.fns, w.srcFuncs(p)...)
	}

	for _, fn := range cg.fns {
		if fn.Signature.Recv() != nil && fn.Parent() == nil {
			cg.byName[fn.Name()] = append(cg.byName[fn.Name()], fn)
		}
	}

	funcOf := func(v ssa.Value) *ssa.Function {
		switch x := v.(type) {
		case *ssa.Function:
			return x
		case *ssa.MakeClosure:
			f, _ := x.Fn.(*ssa.Function)

			return f
		case *ssa.ChangeType:
			if f, ok := x.X.(*ssa.Function); ok {
				return f
			}
		}

		return nil
	}

	// functions stored into globals / fields (also through composite literals)
	for _, fn := range cg.fns {
		allInstrs(fn, func(in ssa.Instruction) {
			if st, ok := in.(*ssa.Store); ok {
				if f := funcOf(st.Val); f != nil {
					if k := storageKey(st.Addr); k != "" {
						cg.stored[k] = append(cg.stored[k], f)
					}
				}
			}
		})
	}

	for _, fn := range cg.fns {
		f := fn

		allInstrs(f, func(in ssa.Instruction) {
			ci, ok := in.(ssa.CallInstruction)
			if !ok {
				// closures created here may be called later by someone holding them: treat creation as a potential call
				if mc, ok := in.(*ssa.MakeClosure); ok {
					if cf, ok := mc.Fn.(*ssa.Function); ok {
						cg.callees[f] = append(cg.callees[f], cgEdge{in, cf, "closure"})
					}
				}

				return
			}

			c := ci.Common()

			if c.IsInvoke() {
				for _, m := range cg.byName[c.Method.Name()] {
					// receiver type must implement the interface
					rt := m.Signature.Recv().Type()
					if iface, ok := c.Value.Type().Underlying().(*types.Interface); ok && types.Implements(rt, iface) {
						cg.callees[f] = append(cg.callees[f], cgEdge{in, m, "invoke"})
					}
				}

				return
			}

			if cf := funcOf(c.Value); cf != nil {
				cg.callees[f] = append(cg.callees[f], cgEdge{in, cf, "static"})

				return
			}

			// call through a stored function value
			v := c.Value
			if u, ok := v.(*ssa.UnOp); ok {
				v = u.X
			}

			if k := storageKey(v); k != "" {
				for _, t := range cg.stored[k] {
					cg.callees[f] = append(cg.callees[f], cgEdge{in, t, "value:" + k})
				}
			}
		})
	}

	return cg
}

// reachableFrom returns the functions reachable from root with, for each, the
// call chain that reaches it (as function names).
func (cg *callGraph) reachableFrom(root *ssa.Function, skip func(e cgEdge, from *ssa.Function) bool) map[*ssa.Function][]string {
	out := map[*ssa.Function][]string{root: {fnKey(root)}}
	work := []*ssa.Function{root}

	for len(work) > 0 {
		f := work[0]
		work = work[1:]

		for _, e := range cg.callees[f] {
			if skip != nil && skip(e, f) {
				continue
			}

			if _, seen := out[e.callee]; seen {
				continue
			}

			chain := append(append([]string{}, out[f]...), fnKey(e.callee))
			out[e.callee] = chain
			work = append(work, e.callee)
		}
	}

	return out
}

func chainString(c []string) string { return strings.Join(c, " → ") }
