package main

import (
	"encoding/json"
	"fmt"
	"os"
	"os/exec"
	"path/filepath"
	"sort"
	"strings"
	"sync"
)

// Thorough tier: besides evaluating the rules on /repo, the check is run
// against every recorded variant of the repository that is known to break the
// property — the hand-written one-line mutations of selftest/mutations.tsv and
// the confirmed seeded changes under seeded/ — each applied to its own scratch
// copy and analysed by a separate egocheck process.  A variant the check is
// expected to catch and does not is a failure of the check (reported as a
// violated "selftest" obligation: the rule has lost the power it had when the
// variant was recorded).  A variant that no longer applies to the current
// source, or no longer type-checks, is skipped and listed.

type variantResult struct {
	Kind     string `json:"kind"` // "mutation" | "seed"
	Name     string `json:"name"`
	Expected string `json:"expected"` // rule expected to fire, or "not detected (recorded)"
	Outcome  string `json:"outcome"`  // "detected" | "missed" | "skipped: …" | "silent (as recorded)" | "now detected"
	Fired    string `json:"fired,omitempty"`
}

func runVariants(pc *propertyCheck, repo, out string, rep *Report) {
	self, err := os.Executable()
	if err != nil {
		rep.Violate("selftest", "selftest|executable", "", "cannot locate the checker binary: "+err.Error())

		return
	}

	type job struct {
		res   variantResult
		apply func(dir string) (bool, string) // applied?, note
		want  bool                            // detection expected
	}

	var jobs []*job

	// ---- mutations.tsv
	if b, err := os.ReadFile(filepath.Join(out, "selftest", "mutations.tsv")); err == nil {
		n := 0

		for _, line := range strings.Split(string(b), "\n") {
			f := strings.Split(line, "\t")
			if len(f) < 5 || f[0] != pc.id {
				continue
			}

			n++

			rule, file, expr, desc := f[1], f[2], f[3], f[4]

			jobs = append(jobs, &job{
				res:  variantResult{Kind: "mutation", Name: fmt.Sprintf("%s #%d: %s", rule, n, desc), Expected: rule},
				want: true,
				apply: func(dir string) (bool, string) {
					p := filepath.Join(dir, file)

					before, err := os.ReadFile(p)
					if err != nil {
						return false, "file no longer exists"
					}

					if o, err := exec.Command("perl", "-0pi", "-e", expr, p).CombinedOutput(); err != nil {
						return false, "perl: " + strings.TrimSpace(string(o))
					}

					after, _ := os.ReadFile(p)
					if string(before) == string(after) {
						return false, "the text the mutation edits is no longer there"
					}

					return true, ""
				},
			})
		}
	}

	// ---- seeds
	dirs, _ := filepath.Glob(filepath.Join(out, "seeded", "*", "meta.json"))
	sort.Strings(dirs)

	for _, mp := range dirs {
		var meta struct {
			Property   string `json:"property"`
			DetectedBy string `json:"detected_by"`
		}

		b, err := os.ReadFile(mp)
		if err != nil || json.Unmarshal(b, &meta) != nil || meta.Property != pc.id {
			continue
		}

		patch := filepath.Join(filepath.Dir(mp), "patch.diff")
		want := !strings.HasPrefix(meta.DetectedBy, "not detected") && meta.DetectedBy != "pending" && strings.Contains(meta.DetectedBy, pc.id)

		exp := meta.DetectedBy
		if !want {
			exp = "not detected (recorded): " + meta.DetectedBy
		}

		jobs = append(jobs, &job{
			res:  variantResult{Kind: "seed", Name: filepath.Base(filepath.Dir(mp)), Expected: exp},
			want: want,
			apply: func(dir string) (bool, string) {
				c := exec.Command("patch", "-p1", "-s", "-i", patch)
				c.Dir = dir

				if o, err := c.CombinedOutput(); err != nil {
					return false, "patch no longer applies: " + firstLine(strings.TrimSpace(string(o)))
				}

				return true, ""
			},
		})
	}

	if len(jobs) == 0 {
		rep.thorough = map[string]any{"variants": 0, "note": "no recorded variant for this property"}

		return
	}

	sem := make(chan struct{}, 4)

	var wg sync.WaitGroup

	for _, j := range jobs {
		wg.Add(1)

		go func(j *job) {
			defer wg.Done()

			sem <- struct{}{}

			defer func() { <-sem }()

			dir, err := os.MkdirTemp("/var/tmp", "egovariant-")
			if err != nil {
				j.res.Outcome = "skipped: " + err.Error()

				return
			}

			defer os.RemoveAll(dir)

			if o, err := exec.Command("rsync", "-a", "--exclude", ".git", repo+"/", dir+"/").CombinedOutput(); err != nil {
				j.res.Outcome = "skipped: copy failed: " + firstLine(string(o))

				return
			}

			if ok, note := j.apply(dir); !ok {
				j.res.Outcome = "skipped: " + note

				return
			}

			c := exec.Command(self, "-p", pc.id, "-tier", "quick", "-repo", dir, "-no-evidence", "-out", out)
			o, _ := c.CombinedOutput()
			text := string(o)

			switch {
			case strings.Contains(text, "violation: load|"):
				j.res.Outcome = "skipped: the variant no longer type-checks"
			case strings.Contains(text, "VIOLATION property="):
				var fired []string

				for _, l := range strings.Split(text, "\n") {
					if strings.HasPrefix(l, "violation: ") {
						k := strings.TrimPrefix(l, "violation: ")
						if i := strings.Index(k, " at "); i > 0 {
							k = k[:i]
						}

						fired = append(fired, k)
					}
				}

				j.res.Fired = strings.Join(fired, "; ")
				if len(j.res.Fired) > 600 {
					j.res.Fired = j.res.Fired[:600] + "…"
				}

				if j.want {
					j.res.Outcome = "detected"
				} else {
					j.res.Outcome = "now detected"
				}
			default:
				if j.want {
					j.res.Outcome = "missed"
				} else {
					j.res.Outcome = "silent (as recorded)"
				}
			}
		}(j)
	}

	wg.Wait()

	var results []variantResult

	counts := map[string]int{}

	for _, j := range jobs {
		results = append(results, j.res)

		o := j.res.Outcome
		if strings.HasPrefix(o, "skipped") {
			o = "skipped"
		}

		counts[j.res.Kind+" "+o]++

		key := "selftest|" + j.res.Kind + " " + j.res.Name

		switch {
		case j.res.Outcome == "missed":
			rep.Violate("selftest", key, "", "a recorded variant of the repository that breaks the property (and that this check caught when it was recorded) is no longer reported: the check has lost that power")
		case strings.HasPrefix(j.res.Outcome, "skipped"):
			rep.Info("selftest", key, "", j.res.Outcome)
		default:
			rep.Discharge("selftest", key, "", j.res.Outcome+" "+j.res.Fired)
		}
	}

	rep.thorough = map[string]any{"variants": len(jobs), "outcomes": counts, "results": results,
		"note": "each variant is a scratch copy of the current working tree with one recorded change applied, analysed by a separate egocheck process; nothing of ego is executed"}
}
