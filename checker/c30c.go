package main

import (
	"golang.org/x/tools/go/ssa"
)

// c30ReadReportsBrokenResults: R-C30-6. (*sql.Rows).Next answers false both at
// the end of the result set and when the result set could not be read to its
// end; only rows.Err() tells the two apart. The resource store answers "which
// records match" for the user, DSN, grant and revocation stores: a read that
// broke off has to be an error, not a shorter answer.
func c30ReadReportsBrokenResults(w *World, r *Report) {
	r.Rule("R-C30-6", "a result set is read to its end or the read fails: in internal/resources, from the false edge of every (*sql.Rows).Next no return is reachable without passing (*sql.Rows).Err, except on edges where an error is already known to be non-nil", 1)

	rp := w.pkg("internal/resources")
	if rp == nil {
		return
	}

	for _, fn := range w.srcFuncs(rp) {
		allInstrs(fn, func(in ssa.Instruction) {
			next, ok := in.(*ssa.Call)
			if !ok || callID(next.Common()) != "database/sql.Rows.Next" {
				return
			}

			blk := next.Block()

			ifi, isIf := blk.Instrs[len(blk.Instrs)-1].(*ssa.If)
			if !isIf || ifi.Cond != ssa.Value(next) {
				r.Violate("R-C30-6", fnKey(fn)+"|rows.Next decides a loop", w.pos(in.Pos()), "the answer of rows.Next is not tested directly")

				return
			}

			cuts := cutEdges(fn, func(f Fact) bool {
				return f.Kind == "nonnil" && f.V != nil && isErrorType(f.V.Type())
			})

			// not into the loop body
			cuts[Edge{blk, 0}] = true

			key := fnKey(fn) + "|rows.Err after the loop"

			hit := pathAvoiding(next, cuts, func(i ssa.Instruction) bool {
				c, ok := i.(*ssa.Call)

				return ok && callID(c.Common()) == "database/sql.Rows.Err"
			}, func(i ssa.Instruction) bool {
				_, isRet := i.(*ssa.Return)

				return isRet
			})

			if hit != nil {
				r.Violate("R-C30-6", key, w.pos(in.Pos()), "the loop over rows.Next is not followed by rows.Err: a result set that broke off (a dropped connection, a cancelled query) is returned as a shorter, successful read; the revocation list then answers \"not revoked\" and the grant lookup \"no grant\" for a row that is there")
			} else {
				r.Discharge("R-C30-6", key, w.pos(in.Pos()), "")
			}
		})
	}
}
