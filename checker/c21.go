package main

import (
	"go/token"
	"strings"

	"golang.org/x/tools/go/ssa"
)

// C21 Native tokens are honoured exactly while valid.

func init() {
	register(&propertyCheck{
		id: "C21", level: "other", needs: loadNeeds{ssa: true},
		decides: "the acceptance gates and the revocation/cache coherence of native tokens: in tokens.Unwrap and tokens.Validate no consistent path reports success once any one of the edges {decryption succeeded, token not expired, token not revoked} is removed (path-sensitive search with nil-ness facts on the error variable); " +
			"in Session.Authenticate a token-cache hit is accepted only past the comparison with the cached token's Expires; every cache class that Authenticate treats as an acceptance shortcut is purged by tokens.Blacklist on every successful path, and un-revocation and flush invalidate the revocation cache; the revocation store handle is used only under its mutex.",
		misses: "interleavings with cache expiry and wall-clock time, single-byte tampering (C27 covers decryption), tokens validated by a remote authority, cluster peers' caches (C29).",
		run:    runC21,
	})
}

var blClassForPurge = int64(-1)

func runC21(w *World, r *Report) {
	defer c21CachedTokenKeepsExpiry(w, r)
	defer c21CacheHitRevocation(w, r)
	defer c21FailedLookupNotCached(w, r)
	defer c21CanonicalTokenText(w, r)

	r.Rule("R-C21-1", "acceptance gates (path-sensitive edge cut): for each guard g in {Decrypt error nil, not expired, not revoked, revocation lookup answered} no consistent path of Unwrap / Validate reaches a success return when g's edges are removed", 6)
	r.Rule("R-C21-2", "Session.Authenticate: the authenticated-by-cache assignment is unreachable once the edges {cached token not expired, cached value is not a full token, cached token has no expiry} are removed", 1)
	r.Rule("R-C21-3", "revocation coherence: after a successful insert, tokens.Blacklist passes Purge of every cache class that Session.Authenticate uses as an acceptance shortcut and of the revocation cache; Delete and Flush invalidate the revocation cache", 4)
	r.Rule("R-C21-4", "guarded-by: the package-level revocation store handle in language/tokens is read and written only with the package mutex held", 8)

	tp := w.pkg("internal/language/tokens")
	rp := w.pkg("internal/router")

	if tp == nil || rp == nil {
		r.Anchor("R-C21-1", "packages language/tokens / router")

		return
	}

	// ---- R-C21-1
	for _, name := range []string{"Unwrap", "Validate"} {
		fn := w.ssaFunc(tp, name)
		if fn == nil {
			r.Anchor("R-C21-1", "tokens."+name)

			continue
		}

		var decrypt, blk *ssa.Call

		allInstrs(fn, func(in ssa.Instruction) {
			if c, ok := in.(*ssa.Call); ok {
				switch callID(c.Common()) {
				case "internal/util.Decrypt":
					decrypt = c
				case "internal/language/tokens.IsBlacklisted":
					blk = c
				}
			}
		})

		extract := func(c *ssa.Call, idx int) ssa.Value {
			if c == nil || c.Referrers() == nil {
				return nil
			}

			for _, ref := range *c.Referrers() {
				if e, ok := ref.(*ssa.Extract); ok && e.Index == idx {
					return e
				}
			}

			return nil
		}

		decErr := extract(decrypt, 1)
		blkFlag := extract(blk, 0)
		blkErr := extract(blk, 1)

		guards := []struct {
			name string
			cuts map[Edge]bool
		}{
			{"decrypt-ok", cutEdges(fn, func(f Fact) bool { return f.Kind == "nil" && decErr != nil && f.V == decErr })},
			{"not-expired", cutEdges(fn, func(f Fact) bool {
				if f.Kind != "cmp" || (f.Op != token.LEQ && f.Op != token.LSS) {
					return false
				}

				c, ok := f.X.(*ssa.Call)

				return ok && callID(c.Common()) == "time.Duration.Seconds"
			})},
			{"not-revoked", cutEdges(fn, func(f Fact) bool { return f.Kind == "false" && blkFlag != nil && f.V == blkFlag })},
			// the revocation lookup itself may fail: acceptance must lie behind "its error is nil"
			// (a test of the lookup's error, or of a variable it was assigned to)
			{"lookup-answered", cutEdges(fn, func(f Fact) bool {
				return f.Kind == "nil" && blkErr != nil && derivesFrom(f.V, func(v ssa.Value) bool { return v == blkErr }, nil)
			})},
		}

		for _, g := range guards {
			key := "tokens." + name + "|success-behind-" + g.name

			if len(g.cuts) == 0 {
				r.Violate("R-C21-1", key, w.pos(fn.Pos()), "tokens."+name+" has no branch for the "+g.name+" test")

				continue
			}

			bad := ""

			walkPathsWith(fn, g.cuts, absValueErr, func(b *ssa.BasicBlock, facts pathFacts) bool {
				ret, ok := b.Instrs[len(b.Instrs)-1].(*ssa.Return)
				if !ok {
					return false
				}

				res := retResults(ret)

				// success: (token non-nil | valid true) — an error known non-nil makes it a failure return
				first := absValueErr(res[0], facts)
				errAbs := absValueErr(res[1], facts)

				success := true

				switch {
				case first == 'z' || first == 'F':
					success = false
				case errAbs == 'Z' && name == "Unwrap":
					success = false
				}

				if success {
					bad = w.pos(ret.Pos())

					return true
				}

				return false
			})

			if bad != "" {
				r.Violate("R-C21-1", key, bad, "tokens."+name+" can report a token as acceptable on a path that did not pass the "+g.name+" test")
			} else {
				r.Discharge("R-C21-1", key, w.pos(fn.Pos()), "no consistent success path without "+g.name)
			}
		}
	}

	// ---- R-C21-2 and the shortcut classes
	auth := w.ssaFunc(rp, "Session.Authenticate")
	shortcut := map[int64]string{}

	cp := w.pkg("internal/caches")

	className := func(v int64) string {
		if cp != nil {
			for _, n := range []string{"TokenCache", "AuthCache", "BlacklistCache", "UserCache", "OAuthJWTCache"} {
				if c := lookupConstInt(cp, n); c != nil && *c == v {
					return n
				}
			}
		}

		return sprintInt(int(v))
	}

	if auth == nil {
		r.Anchor("R-C21-2", "router.Session.Authenticate")
	} else {
		var find *ssa.Call

		allInstrs(auth, func(in ssa.Instruction) {
			if c, ok := in.(*ssa.Call); ok && callID(c.Common()) == "internal/caches.Find" {
				if cl, isC := constInt(c.Call.Args[0]); isC {
					shortcut[cl] = className(cl)
					find = c
				}
			}
		})

		if find == nil {
			r.Anchor("R-C21-2", "caches.Find in Session.Authenticate")
		} else {
			cuts := cutEdges(auth, func(f Fact) bool {
				c, isCall := f.V.(*ssa.Call)

				switch f.Kind {
				case "false":
					if isCall && callID(c.Common()) == "time.Time.After" && len(c.Call.Args) == 2 && isFieldNamed(c.Call.Args[1], "Expires") {
						return true
					}

					// isFull (comma-ok of the *Token assertion, possibly and-ed with != nil) and nothing else
					return c21IsFullFlag(f.V, 0)
				case "true":
					return isCall && callID(c.Common()) == "time.Time.IsZero"
				}

				return false
			})

			// Every way of becoming authenticated other than the cache hit is a
			// validator call; remove the edges leaving their blocks. What
			// remains reachable with Authenticated possibly true is a cache hit
			// that skipped the expiry comparison.
			validators := 0

			for _, b := range auth.Blocks {
				for _, in := range b.Instrs {
					c, ok := in.(*ssa.Call)
					if !ok {
						continue
					}

					id := callID(c.Common())
					if strings.HasSuffix(id, "auth.TokenUnwrap") || strings.HasSuffix(id, "auth.ValidatePassword") || strings.HasSuffix(id, "oauth.ValidateJWT") {
						validators++

						for si := range b.Succs {
							cuts[Edge{b, si}] = true
						}
					}
				}
			}

			key := "router.Session.Authenticate|cache-hit-behind-expiry"

			if validators < 3 || len(cuts) < 5 {
				r.Violate("R-C21-2", key, w.pos(find.Pos()), "could not identify the three credential validators and the cached token's expiry comparison in Session.Authenticate")
			} else {
				bad := ""

				walkPaths(auth, cuts, func(b *ssa.BasicBlock, facts pathFacts) bool {
					for _, in := range b.Instrs {
						st, ok := in.(*ssa.Store)
						if !ok || !isFieldNamed(st.Addr, "Authenticated") {
							continue
						}

						if absValue(st.Val, facts) != 'F' {
							bad = w.pos(in.Pos())

							return true
						}
					}

					return false
				})

				if bad != "" {
					r.Violate("R-C21-2", key, w.pos(find.Pos()), "a session can become authenticated from the token cache alone on a path that never compares the current time with the cached token's expiry (store at "+bad+")")
				} else {
					r.Discharge("R-C21-2", key, w.pos(find.Pos()), "without a validator call, authentication needs the Expires comparison")
				}
			}
		}
	}

	// ---- R-C21-3
	purgesOf := func(fn *ssa.Function, class int64) func(ssa.Instruction) bool {
		return func(i ssa.Instruction) bool {
			c, ok := i.(*ssa.Call)
			if !ok {
				return false
			}

			id := callID(c.Common())
			if id != "internal/caches.Purge" && id != "internal/caches.PurgeLocal" && id != "internal/caches.Delete" && id != "internal/caches.PurgeAll" {
				return false
			}

			if id == "internal/caches.PurgeAll" {
				return true
			}

			cl, isC := constInt(c.Call.Args[0])
			if !isC || cl != class {
				return false
			}

			// Delete removes one key. The revocation functions only know the token's
			// ID, which is the key of the revocation cache and of no other class (the
			// token cache is keyed by the token text, the others by user name): for
			// those a Delete by ID removes nothing.
			if id == "internal/caches.Delete" && class != blClassForPurge {
				return false
			}

			return true
		}
	}

	blClass := int64(-1)
	if cp != nil {
		if c := lookupConstInt(cp, "BlacklistCache"); c != nil {
			blClass = *c
			blClassForPurge = *c
		}
	}

	useCacheFalse := func(fn *ssa.Function) map[Edge]bool {
		return cutEdges(fn, func(f Fact) bool {
			if f.Kind != "false" {
				return false
			}

			u, ok := f.V.(*ssa.UnOp)
			if !ok {
				return false
			}

			g, ok := u.X.(*ssa.Global)

			return ok && g.Name() == "useCache"
		})
	}

	storeOp := func(fn *ssa.Function, method string) *ssa.Call {
		var out *ssa.Call

		allInstrs(fn, func(in ssa.Instruction) {
			if c, ok := in.(*ssa.Call); ok && callID(c.Common()) == "internal/resources.ResHandle."+method {
				out = c
			}
		})

		return out
	}

	if fn := w.ssaFunc(tp, "Blacklist"); fn == nil {
		r.Anchor("R-C21-3", "tokens.Blacklist")
	} else if ins := storeOp(fn, "Insert"); ins == nil {
		r.Anchor("R-C21-3", "handle.Insert in tokens.Blacklist")
	} else {
		classes := map[int64]string{blClass: "BlacklistCache"}
		for k, v := range shortcut {
			classes[k] = v
		}

		cuts := useCacheFalse(fn)
		for e := range cutEdges(fn, func(f Fact) bool { return f.Kind == "nonnil" && f.V == ssa.Value(ins) }) {
			cuts[e] = true
		}

		for cl, name := range classes {
			key := "tokens.Blacklist|purges " + name
			if esc := pathAvoiding(ins, cuts, purgesOf(fn, cl), isReturn); esc != nil {
				r.Violate("R-C21-3", key, w.pos(esc.Pos()), "a token can be revoked without the "+name+" being purged: a cached acceptance (or a cached 'not revoked' answer) keeps the revoked token working")
			} else {
				r.Discharge("R-C21-3", key, w.pos(ins.Pos()), "purged on every successful path")
			}
		}
	}

	for _, spec := range []struct{ fn, op string }{{"Delete", "Delete"}, {"Flush", "Delete"}} {
		fn := w.ssaFunc(tp, spec.fn)
		if fn == nil {
			r.Anchor("R-C21-3", "tokens."+spec.fn)

			continue
		}

		key := "tokens." + spec.fn + "|invalidates BlacklistCache"
		cuts := useCacheFalse(fn)

		// success returns only: a nil error
		esc := pathFromEntryAvoiding(fn, cuts, purgesOf(fn, blClass), func(i ssa.Instruction) bool {
			ret, ok := i.(*ssa.Return)
			if !ok {
				return false
			}

			res := retResults(ret)
			last := res[len(res)-1]

			if spec.fn == "Flush" {
				return true
			}

			// Delete: success = nil error after the store's Delete call executed
			return isNilConst(last) && storeOp(fn, spec.op) != nil && instrDominates(storeOp(fn, spec.op), ret)
		})

		// Flush returns 0,nil early when no store is configured: nothing to invalidate there
		if spec.fn == "Flush" && esc != nil {
			if ret, ok := esc.(*ssa.Return); ok {
				if op := storeOp(fn, spec.op); op != nil && !instrDominates(op, ret) && !op.Block().Dominates(ret.Block()) {
					// re-run ignoring returns that precede the store operation
					esc = pathAvoiding(firstInstr(fn), cuts, purgesOf(fn, blClass), func(i ssa.Instruction) bool {
						rr, ok := i.(*ssa.Return)

						return ok && op.Block().Dominates(rr.Block())
					})
				}
			}
		}

		if esc != nil {
			r.Violate("R-C21-3", key, w.pos(esc.Pos()), "the revocation list changes without the cached revocation answers being invalidated")
		} else {
			r.Discharge("R-C21-3", key, w.pos(fn.Pos()), "invalidated on every path that changes the store")
		}
	}

	// ---- R-C21-4 guarded-by
	fns := w.srcFuncs(tp)
	entry := entryLocksets(fns, nil)

	callersOf := func(name string) int {
		n := 0

		for _, p := range w.pkgs {
			for _, f := range w.srcFuncs(p) {
				allCalls(f, func(ci ssa.CallInstruction) {
					if callID(ci.Common()) == "internal/language/tokens."+name {
						n++
					}
				})
			}
		}

		return n
	}

	for _, fn := range fns {
		if fn.Synthetic != "" {
			continue
		}

		ls := computeLocksets(fn, entry[fn], nil)

		allInstrs(fn, func(in ssa.Instruction) {
			var write bool

			switch x := in.(type) {
			case *ssa.UnOp:
				g, ok := x.X.(*ssa.Global)
				if !ok || x.Op != token.MUL || g.Name() != "handle" || g.Pkg.Pkg != tp.Types {
					return
				}
			case *ssa.Store:
				g, ok := x.Addr.(*ssa.Global)
				if !ok || g.Name() != "handle" || g.Pkg.Pkg != tp.Types {
					return
				}

				write = true
			default:
				return
			}

			key := fnKey(fn) + "|" + map[bool]string{true: "write", false: "read"}[write] + " handle"

			if ls.heldAt(in)["tokens.mutex"] == 'W' {
				r.Discharge("R-C21-4", key, w.pos(in.Pos()), "mutex held")

				return
			}

			if fn.Name() == "Close" && callersOf("Close") == 0 {
				r.Except("R-C21-4", key, w.pos(in.Pos()), "tokens.Close has no caller outside tests (checked on this run), so it cannot race with request handling")

				return
			}

			r.Violate("R-C21-4", key, w.pos(in.Pos()), "the revocation store handle is accessed without the package mutex: a concurrent SetDatabasePath/Close races with validation")
		})
	}
}

func firstInstr(fn *ssa.Function) ssa.Instruction {
	return fn.Blocks[0].Instrs[0]
}

// absValueErr extends absValue with the repository's error constructors: an
// error built by a method of *errors.Error on one of the package-level Err*
// values is never nil.
func absValueErr(v ssa.Value, f pathFacts) byte {
	return absValueErrSeen(v, f, map[ssa.Value]bool{})
}

func absValueErrSeen(v ssa.Value, f pathFacts, seen map[ssa.Value]bool) byte {
	if a := absValue(v, f); a != 0 {
		return a
	}

	if ph, ok := v.(*ssa.Phi); ok {
		if seen[ph] {
			return 0
		}

		seen[ph] = true

		// all inputs agree?
		var out byte

		for i, e := range ph.Edges {
			a := absValueErrSeen(e, f, seen)
			if a == 0 {
				return 0
			}

			if i == 0 {
				out = a
			} else if out != a {
				return 0
			}
		}

		return out
	}

	if _, isAlloc := v.(*ssa.Alloc); isAlloc {
		return 'Z'
	}

	mi, ok := v.(*ssa.MakeInterface)
	if !ok {
		return 0
	}

	c, ok := mi.X.(*ssa.Call)
	if !ok {
		return 0
	}

	id := callID(c.Common())
	if !strings.HasPrefix(id, "internal/errors.Error.") {
		return 0
	}

	// receiver chain must start at a package-level Err* variable
	if derivesFrom(c.Call.Args[0], func(s ssa.Value) bool {
		g, isG := s.(*ssa.Global)

		return isG && strings.HasPrefix(g.Name(), "Err")
	}, func(cid string) bool { return strings.HasPrefix(cid, "internal/errors.Error.") }) {
		return 'Z'
	}

	return 0
}

// c21CachedTokenKeepsExpiry: R-C21-5.  A token-cache hit skips the expiry comparison when the cached
// token has no Expires (an entry vouched for by a remote authority).  What Session.Authenticate
// itself puts in the cache after validating a token locally must therefore be the validated token
// (the value TokenUnwrap returned) or a copy that carries its Expires — otherwise the token is
// accepted from the cache for ever.
func c21CachedTokenKeepsExpiry(w *World, r *Report) {
	r.Rule("R-C21-5", "the value Session.Authenticate stores in the token cache after local validation is the token TokenUnwrap returned, or a tokens.Token whose Expires is copied from it", 1)

	rp := w.pkg("internal/router")
	if rp == nil {
		return
	}

	fn := w.ssaFunc(rp, "Session.Authenticate")
	if fn == nil {
		r.Anchor("R-C21-5", "router.Session.Authenticate")

		return
	}

	fromUnwrap := func(v ssa.Value) bool {
		return derivesFrom(v, func(s ssa.Value) bool {
			c, _ := resultOf(s)
			if c == nil {
				c, _ = s.(*ssa.Call)
			}

			return c != nil && (strings.HasSuffix(callID(c.Common()), "auth.TokenUnwrap") || strings.HasSuffix(callID(c.Common()), "tokens.Unwrap"))
		}, nil)
	}

	n := 0

	allInstrs(fn, func(in ssa.Instruction) {
		c := callTo(in, "internal/caches.Add")
		if c == nil || len(c.Args) != 3 {
			return
		}

		if k := c40ClassKey(c.Args[0]); !strings.Contains(k, "TokenCache") && k != "" {
			// class given as a constant: compare with the TokenCache constant
			tc := lookupConstIntAny(w, "internal/caches", "TokenCache")
			if kc, isC := constInt(c.Args[0]); !isC || tc == nil || kc != *tc {
				return
			}
		}

		v := c.Args[2]
		if mi, ok := v.(*ssa.MakeInterface); ok {
			v = mi.X
		}

		// only values that are (pointers to) tokens.Token
		nt := namedOf(v.Type())
		if nt == nil || nt.Obj().Name() != "Token" {
			return
		}

		n++

		key := "router.Session.Authenticate|cached token keeps its expiry"
		if n > 1 {
			key += "#" + sprintInt(n)
		}

		v = resolveLocal(v)

		switch {
		case fromUnwrap(v):
			if _, isAlloc := v.(*ssa.Alloc); !isAlloc {
				r.Discharge("R-C21-5", key, w.pos(in.Pos()), "the validated token itself")

				return
			}

			fallthrough
		default:
			al, isAlloc := v.(*ssa.Alloc)
			if !isAlloc {
				r.Violate("R-C21-5", key, w.pos(in.Pos()), "the token put in the cache is not the validated token")

				return
			}

			hasExpires := false

			for _, ref := range *al.Referrers() {
				fa, ok := ref.(*ssa.FieldAddr)
				if !ok || fieldName(fa.X.Type(), fa.Field) != "Expires" {
					continue
				}

				for _, r2 := range *fa.Referrers() {
					if st, ok := r2.(*ssa.Store); ok && fromUnwrap(st.Val) {
						hasExpires = true
					}
				}
			}

			if hasExpires {
				r.Discharge("R-C21-5", key, w.pos(in.Pos()), "a copy that carries Expires")
			} else {
				r.Violate("R-C21-5", key, w.pos(in.Pos()), "the token put in the cache is a copy without the validated token's Expires: a cache hit on an entry without an expiry skips the expiry comparison, so the token keeps being accepted after it has expired for as long as it is presented")
			}
		}
	})

	if n == 0 {
		r.Anchor("R-C21-5", "caches.Add(caches.TokenCache, …, *tokens.Token) in Session.Authenticate")
	}
}

// c21CanonicalTokenText: R-C21-8. A native token is hex text; hex.DecodeString
// accepts upper-case digits, so a token with any a-f digit changed to upper
// case decodes to the issued token's bytes. "Honoured exactly" is about the
// string: only the spelling New() produces is the token.
func c21CanonicalTokenText(w *World, r *Report) {
	r.Rule("R-C21-8", "a token string is decoded only from its canonical form: in package tokens every successful return after hex.DecodeString lies behind the true edge of hex.EncodeToString(decoded bytes) == the text that was decoded", 1)

	tp := w.pkg("internal/language/tokens")
	if tp == nil {
		return
	}

	canonicalText(w, r, "R-C21-8", "encoding/hex.DecodeString", "encoding/hex.EncodeToString", w.srcFuncs(tp))
}
