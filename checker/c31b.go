package main

import "golang.org/x/tools/go/ssa"

// c31DirtyStoreIsWritten: R-C31-7. The file store persists by rewriting the
// whole file from the map; "nothing to write" is decided by the dirty flag and
// by nothing else. A Flush that reports success for a changed store without
// writing leaves the previous contents on disk: after the last user is deleted
// the reopened file store still has every user, the database store has none.
func c31DirtyStoreIsWritten(w *World, r *Report) {
	r.Rule("R-C31-7", "a changed file store is written: in fileService.Flush, with the dirty flag set and a path configured, no path reaches a `return nil` without passing through the (*os.File).Write of the marshalled map", 1)

	ap := w.pkg("internal/server/auth")
	if ap == nil {
		return
	}

	fn := w.ssaFunc(ap, "fileService.Flush")
	if fn == nil {
		r.Anchor("R-C31-7", "auth.fileService.Flush")

		return
	}

	key := "auth.fileService.Flush|success implies written"

	nWrites := 0

	isWrite := func(i ssa.Instruction) bool {
		c, ok := i.(*ssa.Call)
		if !ok {
			return false
		}

		id := callID(c.Common())

		return id == "os.File.Write" || id == "os.WriteFile"
	}

	allInstrs(fn, func(in ssa.Instruction) {
		if isWrite(in) {
			nWrites++
		}
	})

	if nWrites == 0 {
		r.Anchor("R-C31-7", "the file write in fileService.Flush")

		return
	}

	// the only two reasons not to write: nothing changed, nowhere to write
	cuts := cutEdges(fn, func(f Fact) bool {
		switch f.Kind {
		case "false":
			return isFieldNamed(f.V, "dirty")
		case "eq":
			s, ok := constString(f.C)

			return ok && s == "" && isFieldNamed(f.V, "path")
		}

		return false
	})

	hit := pathFromEntryAvoiding(fn, cuts, isWrite, func(i ssa.Instruction) bool {
		ret, ok := i.(*ssa.Return)

		return ok && len(ret.Results) == 1 && isNilConst(stripValue(retResult(ret, 0)))
	})

	if hit != nil {
		r.Violate("R-C31-7", key, w.pos(hit.Pos()), "Flush reports success for a changed store without writing the file (a condition other than the dirty flag and the path decides there is nothing to do): what was on disk before — for instance the users deleted since — comes back on reopen, and the database store has no such memory")
	} else {
		r.Discharge("R-C31-7", key, w.pos(fn.Pos()), "every nil return of a dirty store with a path follows the file write")
	}

}
