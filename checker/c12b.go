package main

import (
	"go/token"
	"strings"

	"golang.org/x/tools/go/ssa"
)

// R-C12-6: trace text is never written into a buffer the program reads back.
//
// "@capture" (and the capture "ego test" wraps around a test body) stacks a
// buffer on Context.output and hands what it collected to the program as a
// string. The tracing functions write their lines to the context's output so
// that the dashboard can collect them with the program's own output; if they
// write to the top of that stack, a traced program finds trace lines inside
// the captured text and computes something else than the untraced one.
func c12TraceNotCaptured(w *World, r *Report) {
	r.Rule("R-C12-6", "trace text bypasses program-level captures: in the tracing functions of package bytecode (those that format a TraceLogger message) every write goes to a writer obtained from a function that returns the bottom of Context.outputStack whenever that stack is not empty, never to the current Context.output itself", 2)

	bp := w.pkg("internal/language/bytecode")
	if bp == nil {
		return
	}

	isOutputLoad := func(v ssa.Value) bool {
		u, ok := v.(*ssa.UnOp)
		if !ok || u.Op != token.MUL {
			return false
		}

		fa, ok := u.X.(*ssa.FieldAddr)

		return ok && fieldName(fa.X.Type(), fa.Field) == "output"
	}

	// bottomOfStack: fn returns an element of outputStack on every path where
	// the stack is known to be non-empty.
	bottomOfStack := func(fn *ssa.Function) bool {
		if fn == nil || len(fn.Blocks) == 0 {
			return false
		}

		isLen := func(v ssa.Value) bool {
			c, ok := v.(*ssa.Call)
			if !ok {
				return false
			}

			b, ok := c.Call.Value.(*ssa.Builtin)

			return ok && b.Name() == "len" && len(c.Call.Args) == 1 && isFieldNamed(c.Call.Args[0], "outputStack")
		}

		// remove the edges on which the stack is empty
		cuts := cutEdges(fn, func(f Fact) bool {
			if f.Kind != "cmp" {
				return false
			}

			zero := func(v ssa.Value) bool { k, ok := constInt(v); return ok && k == 0 }

			switch {
			case isLen(f.X) && zero(f.Y):
				return f.Op == token.LEQ || f.Op == token.EQL || f.Op == token.LSS
			case isLen(f.Y) && zero(f.X):
				return f.Op == token.GEQ || f.Op == token.EQL || f.Op == token.GTR
			}

			return false
		})

		if len(cuts) == 0 {
			return false
		}

		ok := true

		for _, ret := range returnsOf(fn) {
			if !instrReachableAfterCut(fn, ret, cuts) {
				continue
			}

			v := stripValue(retResult(ret, 0))

			u, isLoad := v.(*ssa.UnOp)
			if !isLoad {
				ok = false

				continue
			}

			ia, isIdx := u.X.(*ssa.IndexAddr)
			if !isIdx {
				ok = false

				continue
			}

			if k, isC := constInt(ia.Index); !isIdx || !isFieldNamed(ia.X, "outputStack") || !isC || k != 0 {
				ok = false
			}
		}

		return ok
	}

	n := 0
	seen := map[string]int{}

	for _, fn := range w.srcFuncs(bp) {
		traces := false

		allInstrs(fn, func(in ssa.Instruction) {
			if c := callTo(in, "internal/cli/ui.FormatLogMessage"); c != nil && len(c.Args) > 0 {
				if k, ok := constInt(c.Args[0]); ok {
					if tl := lookupConstIntAny(w, "internal/cli/ui", "TraceLogger"); tl != nil && *tl == k {
						traces = true
					}
				}
			}
		})

		if !traces {
			continue
		}

		allInstrs(fn, func(in ssa.Instruction) {
			ci, ok := in.(ssa.CallInstruction)
			if !ok {
				return
			}

			var writer ssa.Value

			cc := ci.Common()

			switch {
			case cc.IsInvoke() && cc.Method.Name() == "Write":
				writer = cc.Value
			case strings.HasPrefix(callID(cc), "fmt.Fprint") && len(cc.Args) > 0:
				writer = cc.Args[0]
			default:
				return
			}

			n++

			key := fnKey(fn) + "|trace write"
			seen[key]++

			if k := seen[key]; k > 1 {
				key += " #" + sprintInt(k)
			}

			writer = stripValue(writer)

			if call, isCall := writer.(*ssa.Call); isCall && bottomOfStack(call.Common().StaticCallee()) {
				r.Discharge("R-C12-6", key, w.pos(in.Pos()), "writer from "+callID(call.Common())+", which answers the bottom of the capture stack")

				return
			}

			if isOutputLoad(writer) || derivesFrom(writer, isOutputLoad, nil) {
				r.Violate("R-C12-6", key, w.pos(in.Pos()), "trace text is written to the current Context.output: while the program captures its output (@capture, or a test body under ego test) the trace lines land in the captured string, so a traced program computes something else than the untraced one")

				return
			}

			r.Violate("R-C12-6", key, w.pos(in.Pos()), "trace text is written to a writer the analysis cannot show to bypass program-level captures")
		})
	}
}
