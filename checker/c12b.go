package main

import (
	"go/token"
	"strings"

	"golang.org/x/tools/go/ssa"
)

// R-C12-6: trace text is never written into a buffer the program reads back.
//
// "@capture" (and the capture "ego test" wraps around a test body) stacks a
// buffer on Context.output and hands what it collected to the program as a
// string. The tracing functions write their lines to the context's output so
// that the dashboard can collect them with the program's own output; if they
// write to the top of that stack, a traced program finds trace lines inside
// the captured text and computes something else than the untraced one.
func c12TraceNotCaptured(w *World, r *Report) {
	r.Rule("R-C12-6", "trace text bypasses program-level captures: in the tracing functions of package bytecode (those that format a TraceLogger message) every write goes to a writer obtained from a function that returns the bottom of Context.outputStack whenever that stack is not empty, never to the current Context.output itself", 2)

	bp := w.pkg("internal/language/bytecode")
	if bp == nil {
		return
	}

	isOutputLoad := func(v ssa.Value) bool {
		u, ok := v.(*ssa.UnOp)
		if !ok || u.Op != token.MUL {
			return false
		}

		fa, ok := u.X.(*ssa.FieldAddr)

		return ok && fieldName(fa.X.Type(), fa.Field) == "output"
	}

	// bottomOfStack: fn returns an element of outputStack on every path where
	// the stack is known to be non-empty.
	bottomOfStack := func(fn *ssa.Function) bool {
		if fn == nil || len(fn.Blocks) == 0 {
			return false
		}

		isLen := func(v ssa.Value) bool {
			c, ok := v.(*ssa.Call)
			if !ok {
				return false
			}

			b, ok := c.Call.Value.(*ssa.Builtin)

			return ok && b.Name() == "len" && len(c.Call.Args) == 1 && isFieldNamed(c.Call.Args[0], "outputStack")
		}

		// remove the edges on which the stack is empty
		cuts := cutEdges(fn, func(f Fact) bool {
			if f.Kind != "cmp" {
				return false
			}

			zero := func(v ssa.Value) bool { k, ok := constInt(v); return ok && k == 0 }

			switch {
			case isLen(f.X) && zero(f.Y):
				return f.Op == token.LEQ || f.Op == token.EQL || f.Op == token.LSS
			case isLen(f.Y) && zero(f.X):
				return f.Op == token.GEQ || f.Op == token.EQL || f.Op == token.GTR
			}

			return false
		})

		if len(cuts) == 0 {
			return false
		}

		ok := true

		for _, ret := range returnsOf(fn) {
			if !instrReachableAfterCut(fn, ret, cuts) {
				continue
			}

			v := stripValue(retResult(ret, 0))

			u, isLoad := v.(*ssa.UnOp)
			if !isLoad {
				ok = false

				continue
			}

			ia, isIdx := u.X.(*ssa.IndexAddr)
			if !isIdx {
				ok = false

				continue
			}

			if k, isC := constInt(ia.Index); !isIdx || !isFieldNamed(ia.X, "outputStack") || !isC || k != 0 {
				ok = false
			}
		}

		return ok
	}

	n := 0
	seen := map[string]int{}

	for _, fn := range w.srcFuncs(bp) {
		traces := false

		allInstrs(fn, func(in ssa.Instruction) {
			if c := callTo(in, "internal/cli/ui.FormatLogMessage"); c != nil && len(c.Args) > 0 {
				if k, ok := constInt(c.Args[0]); ok {
					if tl := lookupConstIntAny(w, "internal/cli/ui", "TraceLogger"); tl != nil && *tl == k {
						traces = true
					}
				}
			}
		})

		if !traces {
			continue
		}

		allInstrs(fn, func(in ssa.Instruction) {
			ci, ok := in.(ssa.CallInstruction)
			if !ok {
				return
			}

			var writer ssa.Value

			cc := ci.Common()

			switch {
			case cc.IsInvoke() && cc.Method.Name() == "Write":
				writer = cc.Value
			case strings.HasPrefix(callID(cc), "fmt.Fprint") && len(cc.Args) > 0:
				writer = cc.Args[0]
			default:
				return
			}

			n++

			key := fnKey(fn) + "|trace write"
			seen[key]++

			if k := seen[key]; k > 1 {
				key += " #" + sprintInt(k)
			}

			writer = stripValue(writer)

			if call, isCall := writer.(*ssa.Call); isCall && bottomOfStack(call.Common().StaticCallee()) {
				r.Discharge("R-C12-6", key, w.pos(in.Pos()), "writer from "+callID(call.Common())+", which answers the bottom of the capture stack")

				return
			}

			if isOutputLoad(writer) || derivesFrom(writer, isOutputLoad, nil) {
				r.Violate("R-C12-6", key, w.pos(in.Pos()), "trace text is written to the current Context.output: while the program captures its output (@capture, or a test body under ego test) the trace lines land in the captured string, so a traced program computes something else than the untraced one")

				return
			}

			r.Violate("R-C12-6", key, w.pos(in.Pos()), "trace text is written to a writer the analysis cannot show to bypass program-level captures")
		})
	}
}

// R-C12-7: the debugger's run loop reports the outcome the plain run loop
// reports. runFrom may answer "clean completion" (a nil error) only where the
// error of the last Resume is nil or is the ErrStop signal; an unrecovered
// panic() stops the context *and* returns an error, and that error is the
// program's outcome (message on stderr, exit status 1).
func c12DebuggerKeepsOutcome(w *World, r *Report) {
	r.Rule("R-C12-7", "debugger.runFrom returns a constant nil error only in a block dominated by the true edge of the ErrStop test or by an edge on which the error is nil (a stopped context is not by itself a clean completion)", 1)

	dp := w.pkg("internal/language/debugger")
	if dp == nil {
		return
	}

	fn := w.ssaFunc(dp, "runFrom")
	if fn == nil {
		r.Anchor("R-C12-7", "debugger.runFrom")

		return
	}

	isStopTest := func(v ssa.Value) bool {
		c, ok := v.(*ssa.Call)
		if !ok || !strings.HasSuffix(callID(c.Common()), "errors.Equals") || len(c.Call.Args) != 2 {
			return false
		}

		for _, a := range c.Call.Args {
			if derivesFrom(a, func(s ssa.Value) bool {
				g, isG := s.(*ssa.Global)

				return isG && g.Name() == "ErrStop"
			}, nil) {
				return true
			}
		}

		return false
	}

	nStop := 0

	// the error in force: what the ErrStop test looks at
	current := map[ssa.Value]bool{}

	allInstrs(fn, func(in ssa.Instruction) {
		if v, ok := in.(ssa.Value); ok && isStopTest(v) {
			nStop++

			for _, a := range v.(*ssa.Call).Call.Args {
				if !derivesFrom(a, func(s ssa.Value) bool {
					g, isG := s.(*ssa.Global)

					return isG && g.Name() == "ErrStop"
				}, nil) {
					current[a] = true
				}
			}
		}
	})

	key := "debugger.runFrom|nil only for ErrStop or no error"

	if nStop == 0 {
		r.Anchor("R-C12-7", "the ErrStop test in debugger.runFrom")

		return
	}

	bad := ""

	for _, ret := range returnsOf(fn) {
		if len(ret.Results) == 0 || !isNilConst(retResult(ret, 0)) {
			continue
		}

		justified := false

		for _, f := range dominatingFacts(ret.Block()) {
			if (f.Kind == "true" && isStopTest(f.V)) || (f.Kind == "nil" && current[f.V]) {
				justified = true
			}
		}

		if !justified {
			bad = w.pos(ret.Pos())
		}
	}

	if bad != "" {
		r.Violate("R-C12-7", key, bad, "the debugger's run loop answers a clean completion although the last Resume returned an error other than ErrStop: a program ended by an unrecovered panic() prints no 'Error: unhandled panic' and exits with status 0 under --debug, and with status 1 without it")
	} else {
		r.Discharge("R-C12-7", key, w.pos(fn.Pos()), "every constant-nil return lies behind the ErrStop test or a nil error")
	}
}

// R-C12-8: output that only a diagnostics mode produces never goes into a
// program-level capture. A write to Context.output that happens only when
// tracing is on (the cosmetic newline print adds so that the next trace line
// starts on a fresh line) must also be conditional on "the program is not
// capturing its output": the capture buffer becomes a string of the program.
func c12DiagnosticOutputNotCaptured(w *World, r *Report) {
	r.Rule("R-C12-8", "a write to Context.output that lies behind a tracing test (Context.Tracing(), ui.IsActive(TraceLogger)) also lies behind 'len(Context.outputStack) == 0', or goes through the capture-bypassing writer: the extra text must not become part of a string the program captures", 1)

	bp := w.pkg("internal/language/bytecode")
	if bp == nil {
		return
	}

	isTracingTest := func(v ssa.Value) bool {
		c, ok := v.(*ssa.Call)
		if !ok {
			return false
		}

		id := callID(c.Common())
		if id == "internal/language/bytecode.Context.Tracing" {
			return true
		}

		if id == "internal/cli/ui.IsActive" && len(c.Call.Args) == 1 {
			if k, isC := constInt(c.Call.Args[0]); isC {
				if tl := lookupConstIntAny(w, "internal/cli/ui", "TraceLogger"); tl != nil && *tl == k {
					return true
				}
			}
		}

		return false
	}

	isOutputLoad := func(v ssa.Value) bool {
		u, ok := v.(*ssa.UnOp)
		if !ok || u.Op != token.MUL {
			return false
		}

		fa, ok := u.X.(*ssa.FieldAddr)

		return ok && fieldName(fa.X.Type(), fa.Field) == "output"
	}

	noCapture := func(f Fact) bool {
		if f.Kind != "cmp" {
			return false
		}

		isLen := func(v ssa.Value) bool {
			c, ok := v.(*ssa.Call)
			if !ok {
				return false
			}

			b, ok := c.Call.Value.(*ssa.Builtin)

			return ok && b.Name() == "len" && len(c.Call.Args) == 1 && isFieldNamed(c.Call.Args[0], "outputStack")
		}

		zero := func(v ssa.Value) bool { k, ok := constInt(v); return ok && k == 0 }

		return (f.Op == token.EQL || f.Op == token.LEQ) && ((isLen(f.X) && zero(f.Y)) || (isLen(f.Y) && zero(f.X)))
	}

	n := 0

	for _, fn := range w.srcFuncs(bp) {
		seen := map[string]int{}

		allInstrs(fn, func(in ssa.Instruction) {
			ci, ok := in.(ssa.CallInstruction)
			if !ok {
				return
			}

			cc := ci.Common()

			var writer ssa.Value

			switch {
			case cc.IsInvoke() && cc.Method.Name() == "Write":
				writer = cc.Value
			case strings.HasPrefix(callID(cc), "fmt.Fprint") && len(cc.Args) > 0:
				writer = cc.Args[0]
			default:
				return
			}

			writer = stripValue(writer)
			if !isOutputLoad(writer) && !derivesFrom(writer, isOutputLoad, nil) {
				return
			}

			facts := dominatingFacts(in.Block())
			traced, guarded := false, false

			for _, f := range facts {
				if f.Kind == "true" && isTracingTest(f.V) {
					traced = true
				}

				if noCapture(f) {
					guarded = true
				}
			}

			if !traced {
				return
			}

			n++

			key := fnKey(fn) + "|trace-only write to the output"
			seen[key]++

			if k := seen[key]; k > 1 {
				key += " #" + sprintInt(k)
			}

			if guarded {
				r.Discharge("R-C12-8", key, w.pos(in.Pos()), "also behind len(outputStack) == 0")
			} else {
				r.Violate("R-C12-8", key, w.pos(in.Pos()), "text that is written only when tracing is on goes to the current Context.output also while the program captures its output: the captured string differs between a traced and an untraced run")
			}
		})
	}

	if n == 0 {
		r.Anchor("R-C12-8", "a write to Context.output behind a tracing test in package bytecode")
	}
}
