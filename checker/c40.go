package main

import (
	"go/token"
	"go/types"
	"sort"
	"strings"

	"golang.org/x/tools/go/ssa"
)

// C40 No request can crash a handler.

func init() {
	register(&propertyCheck{
		id: "C40", level: "other", needs: loadNeeds{ssa: true},
		decides: "absence of five enumerated panic classes in the server-side code reachable from the registered route handlers and the router's ServeHTTP (repository call graph: static calls, closures, interface invokes by CHA, stored function values; restricted to the server, router, util, resources, dsns, caches, tokens, sqlparse, defs, errors, i18n, ui and validate packages): " +
			"(1) every index or slice bound with a constant into a slice or string of statically unknown length is behind a len() test that implies it; (2) every single-result type assertion is on a value whose dynamic type is fixed by construction (listed) — otherwise it is a finding; (3) the explicit panic sites are a frozen, read list; (4) every integer division or remainder has a constant non-zero divisor or is behind a test of the divisor against zero; (5) no pointer is compared with nil and then dereferenced on the nil edge.",
		misses: "computed (non-constant) indices, writes into maps other than the collection- and body-derived ones of R-C40-8, nil dereferences without a contradicting check, panics inside third-party and standard-library code, and everything the interpreter does while running a service (C07); the claim is 'these classes', not 'no panic'.",
		run:    runC40,
	})
}

// packages whose functions are followed from the handler roots
var c40Scope = []string{
	"internal/router", "internal/server", "internal/util", "internal/resources", "internal/dsns", "internal/caches", "internal/tokens",
	"internal/sqlparse", "internal/defs", "internal/errors", "internal/i18n", "internal/cli/ui", "internal/validate", "internal/egostrings",
}

func c40InScope(fn *ssa.Function) bool {
	if fn == nil || fn.Pkg == nil {
		if fn != nil && fn.Parent() != nil {
			return c40InScope(fn.Parent())
		}

		return false
	}

	p := fn.Pkg.Pkg.Path()
	i := strings.Index(p, "/internal/")

	if i < 0 {
		return false
	}

	rel := p[i+1:]

	for _, s := range c40Scope {
		if rel == s || strings.HasPrefix(rel, s+"/") {
			return true
		}
	}

	return false
}

// c40PanicSites: explicit panics reachable from handlers, each read and
// justified.  Key: function|construct.
var c40PanicSites = map[string]string{}

// c40AssertOK: single-result type assertions whose operand has one possible
// dynamic type by construction.  Key: function|asserted type (#n).
var c40AssertOK = map[string]string{
	"resources.ResHandle.explode|assert json.RawMessage": "the column's IsRawJSON flag is set by describe() exactly when the field's type is json.RawMessage; explode reads the same struct type",
	"resources.ResHandle.explode|assert uuid.UUID":       "the column's IsUUID flag is set by describe() exactly when the field's type is uuid.UUID",
}

func runC40(w *World, r *Report) {
	r.Rule("R-C40-1", "constant index / slice bound into a slice or string of unknown length is behind a len() test implying it", 100)
	r.Rule("R-C40-7", "a pointer-typed struct member that the function tests against nil somewhere (the optional members of request bodies) is dereferenced only where a test of the same member found it non-nil", 5)
	r.Rule("R-C40-8", "a map that is an element of a slice, a value of another map, a range value or the result of a type assertion is written only behind a nil test of that map (a JSON null decodes to a nil map)", 1)
	r.Rule("R-C40-2", "single-result type assertion only on values whose dynamic type is fixed by construction (listed with reason)", 10)
	r.Rule("R-C40-3", "explicit panic sites reachable from a handler are a frozen list", 2)
	r.Rule("R-C40-4", "integer division / remainder: constant non-zero divisor, or behind a test of the divisor against zero", 8)
	r.Rule("R-C40-5", "no dereference of a pointer on the edge where it was just found nil", 0)
	r.Rule("R-C40-6", "an integer parsed from text (Atoi / ParseInt) in a handler is compared with a bound (<, <=, >, >=) on every path before it is used as a slice bound, a length, an index or an argument of repository code", 3)

	routes := extractRoutes(w)
	if len(routes) < 50 {
		r.Anchor("R-C40-1", "route table (fewer than 50 routes found)")

		return
	}

	cg := buildCallGraph(w)

	var roots []*ssa.Function

	seenRoot := map[*ssa.Function]bool{}

	for _, rd := range routes {
		if rd.handler == nil {
			continue
		}

		if f := w.prog.FuncValue(rd.handler); f != nil && !seenRoot[f] {
			seenRoot[f] = true
			roots = append(roots, f)
		}
	}

	if rp := w.pkg("internal/router"); rp != nil {
		if f := w.ssaFunc(rp, "Router.ServeHTTP"); f != nil && !seenRoot[f] {
			seenRoot[f] = true
			roots = append(roots, f)
		} else if f == nil {
			r.Anchor("R-C40-1", "router.Router.ServeHTTP")
		}
	}

	r.Unit("handler_roots", len(roots))

	// reachable set, restricted to the server-side packages
	reached := map[*ssa.Function]bool{}
	work := append([]*ssa.Function{}, roots...)

	for _, f := range roots {
		reached[f] = true
	}

	for len(work) > 0 {
		f := work[0]
		work = work[1:]

		for _, e := range cg.callees[f] {
			if reached[e.callee] || !c40InScope(e.callee) {
				continue
			}

			reached[e.callee] = true
			work = append(work, e.callee)
		}
	}

	var fns []*ssa.Function
	for f := range reached {
		fns = append(fns, f)
	}

	sort.Slice(fns, func(i, j int) bool { return fnKey(fns[i]) < fnKey(fns[j]) })
	r.Unit("functions_reachable_from_handlers", len(fns))

	stores := newC40Stores(cg)

	for _, fn := range fns {
		count := map[string]int{}
		mkKey := func(what string) string {
			key := fnKey(fn) + "|" + what
			count[key]++

			if n := count[key]; n > 1 {
				key += "#" + sprintInt(n)
			}

			return key
		}

		// ---- R-C40-1 constant indices and constant slice bounds
		sites := constIndexSites(fn)

		allInstrs(fn, func(in ssa.Instruction) {
			sl, ok := in.(*ssa.Slice)
			if !ok {
				return
			}

			switch t := sl.X.Type().Underlying().(type) {
			case *types.Pointer:
				if _, isArr := t.Elem().Underlying().(*types.Array); isArr {
					return
				}
			}

			var k int64

			for _, b := range []ssa.Value{sl.Low, sl.High} {
				if b == nil {
					continue
				}

				if n, ok := constInt(b); ok && n > k {
					k = n
				}
			}

			if k > 0 {
				sites = append(sites, indexSite{in, sl.X, k - 1})
			}
		})

		// end-relative forms: x[len(x)-k], s[a:len(s)-b]
		have := map[ssa.Instruction]bool{}
		for _, s := range sites {
			have[s.instr] = true
		}

		for _, s := range c07SliceSites(fn) {
			if !have[s.instr] {
				sites = append(sites, s)
			}
		}

		for _, s := range sites {
			key := mkKey("index " + sprintInt(int(s.k)))
			if ok, why := indexSiteGuarded(fn, s); ok {
				r.Discharge("R-C40-1", key, w.pos(s.instr.Pos()), why)
			} else if why, ok := c40IndexOK[key]; ok {
				r.Except("R-C40-1", key, w.pos(s.instr.Pos()), why)
			} else {
				r.Violate("R-C40-1", key, w.pos(s.instr.Pos()), "element "+sprintInt(int(s.k))+" is used without a len() test that implies it exists: a short value in the request panics the handler")
			}
		}

		allInstrs(fn, func(in ssa.Instruction) {
			switch x := in.(type) {
			case *ssa.TypeAssert:
				if x.CommaOk {
					return
				}

				key := mkKey("assert " + types.TypeString(x.AssertedType, func(p *types.Package) string { return p.Name() }))
				if why, ok := c40AssertOK[key]; ok {
					r.Except("R-C40-2", key, w.pos(x.Pos()), why)
				} else if why := c40AssertSafe(x); why != "" {
					r.Discharge("R-C40-2", key, w.pos(x.Pos()), why)
				} else if why := stores.assertFixedByStore(x); why != "" {
					r.Discharge("R-C40-2", key, w.pos(x.Pos()), why)
				} else {
					r.Violate("R-C40-2", key, w.pos(x.Pos()), "single-result type assertion: a value of another type panics the handler")
				}
			case *ssa.Panic:
				key := mkKey("panic")
				if why := c40PanicBenign(x); why != "" {
					r.Discharge("R-C40-3", key, w.pos(x.Pos()), why)
				} else if why, ok := c40PanicSites[key]; ok {
					r.Except("R-C40-3", key, w.pos(x.Pos()), why)
				} else {
					r.Violate("R-C40-3", key, w.pos(x.Pos()), "explicit panic reachable from a request handler")
				}
			case *ssa.BinOp:
				if x.Op != token.QUO && x.Op != token.REM {
					return
				}

				b, ok := x.Type().Underlying().(*types.Basic)
				if !ok || b.Info()&types.IsInteger == 0 {
					return
				}

				key := mkKey("divide")

				if k, isC := constInt(x.Y); isC {
					if k != 0 {
						r.Discharge("R-C40-4", key, w.pos(x.Pos()), "constant divisor")
					} else {
						r.Violate("R-C40-4", key, w.pos(x.Pos()), "division by constant zero")
					}

					return
				}

				if c40DivisorGuarded(fn, x) {
					r.Discharge("R-C40-4", key, w.pos(x.Pos()), "behind a test of the divisor")
				} else if why, ok := c40DivOK[key]; ok {
					r.Except("R-C40-4", key, w.pos(x.Pos()), why)
				} else {
					r.Violate("R-C40-4", key, w.pos(x.Pos()), "integer division by a value that is not tested against zero")
				}
			}
		})

		// ---- R-C40-5 nil-check contradiction
		c40NilContradictions(w, r, fn, mkKey)

		// ---- R-C40-7 optional members
		c40OptionalMembers(w, r, fn, "R-C40-7", c40OptionalOK)

		// ---- R-C40-8 writes into maps taken out of collections
		c40NestedMapWrites(w, r, fn, "R-C40-8", c40NestedMapOK)
	}

	// ---- R-C40-6 integers parsed from text are range-tested before they size or index anything
	nParsed := 0

	for _, fn := range fns {
		count := map[string]int{}

		allInstrs(fn, func(in ssa.Instruction) {
			pc, ok := in.(*ssa.Call)
			if !ok {
				return
			}

			switch callID(pc.Common()) {
			case "strconv.Atoi", "internal/util/strings.Atoi", "strconv.ParseInt":
			default:
				return
			}

			// the integer result
			var val ssa.Value

			for _, ref := range *pc.Referrers() {
				if ex, ok := ref.(*ssa.Extract); ok && ex.Index == 0 {
					val = ex
				}
			}

			if val == nil {
				return
			}

			nParsed++

			// values carrying the parsed number: through phis, conversions and local cells
			carries := map[ssa.Value]bool{val: true}

			for changed := true; changed; {
				changed = false

				for v := range carries {
					for _, ref := range *v.Referrers() {
						switch x := ref.(type) {
						case *ssa.Phi:
							if !carries[x] {
								carries[x] = true
								changed = true
							}
						case *ssa.Convert:
							if !carries[x] {
								carries[x] = true
								changed = true
							}
						case *ssa.Store:
							if x.Val == v {
								if cell := localCell(x.Addr); cell != nil {
									for _, cr := range *cell.Referrers() {
										if u, ok := cr.(*ssa.UnOp); ok && !carries[u] {
											carries[u] = true
											changed = true
										}
									}
								}
							}
						}
					}
				}
			}

			// edges after which the number has been compared with something: both edges of an
			// ordering test (<, <=, >, >=) on a carrier, and the "equal" edge of ==/!= against a constant
			cuts := cutEdges(fn, func(f Fact) bool {
				switch f.Kind {
				case "cmp":
					switch f.Op {
					case token.LSS, token.LEQ, token.GTR, token.GEQ:
						return carries[f.X] || carries[f.Y]
					}
				case "eq":
					return carries[f.V]
				}

				return false
			})

			// sizing / indexing / handing on to repository code
			isUse := func(i ssa.Instruction) bool {
				switch x := i.(type) {
				case *ssa.Slice:
					return carries[x.Low] || carries[x.High]
				case *ssa.MakeSlice:
					return carries[x.Len] || carries[x.Cap]
				case *ssa.IndexAddr:
					return carries[x.Index]
				case *ssa.Index:
					return carries[x.Index]
				case *ssa.Store:
					// packed into a []any for a variadic call
					if mi, ok := x.Val.(*ssa.MakeInterface); ok && carries[mi.X] {
						if ia, isIdx := x.Addr.(*ssa.IndexAddr); isIdx {
							// the array is sliced and handed to repository code (not to fmt / logging)
							for _, r1 := range *ia.X.Referrers() {
								sl, ok := r1.(*ssa.Slice)
								if !ok {
									continue
								}

								for _, r2 := range *sl.Referrers() {
									if c, ok := r2.(*ssa.Call); ok && isRepoCallee(c.Common()) {
										id := callID(c.Common())
										if !strings.Contains(id, "/ui.") && !strings.Contains(id, "/i18n.") && !strings.Contains(id, "/errors.") {
											return true
										}
									}
								}
							}
						}
					}
				case *ssa.Call:
					if !isRepoCallee(x.Common()) {
						return false
					}

					id := callID(x.Common())
					if strings.Contains(id, "/ui.") || strings.Contains(id, "/i18n.") || strings.Contains(id, "/errors.") {
						return false // logging, messages
					}

					for _, a := range x.Call.Args {
						if carries[a] {
							return true
						}

						if mi, ok := a.(*ssa.MakeInterface); ok && carries[mi.X] {
							return true
						}
					}
				}

				return false
			}

			key := fnKey(fn) + "|parsed integer is range-tested before use"
			count[key]++

			if n := count[key]; n > 1 {
				key += "#" + sprintInt(n)
			}

			if use := pathAvoiding(in, cuts, func(ssa.Instruction) bool { return false }, isUse); use != nil {
				if why, ok := c40ParsedOK[key]; ok {
					r.Except("R-C40-6", key, w.pos(in.Pos()), why)
				} else {
					r.Violate("R-C40-6", key, w.pos(in.Pos()), "the number parsed here reaches "+w.pos(use.Pos())+" without ever being compared with a bound: a negative or huge value from the request sizes or indexes something there")
				}
			} else {
				r.Discharge("R-C40-6", key, w.pos(in.Pos()), "compared with a constant bound on every path to a use (or not used to size, index or call)")
			}
		})
	}

	r.Unit("parsed_integers", nParsed)

	r.Unit("pointer_nil_tests_examined", c40NilTests)

	if c40NilTests < 100 {
		r.Violate("R-C40-5", "reachable functions|pointer nil tests examined", "", "only "+sprintInt(c40NilTests)+" nil tests of pointers were found in the reachable set (expected several hundred): the rule is not looking at the code it should")
	}

	c40MutexReleases(w, r)
	c40VariableBounds(w, r, fns)
}

var c40ParsedOK = map[string]string{
	"router.LogHandler|parsed integer is range-tested before use#2": "the session number to filter log lines by: it is only compared for equality with the session field of each line (ui.TailFiltered), never used as a size or index",
}

var c40IndexOK = map[string]string{
	"dsns.fileService.Permissions|index 1":                 "keys of fileService.Auth are only ever written as user+\"|\"+dsn by this file (GrantDSN), so Split(key, \"|\") has two parts; the data is the server's own store, not the request",
	"resources.ResHandle.SetDefaultPrimaryKey|index 0":     "Columns is built by reflection from the struct type given to resources.Open; every such type in the repository has fields; evaluated when a handle is opened, not per request value",
	"services.ServiceHandler|index 0":                      "path is r.URL.Path of a request the router matched against a service route, and every route pattern starts with \"/\": the empty path matches no route",
	"services.ServiceHandler|index 0#2":                    "same guard as the previous line (path[1:] behind path[:1] == \"/\")",
	"services.runChildViaFile|index 0#2":                   "strArray is the child command line built from seven constant arguments (fork.MungeArguments returns at least its arguments); not request data",
	"services.runChildViaFile|index 0#3":                   "same slice as above",
	"services.runChildViaPipe|index 0#2":                   "strArray is the child command line built from seven constant arguments; not request data",
	"services.runChildViaPipe|index 0#3":                   "same slice as above",
	"sqlparse.placeholderStyle|index 0":                    "only called with the text of a tokPlaceholder token, which the lexer builds from the marker character onwards (lexer.go: src[start:pos] with pos > start)",
	"strings.TruncateMiddle|index 3":                       "behind len(text) > maxSize with maxSize clamped to at least 10 two lines above",
	"tables.GrantPermissions|index 0#2":                    "items has exactly one element here: len(items) != 1 either appends one element to the empty slice or returns",
}
var c40DivOK = map[string]string{}

// c40AssertSafe recognises assertions that cannot fail: the operand is the
// value tested by a dominating comma-ok assertion / type switch to the same
// type (SSA keeps those as separate TypeAsserts), or was made from a value of
// the asserted type in the same function.
func c40AssertSafe(ta *ssa.TypeAssert) string {
	x := ta.X

	if mi, ok := x.(*ssa.MakeInterface); ok && types.Identical(mi.X.Type(), ta.AssertedType) {
		return "made from a value of that type"
	}

	// dominated by the true edge of a comma-ok assertion of the same value to the same type
	fn := ta.Parent()

	cuts := cutEdges(fn, func(f Fact) bool {
		if f.Kind != "true" {
			return false
		}

		ex, ok := f.V.(*ssa.Extract)
		if !ok || ex.Index != 1 {
			return false
		}

		t2, ok := ex.Tuple.(*ssa.TypeAssert)

		return ok && t2.CommaOk && t2.X == x && types.Identical(t2.AssertedType, ta.AssertedType)
	})

	if len(cuts) > 0 && !instrReachableAfterCut(fn, ta, cuts) {
		return "behind a comma-ok assertion of the same value to the same type"
	}

	// interface-to-interface assertion to an interface the static type already implements
	if it, ok := ta.AssertedType.Underlying().(*types.Interface); ok {
		if types.Implements(x.Type(), it) {
			return "static type implements the interface"
		}
	}

	return ""
}

func c40DivisorGuarded(fn *ssa.Function, d *ssa.BinOp) bool {
	y := d.Y

	same := func(v ssa.Value) bool {
		if v == y {
			return true
		}

		// conversions of the same value, or loads of the same cell
		if stripValue(v) == stripValue(y) || sameSliceValue(v, y) {
			return true
		}

		// v2.(T) written twice: the same operand asserted to the same type
		ta, ok1 := v.(*ssa.TypeAssert)
		tb, ok2 := y.(*ssa.TypeAssert)

		return ok1 && ok2 && !ta.CommaOk && !tb.CommaOk && types.Identical(ta.AssertedType, tb.AssertedType) && (ta.X == tb.X || sameSliceValue(ta.X, tb.X))
	}

	cuts := cutEdges(fn, func(f Fact) bool {
		switch f.Kind {
		case "ne":
			if k, ok := constInt(f.C); ok && k == 0 && same(f.V) {
				return true
			}
		case "cmp":
			x, c, op := f.X, f.Y, f.Op
			if _, isC := x.(*ssa.Const); isC {
				x, c = c, x

				switch op {
				case token.LSS:
					op = token.GTR
				case token.LEQ:
					op = token.GEQ
				case token.GTR:
					op = token.LSS
				case token.GEQ:
					op = token.LEQ
				}
			}

			k, ok := constInt(c)
			if !ok || !same(x) {
				return false
			}

			switch op {
			case token.GTR:
				return k >= 0
			case token.GEQ:
				return k >= 1
			case token.NEQ:
				return k == 0
			case token.LSS:
				return k <= 0
			}
		}

		return false
	})

	if len(cuts) > 0 && !instrReachableAfterCut(fn, d, cuts) {
		return true
	}

	// len(x) of something with a known minimum length (also through an integer conversion)
	yy := y
	for {
		cv, ok := yy.(*ssa.Convert)
		if !ok {
			break
		}

		yy = cv.X
	}

	if lx := lenOf(yy); lx != nil && knownMinLen(lx) > 0 {
		return true
	}

	return false
}

// c40NilContradictions: for every If on p == nil / p != nil (p a pointer),
// the first block on the nil edge — before any redefinition (SSA values are
// immutable, so p itself cannot change) — must not dereference p: a
// FieldAddr / load / method call with p as the receiver in a block reachable
// from the nil edge only (dominated by it).
func c40NilContradictions(w *World, r *Report, fn *ssa.Function, mkKey func(string) string) {
	ex := map[string]string{}
	c40NilContradictionsGeneric(w, r, fn, mkKey, "R-C40-5", ex, c40NilOK)
}

// c40NilContradictionsTo: the same rule under another id with a plain exception table.
func c40NilContradictionsTo(w *World, r *Report, fn *ssa.Function, mkKey func(string) string, rule string, ok map[string]string) {
	c40NilContradictionsGeneric(w, r, fn, mkKey, rule, ok, nil)
}

func c40NilContradictionsGeneric(w *World, r *Report, fn *ssa.Function, mkKey func(string) string, rule string, plainOK map[string]string, sideOK map[string]c40NilException) {
	type finding struct {
		first ssa.Instruction
		cond  ssa.Value
		n     int
	}

	found := map[ssa.Value]*finding{}

	var order []ssa.Value

	for _, b := range fn.Blocks {
		if len(b.Instrs) == 0 {
			continue
		}

		ifi, ok := b.Instrs[len(b.Instrs)-1].(*ssa.If)
		if !ok {
			continue
		}

		for branch := 0; branch < 2; branch++ {
			for _, f := range edgeFacts(ifi.Cond, branch == 0) {
				if f.Kind != "nil" {
					continue
				}

				if _, isPtr := f.V.Type().Underlying().(*types.Pointer); !isPtr {
					continue
				}

				c40NilTests++

				// every block reachable from the nil edge without passing an edge that
				// establishes the value is not nil (SSA values never change, so a
				// dereference of this very value downstream is a dereference of nil
				// unless the path is infeasible for another reason)
				seen := map[*ssa.BasicBlock]bool{b.Succs[branch]: true}
				work := []*ssa.BasicBlock{b.Succs[branch]}

				for len(work) > 0 {
					d := work[0]
					work = work[1:]

					for _, in := range d.Instrs {
						if c40Derefs(in, f.V) {
							fd := found[f.V]
							if fd == nil {
								fd = &finding{first: in, cond: ifi.Cond}
								found[f.V] = fd
								order = append(order, f.V)
							}

							fd.n++
						}
					}

					for si, sc := range d.Succs {
						if dif, ok := d.Instrs[len(d.Instrs)-1].(*ssa.If); ok {
							contradicts := false

							for _, ef := range edgeFacts(dif.Cond, si == 0) {
								if ef.Kind == "nonnil" && ef.V == f.V {
									contradicts = true
								}
							}

							if contradicts {
								continue
							}
						}

						if !seen[sc] {
							seen[sc] = true
							work = append(work, sc)
						}
					}
				}
			}
		}
	}

	for _, v := range order {
		fd := found[v]
		key := mkKey("nil-tested " + c40Describe(v) + " dereferenced")

		if why, ok := plainOK[key]; ok {
			r.Except(rule, key, w.pos(fd.first.Pos()), why)
		} else if ex, ok := sideOK[key]; ok {
			if ex.side != nil {
				if problem := ex.side(w); problem != "" {
					r.Violate(rule, key, w.pos(fd.first.Pos()), "the invariant that made this exception safe no longer holds: "+problem)

					continue
				}
			}

			r.Except(rule, key, w.pos(fd.first.Pos()), ex.why)
		} else {
			r.Violate(rule, key, w.pos(fd.first.Pos()), "the value is compared with nil at "+w.pos(fd.cond.Pos())+" and dereferenced on a path from the nil edge (first of "+sprintInt(fd.n)+" dereferences): a request that makes it nil panics the handler")
		}
	}
}

var c40NilTests int

// c40Describe names an SSA value by where it comes from (stable across edits elsewhere).
func c40Describe(v ssa.Value) string {
	switch x := v.(type) {
	case *ssa.Parameter:
		return "parameter " + x.Name()
	case *ssa.Extract:
		if c, ok := x.Tuple.(*ssa.Call); ok {
			return "result " + sprintInt(x.Index) + " of " + shortCallID(c.Common())
		}
	case *ssa.Call:
		return "result of " + shortCallID(x.Common())
	case *ssa.UnOp:
		if a, ok := x.X.(*ssa.Alloc); ok {
			return "variable " + a.Comment
		}

		if fa, ok := x.X.(*ssa.FieldAddr); ok {
			return "field " + fieldName(fa.X.Type(), fa.Field)
		}

		if g, ok := x.X.(*ssa.Global); ok {
			return "global " + g.Name()
		}
	case *ssa.Phi:
		return "variable " + x.Comment
	}

	return "value"
}

func shortCallID(c *ssa.CallCommon) string {
	id := callID(c)
	if i := strings.LastIndex(id, "/"); i >= 0 {
		id = id[i+1:]
	}

	if id == "" {
		return "a call"
	}

	return id
}

type c40NilException struct {
	why  string
	side func(w *World) string // re-checked invariant; "" = holds
}

var c40NilOK = map[string]c40NilException{
	"router.Router.ServeHTTP|nil-tested result 0 of router.Router.FindRoute dereferenced": {
		why: "ServeHTTP returns early unless status == 200, and FindRoute returns a nil route only together with a status other than 200 (re-checked on every run: every return of FindRoute whose route is nil carries a constant non-200 status); the later `route != nil` tests are redundant",
		side: func(w *World) string {
			rp := w.pkg("internal/router")
			if rp == nil {
				return "package internal/router not found"
			}

			fr := w.ssaFunc(rp, "Router.FindRoute")
			if fr == nil {
				return "router.Router.FindRoute not found"
			}

			for _, ret := range returnsOf(fr) {
				rv := retResults(ret)
				if len(rv) != 2 {
					return "FindRoute no longer returns (route, status)"
				}

				if !isNilConst(resolveLocal(rv[0])) {
					continue
				}

				if k, isC := constInt(resolveLocal(rv[1])); !isC || k == 200 {
					return "FindRoute returns a nil route with a status that is not a constant other than 200 at " + w.pos(ret.Pos())
				}
			}

			return ""
		},
	},
	"scripting.readTxRowData|nil-tested parameter syms dereferenced": {
		why: "dead defensive test: the only callers pass the address of the task's own symbol table (doSelect), never nil; not reachable with nil from a request",
	},
	"scripting.readTxRowResultSet|nil-tested parameter syms dereferenced": {
		why: "dead defensive test: the only callers (doRows, doSQL) pass the transaction's symbol table pointer obtained from Handler's local; never nil",
	},
}

func c40Derefs(in ssa.Instruction, p ssa.Value) bool {
	switch x := in.(type) {
	case *ssa.FieldAddr:
		return x.X == p
	case *ssa.UnOp:
		return x.Op == token.MUL && x.X == p
	case *ssa.Store:
		return x.Addr == p
	}

	return false
}

// c40PanicBenign: a panic instruction that does not start a new panic: the
// re-raise of a value obtained from recover(), or go/ssa's synthetic
// "blocking select matched no case".
func c40PanicBenign(p *ssa.Panic) string {
	if !p.Pos().IsValid() {
		if mi, ok := p.X.(*ssa.MakeInterface); ok {
			if s, isC := constString(mi.X); isC && strings.HasPrefix(s, "blocking select") {
				return "synthetic: select without default cannot fall through"
			}
		}
	}

	fromRecover := derivesFrom(p.X, func(v ssa.Value) bool {
		if c, ok := v.(*ssa.Call); ok {
			if b, isB := c.Call.Value.(*ssa.Builtin); isB && b.Name() == "recover" {
				return true
			}
		}

		// a parameter of a function whose callers pass recover()'s value (reportRequestPanic)
		if prm, ok := v.(*ssa.Parameter); ok && prm.Name() == "panicValue" {
			return true
		}

		return false
	}, nil)

	if fromRecover {
		return "re-raise of a recovered panic when recovery is disabled by configuration"
	}

	return ""
}

// c40Stores answers "what type does this storage hold": for the keyed caches
// (caches.Add sites per cache class) and for resource handles (the type given
// to resources.Open at every assignment of the handle's storage location).
type c40Stores struct {
	cg         *callGraph
	cacheAdds  map[string][]types.Type // cache class -> stored static types
	handleType map[string][]types.Type // storage location of a *ResHandle -> element types given to Open
}

func c40ClassKey(v ssa.Value) string {
	switch x := v.(type) {
	case *ssa.Const:
		return "const:" + x.Value.ExactString()
	case *ssa.UnOp:
		if g, ok := x.X.(*ssa.Global); ok {
			return "global:" + g.Name()
		}
	}

	return ""
}

func newC40Stores(cg *callGraph) *c40Stores {
	s := &c40Stores{cg: cg, cacheAdds: map[string][]types.Type{}, handleType: map[string][]types.Type{}}

	for _, fn := range cg.fns {
		allInstrs(fn, func(in ssa.Instruction) {
			switch x := in.(type) {
			case *ssa.Call:
				if callID(x.Common()) == "internal/caches.Add" && len(x.Call.Args) == 3 {
					k := c40ClassKey(x.Call.Args[0])

					var t types.Type
					if mi, ok := x.Call.Args[2].(*ssa.MakeInterface); ok {
						t = mi.X.Type()
					}

					s.cacheAdds[k] = append(s.cacheAdds[k], t)
				}
			case *ssa.Store:
				if k := storageKey(x.Addr); k != "" {
					if t, ok := c40OpenedType(x.Val); ok {
						s.handleType[k] = append(s.handleType[k], t)
					} else if isResHandle(x.Val.Type()) && !isNilConst(x.Val) {
						s.handleType[k] = append(s.handleType[k], nil) // some other handle: unknown element type
					}
				}
			}
		})
	}

	return s
}

func isResHandle(t types.Type) bool {
	n := namedOf(t)

	return n != nil && n.Obj().Name() == "ResHandle" && n.Obj().Pkg() != nil && strings.HasSuffix(n.Obj().Pkg().Path(), "/internal/resources")
}

// c40OpenedType: v is (the first result of) resources.Open(T{}, …) → T.
func c40OpenedType(v ssa.Value) (types.Type, bool) {
	v = resolveLocal(v)

	c, idx := resultOf(v)
	if c == nil || idx != 0 || callID(c.Common()) != "internal/resources.Open" {
		return nil, false
	}

	if mi, ok := c.Call.Args[0].(*ssa.MakeInterface); ok {
		return mi.X.Type(), true
	}

	return nil, false
}

func (s *c40Stores) assertFixedByStore(ta *ssa.TypeAssert) string {
	// the asserted operand: element of a []any from ResHandle.Read, the any of ReadOne, or caches.Find's value
	var src *ssa.Call

	derivesFrom(ta.X, func(v ssa.Value) bool {
		c, _ := resultOf(v)
		if c == nil {
			c, _ = v.(*ssa.Call)
		}

		if c != nil && src == nil {
			switch callID(c.Common()) {
			case "internal/resources.ResHandle.Read", "internal/resources.ResHandle.ReadOne", "internal/caches.Find":
				src = c

				return true
			}
		}

		return false
	}, nil)

	if src == nil {
		// element of a range over the rows: Next → Range → slice value
		derivesFrom(ta.X, func(v ssa.Value) bool {
			if nx, ok := v.(*ssa.Next); ok {
				if rg, ok := nx.Iter.(*ssa.Range); ok {
					c, _ := resultOf(resolveLocal(rg.X))
					if c != nil && src == nil && callID(c.Common()) == "internal/resources.ResHandle.Read" {
						src = c

						return true
					}
				}
			}

			return false
		}, nil)
	}

	if src == nil {
		return ""
	}

	if callID(src.Common()) == "internal/caches.Find" {
		k := c40ClassKey(src.Call.Args[0])
		adds := s.cacheAdds[k]

		if k == "" || len(adds) == 0 {
			return ""
		}

		for _, t := range adds {
			if t == nil || !types.Identical(t, ta.AssertedType) {
				return ""
			}
		}

		return "every caches.Add for this cache class (" + sprintInt(len(adds)) + " site(s)) stores a " + ta.AssertedType.String()
	}

	// resource handle: walk the receiver chain back to its storage location
	recv := src.Call.Args[0]

	for depth := 0; depth < 6; depth++ {
		recv = resolveLocal(recv)

		c, ok := recv.(*ssa.Call)
		if !ok {
			break
		}

		if t, ok := c40OpenedType(c); ok {
			if types.Identical(types.NewPointer(t), ta.AssertedType) {
				return "rows of a handle opened in this function for " + t.String()
			}

			return ""
		}

		if cf := staticCallee(c.Common()); cf != nil && cf.Type().(*types.Signature).Recv() != nil && isResHandle(cf.Type().(*types.Signature).Recv().Type()) && isResHandle(c.Type()) {
			recv = c.Call.Args[0] // builder method of the handle returning the handle

			continue
		}

		break
	}

	if ex, ok := recv.(*ssa.Extract); ok {
		if t, ok := c40OpenedType(ex); ok {
			if types.Identical(types.NewPointer(t), ta.AssertedType) {
				return "rows of a handle opened in this function for " + t.String()
			}

			return ""
		}
	}

	u, ok := recv.(*ssa.UnOp)
	if !ok {
		return ""
	}

	k := storageKey(u.X)
	opened := s.handleType[k]

	if k == "" || len(opened) == 0 {
		return ""
	}

	for _, t := range opened {
		if t == nil || !types.Identical(types.NewPointer(t), ta.AssertedType) {
			return ""
		}
	}

	return "every assignment of " + strings.TrimPrefix(strings.TrimPrefix(k, "f:"), "g:") + " (" + sprintInt(len(opened)) + " site(s)) is resources.Open of that element type; Read builds rows with reflect.New of it"
}

var c40OptionalOK = map[string]string{}

var c40NestedMapOK = map[string]string{
	"scripting.applySymbolsToTask|write into the member Data of a TXOperation body": "inside a loop over `keys`, a slice filled just before by ranging over the same map: the loop has iterations only when the map is not nil",
}

// ---------------------------------------------------------------------------
// R-C40-7 (and R-C07-11): optional members.
//
// A pointer-typed struct field that the function tests against nil somewhere
// (so the code itself believes it can be absent: the optional members of JSON
// request bodies are *bool / *string / *int fields) is dereferenced only where
// a test of the same field of the same struct value found it non-nil.

type c40FieldPath struct {
	base  ssa.Value
	field int
}

func c40FieldPathOf(v ssa.Value) (c40FieldPath, bool) {
	ld, ok := v.(*ssa.UnOp)
	if !ok || ld.Op != token.MUL {
		return c40FieldPath{}, false
	}

	fa, ok := ld.X.(*ssa.FieldAddr)
	if !ok {
		return c40FieldPath{}, false
	}

	if _, isPtr := ld.Type().Underlying().(*types.Pointer); !isPtr {
		return c40FieldPath{}, false
	}

	base := fa.X
	if l, isLoad := base.(*ssa.UnOp); isLoad && l.Op == token.MUL {
		base = resolveLocal(base)
	}

	return c40FieldPath{base, fa.Field}, true
}

func c40OptionalMembers(w *World, r *Report, fn *ssa.Function, rule string, okTable map[string]string) {
	// field paths the function tests against nil
	tested := map[c40FieldPath]bool{}

	for _, b := range fn.Blocks {
		if len(b.Instrs) == 0 {
			continue
		}

		ifi, ok := b.Instrs[len(b.Instrs)-1].(*ssa.If)
		if !ok {
			continue
		}

		for _, f := range edgeFacts(ifi.Cond, true) {
			if f.Kind == "nil" || f.Kind == "nonnil" {
				if fp, ok := c40FieldPathOf(f.V); ok {
					tested[fp] = true
				}
			}
		}
	}

	if len(tested) == 0 {
		return
	}

	count := map[string]int{}

	allInstrs(fn, func(in ssa.Instruction) {
		var ptr ssa.Value

		switch x := in.(type) {
		case *ssa.UnOp:
			if x.Op == token.MUL {
				ptr = x.X
			}
		case *ssa.Store:
			ptr = x.Addr
		case *ssa.FieldAddr:
			ptr = x.X
		}

		if ptr == nil {
			return
		}

		fp, ok := c40FieldPathOf(ptr)
		if !ok || !tested[fp] {
			return
		}

		cuts := cutEdges(fn, func(f Fact) bool {
			if f.Kind != "nonnil" {
				return false
			}

			other, ok := c40FieldPathOf(f.V)

			return ok && other == fp
		})

		key := fnKey(fn) + "|optional member " + fieldName(fieldBaseType(ptr), fp.field)
		count[key]++

		if n := count[key]; n > 1 {
			key += "#" + sprintInt(n)
		}

		// `if x.m == nil { x.m = &T{} }`: a store of a fresh object into the member ends the nil path
		fresh := func(i ssa.Instruction) bool {
			st, ok := i.(*ssa.Store)
			if !ok {
				return false
			}

			fa, ok := st.Addr.(*ssa.FieldAddr)
			if !ok || fa.Field != fp.field {
				return false
			}

			base := fa.X
			if l, isLoad := base.(*ssa.UnOp); isLoad && l.Op == token.MUL {
				base = resolveLocal(base)
			}

			if base != fp.base {
				return false
			}

			_, isAlloc := st.Val.(*ssa.Alloc)

			return isAlloc
		}

		reached := pathFromEntryAvoiding(fn, cuts, fresh, func(i ssa.Instruction) bool { return i == in })

		switch {
		case reached == nil:
			r.Discharge(rule, key, w.pos(in.Pos()), "dereferenced only where the same member was found non-nil (or was just given a fresh object)")
		case okTable[key] != "":
			r.Except(rule, key, w.pos(in.Pos()), okTable[key])
		default:
			r.Violate(rule, key, w.pos(in.Pos()), "the function tests this member against nil elsewhere, but this dereference is reachable without passing the non-nil edge of such a test: a request (or value) that leaves the member out panics here")
		}
	})
}

// fieldBaseType: the struct (pointer) type whose field the load ptr reads.
func fieldBaseType(ptr ssa.Value) types.Type {
	if ld, ok := ptr.(*ssa.UnOp); ok {
		if fa, ok := ld.X.(*ssa.FieldAddr); ok {
			return fa.X.Type()
		}
	}

	return ptr.Type()
}

// ---------------------------------------------------------------------------
// R-C40-8: no write into a map that was taken out of a decoded collection
// without a nil test.  A JSON `null` where an object is expected decodes to a
// nil map; `rows[i][k] = v` on it panics (assignment to entry in nil map).

func c40NestedMapWrites(w *World, r *Report, fn *ssa.Function, rule string, okTable map[string]string) {
	count := map[string]int{}

	// a struct that this function fills from JSON, or receives: its map members can be nil
	decodedOrGiven := func(base ssa.Value) bool {
		base = resolveLocal(stripValue(base))

		switch b := base.(type) {
		case *ssa.Parameter:
			return true
		case *ssa.Alloc:
			decoded := false

			if b.Referrers() != nil {
				for _, ref := range *b.Referrers() {
					switch x := ref.(type) {
					case *ssa.MakeInterface:
						if x.Referrers() != nil {
							for _, r2 := range *x.Referrers() {
								if c, ok := r2.(*ssa.Call); ok {
									switch callID(c.Common()) {
									case "encoding/json.Unmarshal", "encoding/json.Decoder.Decode":
										decoded = true
									}
								}
							}
						}
					case *ssa.Store:
						// a local copy of a parameter
						if x.Addr == ssa.Value(b) {
							if _, isParam := x.Val.(*ssa.Parameter); isParam {
								decoded = true
							}
						}
					}
				}
			}

			return decoded
		case *ssa.UnOp, *ssa.Extract, *ssa.Call, *ssa.Lookup, *ssa.Index, *ssa.Field:
			return true // came from somewhere else: not built here
		}

		return false
	}

	allInstrs(fn, func(in ssa.Instruction) {
		mu, ok := in.(*ssa.MapUpdate)
		if !ok {
			return
		}

		m := resolveLocal(stripValue(mu.Map))

		origin := ""

		var member *ssa.FieldAddr

		switch x := m.(type) {
		case *ssa.UnOp:
			if x.Op == token.MUL {
				if _, isIdx := x.X.(*ssa.IndexAddr); isIdx {
					origin = "an element of a slice"
				}

				// a map member of a body type (internal/defs): absent in the JSON, nil here
				if fa, isField := x.X.(*ssa.FieldAddr); isField {
					if n := namedOf(fa.X.Type()); n != nil && n.Obj().Pkg() != nil && strings.HasSuffix(n.Obj().Pkg().Path(), "/internal/defs") && decodedOrGiven(fa.X) {
						origin = "the member " + fieldName(fa.X.Type(), fa.Field) + " of a " + n.Obj().Name() + " body"
						member = fa
					}
				}
			}
		case *ssa.Field:
			if n := namedOf(x.X.Type()); n != nil && n.Obj().Pkg() != nil && strings.HasSuffix(n.Obj().Pkg().Path(), "/internal/defs") && decodedOrGiven(x.X) {
				origin = "the member " + fieldName(x.X.Type(), x.Field) + " of a " + n.Obj().Name() + " body"
			}
		case *ssa.Index:
			origin = "an element of a slice"
		case *ssa.Lookup:
			origin = "a value of another map"
		case *ssa.Extract:
			switch x.Tuple.(type) {
			case *ssa.Next:
				origin = "a value taken while ranging"
			case *ssa.Lookup:
				origin = "a value of another map"
			case *ssa.TypeAssert:
				origin = "a value asserted to be a map"
			}
		case *ssa.TypeAssert:
			origin = "a value asserted to be a map"
		}

		if origin == "" {
			return
		}

		key := fnKey(fn) + "|write into " + origin
		count[key]++

		if n := count[key]; n > 1 {
			key += "#" + sprintInt(n)
		}

		same := func(v ssa.Value) bool {
			return v == m || resolveLocal(stripValue(v)) == m || sameSliceValue(v, m)
		}

		cuts := cutEdges(fn, func(f Fact) bool {
			switch f.Kind {
			case "nonnil":
				return same(f.V)
			case "true":
				// `for k := range m { m[k2] = … }`: the loop body runs only for a non-nil map
				if ex, ok := f.V.(*ssa.Extract); ok && ex.Index == 0 {
					if nx, ok := ex.Tuple.(*ssa.Next); ok {
						if rg, ok := nx.Iter.(*ssa.Range); ok {
							return same(rg.X)
						}
					}
				}
			}

			return false
		})

		// `if b.m == nil { b.m = map…{} }`
		fresh := func(i ssa.Instruction) bool {
			st, ok := i.(*ssa.Store)
			if !ok || member == nil {
				return false
			}

			fa, ok := st.Addr.(*ssa.FieldAddr)
			if !ok || fa.Field != member.Field || resolveLocal(fa.X) != resolveLocal(member.X) && fa.X != member.X {
				return false
			}

			_, isMake := st.Val.(*ssa.MakeMap)

			return isMake
		}

		reached := pathFromEntryAvoiding(fn, cuts, fresh, func(i ssa.Instruction) bool { return i == in })

		switch {
		case reached == nil:
			r.Discharge(rule, key, w.pos(in.Pos()), "behind a nil test of the map, inside a range over it, or after it was given a fresh map")
		case okTable[key] != "":
			r.Except(rule, key, w.pos(in.Pos()), okTable[key])
		default:
			r.Violate(rule, key, w.pos(in.Pos()), "the map written here is "+origin+" and was never tested against nil: a null (or an absent member) in that position of the request body makes it a nil map, and the assignment panics")
		}
	})
}
