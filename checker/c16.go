package main

import (
	"fmt"
	"go/ast"
	"go/types"
	"path/filepath"
	"sort"
	"strings"

	"golang.org/x/tools/go/ssa"
)

// C16 SQL reformatting preserves statements.

func init() {
	register(&propertyCheck{
		id: "C16", level: "other", needs: loadNeeds{ssa: true},
		decides: "the SQL printer cannot drop a clause: every sqlparse/ast node type the parser constructs has a printer; every field the parser writes is read by the printer; " +
			"in each printer function every field of its node that it reads at all is read on every path to its returns (no early exit skips a clause), except for frozen mutually-exclusive alternatives; Children() is complete.",
		misses: "operator precedence and parenthesisation, identifier quoting, idempotence of the printed text, execution equivalence on a database.",
		run:    runC16,
	})
}

// Printer paths that legitimately skip a field: the skipped field is an
// alternative that the parser never sets together with the guard that skips it.
// Each entry names the guard (field:polarity) whose edges may bypass the field;
// with those edges removed the field must be read on every remaining path.
type c16Guard struct{ guard, reason string }

var c16PathExceptions = map[string]c16Guard{
	"sqlparse.printer.createTableStmt|CreateTableStmt.Columns":      {"AsSelect:nonnil", "CREATE TABLE ... AS SELECT has no column list (parser sets either AsSelect or Columns/Constraints)"},
	"sqlparse.printer.createTableStmt|CreateTableStmt.Constraints":  {"AsSelect:nonnil", "as above"},
	"sqlparse.printer.createTableStmt|CreateTableStmt.WithoutRowID": {"AsSelect:nonnil", "table options follow the column list only; the AS SELECT form has none"},
	"sqlparse.printer.dropTableStmt|DropTableStmt.Restrict":         {"Cascade:true", "CASCADE and RESTRICT are alternatives of one optional keyword"},
	"sqlparse.printer.dropViewStmt|DropViewStmt.Restrict":           {"Cascade:true", "CASCADE and RESTRICT are alternatives of one optional keyword"},
	"sqlparse.printer.funcCall|FuncCall.Args":                       {"Star:true", "f(*) has no argument list"},
	"sqlparse.printer.funcCall|FuncCall.Distinct":                   {"Star:true", "f(*) cannot carry DISTINCT"},
	"sqlparse.printer.inExpr|InExpr.List":                           {"Sub:nonnil", "IN (subquery) and IN (list) are alternatives"},
	"sqlparse.printer.literal|Literal.Value":                        {"LitKind:eq", "the NULL literal has no value text"},
	"sqlparse.printer.onConflictClause|OnConflictClause.UpdateSet":   {"DoNothing:true", "DO NOTHING and DO UPDATE SET are alternatives"},
	"sqlparse.printer.onConflictClause|OnConflictClause.UpdateWhere": {"DoNothing:true", "DO NOTHING and DO UPDATE SET are alternatives"},
	"sqlparse.printer.subqueryRef|SubqueryRef.Columns":              {"Alias:empty", "a column alias list can only follow an alias"},
	"sqlparse.printer.tableRef|TableRef.NotIndexed":                 {"IndexedBy:nonempty", "INDEXED BY and NOT INDEXED are alternatives"},
}

// Fields the parser writes and the printer legitimately never reads.
var c16FieldExceptions = map[string]string{
	"Placeholder.Style": "the placeholder's spelling is kept verbatim in Placeholder.Text, which the printer writes; Style is a classification of that text only",
}

func runC16(w *World, r *Report) {
	defer c16ArgumentNames(w, r)

	c15FormatterNames(w, r, "R-C16-6")
	c16StackedUnary(w, r)
	c16RenderedTextNotEdited(w, r)
	r.Rule("R-C16-1", "every ast node type constructed by the parser has a printer: a type-switch case or a typed parameter in the format*.go files", 60)
	r.Rule("R-C16-2", "every field of an ast node that the parser writes (composite literal key or assignment) is read in the format*.go files", 150)
	r.Rule("R-C16-3", "Children() completeness (same rule as R-C15-1)", 60)
	r.Rule("R-C16-4", "must-pass-through: in a printer function with a parameter of node type T, each field of T that the function reads is read on every path from entry to every return", 100)

	a := loadSQLAst(w, r, "R-C16-1")
	if a == nil {
		return
	}

	sp := w.pkg("internal/sqlparse")
	if sp == nil {
		r.Anchor("R-C16-1", "package internal/sqlparse")

		return
	}

	checkChildren(w, r, a, "R-C16-3")

	info := sp.TypesInfo
	isFormatFile := func(n ast.Node) bool {
		return strings.HasPrefix(baseName(w.relFile(n.Pos())), "format")
	}

	nodeNamed := map[*types.Named]bool{}
	for _, n := range a.nodeTypes {
		nodeNamed[n] = true
	}

	// ---- what the parser constructs and writes
	constructed := map[*types.Named]ast.Node{}
	written := map[*types.Named]map[string]ast.Node{}

	noteWrite := func(n *types.Named, f string, at ast.Node) {
		if written[n] == nil {
			written[n] = map[string]ast.Node{}
		}

		if _, ok := written[n][f]; !ok {
			written[n][f] = at
		}
	}

	for _, file := range sp.Syntax {
		if isFormatFile(file) {
			continue
		}

		ast.Inspect(file, func(n ast.Node) bool {
			switch x := n.(type) {
			case *ast.CompositeLit:
				tv, ok := info.Types[x]
				if !ok {
					return true
				}

				nt := namedOf(tv.Type)
				if nt == nil || !nodeNamed[nt] {
					return true
				}

				if _, seen := constructed[nt]; !seen {
					constructed[nt] = x
				}

				for _, el := range x.Elts {
					if kv, ok := el.(*ast.KeyValueExpr); ok {
						if id, ok := kv.Key.(*ast.Ident); ok {
							noteWrite(nt, id.Name, kv)
						}
					}
				}
			case *ast.AssignStmt:
				for _, lhs := range x.Lhs {
					se, ok := lhs.(*ast.SelectorExpr)
					if !ok {
						continue
					}

					sel, ok := info.Selections[se]
					if !ok || sel.Kind() != types.FieldVal {
						continue
					}

					nt := namedOf(sel.Recv())
					if nt != nil && nodeNamed[nt] && len(sel.Index()) == 1 {
						noteWrite(nt, se.Sel.Name, x)
					}
				}
			}

			return true
		})
	}

	// ---- what the printer handles and reads
	handled := map[*types.Named]bool{}
	read := map[*types.Named]map[string]bool{}

	for _, file := range sp.Syntax {
		if !isFormatFile(file) {
			continue
		}

		ast.Inspect(file, func(n ast.Node) bool {
			switch x := n.(type) {
			case *ast.TypeSwitchStmt:
				cases, tys, _ := typeSwitchCases(info, x)
				for k := range cases {
					if nt := namedOf(tys[k]); nt != nil {
						handled[nt] = true
					}
				}
			case *ast.FuncDecl:
				for _, p := range x.Type.Params.List {
					if tv, ok := info.Types[p.Type]; ok {
						if nt := namedOf(tv.Type); nt != nil {
							handled[nt] = true
						}
					}
				}
			case *ast.TypeAssertExpr:
				if x.Type != nil {
					if tv, ok := info.Types[x.Type]; ok {
						if nt := namedOf(tv.Type); nt != nil {
							handled[nt] = true
						}
					}
				}
			case *ast.SelectorExpr:
				sel, ok := info.Selections[x]
				if !ok || sel.Kind() != types.FieldVal {
					return true
				}

				if nt := namedOf(sel.Recv()); nt != nil && nodeNamed[nt] {
					if read[nt] == nil {
						read[nt] = map[string]bool{}
					}

					read[nt][x.Sel.Name] = true
				}
			case *ast.RangeStmt:
				// for _, w := range c.Whens (slice of struct values): the
				// element type is handled by the loop itself
				if tv, ok := info.Types[x.X]; ok {
					if sl, ok := tv.Type.Underlying().(*types.Slice); ok {
						if nt := namedOf(sl.Elem()); nt != nil {
							handled[nt] = true
						}
					}
				}
			}

			return true
		})
	}

	var cons []*types.Named
	for n := range constructed {
		cons = append(cons, n)
	}

	sort.Slice(cons, func(i, j int) bool { return cons[i].Obj().Name() < cons[j].Obj().Name() })
	r.Unit("node_types_constructed_by_parser", len(cons))

	for _, n := range cons {
		name := n.Obj().Name()
		key := "sqlparse.format|" + name

		if handled[n] {
			r.Discharge("R-C16-1", key, w.pos(constructed[n].Pos()), "printer case / typed parameter present")
		} else {
			r.Violate("R-C16-1", key, w.pos(constructed[n].Pos()), "the parser builds *ast."+name+" but no printer handles that type: the clause disappears from (or aborts) the reformatted text")
		}

		for _, f := range sortedKeys(written[n]) {
			fkey := "sqlparse.format|" + name + "." + f

			switch {
			case read[n][f]:
				r.Discharge("R-C16-2", fkey, w.pos(written[n][f].Pos()), "field is read by the printer")
			case c16FieldExceptions[name+"."+f] != "":
				r.Except("R-C16-2", fkey, w.pos(written[n][f].Pos()), c16FieldExceptions[name+"."+f])
			default:
				r.Violate("R-C16-2", fkey, w.pos(written[n][f].Pos()), "the parser records "+name+"."+f+" but the printer never reads it: that part of the statement is lost on reformatting")
			}
		}
	}

	// ---- R-C16-4 path rule
	for _, fn := range w.srcFuncs(sp) {
		if fn.Parent() != nil || !strings.HasPrefix(baseName(w.relFile(fn.Pos())), "format") {
			continue
		}

		for _, p := range fn.Params {
			nt := namedOf(p.Type())
			if nt == nil || !nodeNamed[nt] {
				continue
			}

			// reads of each direct field through this parameter
			reads := map[string][]ssa.Instruction{}

			allInstrs(fn, func(in ssa.Instruction) {
				switch x := in.(type) {
				case *ssa.FieldAddr:
					if x.X == ssa.Value(p) {
						reads[fieldName(x.X.Type(), x.Field)] = append(reads[fieldName(x.X.Type(), x.Field)], in)
					}
				case *ssa.Field:
					if x.X == ssa.Value(p) {
						reads[fieldName(x.X.Type(), x.Field)] = append(reads[fieldName(x.X.Type(), x.Field)], in)
					}
				}
			})

			for _, f := range sortedKeys(reads) {
				if f == "BaseNode" || f == "BaseStmt" {
					continue
				}

				set := map[ssa.Instruction]bool{}
				for _, in := range reads[f] {
					set[in] = true
				}

				esc := pathFromEntryAvoiding(fn, nil, func(i ssa.Instruction) bool { return set[i] }, func(i ssa.Instruction) bool {
					_, ok := i.(*ssa.Return)

					return ok
				})

				key := fnKey(fn) + "|" + nt.Obj().Name() + "." + f

				if ex, ok := c16PathExceptions[key]; ok && esc != nil {
					gf, pol, _ := strings.Cut(ex.guard, ":")
					par := p
					cuts := cutEdges(fn, func(fc Fact) bool {
						if fc.V == nil || !isFieldLoadOf(fc.V, par, gf) {
							return false
						}

						switch pol {
						case "true":
							return fc.Kind == "true"
						case "nonnil":
							return fc.Kind == "nonnil"
						case "empty":
							s, isStr := "", false
							if fc.C != nil {
								s, isStr = constString(fc.C)
							}

							return fc.Kind == "eq" && isStr && s == ""
						case "nonempty":
							s, isStr := "", false
							if fc.C != nil {
								s, isStr = constString(fc.C)
							}

							return fc.Kind == "ne" && isStr && s == ""
						case "eq":
							return fc.Kind == "eq"
						}

						return false
					})

					esc2 := pathFromEntryAvoiding(fn, cuts, func(i ssa.Instruction) bool { return set[i] }, func(i ssa.Instruction) bool {
						_, ok := i.(*ssa.Return)

						return ok
					})

					if esc2 == nil && len(cuts) > 0 {
						r.Except("R-C16-4", key, w.pos(esc.Pos()), "skipped only behind "+ex.guard+": "+ex.reason)
					} else {
						r.Violate("R-C16-4", key, w.pos(esc.Pos()), "a path that does not go through the documented alternative ("+ex.guard+") returns without looking at "+nt.Obj().Name()+"."+f)
					}

					continue
				}

				switch {
				case esc == nil:
					r.Discharge("R-C16-4", key, w.pos(fn.Pos()), "read on every path")
				default:
					r.Violate("R-C16-4", key, w.pos(esc.Pos()), "a path through "+fnKey(fn)+" returns without ever looking at "+nt.Obj().Name()+"."+f+", which other paths print: the clause is dropped for some inputs")
				}
			}
		}
	}
}

func baseName(p string) string {
	if i := strings.LastIndex(p, "/"); i >= 0 {
		return p[i+1:]
	}

	return p
}

// isFieldLoadOf: v is (a load of) field `field` selected directly on base.
func isFieldLoadOf(v ssa.Value, base ssa.Value, field string) bool {
	v = stripValue(v)
	if u, ok := v.(*ssa.UnOp); ok {
		v = u.X
	}

	switch x := v.(type) {
	case *ssa.FieldAddr:
		return x.X == base && fieldName(x.X.Type(), x.Field) == field
	case *ssa.Field:
		return x.X == base && fieldName(x.X.Type(), x.Field) == field
	case *ssa.Call:
		// len(x.F)
		if b, ok := x.Call.Value.(*ssa.Builtin); ok && b.Name() == "len" && len(x.Call.Args) == 1 {
			return isFieldLoadOf(x.Call.Args[0], base, field)
		}
	}

	return false
}

// c16ArgumentNames: R-C16-5.  The printer passes node fields to helper functions whose parameters
// are named after those fields (referentialActions(onDelete, onUpdate, …)).  Where two parameters
// have the same type the compiler cannot tell a swapped pair; this rule can: when an argument is
// the field x.F and the callee has a parameter named f (case-insensitively), the argument must be
// bound to that parameter.
func c16ArgumentNames(w *World, r *Report) {
	r.Rule("R-C16-5", "argument / parameter name agreement in package sqlparse: a node field passed as an argument is bound to the parameter that carries the field's name, when the callee has one", 5)

	sp := w.pkg("internal/sqlparse")
	if sp == nil || w.prog == nil {
		return
	}

	n := 0

	for _, fn := range w.srcFuncs(sp) {
		count := map[string]int{}

		allInstrs(fn, func(in ssa.Instruction) {
			c, ok := in.(*ssa.Call)
			if !ok {
				return
			}

			cf := calleeFunction(c.Common())
			if cf == nil || cf.Pkg == nil || cf.Pkg.Pkg != sp.Types || len(cf.Params) != len(c.Call.Args) {
				return
			}

			pnames := map[string]int{}
			for i, p := range cf.Params {
				pnames[strings.ToLower(p.Name())] = i
			}

			for i, a := range c.Call.Args {
				// the argument is a load (or copy) of a struct field
				var fname string

				switch x := a.(type) {
				case *ssa.UnOp:
					if fa, ok := x.X.(*ssa.FieldAddr); ok {
						fname = fieldName(fa.X.Type(), fa.Field)
					}
				case *ssa.Field:
					fname = fieldName(x.X.Type(), x.Field)
				}

				if fname == "" {
					continue
				}

				j, has := pnames[strings.ToLower(fname)]
				if !has {
					continue
				}

				n++

				key := fnKey(fn) + "|" + fname + " passed to " + fnKey(cf)
				count[key]++

				if k := count[key]; k > 1 {
					key += "#" + sprintInt(k)
				}

				if j == i {
					r.Discharge("R-C16-5", key, w.pos(in.Pos()), "")
				} else {
					r.Violate("R-C16-5", key, w.pos(in.Pos()), "the field "+fname+" is passed in the position of parameter "+cf.Params[i].Name()+", although the callee has a parameter named "+cf.Params[j].Name()+": the printed statement carries this value under the other keyword")
				}
			}
		})
	}

	if n == 0 {
		r.Anchor("R-C16-5", "calls in package sqlparse that pass node fields to like-named parameters")
	}
}

// c16StackedUnary: R-C16-7. Symbolic unary operators are written flush against
// their operand; when the operand is itself a unary expression the two
// operators meet, and "- -1" written as "--1" begins a comment: the rest of
// the line (further select items, the remaining terms of a WHERE clause) is no
// longer part of the statement the database sees.
func c16StackedUnary(w *World, r *Report) {
	r.Rule("R-C16-7", "stacked unary operators are kept apart: in printer.unaryExpr, on the path where the operand is itself an *ast.UnaryExpr, a separator is written between the operator and the operand", 1)

	sp := w.pkg("internal/sqlparse")
	if sp == nil {
		return
	}

	fn := w.ssaFunc(sp, "printer.unaryExpr")
	if fn == nil {
		r.Anchor("R-C16-7", "sqlparse.printer.unaryExpr")

		return
	}

	var ta *ssa.TypeAssert

	var operand ssa.Instruction

	allInstrs(fn, func(in ssa.Instruction) {
		if t, ok := in.(*ssa.TypeAssert); ok && t.CommaOk && strings.HasSuffix(t.AssertedType.String(), "ast.UnaryExpr") {
			ta = t
		}

		if c, ok := in.(*ssa.Call); ok && strings.HasSuffix(callID(c.Common()), "sqlparse.printer.expr") {
			operand = in
		}
	})

	key := "sqlparse.printer.unaryExpr|separator between stacked operators"

	if operand == nil {
		r.Anchor("R-C16-7", "the call that prints the operand in printer.unaryExpr")

		return
	}

	if ta == nil {
		r.Violate("R-C16-7", key, w.pos(fn.Pos()), "the operator is written flush against its operand whatever the operand is: `- -1` becomes `--1`, which begins a comment, and the rest of the line drops out of the statement (`SELECT a, - -b, c FROM t` is executed as `SELECT a,` … `FROM t`)")

		return
	}

	// follow only the path on which the operand is a unary expression
	cuts := cutEdges(fn, func(f Fact) bool {
		e, ok := f.V.(*ssa.Extract)

		return f.Kind == "false" && ok && e.Tuple == ssa.Value(ta) && e.Index == 1
	})

	isSeparator := func(i ssa.Instruction) bool {
		c, ok := i.(*ssa.Call)
		if !ok || !strings.HasSuffix(callID(c.Common()), "sqlparse.printer.write") || len(c.Call.Args) < 2 {
			return false
		}

		s, isC := constString(c.Call.Args[1])

		return isC && strings.TrimSpace(s) == "" && s != ""
	}

	if hit := pathAvoiding(ta, cuts, isSeparator, func(i ssa.Instruction) bool { return i == operand }); hit != nil {
		r.Violate("R-C16-7", key, w.pos(operand.Pos()), "the operand of a unary operator that is itself a unary expression is printed without a separator after the outer operator")
	} else {
		r.Discharge("R-C16-7", key, w.pos(ta.Pos()), "a blank is written before a unary operand")
	}
}

// c16RenderedTextNotEdited: R-C16-8. The layout of a nested statement comes
// from the printer's own depth; once text has been rendered nothing in it can
// be told apart any more (a newline inside a string literal looks like a line
// break of the layout), so rendered text is only ever copied verbatim.
func c16RenderedTextNotEdited(w *World, r *Report) {
	r.Rule("R-C16-8", "rendered SQL is never edited as text: in internal/sqlparse no value computed from a strings.Builder's String() by any further call or operation is written into a printer (printer.write / Builder.WriteString); a verbatim copy is allowed", 10)

	sp := w.pkg("internal/sqlparse")
	if sp == nil {
		return
	}

	isRendered := func(v ssa.Value) bool {
		c, ok := v.(*ssa.Call)

		return ok && strings.HasSuffix(callID(c.Common()), "strings.Builder.String")
	}

	for _, fn := range w.srcFuncs(sp) {
		if !strings.HasPrefix(filepath.Base(w.pos(fn.Pos())), "format") {
			continue
		}

		sites, bad := 0, 0

		allInstrs(fn, func(in ssa.Instruction) {
			c, ok := in.(*ssa.Call)
			if !ok {
				return
			}

			id := callID(c.Common())
			if !strings.HasSuffix(id, "sqlparse.printer.write") && !strings.HasSuffix(id, "strings.Builder.WriteString") {
				return
			}

			args := callArgs(c.Common())
			if len(args) < 2 {
				return
			}

			sites++

			text := stripValue(args[1])
			if isRendered(text) {
				return
			}

			if derivesFrom(text, isRendered, func(string) bool { return true }) {
				bad++

				r.Violate("R-C16-8", fnKey(fn)+"|rendered text rewritten before it is written", w.pos(in.Pos()), "the text written here is computed from another builder's rendered output: a rewrite of rendered SQL cannot tell layout from content, so a newline inside a string literal or quoted identifier is changed along with the line breaks")
			}
		})

		if sites > 0 && bad == 0 {
			r.Discharge("R-C16-8", fnKey(fn)+"|writes only its own text", w.pos(fn.Pos()), fmt.Sprintf("%d write sites", sites))
		}
	}
}
