package main

import (
	"fmt"
	"go/ast"
	"go/token"
	"go/types"
	"os"
	"os/exec"
	"path/filepath"
	"sort"
	"strings"

	"golang.org/x/tools/go/packages"
	"golang.org/x/tools/go/ssa"
	"golang.org/x/tools/go/ssa/ssautil"
)

const modPath = "github.com/tucats/ego"

// minimum number of repository packages that must load; a smaller number
// means the build was not covered (guards against a vacuous pass).
const minRepoPackages = 85

type loadNeeds struct {
	ssa bool
}

// World is the resolved program for one run.
type World struct {
	repo    string // analysed working tree (as given)
	root    string // snapshot directory
	tmp     string // parent temp dir to delete
	fset    *token.FileSet
	pkgs    []*packages.Package          // repository packages, sorted by path
	byPath  map[string]*packages.Package // full import path -> package (repo + deps)
	prog    *ssa.Program
	ssaPkgs map[string]*ssa.Package
	nFuncs  int
}

func (w *World) cleanup() {
	if w.tmp != "" && os.Getenv("EGOCHECK_KEEP") == "" {
		_ = os.RemoveAll(w.tmp)
	}
}

func goEnv() []string {
	env := []string{}

	for _, e := range os.Environ() {
		if strings.HasPrefix(e, "GOWORK=") || strings.HasPrefix(e, "GOFLAGS=") ||
			strings.HasPrefix(e, "GOPROXY=") || strings.HasPrefix(e, "GOSUMDB=") ||
			strings.HasPrefix(e, "GOTOOLCHAIN=") {
			continue
		}

		env = append(env, e)
	}

	return append(env, "GOWORK=off", "GOFLAGS=-mod=mod", "GOPROXY=off", "GOSUMDB=off", "GOTOOLCHAIN=local")
}

// snapshot copies the working tree of repo (without .git) to a fresh directory
// outside /repo and /verif and runs the two offline generators the tree needs
// (internal/i18n/messages.go and internal/cli/app/lib.zip are git-ignored).
func snapshot(repo string) (root, tmp string, err error) {
	base := os.Getenv("EGOCHECK_TMP")
	if base == "" {
		base = "/var/tmp"
	}

	tmp, err = os.MkdirTemp(base, "egocheck-")
	if err != nil {
		return "", "", err
	}

	root = filepath.Join(tmp, "src")

	cmd := exec.Command("rsync", "-a", "--exclude", ".git", strings.TrimRight(repo, "/")+"/", root+"/")
	if out, e := cmd.CombinedOutput(); e != nil {
		return root, tmp, fmt.Errorf("rsync: %v: %s", e, out)
	}

	gen := exec.Command("go", "generate", "./internal/i18n/", "./internal/cli/app/")
	gen.Dir = root
	gen.Env = goEnv()

	if out, e := gen.CombinedOutput(); e != nil {
		return root, tmp, fmt.Errorf("go generate: %v: %s", e, out)
	}

	return root, tmp, nil
}

func loadWorld(repo string, needs loadNeeds) (*World, error) {
	root, tmp, err := snapshot(repo)
	w := &World{repo: repo, root: root, tmp: tmp, byPath: map[string]*packages.Package{}, ssaPkgs: map[string]*ssa.Package{}}

	if err != nil {
		return w, err
	}

	w.fset = token.NewFileSet()
	cfg := &packages.Config{
		Mode:  packages.LoadAllSyntax,
		Dir:   root,
		Env:   goEnv(),
		Fset:  w.fset,
		Tests: false,
	}

	initial, err := packages.Load(cfg, "./...")
	if err != nil {
		return w, err
	}

	var errs []string

	packages.Visit(initial, nil, func(p *packages.Package) {
		w.byPath[p.PkgPath] = p

		if strings.HasPrefix(p.PkgPath, modPath) {
			for _, e := range p.Errors {
				errs = append(errs, e.Error())
			}
		}
	})

	if len(errs) > 0 {
		sort.Strings(errs)

		if len(errs) > 10 {
			errs = errs[:10]
		}

		return w, fmt.Errorf("type-check errors in snapshot: %s", strings.Join(errs, "; "))
	}

	for _, p := range initial {
		if strings.HasPrefix(p.PkgPath, modPath) {
			w.pkgs = append(w.pkgs, p)
		}
	}

	sort.Slice(w.pkgs, func(i, j int) bool { return w.pkgs[i].PkgPath < w.pkgs[j].PkgPath })

	if len(w.pkgs) < minRepoPackages {
		return w, fmt.Errorf("only %d repository packages loaded (expected at least %d)", len(w.pkgs), minRepoPackages)
	}

	if needs.ssa {
		prog, _ := ssautil.AllPackages(initial, ssa.InstantiateGenerics)
		w.prog = prog

		// Build bodies for repository packages only; dependencies keep their
		// signatures (enough for resolved callees) but cost nothing to build.
		for _, p := range w.pkgs {
			sp := prog.Package(p.Types)
			if sp == nil {
				return w, fmt.Errorf("no SSA package for %s", p.PkgPath)
			}

			sp.Build()
			w.ssaPkgs[p.PkgPath] = sp
		}

		for fn := range ssautil.AllFunctions(prog) {
			if fn.Pkg != nil && strings.HasPrefix(fn.Pkg.Pkg.Path(), modPath) && fn.Blocks != nil {
				w.nFuncs++
			}
		}
	}

	return w, nil
}

// pkg returns the repository package with the given path relative to the
// module root ("internal/caches"), or nil.
func (w *World) pkg(rel string) *packages.Package {
	if rel == "" || rel == "." {
		return w.byPath[modPath]
	}

	return w.byPath[modPath+"/"+rel]
}

// pkgsUnder returns repository packages whose relative path equals or is below
// one of the given prefixes.
func (w *World) pkgsUnder(prefixes ...string) []*packages.Package {
	var out []*packages.Package

	for _, p := range w.pkgs {
		rel := strings.TrimPrefix(strings.TrimPrefix(p.PkgPath, modPath), "/")

		for _, pre := range prefixes {
			if rel == pre || strings.HasPrefix(rel, pre+"/") {
				out = append(out, p)

				break
			}
		}
	}

	return out
}

// pos renders a position relative to the analysed repository.
func (w *World) pos(p token.Pos) string {
	if !p.IsValid() {
		return ""
	}

	pp := w.fset.Position(p)
	rel, err := filepath.Rel(w.root, pp.Filename)

	if err != nil || strings.HasPrefix(rel, "..") {
		return fmt.Sprintf("%s:%d", pp.Filename, pp.Line)
	}

	return fmt.Sprintf("%s:%d", rel, pp.Line)
}

func (w *World) relFile(p token.Pos) string {
	pp := w.fset.Position(p)
	rel, err := filepath.Rel(w.root, pp.Filename)

	if err != nil {
		return pp.Filename
	}

	return rel
}

// funcDecl finds a function or method declaration. name is "Func" or
// "T.Method" (receiver pointer-ness ignored).
func (w *World) funcDecl(pkg *packages.Package, name string) *ast.FuncDecl {
	if pkg == nil {
		return nil
	}

	recv, fn := "", name
	if i := strings.Index(name, "."); i >= 0 {
		recv, fn = name[:i], name[i+1:]
	}

	for _, f := range pkg.Syntax {
		for _, d := range f.Decls {
			fd, ok := d.(*ast.FuncDecl)
			if !ok || fd.Name.Name != fn {
				continue
			}

			if recvTypeName(fd) == recv {
				return fd
			}
		}
	}

	return nil
}

func recvTypeName(fd *ast.FuncDecl) string {
	if fd.Recv == nil || len(fd.Recv.List) == 0 {
		return ""
	}

	t := fd.Recv.List[0].Type
	for {
		switch x := t.(type) {
		case *ast.StarExpr:
			t = x.X
		case *ast.ParenExpr:
			t = x.X
		case *ast.IndexExpr:
			t = x.X
		case *ast.Ident:
			return x.Name
		default:
			return ""
		}
	}
}

// declName renders "pkg.Func" or "pkg.T.Method" for a declaration.
func declName(pkg *packages.Package, fd *ast.FuncDecl) string {
	short := pkg.Types.Name()
	if r := recvTypeName(fd); r != "" {
		return short + "." + r + "." + fd.Name.Name
	}

	return short + "." + fd.Name.Name
}

// ssaFunc finds the SSA function for "Func" or "T.Method" in a package.
func (w *World) ssaFunc(pkg *packages.Package, name string) *ssa.Function {
	if pkg == nil || w.prog == nil {
		return nil
	}

	sp := w.ssaPkgs[pkg.PkgPath]
	if sp == nil {
		return nil
	}

	if i := strings.Index(name, "."); i >= 0 {
		tn, _ := pkg.Types.Scope().Lookup(name[:i]).(*types.TypeName)
		if tn == nil {
			return nil
		}

		for _, t := range []types.Type{tn.Type(), types.NewPointer(tn.Type())} {
			ms := w.prog.MethodSets.MethodSet(t)
			for i := 0; i < ms.Len(); i++ {
				if ms.At(i).Obj().Name() == name[strings.Index(name, ".")+1:] {
					if f := w.prog.MethodValue(ms.At(i)); f != nil && f.Synthetic == "" {
						return f
					}
				}
			}
		}

		return nil
	}

	return sp.Func(name)
}

// srcFuncs returns all source-level SSA functions (incl. anonymous ones) of a
// package, sorted by position.
func (w *World) srcFuncs(pkg *packages.Package) []*ssa.Function {
	sp := w.ssaPkgs[pkg.PkgPath]
	if sp == nil {
		return nil
	}

	var out []*ssa.Function

	var add func(f *ssa.Function)

	add = func(f *ssa.Function) {
		if f == nil || f.Blocks == nil || f.Synthetic != "" {
			return
		}

		out = append(out, f)

		for _, a := range f.AnonFuncs {
			add(a)
		}
	}

	for _, m := range sp.Members {
		switch m := m.(type) {
		case *ssa.Function:
			if m.Name() == "init" && m.Synthetic != "" {
				// package initializer: keep, it holds var initialisers
				out = append(out, m)

				for _, a := range m.AnonFuncs {
					add(a)
				}

				continue
			}

			add(m)
		case *ssa.Type:
			for _, t := range []types.Type{m.Type(), types.NewPointer(m.Type())} {
				ms := w.prog.MethodSets.MethodSet(t)
				for i := 0; i < ms.Len(); i++ {
					f := w.prog.MethodValue(ms.At(i))
					if f != nil && f.Pkg == sp && f.Synthetic == "" {
						add(f)
					}
				}
			}
		}
	}

	// de-duplicate (value-receiver methods appear in both method sets)
	seen := map[*ssa.Function]bool{}
	uniq := out[:0]

	for _, f := range out {
		if !seen[f] {
			seen[f] = true
			uniq = append(uniq, f)
		}
	}

	sort.Slice(uniq, func(i, j int) bool {
		if uniq[i].Pos() != uniq[j].Pos() {
			return uniq[i].Pos() < uniq[j].Pos()
		}

		return uniq[i].String() < uniq[j].String()
	})

	return uniq
}

// fileOf returns the syntax file of a package that contains pos.
func fileOf(pkg *packages.Package, pos token.Pos) *ast.File {
	for _, f := range pkg.Syntax {
		if f.Pos() <= pos && pos <= f.End() {
			return f
		}
	}

	return nil
}

// lookupObj finds a package-level object.
func lookupObj(pkg *packages.Package, name string) types.Object {
	if pkg == nil {
		return nil
	}

	return pkg.Types.Scope().Lookup(name)
}
