package main

import (
	"go/token"
	"go/types"
	"sort"
	"strings"

	"golang.org/x/tools/go/ssa"
)

// C07 No source text crashes the host process.

func init() {
	register(&propertyCheck{
		id: "C07", level: "other", needs: loadNeeds{ssa: true},
		decides: "for an enumerated set of panic-capable constructs, that none is unguarded in the interpreter packages (tokenizer, compiler, bytecode, data, symbols, builtins, parse, runtime): (1) every single-result type assertion is discharged by a dominating comma-ok assertion or type-switch case of the same value and type, by a same-type-pair contract (bytecode.sameKindOperands on its success edge, the result and model of one data.Coerce, IsType-related values), by the static type, or by a named exception; (2) explicit panics are a frozen, read list; (3) every integer division or remainder has a constant or zero-tested divisor; " +
			"(4) reflect.Value.Call is reached only through the recover-guarded safeReflectCall; (5) no pointer is tested against nil and dereferenced on a path from the nil edge; (6) every recover() can recover; (7) interface-keyed Go maps are indexed with hashable keys; (8) no method is called on reflect.TypeOf(x) unless x is concrete or was found non-nil; (9) every slice or channel allocation sized by an integer the program chose passes a lower and an upper bound test; (10) constant and end-relative indices and slice bounds sit behind a test that implies the element exists.",
		misses: "index and slice bounds computed otherwise than as a constant or len(x)-k, nil dereferences without a contradicting test, stack exhaustion by recursion, fatal runtime errors (concurrent map access is C08's), the REPL's terminal layer.",
		run:    runC07,
	})
}

var c07Scope = []string{
	"internal/language/tokenizer", "internal/language/compiler", "internal/language/bytecode", "internal/language/data", "internal/language/symbols",
	"internal/builtins", "internal/language/parse", "internal/runtime", "internal/language/debugger", "internal/language/expressions", "internal/packages",
}

func c07InScope(path string) bool {
	i := strings.Index(path, "/internal/")
	if i < 0 {
		return false
	}

	rel := path[i+1:]

	for _, s := range c07Scope {
		if rel == s || strings.HasPrefix(rel, s+"/") {
			return true
		}
	}

	return false
}

var c07AssertOK = map[string]string{
	"bytecode.coerceStruct|assert *data.Struct":        "only called from coerceByteCode's `case data.StructKind` after t.IsType(data.TypeOf(v)) accepted the value as a struct of that type",
	"bytecode.handleCatch|assert *errors.Error":        "try.catches is filled only by willCatchByteCode from the error list the compiler emits for catch(...); its elements are *errors.Error by construction",
	"bytecode.parseArgOperands|assert *data.Type":      "third operand of the Arg opcode, emitted by the compiler's function prologue as a *data.Type; not a program value",
	"bytecode.parseArgOperands|assert *data.Type#2":    "as above, []any operand form",
	"bytecode.rwState|assert *bytecode.rwMutexState":   "rwMutexLockState is only ever filled by this LoadOrStore with &rwMutexState{}",
	"bytecode.storeChanByteCode|assert *data.Channel":   "behind sourceChan, which is the ok result of the comma-ok assertion of the same value a few lines above",
	"bytecode.storeChanByteCode|assert *data.Channel#2": "behind destChan, the ok result of the comma-ok assertion of the same value",
	"github.com/tucats/ego/internal/runtime/strings.init$1|assert *strings.Builder": "formatter registered for the native type *strings.Builder; the formatter table is keyed by that type",
	"os.formatFileType|assert *os.File":                "formatter registered for the native type *os.File",
	"http.Add|assert *data.Array":                      "the header map is private to the Header type and only this method stores into it, always a *data.Array",
	"io.readString|assert *bufio.Scanner":              "the scanner field is checked for nil/validity by getFile before this point; set only by Open",
	"reflect.describeBytecodeFunction|assert string":   "result of the String method of *bytecode.ByteCode, called only when the value's reflect type string is the ByteCode one",
	"strings.evaluateTemplate|assert *parse.TemplateNode": "walks text/template's own parse tree: a node whose type is NodeTemplate is a *parse.TemplateNode",
}

var c07PanicOK = map[string]string{
	"bytecode.panicByteCode|panic":                        "the panic() builtin when ego.runtime.panics is set: the user asked for a Go panic (off by default)",
	"compiler.Compiler.Open|panic":                        "nil receiver: an interpreter programming error, not reachable from source text (compilers are made by New)",
	"data.Declaration.returnsAsString|panic":              "nil return type in a function declaration built by the runtime packages; checked when packages register at start-up",
	"data.Type.DefineNativeFunction|panic":                "package registration at start-up: malformed native declaration",
	"data.Type.DefineNativeFunction|panic#2":              "package registration at start-up: malformed native declaration",
	"data.Type.DefineNativeSandboxedFunction|panic":       "package registration at start-up: malformed native declaration",
	"data.Type.DefineNativeSandboxedFunction|panic#2":     "package registration at start-up: malformed native declaration",
	"data.Type.SetNativeName|panic":                       "package registration at start-up",
	"symbols.SymbolTable.Get|panic":                       "symbol-table parent loop: internal invariant (SetParent refuses to create one)",
	"symbols.SymbolTable.GetAnyScope|panic":               "symbol-table parent loop: internal invariant",
	"symbols.SymbolTable.SetParent|panic":                 "refuses to create a parent loop: internal invariant, not reachable from source text",
}

var c07DivOK = map[string]string{}

var c07MapKeyOK = map[string]string{
	"data.Map.SetAlways|interface-keyed map access":         "the trusted native write used by the runtime packages for their own struct-owned maps (header names, field names); keys are strings chosen by Go code, and the function has no error to return",
	"data.hashableKey|interface-keyed map access":           "this is the probe itself: it hashes the key under a deferred recover",
	"resolve.Info.registerScope|interface-keyed map access": "keyed by syntax-tree nodes (pointers), in the formatter's resolver",
}

var c07ReflectOK = map[string]string{
	"reflect.describeBytecodeFunction|reflect call guarded":   "calls the String method of a *bytecode.ByteCode (the caller selects this branch by the value's reflect type string); an interpreter method, not a native function of the program's choosing",
	"reflect.describeBytecodeFunction|reflect call guarded#2": "calls the Declaration method of the same *bytecode.ByteCode",
}

var c07TypeOfOK = map[string]string{
	"bytecode.CallWithReceiver|reflect.TypeOf(x).String": "the receiver is the object on which the member lookup found the native method; the lookup fails with an error for nil (getNativePackageMember tests it), so no nil receiver reaches this reflective path",
	"bytecode.convertFromNativeArray|reflect.TypeOf(x).String": "the operand is the result of a native Go function declared to return a slice, obtained with reflect.Value.Interface(): a slice-typed result is a typed value even when the slice is nil",
	"rest.Exchange|reflect.TypeOf(x).String": "rest.Exchange is the Go-level client helper of the CLI commands and the server's own relays; the Ego rest package does not call it, so no program reaches it (a text error reply to a caller that passed no response object would crash that CLI command: outside this property)",
}

// c07IsNilPredicate: a func(any) bool that answers true whenever its argument is nil.
var c07NilPredicates = map[*ssa.Function]bool{}

func c07IsNilPredicate(f *ssa.Function) bool {
	if f == nil || f.Blocks == nil || len(f.Params) != 1 {
		return false
	}

	if v, ok := c07NilPredicates[f]; ok {
		return v
	}

	res := f.Signature.Results()
	if res.Len() != 1 || !types.Identical(res.At(0).Type(), types.Typ[types.Bool]) {
		c07NilPredicates[f] = false

		return false
	}

	// with the "argument is not nil" edges removed, every return left answers true
	cuts := cutEdges(f, func(ft Fact) bool { return ft.Kind == "nonnil" && ft.V == ssa.Value(f.Params[0]) })
	ok := len(cuts) > 0

	for b := range reach(f.Blocks[0], cuts, nil) {
		if ret, isRet := b.Instrs[len(b.Instrs)-1].(*ssa.Return); isRet {
			if v, isC := constBool(retResult(ret, 0)); !isC || !v {
				ok = false
			}
		}
	}

	c07NilPredicates[f] = ok

	return ok
}

var c07SizeOK = map[string]string{}

var c07WalkOK = map[string]string{}

var c07OptionalOK = map[string]string{
	"bytecode.callRuntimeFunction|optional member Declaration#6": "reached only for a definition marked Sandboxed; that flag is set by DefineNativeSandboxedFunction and by the data.Function literals of the runtime packages, all of which carry a Declaration (R-C11-1 reads the same literals)",
	"data.Type.String|optional member valueType#2":               "map types are built by MapType(key, value), which always sets the value type; the nil test in this function belongs to the named-type case",
	"data.Type.String|optional member valueType#3":               "pointer types are built by PointerType(base), which always sets the base type",
	"data.Type.String|optional member valueType#4":               "array types are built by ArrayType(element), which always sets the element type",
}

var c07IndexOK = map[string]string{
	// instruction operands: written by the compiler, never by the program
	"bytecode.arrayByteCode|index 0 of value":  "the operand list of an Array instruction is built by the compiler as []any{count, kind} (compiler emits both elements whenever it emits the list form)",
	"bytecode.arrayByteCode|index 1 of value":  "same two-element operand list of an Array instruction",
	"bytecode.atLineByteCode|index 0 of value": "the operand list of an AtLine instruction is built by the compiler as []any{line, text}",
	"bytecode.moduleByteCode|index 0 of value": "the operand list of a Module instruction is built by the compiler as []any{name[, tokenizer]}",
	"bytecode.getArgumentType|index 0 of field Parameters": "reached only for a variadic declaration, and a variadic declaration has at least the variadic parameter (declarations are Go literals checked when the packages register)",
	// the compiler's scope stack
	"compiler.Compiler.DefineGlobalSymbol|index 0 of field scopes":   "preceded by `if len(c.scopes) == 0 { c.PushSymbolScope() }`; PushSymbolScope appends one scope (the effect of the callee on the field is not modelled)",
	"compiler.Compiler.DefineGlobalSymbol|index 0 of field scopes#2": "same guard",
	"compiler.Compiler.DefineSymbol|index 0 of field scopes":         "preceded by `if len(c.scopes) == 0 { c.PushSymbolScope() }`",
	"compiler.Compiler.DefineSymbol|index 0 of field scopes#2":       "same guard",
	"compiler.Compiler.markSymbolAsUsed|index 0 of field scopes":     "preceded by `if len(c.scopes) == 0 { c.PushSymbolScope() }`",
	"compiler.Compiler.markSymbolAsUsed|index 0 of field scopes#2":   "same guard",
	"compiler.Compiler.compileDotReference|index 0 of result of bytecode.ByteCode.Opcodes":   "the last instruction is patched right after this function emitted a Push and compiled an expression atom: the instruction list is not empty",
	"compiler.Compiler.compileDotReference|index 0 of result of bytecode.ByteCode.Opcodes#2": "same: written back to the element just read",
	"compiler.Compiler.reference|index 0 of result of bytecode.ByteCode.Opcodes":             "the last instruction is patched right after this function emitted three instructions and parseStruct emitted the Struct instruction",
	"compiler.Compiler.reference|index 0 of result of bytecode.ByteCode.Opcodes#2":           "same: written back to the element just read",
	"compiler.Compiler.compilerMacro|index 0 of field Tokens":   "needs a loaded `macros` package whose function returns text without any token; tokenizer.New(text, true) ends every token list with an end-of-statement token, so the list is not empty",
	"compiler.Compiler.compilerMacro|index 0 of field Tokens#2": "same token list, one line earlier",
	// names and tables made by Go code
	"data.Declaration.typeAsString|index 0 of value":        "the receiver type name of a native declaration; names are Go literals of the form pkg.Type",
	"data.Format|index 0 of result of strings.TrimPrefix":   "a reflect type string without its leading '*' that was just found as a key of packageTypes: never empty",
	"data.PackageForKind|index 0 of field Tokens":           "TypeDeclarations is a Go table literal; every entry has its tokens",
	"data.PackageForKind|index 0 of field Tokens#2":         "same table",
	"data.PackageForKind|index 1 of field Tokens":           "same table: an entry that starts with `*` continues with the package name",
	"symbols.SymbolTable.GetAddress|index 0 of parameter name": "reached only when name is a key of the symbol map, and symbols are created from identifier tokens, which are never empty",
	"exec.newCommand|index 0 of result of fork.MungeArguments":   "exec.Command is declared with one fixed parameter before the variadic ones, so the argument list is not empty, and MungeArguments returns its arguments (Linux, macOS) or a longer list (Windows)",
	"exec.newCommand|index 0 of result of fork.MungeArguments#2": "same list",
	"reflect.describeBytecodeFunction|index 0 of result of reflect.Value.Call":   "the String method of *bytecode.ByteCode has exactly one result",
	"reflect.describeBytecodeFunction|index 0 of result of reflect.Value.Call#2": "the Declaration method of *bytecode.ByteCode has exactly one result",
	"util.formatSymbols|index 2 of value":   "rows come from SymbolTable.FormattedData, which builds every row with the same fixed columns",
	"util.formatSymbols|index 2 of value#2": "same row",
	// not the interpreter
	"debugger.getLine|index 0 of field Tokens":                          "the line was tested for blank just above (strings.TrimSpace), so it tokenises to at least one token",
	"resolve.walker.popFuncLocals|index 0 of field funcLocals":          "the formatter's resolver, not the interpreter; push and pop are paired by the walker",
}

// c07CallersGuard: the indexed value is a parameter of an unexported function
// and every call site passes a value for which the element is known to exist.
func c07CallersGuard(fn *ssa.Function, s indexSite, callers map[*ssa.Function][]ssa.CallInstruction) (bool, string) {
	p, ok := resolveLocal(stripValue(s.x)).(*ssa.Parameter)
	if !ok || fn.Parent() != nil {
		return false, ""
	}

	if o, isFunc := fn.Object().(*types.Func); !isFunc || o.Exported() {
		return false, ""
	}

	idx := -1

	for i, fp := range fn.Params {
		if fp == p {
			idx = i
		}
	}

	sites := callers[fn]
	if idx < 0 || len(sites) == 0 {
		return false, ""
	}

	for _, ci := range sites {
		args := ci.Common().Args
		if idx >= len(args) {
			return false, ""
		}

		if ok, _ := indexSiteGuarded(ci.Parent(), indexSite{ci, args[idx], s.k}); !ok {
			return false, ""
		}
	}

	return true, "every one of the " + sprintInt(len(sites)) + " call sites passes a value known to be long enough"
}

// c07SliceSites: slice expressions with constant bounds, including
// s[a : len(s)-b], expressed as "element a+b-1 must exist".
func c07SliceSites(fn *ssa.Function) []indexSite {
	var out []indexSite

	allInstrs(fn, func(in ssa.Instruction) {
		sl, ok := in.(*ssa.Slice)
		if !ok {
			return
		}

		if t, isPtr := sl.X.Type().Underlying().(*types.Pointer); isPtr {
			if _, isArr := t.Elem().Underlying().(*types.Array); isArr {
				return
			}
		}

		var need int64

		lo := int64(0)
		if sl.Low != nil {
			if n, ok := constInt(sl.Low); ok {
				lo = n
			}
		}

		need = lo

		if sl.High != nil {
			if n, ok := constInt(sl.High); ok {
				if n > need {
					need = n
				}
			} else if bo, isBin := sl.High.(*ssa.BinOp); isBin && bo.Op == token.SUB {
				if k, isC := constInt(bo.Y); isC && k > 0 {
					if l := lenOf(bo.X); l != nil && (l == sl.X || sameSliceValue(l, sl.X)) {
						need = lo + k
					}
				}
			}
		}

		if need > 0 {
			out = append(out, indexSite{in, sl.X, need - 1})
		}
	})

	// x[len(x)-k]: element k-1 must exist
	allInstrs(fn, func(in ssa.Instruction) {
		var x, idx ssa.Value

		switch v := in.(type) {
		case *ssa.IndexAddr:
			x, idx = v.X, v.Index
		case *ssa.Index:
			x, idx = v.X, v.Index
		case *ssa.Lookup:
			if !isStringType(v.X.Type()) {
				return
			}

			x, idx = v.X, v.Index
		default:
			return
		}

		bo, ok := idx.(*ssa.BinOp)
		if !ok || bo.Op != token.SUB {
			return
		}

		k, isC := constInt(bo.Y)
		if !isC || k <= 0 {
			return
		}

		if l := lenOf(bo.X); l != nil && (l == x || sameSliceValue(l, x)) {
			out = append(out, indexSite{in, x, k - 1})
		}
	})

	return out
}

// c07SizeLeaves returns the run-time integers a size expression is computed
// from; empty when it is made of constants and lengths only.
func c07SizeLeaves(v ssa.Value) []ssa.Value {
	var out []ssa.Value

	seen := map[ssa.Value]bool{}

	var walk func(v ssa.Value)

	walk = func(v ssa.Value) {
		if v == nil || seen[v] {
			return
		}

		seen[v] = true

		switch x := v.(type) {
		case *ssa.Const:
		case *ssa.Convert:
			walk(x.X)
		case *ssa.ChangeType:
			walk(x.X)
		case *ssa.BinOp:
			walk(x.X)
			walk(x.Y)
		case *ssa.Phi:
			for _, e := range x.Edges {
				walk(e)
			}
		case *ssa.Call:
			if b, ok := x.Call.Value.(*ssa.Builtin); ok {
				switch b.Name() {
				case "len", "cap":
					return
				case "min", "max":
					for _, a := range x.Call.Args {
						walk(a)
					}

					return
				}
			}

			if f := staticCallee(x.Common()); f != nil {
				switch f.Name() {
				case "Len", "NumField", "NumIn", "NumOut", "NumMethod", "Count":
					return // lengths and counts are never negative
				}
			}

			out = append(out, v)
		case *ssa.UnOp:
			if x.Op == token.MUL {
				if rv := resolveLocal(v); rv != v {
					walk(rv)

					return
				}

				if vals, ok := storedValues(x.X); ok && len(vals) > 0 {
					for _, sv := range vals {
						walk(sv)
					}

					return
				}
			}

			out = append(out, v)
		default:
			out = append(out, v)
		}
	}

	walk(v)

	return out
}

func c07HasRecover(fn *ssa.Function) bool {
	found := false

	for _, d := range deferredCalls(fn) {
		if cf := calleeFunction(d.Common()); cf != nil {
			allInstrs(cf, func(in ssa.Instruction) {
				if c, ok := in.(*ssa.Call); ok {
					if b, isB := c.Call.Value.(*ssa.Builtin); isB && b.Name() == "recover" {
						found = true
					}
				}
			})
		}
	}

	return found
}

// c07ProgramInteger: the leaf is an integer conversion of a value the running
// program supplied (an argument of a runtime function, a value popped from the
// stack).
func c07ProgramInteger(leaf ssa.Value) bool {
	call, _ := resultOf(leaf)
	if call == nil {
		if c, ok := leaf.(*ssa.Call); ok {
			call = c
		}
	}

	if call == nil {
		return false
	}

	id := callID(call.Common())
	if !strings.HasPrefix(id, "internal/language/data.Int") && !strings.HasPrefix(id, "internal/language/data.GetInt") {
		return false
	}

	if len(call.Call.Args) == 0 {
		return false
	}

	return derivesFrom(call.Call.Args[0], func(v ssa.Value) bool {
		c, ok := v.(*ssa.Call)
		if !ok {
			if ex, isEx := v.(*ssa.Extract); isEx {
				c, ok = ex.Tuple.(*ssa.Call)
			}
		}

		if !ok {
			return false
		}

		switch callID(c.Common()) {
		case "internal/language/data.List.Get", "internal/language/data.List.Elements",
			"internal/language/bytecode.Context.Pop", "internal/language/bytecode.Context.PopWithoutUnwrapping",
			"internal/language/data.Array.Get", "internal/language/data.Map.Get", "internal/language/data.Struct.Get":
			return true
		}

		return false
	}, nil)
}

// c07SizeBounded decides whether every program-chosen leaf is compared with a
// bound before `at` executes in fn; parameters are followed into the callers.
func c07SizeBounded(w *World, fn *ssa.Function, at ssa.Instruction, leaves []ssa.Value, callers map[*ssa.Function][]ssa.CallInstruction, depth int) (bad string, notes []string) {
	for _, leaf := range leaves {
		bounded := func(upper bool) bool {
			cuts := cutEdges(fn, func(f Fact) bool {
				if f.Kind != "cmp" {
					return false
				}

				isLeaf := func(side ssa.Value) bool {
					for _, l := range c07SizeLeaves(side) {
						if l == leaf {
							return true
						}
					}

					return false
				}

				// on this edge "X Op Y" holds
				switch f.Op {
				case token.EQL:
					return isLeaf(f.X) || isLeaf(f.Y)
				case token.LSS, token.LEQ:
					if upper {
						return isLeaf(f.X)
					}

					return isLeaf(f.Y)
				case token.GTR, token.GEQ:
					if upper {
						return isLeaf(f.Y)
					}

					return isLeaf(f.X)
				}

				return false
			})

			return len(cuts) > 0 && !instrReachableAfterCut(fn, at, cuts)
		}

		compared := func() bool { return bounded(false) && bounded(true) }

		switch {
		case c07ProgramInteger(leaf):
			switch {
			case !bounded(false):
				return c40Describe(leaf) + " in " + fnKey(fn) + ", no lower bound", nil
			case !bounded(true):
				return c40Describe(leaf) + " in " + fnKey(fn) + ", no upper bound", nil
			}

			notes = append(notes, c40Describe(leaf)+" is compared with a lower and an upper bound on every path")
		case isParam(leaf):
			if compared() {
				notes = append(notes, "parameter "+leaf.Name()+" is compared with a lower and an upper bound on every path")

				continue
			}

			if depth >= 3 {
				notes = append(notes, "parameter "+leaf.Name()+": callers beyond three levels not followed")

				continue
			}

			idx := -1

			for i, p := range fn.Params {
				if ssa.Value(p) == leaf {
					idx = i
				}
			}

			sites := callers[fn]
			checked := 0

			for _, ci := range sites {
				args := ci.Common().Args
				if idx < 0 || idx >= len(args) {
					continue
				}

				checked++

				cl := c07SizeLeaves(args[idx])
				if b, _ := c07SizeBounded(w, ci.Parent(), ci, cl, callers, depth+1); b != "" {
					return b + " -> " + fnKey(fn) + "(" + leaf.Name() + ")", nil
				}
			}

			notes = append(notes, "parameter "+leaf.Name()+": "+sprintInt(checked)+" call sites pass lengths, constants, interpreter state or bounded values")
		default:
			notes = append(notes, c40Describe(leaf)+" is interpreter state (instruction operand, compiler index, field), not an integer the program chooses")
		}
	}

	return "", notes
}

func isParam(v ssa.Value) bool {
	_, ok := v.(*ssa.Parameter)

	return ok
}

var c07NilOK = map[string]string{
	"bytecode.convertToNative|nil-tested result 0 of bytecode.getArgumentType dereferenced": "the later `t != nil` test is redundant: getArgumentType returns a nil type only together with an error, which is returned before t is used; parameter types of native declarations are always set",
	"compiler.Compiler.compileAssignment|nil-tested result of bytecode.ByteCode.Instruction dereferenced": "the dereference is behind a boolean computed from the same nil test (firstInstr != nil && …); the walker does not track booleans",
	"compiler.Compiler.iterationFor|nil-tested result of bytecode.ByteCode.Instruction dereferenced":      "isSlot / isSimple are computed as firstInstr != nil && …; the dereference is behind them",
	"symbols.SymbolTable.SetParent|nil-tested parameter p dereferenced":                                  "inside the loop `for chain := p; chain != nil; …`, which does not run when p is nil",
}

func runC07(w *World, r *Report) {
	r.Rule("R-C07-1", "single-result type assertions are discharged by a dominating check, the Normalize / Coerce contracts, the static type, or a named exception", 200)
	r.Rule("R-C07-2", "explicit panic sites in the interpreter packages are a frozen list (re-raises of recovered values excluded)", 5)
	r.Rule("R-C07-3", "integer division / remainder: constant non-zero divisor or behind a test of the divisor", 20)
	r.Rule("R-C07-4", "reflect.Value.Call / CallSlice only inside a function with a deferred recover", 1)
	r.Rule("R-C07-5", "no dereference of a pointer on a path from the edge where it was found nil", 0)
	r.Rule("R-C07-7", "a Go map with an interface key type is indexed only with a key of comparable static type, a key obtained by ranging over a map, or behind data.hashableKey(key)", 5)
	r.Rule("R-C07-8", "a method is called on reflect.TypeOf(x) only where x has a concrete static type or was found non-nil on every path (reflect.TypeOf(nil) is a nil Type)", 10)
	r.Rule("R-C07-9", "every make of a slice or channel whose size is computed from an integer the running program chose (data.Int of a function argument or a stack value; parameters are followed into their callers, three levels) is reachable only through a lower-bound and an upper-bound comparison of that integer, or sits under a deferred recover", 3)
	r.Rule("R-C07-10", "a constant index, a constant slice bound, or a slice s[a:len(s)-b] into a slice or string of unknown length is behind a length test (or a prefix/suffix/emptiness test) that implies the element exists", 100)
	r.Rule("R-C07-11", "a pointer-typed struct member that the function tests against nil somewhere is dereferenced only where a test of the same member found it non-nil (or right after it was given a fresh object)", 20)
	r.Rule("R-C07-12", "a function that lists a directory and calls itself for the entries recurses only behind the not-yet-visited edge of a string-keyed visited set that it has just extended", 1)
	r.Rule("R-C07-13", "every function of the interpreter packages that can call itself again (directly or through other functions of the package) while descending into the members of a value does so behind a depth guard: the cycle passes through a function all of whose further calls are unreachable once the true edge of its guard (a function that counts the nesting against a constant) is removed; or behind an int parameter that bounds the depth; walkers of parser-built trees are tabled exceptions", 5)
	r.Rule("R-C07-6", "every recover() in the repository is called directly by a function that is the target of a defer statement (a recover() in a helper recovers nothing)", 4)

	var fns []*ssa.Function

	for _, p := range w.pkgs {
		if c07InScope(p.PkgPath) {
			fns = append(fns, w.srcFuncs(p)...)
		}
	}

	sort.Slice(fns, func(i, j int) bool { return fnKey(fns[i]) < fnKey(fns[j]) })
	r.Unit("functions_in_scope", len(fns))

	if len(fns) < 1500 {
		r.Anchor("R-C07-1", "interpreter packages (only "+sprintInt(len(fns))+" functions found)")
	}

	c40NilTests = 0

	for _, fn := range fns {
		count := map[string]int{}
		mkKey := func(what string) string {
			key := fnKey(fn) + "|" + what
			count[key]++

			if n := count[key]; n > 1 {
				key += "#" + sprintInt(n)
			}

			return key
		}

		hasRecover := false

		allInstrs(fn, func(in ssa.Instruction) {
			if d, ok := in.(*ssa.Defer); ok {
				if cf := calleeFunction(d.Common()); cf != nil {
					allInstrs(cf, func(i2 ssa.Instruction) {
						if c, ok := i2.(*ssa.Call); ok {
							if b, isB := c.Call.Value.(*ssa.Builtin); isB && b.Name() == "recover" {
								hasRecover = true
							}
						}
					})
				}
			}
		})

		allInstrs(fn, func(in ssa.Instruction) {
			switch x := in.(type) {
			case *ssa.TypeAssert:
				if x.CommaOk {
					return
				}

				key := mkKey("assert " + types.TypeString(x.AssertedType, func(p *types.Package) string { return p.Name() }))

				if why := c40AssertSafe(x); why != "" {
					r.Discharge("R-C07-1", key, w.pos(x.Pos()), why)
				} else if why := c07PartnerContract(x); why != "" {
					r.Discharge("R-C07-1", key, w.pos(x.Pos()), why)
				} else if why, ok := c07AssertOK[key]; ok {
					r.Except("R-C07-1", key, w.pos(x.Pos()), why)
				} else {
					r.Violate("R-C07-1", key, w.pos(x.Pos()), "single-result type assertion with nothing that fixes the operand's type ("+c40Describe(resolveLocal(x.X))+"): a program that puts another type there panics the interpreter")
				}
			case *ssa.Panic:
				key := mkKey("panic")
				if why := c40PanicBenign(x); why != "" {
					r.Discharge("R-C07-2", key, w.pos(x.Pos()), why)
				} else if why, ok := c07PanicOK[key]; ok {
					r.Except("R-C07-2", key, w.pos(x.Pos()), why)
				} else {
					r.Violate("R-C07-2", key, w.pos(x.Pos()), "explicit panic in interpreter code")
				}
			case *ssa.BinOp:
				if x.Op != token.QUO && x.Op != token.REM {
					return
				}

				b, ok := x.Type().Underlying().(*types.Basic)
				if !ok || b.Info()&types.IsInteger == 0 {
					return
				}

				key := mkKey("divide")

				if k, isC := constInt(x.Y); isC {
					if k != 0 {
						r.Discharge("R-C07-3", key, w.pos(x.Pos()), "constant divisor")
					} else {
						r.Violate("R-C07-3", key, w.pos(x.Pos()), "division by constant zero")
					}

					return
				}

				if c40DivisorGuarded(fn, x) {
					r.Discharge("R-C07-3", key, w.pos(x.Pos()), "behind a test of the divisor")
				} else if why := c07AllocSizeDivisor(w, x.Y); why != "" {
					r.Discharge("R-C07-3", key, w.pos(x.Pos()), why)
				} else if why, ok := c07DivOK[key]; ok {
					r.Except("R-C07-3", key, w.pos(x.Pos()), why)
				} else {
					r.Violate("R-C07-3", key, w.pos(x.Pos()), "integer division by a value that is not tested against zero: the Go runtime panics")
				}
			case *ssa.Call:
				id := callID(x.Common())
				if id == "reflect.Value.Call" || id == "reflect.Value.CallSlice" {
					key := mkKey("reflect call guarded")
					if hasRecover {
						r.Discharge("R-C07-4", key, w.pos(x.Pos()), "the function defers a recover")
					} else if why, ok := c07ReflectOK[key]; ok {
						r.Except("R-C07-4", key, w.pos(x.Pos()), why)
					} else {
						r.Violate("R-C07-4", key, w.pos(x.Pos()), "a reflective call outside a recover-guarded function: a native function that panics on its arguments takes the interpreter down")
					}
				}
			}
		})

		c07Nil(w, r, fn, mkKey)
	}

	// ---- R-C07-7: interface-keyed Go maps are not indexed with a key that cannot be hashed
	for _, fn := range fns {
		n := 0

		allInstrs(fn, func(in ssa.Instruction) {
			var m, k ssa.Value

			switch x := in.(type) {
			case *ssa.Lookup:
				m, k = x.X, x.Index
			case *ssa.MapUpdate:
				m, k = x.Map, x.Key
			case *ssa.Call:
				if b, isB := x.Call.Value.(*ssa.Builtin); isB && b.Name() == "delete" && len(x.Call.Args) == 2 {
					m, k = x.Call.Args[0], x.Call.Args[1]
				}
			}

			if m == nil {
				return
			}

			mt, ok := m.Type().Underlying().(*types.Map)
			if !ok {
				return
			}

			if _, isIface := mt.Key().Underlying().(*types.Interface); !isIface {
				return
			}

			n++

			key := fnKey(fn) + "|interface-keyed map access"
			if n > 1 {
				key += "#" + sprintInt(n)
			}

			// a key whose static type is known and comparable
			kk := k
			if mi, ok := kk.(*ssa.MakeInterface); ok {
				if _, isIface := mi.X.Type().Underlying().(*types.Interface); !isIface && types.Comparable(mi.X.Type()) {
					r.Discharge("R-C07-7", key, w.pos(in.Pos()), "key of static type "+mi.X.Type().String())

					return
				}
			}

			// a key taken from a range over the same kind of map was hashed before
			if derivesFrom(kk, func(v ssa.Value) bool { _, isNext := v.(*ssa.Next); return isNext }, nil) {
				r.Discharge("R-C07-7", key, w.pos(in.Pos()), "key comes from ranging over a map (already hashed once)")

				return
			}

			cuts := cutEdges(fn, func(f Fact) bool {
				if f.Kind != "true" {
					return false
				}

				c, ok := f.V.(*ssa.Call)

				return ok && strings.HasSuffix(callID(c.Common()), "data.hashableKey") && len(c.Call.Args) == 1 && (c.Call.Args[0] == kk || sameSliceValue(c.Call.Args[0], kk))
			})

			if len(cuts) > 0 && !instrReachableAfterCut(fn, in, cuts) {
				r.Discharge("R-C07-7", key, w.pos(in.Pos()), "behind hashableKey(key)")
			} else if why, ok := c07MapKeyOK[key]; ok {
				r.Except("R-C07-7", key, w.pos(in.Pos()), why)
			} else {
				r.Violate("R-C07-7", key, w.pos(in.Pos()), "a map with an interface key type is indexed with a value whose dynamic type is not known to be hashable: a function, slice or map key supplied by the program makes the Go runtime panic (hash of unhashable type)")
			}
		})
	}

	// ---- R-C07-8: a method of reflect.TypeOf(x) needs a non-nil x
	for _, fn := range fns {
		n := 0

		allInstrs(fn, func(in ssa.Instruction) {
			ci, ok := in.(ssa.CallInstruction)
			if !ok || !ci.Common().IsInvoke() {
				return
			}

			tcall, ok := ci.Common().Value.(*ssa.Call)
			if !ok || callID(tcall.Common()) != "reflect.TypeOf" {
				return
			}

			n++

			key := fnKey(fn) + "|reflect.TypeOf(x)." + ci.Common().Method.Name()
			if n > 1 {
				key += "#" + sprintInt(n)
			}

			x := tcall.Call.Args[0]

			if mi, isMI := x.(*ssa.MakeInterface); isMI {
				if _, isIface := mi.X.Type().Underlying().(*types.Interface); !isIface {
					r.Discharge("R-C07-8", key, w.pos(in.Pos()), "operand of static type "+mi.X.Type().String()+": its reflect type is never nil")

					return
				}
			}

			xr := resolveLocal(x)

			cuts := cutEdges(fn, func(f Fact) bool {
				// the false edge of a nil predicate applied to the operand (data.IsNil(x))
				if f.Kind == "false" {
					if pc, isCall := f.V.(*ssa.Call); isCall && len(pc.Call.Args) == 1 && (pc.Call.Args[0] == x || resolveLocal(pc.Call.Args[0]) == xr) {
						return c07IsNilPredicate(calleeFunction(pc.Common()))
					}
				}

				if f.Kind != "nonnil" {
					return false
				}

				return f.V == x || f.V == xr || resolveLocal(f.V) == xr || f.V == ssa.Value(tcall)
			})

			if len(cuts) > 0 && !instrReachableAfterCut(fn, in, cuts) {
				r.Discharge("R-C07-8", key, w.pos(in.Pos()), "reachable only where the operand (or the type) was found non-nil")
			} else if why, ok := c07TypeOfOK[key]; ok {
				r.Except("R-C07-8", key, w.pos(in.Pos()), why)
			} else {
				r.Violate("R-C07-8", key, w.pos(in.Pos()), "reflect.TypeOf("+c40Describe(xr)+") is nil when the operand is nil, and the method call on it is a nil dereference: a program that puts nil there crashes the interpreter")
			}
		})
	}

	// ---- R-C07-9: a slice or channel is made with a size that was compared with a bound
	callers := map[*ssa.Function][]ssa.CallInstruction{}

	for _, fn := range fns {
		allCalls(fn, func(ci ssa.CallInstruction) {
			if cf := calleeFunction(ci.Common()); cf != nil {
				callers[cf] = append(callers[cf], ci)
			}
		})
	}

	for _, fn := range fns {
		n := 0

		allInstrs(fn, func(in ssa.Instruction) {
			var size ssa.Value

			what := ""

			switch x := in.(type) {
			case *ssa.MakeSlice:
				size, what = x.Len, "make(slice)"
			case *ssa.MakeChan:
				size, what = x.Size, "make(chan)"
			default:
				return
			}

			leaves := c07SizeLeaves(size)
			if len(leaves) == 0 {
				return // constants and lengths only
			}

			n++

			key := fnKey(fn) + "|" + what + " size " + c40Describe(leaves[0])
			if n > 1 {
				key += "#" + sprintInt(n)
			}

			if c07HasRecover(fn) {
				r.Discharge("R-C07-9", key, w.pos(in.Pos()), "inside a function with a deferred recover")

				return
			}

			bad, notes := c07SizeBounded(w, fn, in, leaves, callers, 0)

			switch {
			case bad == "":
				r.Discharge("R-C07-9", key, w.pos(in.Pos()), strings.Join(notes, "; "))
			default:
				if why, ok := c07SizeOK[key]; ok {
					r.Except("R-C07-9", key, w.pos(in.Pos()), why)
				} else {
					r.Violate("R-C07-9", key, w.pos(in.Pos()), "the size of this allocation is an integer chosen by the running program ("+bad+") that does not pass both a lower- and an upper-bound comparison on the way here: a negative or oversized value makes the Go runtime panic (makeslice: len out of range)")
				}
			}
		})
	}

	// ---- R-C07-10: constant indices and slice bounds
	r.Unit("runtime_functions_with_declared_argument_count", registerNativeMinArgs(w))

	for _, fn := range fns {
		count := map[string]int{}

		sites := constIndexSites(fn)
		sites = append(sites, c07SliceSites(fn)...)

		for _, s := range sites {
			key := fnKey(fn) + "|index " + sprintInt(int(s.k)) + " of " + c40Describe(resolveLocal(s.x))
			count[key]++

			if n := count[key]; n > 1 {
				key += "#" + sprintInt(n)
			}

			if ok, why := indexSiteGuarded(fn, s); ok {
				r.Discharge("R-C07-10", key, w.pos(s.instr.Pos()), why)
			} else if ok, why := c07CallersGuard(fn, s, callers); ok {
				r.Discharge("R-C07-10", key, w.pos(s.instr.Pos()), why)
			} else if why, ok := c07IndexOK[key]; ok {
				r.Except("R-C07-10", key, w.pos(s.instr.Pos()), why)
			} else {
				r.Violate("R-C07-10", key, w.pos(s.instr.Pos()), "element "+sprintInt(int(s.k))+" must exist for this index or slice expression, and nothing on the way here implies the value is that long: a shorter one panics the interpreter")
			}
		}
	}

	// ---- R-C07-11: optional members
	for _, fn := range fns {
		c40OptionalMembers(w, r, fn, "R-C07-11", c07OptionalOK)
	}

	// ---- R-C07-12: directory walks end
	for _, fn := range fns {
		readsDir := false

		var self []ssa.CallInstruction

		allCalls(fn, func(ci ssa.CallInstruction) {
			switch callID(ci.Common()) {
			case "os.ReadDir", "io/ioutil.ReadDir", "os.File.Readdir", "os.File.ReadDir":
				readsDir = true
			}

			if calleeFunction(ci.Common()) == fn {
				self = append(self, ci)
			}
		})

		if !readsDir || len(self) == 0 {
			continue
		}

		for n, ci := range self {
			key := fnKey(fn) + "|recursive directory walk"
			if n > 0 {
				key += "#" + sprintInt(n+1)
			}

			// the "not yet visited" edge of a lookup in a set of strings
			var sets []ssa.Value

			cuts := cutEdges(fn, func(f Fact) bool {
				if f.Kind != "false" {
					return false
				}

				lk, ok := f.V.(*ssa.Lookup)
				if !ok {
					return false
				}

				mt, ok := lk.X.Type().Underlying().(*types.Map)
				if !ok || !isStringType(mt.Key()) {
					return false
				}

				sets = append(sets, lk.X)

				return true
			})

			marked := false

			allInstrs(fn, func(in ssa.Instruction) {
				if mu, ok := in.(*ssa.MapUpdate); ok && instrDominates(mu, ci) {
					for _, st := range sets {
						if mu.Map == st {
							marked = true
						}
					}
				}
			})

			switch {
			case len(cuts) > 0 && marked && !instrReachableAfterCut(fn, ci, cuts):
				r.Discharge("R-C07-12", key, w.pos(ci.Pos()), "recurses only for a directory that is not yet in the visited set, after adding it")
			case c07WalkOK[key] != "":
				r.Except("R-C07-12", key, w.pos(ci.Pos()), c07WalkOK[key])
			default:
				r.Violate("R-C07-12", key, w.pos(ci.Pos()), "this function lists a directory and calls itself for the entries without a visited set: when an entry leads back to a directory already walked (under the sandbox an escaping symbolic link is sent back to the sandbox root) the recursion does not end and the Go runtime kills the process")
			}
		}
	}

	// ---- R-C07-13: recursive value walkers are bounded
	c07RecursiveWalkers(w, r, fns)

	// ---- R-C07-6: a recover() that can recover
	// Go honours recover() only when the deferred function calls it directly.  A recover() moved
	// into a helper that the deferred function calls returns nil and recovers nothing.
	deferred := map[*ssa.Function]bool{}

	for _, p := range w.pkgs {
		for _, fn := range w.srcFuncs(p) {
			allInstrs(fn, func(in ssa.Instruction) {
				if d, ok := in.(*ssa.Defer); ok {
					if cf := calleeFunction(d.Common()); cf != nil {
						deferred[cf] = true
					}
				}
			})
		}
	}

	nRec := 0

	for _, p := range w.pkgs {
		for _, fn := range w.srcFuncs(p) {
			n := 0

			allInstrs(fn, func(in ssa.Instruction) {
				c, ok := in.(*ssa.Call)
				if !ok {
					return
				}

				b, isB := c.Call.Value.(*ssa.Builtin)
				if !isB || b.Name() != "recover" {
					return
				}

				nRec++
				n++

				key := fnKey(fn) + "|recover() is called by the deferred function itself"
				if n > 1 {
					key += "#" + sprintInt(n)
				}

				if deferred[fn] {
					r.Discharge("R-C07-6", key, w.pos(in.Pos()), "")
				} else {
					r.Violate("R-C07-6", key, w.pos(in.Pos()), "recover() is called in a function that is never the direct target of a defer: Go ignores such a call, so the panic it was meant to stop (a send on a closed channel, a reflective call) takes the whole interpreter down")
				}
			})
		}
	}

	r.Unit("recover_calls", nRec)

	r.Unit("pointer_nil_tests_examined", c40NilTests)
}

// c07AllocSizeDivisor: the divisor is symbols.SymbolAllocationSize and every function in the
// repository that assigns it also clamps it to the positive constant MinSymbolAllocationSize
// (an assignment of that constant behind a `<` comparison of the variable).
var c07AllocChecked = map[*World]string{}

func c07AllocSizeDivisor(w *World, y ssa.Value) string {
	u, ok := y.(*ssa.UnOp)
	if !ok {
		return ""
	}

	g, ok := u.X.(*ssa.Global)
	if !ok || g.Name() != "SymbolAllocationSize" {
		return ""
	}

	if res, done := c07AllocChecked[w]; done {
		return res
	}

	res := "symbols.SymbolAllocationSize: initialised to a positive constant, and every function that assigns it clamps it to MinSymbolAllocationSize"

	sp := w.pkg("internal/language/symbols")
	min := lookupConstInt(sp, "MinSymbolAllocationSize")

	if min == nil || *min <= 0 {
		res = ""
	}

	for _, p := range w.pkgs {
		for _, fn := range w.srcFuncs(p) {
			stores, clamps := 0, 0

			allInstrs(fn, func(in ssa.Instruction) {
				st, ok := in.(*ssa.Store)
				if !ok || st.Addr != ssa.Value(g) {
					return
				}

				if k, isC := constInt(st.Val); isC {
					if k > 0 {
						clamps++
					} else {
						res = ""
					}

					return
				}

				stores++
			})

			if fn.Name() == "init" {
				continue
			}

			if stores > 0 && clamps == 0 {
				res = ""
			}
		}
	}

	c07AllocChecked[w] = res

	return res
}

// c07Nil is c40NilContradictions with C07's exception table and rule id.
func c07Nil(w *World, r *Report, fn *ssa.Function, mkKey func(string) string) {
	sub := &Report{}
	_ = sub

	c40NilContradictionsTo(w, r, fn, mkKey, "R-C07-5", c07NilOK)
}

// c07PartnerContract discharges an assertion x.(T) by a contract between two values:
//   D2  x and a value a dominating type-switch case / comma-ok assertion has fixed to T are a
//       same-type pair: the two results of one data.Normalize call; the result and the model of
//       one data.Coerce call; two values related by data.TypeOf(a).IsType(data.TypeOf(b)); or
//       phis that are such pairs edge by edge;
//   D3  x is the result of data.Coerce(v, model) whose model has static type T or is the
//       data.<T>Type descriptor;
//   D4  x is a phi each of whose operands is discharged by D1 or D3 on its own edge.
func c07PartnerContract(ta *ssa.TypeAssert) string {
	fn := ta.Parent()
	c07CurrentAssert = ta

	defer func() { c07CurrentAssert = nil }()
	x := resolveLocal(ta.X)

	if why := c07CoerceModel(x, ta.AssertedType); why != "" {
		return why
	}

	// D2
	cuts := cutEdges(fn, func(f Fact) bool {
		if f.Kind != "true" {
			return false
		}

		ex, ok := f.V.(*ssa.Extract)
		if !ok || ex.Index != 1 {
			return false
		}

		t2, ok := ex.Tuple.(*ssa.TypeAssert)
		if !ok || !t2.CommaOk || !types.Identical(t2.AssertedType, ta.AssertedType) {
			return false
		}

		return c07SameTypePair(fn, x, resolveLocal(t2.X), 0)
	})

	if len(cuts) > 0 && !instrReachableAfterCut(fn, ta, cuts) {
		return "partner of a value fixed to this type (Normalize / Coerce / IsType pair)"
	}

	// D4
	if ph, ok := x.(*ssa.Phi); ok {
		all := true

		for i, e := range ph.Edges {
			e = resolveLocal(e)

			if c07CoerceModel(e, ta.AssertedType) != "" {
				continue
			}

			// the operand was fixed by a comma-ok assertion whose true edge is the only way to this predecessor
			pred := ph.Block().Preds[i]

			ecuts := cutEdges(fn, func(f Fact) bool {
				if f.Kind != "true" {
					return false
				}

				ex, ok := f.V.(*ssa.Extract)
				if !ok || ex.Index != 1 {
					return false
				}

				t2, ok := ex.Tuple.(*ssa.TypeAssert)

				return ok && t2.CommaOk && types.Identical(t2.AssertedType, ta.AssertedType) && resolveLocal(t2.X) == e
			})

			// the edge pred -> phi block is itself such a true edge, or pred is unreachable without one
			onEdge := false

			for si, sc := range pred.Succs {
				if sc == ph.Block() && ecuts[Edge{pred, si}] {
					onEdge = true
				}
			}

			if !onEdge && (len(ecuts) == 0 || reach(fn.Blocks[0], ecuts, nil)[pred]) {
				all = false
			}
		}

		if all {
			return "every value merged here is fixed to this type on its own path (comma-ok test or Coerce to the type)"
		}
	}

	return ""
}

// c07CoerceModel: v is the value result of data.Coerce(_, model) and model determines type t.
func c07CoerceModel(v ssa.Value, t types.Type) string {
	c, idx := resultOf(v)
	if c == nil || idx != 0 || callID(c.Common()) != "internal/language/data.Coerce" {
		return ""
	}

	model := c.Call.Args[1]
	if mi, ok := model.(*ssa.MakeInterface); ok {
		if types.Identical(mi.X.Type(), t) {
			return "value of data.Coerce(v, model) with model of the asserted type"
		}

		// data.BoolType, data.Int32Type, …
		if u, ok := mi.X.(*ssa.UnOp); ok {
			if g, ok := u.X.(*ssa.Global); ok && strings.HasSuffix(g.Name(), "Type") {
				want := strings.ToLower(strings.TrimSuffix(g.Name(), "Type"))
				if b, ok := t.(*types.Basic); ok && (b.Name() == want || (want == "byte" && b.Name() == "uint8")) {
					return "value of data.Coerce(v, data." + g.Name() + ")"
				}
			}
		}
	}

	return ""
}

// c07SameTypePair: a and b are known to have the same dynamic type.
func c07SameTypePair(fn *ssa.Function, a, b ssa.Value, depth int) bool {
	if depth > 3 || a == nil || b == nil {
		return false
	}

	a, b = resolveLocal(a), resolveLocal(b)
	if a == b {
		return true
	}

	unwrap := func(v ssa.Value) ssa.Value {
		if mi, ok := v.(*ssa.MakeInterface); ok {
			return mi.X
		}

		return v
	}

	ca, ia := resultOf(a)
	cb, ib := resultOf(b)

	// NOT a contract: the two results of one data.Normalize call.  Normalize hands an array and a
	// scalar back unchanged (its early returns for array operands), so `"abc" < []string{"a"}` reached
	// `v2.(string)` with an array — a seeded-change sub-agent demonstrated the crash on the unmodified
	// tree.  The handlers now call sameKindOperands after Normalize; that call is the contract:
	// on its nil-error edge both operands have the same kind (hence, for the scalar case types, the
	// same Go type).
	if c07SameKindChecked(fn, unwrap(a), unwrap(b), c07CurrentAssert) {
		return true
	}

	// result and model of one Coerce
	if ca != nil && ia == 0 && callID(ca.Common()) == "internal/language/data.Coerce" && resolveLocal(unwrap(ca.Call.Args[1])) == unwrap(b) {
		return true
	}

	if cb != nil && ib == 0 && callID(cb.Common()) == "internal/language/data.Coerce" && resolveLocal(unwrap(cb.Call.Args[1])) == unwrap(a) {
		return true
	}

	// related by data.TypeOf(a).IsType(data.TypeOf(b)) somewhere in the function (its false edge leaves the function)
	related := false

	allInstrs(fn, func(in ssa.Instruction) {
		c, ok := in.(*ssa.Call)
		if !ok || callID(c.Common()) != "internal/language/data.Type.IsType" || len(c.Call.Args) != 2 {
			return
		}

		arg := func(v ssa.Value) ssa.Value {
			tc, ok := v.(*ssa.Call)
			if !ok || callID(tc.Common()) != "internal/language/data.TypeOf" {
				return nil
			}

			return resolveLocal(unwrap(tc.Call.Args[0]))
		}

		p, q := arg(c.Call.Args[0]), arg(c.Call.Args[1])
		if p == nil || q == nil {
			return
		}

		if (p == unwrap(a) && q == unwrap(b)) || (p == unwrap(b) && q == unwrap(a)) {
			related = true
		}
	})

	if related {
		return true
	}

	// phis, edge by edge
	pa, oka := a.(*ssa.Phi)
	pb, okb := b.(*ssa.Phi)

	if oka && okb && pa.Block() == pb.Block() && len(pa.Edges) == len(pb.Edges) {
		for i := range pa.Edges {
			if !c07SameTypePair(fn, pa.Edges[i], pb.Edges[i], depth+1) {
				return false
			}
		}

		return true
	}

	return false
}

// c07SameKindChecked: fn calls bytecode.sameKindOperands(a, b) (either order); the assertion sites
// this is used for are additionally required (by the caller's edge cut on the comma-ok case) to lie
// behind the type switch that follows it.
// c07CurrentAssert is the assertion being discharged (set by c07PartnerContract): the kind check
// counts only when the assertion lies behind its success (nil) edge.
var c07CurrentAssert *ssa.TypeAssert

func c07SameKindChecked(fn *ssa.Function, a, b ssa.Value, ta *ssa.TypeAssert) bool {
	found := false

	allInstrs(fn, func(in ssa.Instruction) {
		c, ok := in.(*ssa.Call)
		if !ok || !strings.HasSuffix(callID(c.Common()), "bytecode.sameKindOperands") || len(c.Call.Args) != 2 {
			return
		}

		strip := func(v ssa.Value) ssa.Value {
			v = resolveLocal(v)
			if mi, ok := v.(*ssa.MakeInterface); ok {
				return mi.X
			}

			return v
		}

		p, q := strip(c.Call.Args[0]), strip(c.Call.Args[1])
		if !((p == a && q == b) || (p == b && q == a)) {
			return
		}

		if ta == nil {
			found = true

			return
		}

		// the assertion is reachable only through the edge on which the check returned nil
		cuts := cutEdges(fn, func(f Fact) bool { return f.Kind == "nil" && f.V == ssa.Value(c) })
		if len(cuts) > 0 && !instrReachableAfterCut(fn, ta, cuts) {
			found = true
		}
	})

	return found
}

// c07RecursiveWalkers: R-C07-13.
var c07WalkerOK = map[string]string{
	"ast.Walk|recursive descent into a value":                  "walks the syntax tree the parser built from source text: a finite tree whose depth is the nesting depth of the source (the parser recursed as deep to build it)",
	"ast.dump|recursive descent into a value":                  "same syntax tree (debug dump)",
	"format.printer.printExprList|recursive descent into a value": "same syntax tree (formatter)",
	"resolve.walker.resolveExpr|recursive descent into a value":   "same syntax tree (formatter's resolver)",
	"resolve.walker.walkStmtsIn|recursive descent into a value":   "same syntax tree (formatter's resolver)",
	"resolve.walker.walkStmt|recursive descent into a value":      "same syntax tree (formatter's resolver)",
	"json.reconstructValue|recursive descent into a value":        "walks a value that encoding/json decoded from text: a finite tree, which cannot contain itself",
	"bytecode.copyStructRecursive|recursive descent into a value": "recurses only into members that are structure values, and a structure value is copied when it is stored: a structure cannot contain itself by value (probed: o.in.up = o; p := o)",
	"bytecode.CallWithReceiver|recursive descent into a value":    "unwraps pointers to interface values until it reaches the native value on which the member lookup already found the method; a pointer chain that does not end in such a value fails that lookup first",
}

func c07RecursiveWalkers(w *World, r *Report, fns []*ssa.Function) {
	seenPkg := map[*types.Package]bool{}

	for _, fn := range fns {
		if fn.Pkg == nil || seenPkg[fn.Pkg.Pkg] {
			continue
		}

		seenPkg[fn.Pkg.Pkg] = true

		c07RecursiveWalkersIn(w, r, fns, fn.Pkg.Pkg)
	}
}

func c07RecursiveWalkersIn(w *World, r *Report, fns []*ssa.Function, pkgTypes *types.Package) {
	dp := &struct{ Types *types.Package }{pkgTypes}

	inPkg := map[*ssa.Function]bool{}

	var pkgFns []*ssa.Function

	for _, fn := range fns {
		if fn.Pkg != nil && fn.Pkg.Pkg == dp.Types {
			inPkg[fn] = true
			pkgFns = append(pkgFns, fn)
		}
	}

	edges := map[*ssa.Function][]*ssa.Function{}

	for _, fn := range pkgFns {
		allCalls(fn, func(ci ssa.CallInstruction) {
			if cf := calleeFunction(ci.Common()); cf != nil && inPkg[cf] {
				edges[fn] = append(edges[fn], cf)
			}
		})
	}

	// guards: a function whose calls into the package are all unreachable once the
	// true edge of a depth-guard call is removed
	isGuardCall := func(v ssa.Value) bool {
		c, ok := v.(*ssa.Call)
		if !ok || c == nil {
			return false
		}

		g := calleeFunction(c.Common())
		if g == nil || !inPkg[g] || g.Signature.Params().Len() != 0 {
			return false
		}

		// increments a counter and compares it with a constant
		adds, cmps := false, false

		allInstrs(g, func(in ssa.Instruction) {
			if cc, ok := in.(*ssa.Call); ok && strings.HasSuffix(callID(cc.Common()), ".Add") && strings.HasPrefix(callID(cc.Common()), "sync/atomic.") {
				adds = true
			}

			if bo, ok := in.(*ssa.BinOp); ok && (bo.Op == token.GTR || bo.Op == token.GEQ || bo.Op == token.LSS || bo.Op == token.LEQ) {
				if _, isC := bo.Y.(*ssa.Const); isC {
					cmps = true
				}
			}
		})

		return adds && cmps
	}

	canReach := func(from, to *ssa.Function) bool {
		seen := map[*ssa.Function]bool{}
		stack := []*ssa.Function{from}

		for len(stack) > 0 {
			f := stack[len(stack)-1]
			stack = stack[:len(stack)-1]

			if f == to {
				return true
			}

			if seen[f] {
				continue
			}

			seen[f] = true
			stack = append(stack, edges[f]...)
		}

		return false
	}

	guarded := map[*ssa.Function]bool{}

	for _, fn := range pkgFns {
		cuts := cutEdges(fn, func(f Fact) bool { return f.Kind == "true" && isGuardCall(f.V) })
		if len(cuts) == 0 {
			continue
		}

		ok := true

		allCalls(fn, func(ci ssa.CallInstruction) {
			cf := calleeFunction(ci.Common())
			if cf == nil || !inPkg[cf] || isGuardCall(ci.Value()) || !canReach(cf, fn) {
				return
			}

			if _, isDefer := ci.(*ssa.Defer); isDefer {
				return
			}

			if instrReachableAfterCut(fn, ci, cuts) {
				ok = false
			}
		})

		if ok {
			guarded[fn] = true
		}
	}

	// the other guard shape: an int parameter that bounds the depth -- every call that can
	// lead back lies behind the comparison of that parameter with a constant
	for _, fn := range pkgFns {
		if guarded[fn] {
			continue
		}

		for _, p := range fn.Params {
			if !types.Identical(p.Type(), types.Typ[types.Int]) {
				continue
			}

			// the edges on which the depth is used up: depth <= 0 (or < 1, == 0)
			cuts := cutEdges(fn, func(f Fact) bool {
				if f.Kind != "cmp" || f.X != ssa.Value(p) {
					return false
				}

				_, isC := f.Y.(*ssa.Const)

				return isC && (f.Op == token.GTR || f.Op == token.GEQ || f.Op == token.NEQ)
			})

			if len(cuts) == 0 {
				continue
			}

			ok, any := true, false

			allCalls(fn, func(ci ssa.CallInstruction) {
				cf := calleeFunction(ci.Common())
				if cf == nil || !inPkg[cf] || !canReach(cf, fn) {
					return
				}

				any = true

				if instrReachableAfterCut(fn, ci, cuts) {
					ok = false
				}
			})

			if ok && any {
				guarded[fn] = true
			}
		}
	}

	// can fn reach itself without passing a guarded function?
	for _, fn := range pkgFns {
		if fn.Parent() != nil || guarded[fn] {
			continue
		}

		seen := map[*ssa.Function]bool{}

		var stack []*ssa.Function

		stack = append(stack, edges[fn]...)
		loops := false

		for len(stack) > 0 {
			f := stack[len(stack)-1]
			stack = stack[:len(stack)-1]

			if f == fn {
				loops = true

				break
			}

			if seen[f] || guarded[f] {
				continue
			}

			seen[f] = true
			stack = append(stack, edges[f]...)
		}

		if !loops {
			continue
		}

		// only walkers of values: a parameter (or receiver) that is an interface, a pointer to
		// Map / Struct / Array, or a slice of interfaces
		walksValues := false

		for _, p := range fn.Params {
			switch t := p.Type().Underlying().(type) {
			case *types.Interface:
				walksValues = true
			case *types.Slice:
				if _, isI := t.Elem().Underlying().(*types.Interface); isI {
					walksValues = true
				}
			case *types.Pointer:
				if n := namedOf(t); n != nil {
					switch n.Obj().Name() {
					case "Map", "Struct", "Array":
						walksValues = true
					}
				}
			}
		}

		if !walksValues {
			continue
		}

		// descent into MEMBERS: a call that can lead back here gets an argument taken out of a
		// container (element of a slice, value of a map, result of a Get / Keys accessor, range
		// value). Unwrapping one wrapper (Scalar.value, Immutable.Value) is not a descent.
		descends := false

		allCalls(fn, func(ci ssa.CallInstruction) {
			cf := calleeFunction(ci.Common())
			if cf == nil || !inPkg[cf] || !canReach(cf, fn) {
				return
			}

			for _, a := range ci.Common().Args {
				if derivesFrom(a, func(v ssa.Value) bool {
					switch x := v.(type) {
					case *ssa.IndexAddr, *ssa.Index, *ssa.Lookup, *ssa.Next:
						return true
					case *ssa.Call:
						if f := staticCallee(x.Common()); f != nil {
							switch f.Name() {
							case "Get", "GetAlways", "Keys", "Elements", "BaseArray", "FieldNames":
								return true
							}
						}
					}

					return false
				}, nil) {
					descends = true
				}
			}
		})

		if !descends {
			continue
		}

		key := fnKey(fn) + "|recursive descent into a value"

		if why, ok := c07WalkerOK[key]; ok {
			r.Except("R-C07-13", key, w.pos(fn.Pos()), why)
		} else {
			r.Violate("R-C07-13", key, w.pos(fn.Pos()), "this function descends into the members of a value and can reach itself again without passing a depth guard: for a value that contains itself (a map stored under one of its own keys, structures that point at each other) it recurses until the Go runtime ends the process")
		}
	}

	for _, fn := range pkgFns {
		if guarded[fn] {
			r.Discharge("R-C07-13", fnKey(fn)+"|guarded", w.pos(fn.Pos()), "every further call lies behind the nesting guard")
		}
	}
}
