package main

import (
	"encoding/json"
	"fmt"
	"os"
	"path/filepath"
	"sort"
	"strings"
)

// Obligation is one instance of a rule on one construct.
type Obligation struct {
	Rule   string `json:"rule"`
	Key    string `json:"key"` // rule|pkg.Func|construct  (never a line number)
	Pos    string `json:"pos,omitempty"`
	Status string `json:"status"` // discharged | violated | excepted | known | info
	Detail string `json:"detail,omitempty"`
}

type ruleInfo struct {
	ID    string `json:"id"`
	Text  string `json:"text"`
	Floor int    `json:"floor"` // minimum number of instances confirmed by hand
	Count int    `json:"instances"`
}

type Report struct {
	pc         *propertyCheck
	tier       string
	seed       int
	outDir     string
	world      *World
	rules      map[string]*ruleInfo
	ruleOrder  []string
	obls       []Obligation
	seenKeys   map[string]bool
	units      map[string]any
	assume     []string
	wall       float64
	verbose    bool
	noEvidence bool
	xref       map[string]any
	thorough   map[string]any
}

func newReport(pc *propertyCheck, tier string, seed int, out string) *Report {
	return &Report{pc: pc, tier: tier, seed: seed, outDir: out, rules: map[string]*ruleInfo{},
		seenKeys: map[string]bool{}, units: map[string]any{}, xref: map[string]any{}}
}

// Rule declares a rule with its text and instance floor.
func (r *Report) Rule(id, text string, floor int) {
	if _, ok := r.rules[id]; ok {
		return
	}

	r.rules[id] = &ruleInfo{ID: id, Text: text, Floor: floor}
	r.ruleOrder = append(r.ruleOrder, id)
}

func (r *Report) add(rule, key, pos, status, detail string) {
	if !strings.HasPrefix(key, rule+"|") {
		key = rule + "|" + key
	}

	// Keys must be unique; a repeated construct in one function gets an ordinal.
	base := key
	for n := 2; r.seenKeys[key]; n++ {
		key = fmt.Sprintf("%s#%d", base, n)
	}

	r.seenKeys[key] = true

	if ri, ok := r.rules[rule]; ok {
		ri.Count++
	} else if rule != "load" && rule != "checker-panic" && rule != "anchor" && rule != "floor" {
		panic("obligation for undeclared rule " + rule)
	}

	r.obls = append(r.obls, Obligation{Rule: rule, Key: key, Pos: pos, Status: status, Detail: detail})
}

func (r *Report) Discharge(rule, key, pos, how string) { r.add(rule, key, pos, "discharged", how) }
func (r *Report) Violate(rule, key, pos, why string)   { r.add(rule, key, pos, "violated", why) }
func (r *Report) Except(rule, key, pos, reason string) { r.add(rule, key, pos, "excepted", reason) }
func (r *Report) Info(rule, key, pos, what string)     { r.add(rule, key, pos, "info", what) }

// Anchor reports an anchor (function, type, table) that could not be resolved:
// the rule can no longer establish its condition.
func (r *Report) Anchor(rule, what string) {
	r.add("anchor", "anchor|"+rule+"|"+what, "", "violated", "unresolved anchor: "+what+" (rule "+rule+" cannot establish its condition)")
}

func (r *Report) Unit(k string, v any) { r.units[k] = v }
func (r *Report) Assume(s string)      { r.assume = append(r.assume, s) }

type knownFile struct {
	Open  []knownEntry `json:"open"`
	Fixed []string     `json:"fixed"`
}

type knownEntry struct {
	Property string `json:"property"`
	Key      string `json:"key"`
	What     string `json:"what"`
}

func (r *Report) finish() int {
	// instance floors
	for _, id := range r.ruleOrder {
		ri := r.rules[id]
		if ri.Count < ri.Floor {
			r.add("floor", "floor|"+id, "", "violated",
				fmt.Sprintf("rule %s matched %d instances, fewer than the %d confirmed by hand: the rule would pass vacuously", id, ri.Count, ri.Floor))
		}
	}

	// known findings
	known := map[string]string{}

	if b, err := os.ReadFile(filepath.Join(r.outDir, "known_findings.json")); err == nil {
		var kf knownFile
		if err := json.Unmarshal(b, &kf); err != nil {
			r.add("load", "load|known_findings.json", "", "violated", "known_findings.json does not parse: "+err.Error())
		}

		for _, e := range kf.Open {
			if e.Property == r.pc.id {
				known[e.Key] = e.What
			}
		}
	}

	counts := map[string]int{}

	var violated, knownHit []Obligation

	for i := range r.obls {
		o := &r.obls[i]
		if o.Status == "violated" {
			if what, ok := known[o.Key]; ok {
				o.Status = "known"
				o.Detail = o.Detail + " [known finding: " + what + "]"

				knownHit = append(knownHit, *o)
			} else {
				violated = append(violated, *o)
			}
		}

		counts[o.Status]++
	}

	sort.Slice(violated, func(i, j int) bool { return violated[i].Key < violated[j].Key })
	sort.Slice(knownHit, func(i, j int) bool { return knownHit[i].Key < knownHit[j].Key })

	if r.verbose {
		for _, o := range r.obls {
			fmt.Printf("  [%s] %s  %s  %s\n", o.Status, o.Key, o.Pos, o.Detail)
		}
	}

	// summary
	fmt.Printf("egocheck %s tier=%s: %d obligations: %d discharged, %d excepted, %d known, %d info, %d violated\n",
		r.pc.id, r.tier, len(r.obls)-counts["info"], counts["discharged"], counts["excepted"], counts["known"], counts["info"], len(violated))

	for _, id := range r.ruleOrder {
		ri := r.rules[id]
		fmt.Printf("  rule %-10s instances=%-5d floor=%-5d %s\n", ri.ID, ri.Count, ri.Floor, firstLine(ri.Text))
	}

	for _, o := range knownHit {
		fmt.Printf("KNOWN-FINDING: property=%s %s at %s: %s\n", r.pc.id, o.Key, o.Pos, oneLine(o.Detail))
	}

	replay := filepath.Join(r.outDir, "evidence", "replay", r.pc.id+".json")

	for _, o := range violated {
		fmt.Printf("violation: %s at %s: %s\n", o.Key, o.Pos, oneLine(o.Detail))
	}

	if !r.noEvidence {
		r.writeEvidence(counts, violated, replay)
	}

	if len(violated) > 0 {
		fmt.Printf("VIOLATION property=%s replay=%s\n", r.pc.id, replay)

		return 1
	}

	return 0
}

func firstLine(s string) string {
	if i := strings.IndexByte(s, '\n'); i >= 0 {
		s = s[:i]
	}

	if len(s) > 110 {
		s = s[:110] + "…"
	}

	return s
}

func oneLine(s string) string {
	s = strings.ReplaceAll(s, "\n", " ")
	if len(s) > 400 {
		s = s[:400] + "…"
	}

	return s
}

func (r *Report) writeEvidence(counts map[string]int, violated []Obligation, replay string) {
	_ = os.MkdirAll(filepath.Join(r.outDir, "evidence", "replay"), 0o755)

	rules := []*ruleInfo{}
	for _, id := range r.ruleOrder {
		rules = append(rules, r.rules[id])
	}

	nObl := len(r.obls) - counts["info"]

	// samples: up to 3 obligations per rule and status, so a reader can see
	// what they look like; the complete list is in "obligation_list".
	samples := []Obligation{}
	per := map[string]int{}

	for _, o := range r.obls {
		k := o.Rule + "/" + o.Status
		if per[k] < 3 {
			per[k]++

			samples = append(samples, o)
		}
	}

	distinct := map[string]bool{}
	for _, o := range r.obls {
		if o.Status != "info" {
			distinct[o.Key] = true
		}
	}

	if r.world != nil {
		r.units["repository_packages"] = len(r.world.pkgs)
		if r.world.prog != nil {
			r.units["ssa_functions_with_bodies"] = r.world.nFuncs
		}
	}

	explanation := "Static analysis of /repo's current source (snapshot + go generate, go/packages type-checked program" +
		", go/ssa where the rule needs paths or values); no ego code is executed. DECIDES: " + r.pc.decides +
		" DOES NOT DECIDE: " + r.pc.misses

	cov := map[string]any{
		"explanation":         explanation,
		"obligations":         nObl,
		"discharged":          counts["discharged"],
		"excepted":            counts["excepted"],
		"known_findings":      counts["known"],
		"violated":            len(violated),
		"info":                counts["info"],
		"evaluations":         len(r.obls),
		"distinct_nontrivial": len(distinct),
		"rule":                "one obligation per (rule, function, construct) instance found in the resolved program; distinct = distinct obligation keys, all non-trivial (each names a real construct in /repo)",
		"rules":               rules,
		"units_analysed":      r.units,
		"samples":             samples,
		"obligation_list":     r.trimmedObligations(),
		"obligation_list_note": "all violated/excepted/known/info obligations plus the first 400 discharged ones; counts above cover the complete list",
		"checker_cmd":         "/verif/run.sh " + r.pc.id + " " + r.tier,
		"trusted_base":        []string{"go/parser, go/types, go/ssa (golang.org/x/tools v0.50.0)", "the snapshot/go generate step reproduces the build's source set", "rule slot tables and exception tables in /verif/checker (each entry with a reason)"},
		"exhaustive":          r.pc.level == "proof",
	}

	if len(r.xref) > 0 {
		cov["cross_reference"] = r.xref
	}

	if r.thorough != nil {
		cov["variants_replayed"] = r.thorough
	}

	ev := map[string]any{
		"property_id": r.pc.id,
		"tier":        r.tier,
		"seed":        r.seed,
		"level":       r.pc.level,
		"coverage":    cov,
		"assumptions": append([]string{"build configuration analysed: linux/amd64, no build tags, non-test files"}, r.assume...),
		"wall_s":      r.wall,
		"violations":  len(violated),
	}

	b, _ := json.MarshalIndent(ev, "", " ")
	_ = os.WriteFile(filepath.Join(r.outDir, "evidence", r.pc.id+".json"), append(b, '\n'), 0o644)

	if len(violated) > 0 {
		rb, _ := json.MarshalIndent(map[string]any{"property_id": r.pc.id, "violated": violated}, "", " ")
		_ = os.WriteFile(replay, append(rb, '\n'), 0o644)
	} else {
		_ = os.Remove(replay)
	}
}

func (r *Report) trimmedObligations() []Obligation {
	out := []Obligation{}
	n := 0

	for _, o := range r.obls {
		if o.Status == "discharged" {
			n++
			if n > 400 {
				continue
			}
		}

		out = append(out, o)
	}

	return out
}
