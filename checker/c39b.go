package main

import (
	"strings"

	"golang.org/x/tools/go/ssa"
)

// c39SizeWithCachedData: R-C39-5. The asset handler builds Content-Range from
// the total size the loader returns with the data. Data answered from the
// cache is the whole asset, and its size has to come with it: a constant 0
// there turns `Range: bytes=0-` on a cached asset into `bytes 0--1/0`.
func c39SizeWithCachedData(w *World, r *Report) {
	r.Rule("R-C39-5", "the loader never returns cached data with a total size of constant 0: on every edge into a successful return of assets.Loader where the data comes from lookupCachedAsset, the size returned with it is computed", 1)

	ap := w.pkg("internal/server/assets")
	if ap == nil {
		return
	}

	fn := w.ssaFunc(ap, "Loader")
	if fn == nil {
		r.Anchor("R-C39-5", "assets.Loader")

		return
	}

	fromCache := func(v ssa.Value) bool {
		return derivesFrom(v, func(s ssa.Value) bool {
			c, ok := s.(*ssa.Call)

			return ok && strings.HasSuffix(callID(c.Common()), "assets.lookupCachedAsset")
		}, nil)
	}

	hasLookup := false

	allInstrs(fn, func(in ssa.Instruction) {
		if c, ok := in.(*ssa.Call); ok && strings.HasSuffix(callID(c.Common()), "assets.lookupCachedAsset") {
			hasLookup = true
		}
	})

	if !hasLookup {
		r.Anchor("R-C39-5", "the cache lookup in assets.Loader")

		return
	}

	bad := false

	seen := map[[2]ssa.Value]bool{}

	var walk func(size, data ssa.Value)

	walk = func(size, data ssa.Value) {
		size, data = stripValue(size), stripValue(data)

		k := [2]ssa.Value{size, data}
		if seen[k] {
			return
		}

		seen[k] = true

		if sp, ok := size.(*ssa.Phi); ok {
			dp, _ := data.(*ssa.Phi)

			for i, e := range sp.Edges {
				if dp != nil && dp.Block() == sp.Block() {
					walk(e, dp.Edges[i])
				} else {
					walk(e, data)
				}
			}

			return
		}

		if dp, ok := data.(*ssa.Phi); ok {
			for _, e := range dp.Edges {
				walk(size, e)
			}

			return
		}

		if k, isK := constInt(size); isK && k == 0 && !isNilConst(data) && fromCache(data) {
			bad = true
		}
	}

	n := 0

	for _, ret := range returnsOf(fn) {
		if len(ret.Results) != 3 {
			continue
		}

		n++

		walk(retResult(ret, 1), retResult(ret, 0))
	}

	key := "assets.Loader|cached data comes with its size"

	switch {
	case n == 0:
		r.Anchor("R-C39-5", "a (data, size, error) return in assets.Loader")
	case bad:
		r.Violate("R-C39-5", key, w.pos(fn.Pos()), "data answered from the asset cache is returned with a total size of 0: the handler writes `Content-Range: bytes 0--1/0` for `Range: bytes=0-` once the asset is cached")
	default:
		r.Discharge("R-C39-5", key, w.pos(fn.Pos()), "")
	}
}
