package main

import (
	"go/ast"
	"go/constant"
	"go/token"
	"go/types"
	"sort"
	"strings"

	"golang.org/x/tools/go/packages"

	"golang.org/x/tools/go/ssa"
)

// C43 Row endpoints enforce table grants.

func init() {
	register(&propertyCheck{
		id: "C43", level: "other", needs: loadNeeds{ssa: true},
		decides: "the authorization gate of the table REST handlers and the shape of the grant test: in every route handler of server/tables that touches table data, each statement-executing call is unreachable once the edges {caller is administrator, Authorized(...) true} are removed; the permission constant passed to Authorized agrees with the route's HTTP method; " +
			"tables.Authorized returns true only as administrator, for an unrestricted DSN, when the permission subsystem is not configured (documented), or when a path-sensitive search with every 'granted' edge removed and at least one operation requested finds no consistent true return; its grant lookup filters on user, dsn and table columns that exist.",
		misses: "the history semantics of grant/revoke, DSN-level AuthDSN checks, SQL endpoints (C15), what each statement does once authorized (C14).",
		run:    runC43,
	})
}

// route method -> permission constants accepted
var c43MethodPerm = map[string][]string{
	"GET":    {"TableReadPermission"},
	"PUT":    {"TableWritePermission", "TableAdminPermission"},
	"POST":   {"TableWritePermission", "TableAdminPermission"},
	"PATCH":  {"TableUpdatePermission"},
	"DELETE": {"TableDeletePermission", "TableAdminPermission"},
}

// handlers of server/tables that do not address one table's rows or schema
var c43NotTableHandlers = map[string]string{
	"SQLTransaction":     "raw SQL endpoint: authorized per statement (C15)",
	"BeginHandler":       "opens a transaction only; statements run through the row handlers",
	"CommitHandler":      "commits a transaction opened by BeginHandler",
	"RollbackHandler":    "rolls back a transaction opened by BeginHandler",
	"GenerateHandler":    "AI SQL generation, gated by ego.sql; executes nothing",
	"ReadAllPermissions": "root-only listing of the permission store",
}

func runC43(w *World, r *Report) {
	c43TransactionOwner(w, r)
	c43TransactionDSN(w, r)
	c43GrantsOfTheCaller(w, r)
	c43UpdateNeedsUpdateGrant(w, r)
	r.Rule("R-C43-1", "must-pass-through (edge cut): in each table route handler every statement-executing call (Database.Exec/Query/Begin or an in-package helper that reaches one) is unreachable once the edges {Session.Admin true, Authorized(...) true} are removed", 10)
	r.Rule("R-C43-2", "operation agreement: every Authorized call passes at least one constant permission, and in a route handler that permission matches the route's HTTP method", 10)
	r.Rule("R-C43-3", "tables.Authorized: with every granted edge removed and at least one operation requested, no consistent path returns a possibly-true result except through {administrator, unrestricted DSN, permissions not configured}; the grant lookup filters on existing columns user, dsn, table", 2)

	tp := w.pkg("internal/server/tables")
	defs := w.pkg("internal/defs")

	if tp == nil || defs == nil {
		r.Anchor("R-C43-1", "packages server/tables / defs")

		return
	}

	fns := w.srcFuncs(tp)

	if dp := w.pkg("internal/dsns"); dp != nil {
		if v := lookupConstInt(dp, "DSNAdminAction"); v != nil {
			dsnAdminActionValue = *v
		}
	}

	// ---- DB-touching summary
	touches := map[*ssa.Function]bool{}

	isDBOp := func(id string) bool {
		switch id {
		case dbType + "Exec", dbType + "Query", dbType + "QueryRow", dbType + "Begin":
			return true
		}

		return false
	}

	for changed := true; changed; {
		changed = false

		for _, fn := range fns {
			if touches[fn] {
				continue
			}

			allCalls(fn, func(ci ssa.CallInstruction) {
				if isDBOp(callID(ci.Common())) {
					if !touches[fn] {
						touches[fn] = true
						changed = true
					}

					return
				}

				if cf := calleeFunction(ci.Common()); cf != nil && touches[cf] && !touches[fn] {
					touches[fn] = true
					changed = true
				}
			})
		}
	}

	authFn := w.ssaFunc(tp, "Authorized")
	if authFn == nil {
		r.Anchor("R-C43-1", "tables.Authorized")

		return
	}

	// permission constants
	permName := map[string]string{}

	for _, n := range []string{"TableReadPermission", "TableWritePermission", "TableUpdatePermission", "TableDeletePermission", "TableAdminPermission"} {
		if v := constStringOf(defs, n); v != "" {
			permName[v] = n
		}
	}

	if len(permName) != 5 {
		r.Anchor("R-C43-2", "defs.Table*Permission constants")
	}

	// route table: handler function -> methods
	routeMethods := map[string][]string{}

	for _, rd := range extractRoutes(w) {
		if rd.handler != nil && rd.handler.Pkg() != nil && rd.handler.Pkg().Path() == tp.PkgPath {
			routeMethods[rd.handler.Name()] = append(routeMethods[rd.handler.Name()], rd.method)
		}
	}

	r.Unit("table_route_handlers", len(routeMethods))

	// callers (in package) of each function, to inherit a route's method
	handlerOf := map[*ssa.Function][]string{}

	for _, fn := range fns {
		if m, ok := routeMethods[fn.Name()]; ok && fn.Parent() == nil {
			handlerOf[fn] = m
		}
	}

	for iter := 0; iter < 3; iter++ {
		for _, fn := range fns {
			allCalls(fn, func(ci ssa.CallInstruction) {
				cf := calleeFunction(ci.Common())
				if cf == nil || cf.Pkg != fn.Pkg || len(handlerOf[fn]) == 0 || len(routeMethods[cf.Name()]) > 0 {
					return
				}

				// helper called from a handler inherits its methods
				for _, m := range handlerOf[fn] {
					dup := false

					for _, x := range handlerOf[cf] {
						if x == m {
							dup = true
						}
					}

					if !dup {
						handlerOf[cf] = append(handlerOf[cf], m)
					}
				}
			})
		}
	}

	// functions that (transitively, in-package) call Authorized
	reachesAuth := map[*ssa.Function]bool{}

	for changed := true; changed; {
		changed = false

		for _, fn := range fns {
			if reachesAuth[fn] {
				continue
			}

			if callsFunc(fn, authFn) {
				reachesAuth[fn] = true
				changed = true

				continue
			}

			allCalls(fn, func(ci ssa.CallInstruction) {
				if cf := calleeFunction(ci.Common()); cf != nil && reachesAuth[cf] && !reachesAuth[fn] {
					reachesAuth[fn] = true
					changed = true
				}
			})
		}
	}

	// ---- R-C43-1
	names := []string{}
	for n := range routeMethods {
		names = append(names, n)
	}

	sort.Strings(names)

	for _, hn := range names {
		fn := w.ssaFunc(tp, hn)
		if fn == nil {
			continue
		}

		if why, skip := c43NotTableHandlers[hn]; skip {
			r.Except("R-C43-1", "tables."+hn+"|handler", w.pos(fn.Pos()), why)

			continue
		}

		if opensWithAdminAction(fn) {
			r.Except("R-C43-1", "tables."+hn+"|handler", w.pos(fn.Pos()), "schema operation: the handler opens the DSN with dsns.DSNAdminAction (checked on this run), i.e. it is gated by DSN-administrator authority rather than a table grant")

			continue
		}

		if !callsFunc(fn, authFn) {
			// listings: the per-table gate lives in a helper checked below
			gated := false

			allCalls(fn, func(ci ssa.CallInstruction) {
				if cf := calleeFunction(ci.Common()); cf != nil && reachesAuth[cf] {
					gated = true
				}
			})

			if gated {
				r.Info("R-C43-1", "tables."+hn+"|handler", w.pos(fn.Pos()), "takes its table names from a helper that filters them through Authorized (checked as R-C43-4)")

				continue
			}
		}

		c43Gate(w, r, fn, touches, authFn, isDBOp)
	}

	// helpers that gate on Authorized themselves
	r.Rule("R-C43-4", "listings: in a helper that calls Authorized inside a loop over catalog rows, no use of the row (append to the result, per-table query) inside that loop is reachable from the loop header once the {administrator, Authorized true} edges are removed", 2)

	for _, fn := range fns {
		if fn.Parent() != nil || len(routeMethods[fn.Name()]) > 0 || !callsFunc(fn, authFn) || !touches[fn] || fn.Name() == "authorizeStatement" {
			continue
		}

		// is the Authorized call inside a loop?
		var loop *loopInfo

		for _, li := range naturalLoops(fn) {
			for b := range li.body {
				for _, in := range b.Instrs {
					if c, ok := in.(*ssa.Call); ok && calleeFunction(c.Common()) == authFn {
						loop = li
					}
				}
			}
		}

		if loop == nil {
			c43Gate(w, r, fn, touches, authFn, isDBOp)

			continue
		}

		cuts := cutEdges(fn, func(f Fact) bool {
			if f.Kind != "true" {
				return false
			}

			if derivesFrom(f.V, func(s ssa.Value) bool { return isFieldNamed(s, "Admin") }, nil) {
				return true
			}

			c, ok := f.V.(*ssa.Call)

			return ok && calleeFunction(c.Common()) == authFn
		})

		// start after the Authorized call's block: uses that precede the gate in the body (the Scan) are not uses of an authorized row
		reachable := reach(loop.header, cuts, nil)
		bad := ""

		for b := range loop.body {
			if !reachable[b] {
				continue
			}

			for _, in := range b.Instrs {
				c, ok := in.(*ssa.Call)
				if !ok {
					continue
				}

				if bi, isB := c.Call.Value.(*ssa.Builtin); isB && bi.Name() == "append" {
					bad = w.pos(in.Pos())
				}

				if id := callID(c.Common()); isDBOp(id) && !strings.HasSuffix(id, ".Begin") {
					bad = w.pos(in.Pos())
				}
			}
		}

		key := fnKey(fn) + "|per-table gate"
		if bad != "" {
			r.Violate("R-C43-4", key, bad, "a table is added to the listing (or queried) inside the loop on a path where Authorized is false for a non-administrator")
		} else {
			r.Discharge("R-C43-4", key, w.pos(fn.Pos()), "rows are used only past the Authorized / administrator edge")
		}
	}

	// ---- R-C43-2
	for _, p := range w.pkgsUnder("internal/server/tables") {
		for _, fn := range w.srcFuncs(p) {
			allInstrs(fn, func(in ssa.Instruction) {
				c, ok := in.(*ssa.Call)
				if !ok || calleeFunction(c.Common()) != authFn {
					return
				}

				// variadic operations
				var ops []string

				dynamic := false

				if sl, ok := c.Call.Args[3].(*ssa.Slice); ok {
					allInstrs(fn, func(i2 ssa.Instruction) {
						if st, ok := i2.(*ssa.Store); ok {
							if ia, ok := st.Addr.(*ssa.IndexAddr); ok && ia.X == sl.X {
								if s, isC := constString(st.Val); isC {
									ops = append(ops, s)
								} else if phi, isPhi := st.Val.(*ssa.Phi); isPhi {
									// a permission chosen among constants: every alternative is judged
									for _, e := range phi.Edges {
										if s, isC := constString(e); isC {
											ops = append(ops, s)
										} else {
											dynamic = true
										}
									}
								} else {
									dynamic = true
								}
							}
						}
					})
				} else {
					dynamic = true
				}

				key := fnKey(fn) + "|Authorized(" + strings.Join(ops, ",") + ")"

				if len(ops) == 0 && !dynamic {
					r.Violate("R-C43-2", key, w.pos(c.Pos()), "Authorized is called with no operation: it then answers true for anyone with any record for the table")

					return
				}

				methods := handlerOf[fn]
				if fn.Parent() != nil {
					methods = handlerOf[fn.Parent()]
				}

				if fn.Name() == "authorizeStatement" {
					methods = nil // SQL endpoint: the operation comes from the parsed statement (C15)
				}

				if dynamic || len(methods) == 0 {
					r.Discharge("R-C43-2", key, w.pos(c.Pos()), "not inside a route handler for one HTTP method (operation computed or helper shared by several routes)")

					return
				}

				ok2 := true

				var want []string

				for _, m := range methods {
					want = append(want, c43MethodPerm[m]...)
				}

				for _, op := range ops {
					found := false

					for _, wnt := range want {
						if permName[op] == wnt {
							found = true
						}
					}

					if !found {
						ok2 = false
					}
				}

				// a further requirement: another Authorized call of this handler
				// already asks for the method's own permission (an insert with
				// ?upsert also needs the update grant)
				if !ok2 {
					allInstrs(fn, func(i2 ssa.Instruction) {
						c2, isCall := i2.(*ssa.Call)
						if !isCall || c2 == c || calleeFunction(c2.Common()) != authFn {
							return
						}

						for _, e := range packedElems(c2.Call.Args[3]) {
							if s, isC := constString(e); isC {
								for _, wnt := range want {
									if permName[s] == wnt {
										ok2 = true
									}
								}
							}
						}
					})

					if ok2 {
						r.Discharge("R-C43-2", key, w.pos(c.Pos()), "an additional requirement behind the check for the route's own permission")

						return
					}
				}

				if ok2 {
					r.Discharge("R-C43-2", key, w.pos(c.Pos()), "matches route method(s) "+strings.Join(methods, ","))
				} else {
					r.Violate("R-C43-2", key, w.pos(c.Pos()), "the permission tested ("+strings.Join(ops, ",")+") does not correspond to the route's method ("+strings.Join(methods, ",")+"): a grant for one operation authorizes another")
				}
			})
		}
	}

	c43Authorized(w, r, authFn)
	c43CaseFlags(w, r, tp, permName)
}

// c43CaseFlags: R-C43-5. Each case of Authorized's operation switch consults
// exactly the grant flag of that operation (plus Admin).
func c43CaseFlags(w *World, r *Report, tp *packages.Package, permName map[string]string) {
	r.Rule("R-C43-5", "in tables.Authorized each case of the switch over the requested operation reads only that operation's grant flag and Admin of the permission record (read→Read, write→Write, update→Update, delete→Delete, admin→Admin)", 5)

	fd := w.funcDecl(tp, "Authorized")
	if fd == nil {
		r.Anchor("R-C43-5", "tables.Authorized")

		return
	}

	want := map[string]string{"TableReadPermission": "Read", "TableWritePermission": "Write", "TableUpdatePermission": "Update",
		"TableDeletePermission": "Delete", "TableAdminPermission": "Admin"}

	info := tp.TypesInfo
	n := 0

	ast.Inspect(fd.Body, func(nd ast.Node) bool {
		sw, ok := nd.(*ast.SwitchStmt)
		if !ok {
			return true
		}

		for _, st := range sw.Body.List {
			cc := st.(*ast.CaseClause)

			for _, e := range cc.List {
				tv, ok := info.Types[e]
				if !ok || tv.Value == nil || tv.Value.Kind() != constant.String {
					continue
				}

				pn := permName[constant.StringVal(tv.Value)]
				if pn == "" {
					continue
				}

				n++

				flags := map[string]bool{}

				for _, bs := range cc.Body {
					ast.Inspect(bs, func(x ast.Node) bool {
						se, ok := x.(*ast.SelectorExpr)
						if !ok {
							return true
						}

						if sel, ok := info.Selections[se]; ok && sel.Kind() == types.FieldVal {
							if nt := namedOf(sel.Recv()); nt != nil && nt.Obj().Name() == "PermissionsObject" {
								flags[se.Sel.Name] = true
							}
						}

						return true
					})
				}

				key := "tables.Authorized|case " + pn

				var extra []string

				for f := range flags {
					if f != want[pn] && f != "Admin" {
						extra = append(extra, f)
					}
				}

				sort.Strings(extra)

				switch {
				case !flags[want[pn]]:
					r.Violate("R-C43-5", key, w.pos(cc.Pos()), "the "+pn+" case does not consult the "+want[pn]+" flag of the permission record")
				case len(extra) > 0:
					r.Violate("R-C43-5", key, w.pos(cc.Pos()), "the "+pn+" case also accepts the "+strings.Join(extra, ",")+" flag: a grant for another operation authorizes this one")
				default:
					r.Discharge("R-C43-5", key, w.pos(cc.Pos()), "consults "+want[pn]+" (and Admin) only")
				}
			}
		}

		return true
	})

	if n < 5 {
		r.Anchor("R-C43-5", "five operation cases in tables.Authorized")
	}
}

func c43Gate(w *World, r *Report, fn *ssa.Function, touches map[*ssa.Function]bool, authFn *ssa.Function, isDBOp func(string) bool) {
	nAuth := 0

	cuts := cutEdges(fn, func(f Fact) bool {
		if f.Kind != "true" {
			return false
		}

		if isFieldNamed(f.V, "Admin") {
			return true
		}

		// local copy: isAdmin := session.Admin
		if derivesFrom(f.V, func(s ssa.Value) bool { return isFieldNamed(s, "Admin") }, nil) {
			return true
		}

		// the administrator flag handed in by the dispatching row handler
		if p, ok := f.V.(*ssa.Parameter); ok && strings.Contains(strings.ToLower(p.Name()), "admin") {
			return true
		}

		if c, ok := f.V.(*ssa.Call); ok && calleeFunction(c.Common()) == authFn {
			nAuth++

			return true
		}

		return false
	})

	// unrestricted DSNs are not limited
	for e := range cutEdges(fn, func(f Fact) bool { return f.Kind == "false" && isFieldNamed(f.V, "Restricted") }) {
		cuts[e] = true
	}

	reachable := reach(fn.Blocks[0], cuts, nil)
	n := 0

	allInstrs(fn, func(in ssa.Instruction) {
		ci, ok := in.(ssa.CallInstruction)
		if !ok {
			return
		}

		id := callID(ci.Common())
		cf := calleeFunction(ci.Common())

		sink := (isDBOp(id) && !strings.HasSuffix(id, ".Begin")) || (cf != nil && touches[cf] && cf != authFn && !callsFunc(cf, authFn))
		if !sink {
			return
		}

		n++

		name := lastSeg(id)
		if name == "" && cf != nil {
			name = cf.Name()
		}

		key := fnKey(fn) + "|" + name

		switch {
		case nAuth == 0:
			r.Violate("R-C43-1", key, w.pos(in.Pos()), "this handler reaches the database but never calls Authorized")
		case reachable[in.Block()]:
			r.Violate("R-C43-1", key, w.pos(in.Pos()), "this statement-executing call is reachable for a non-administrator when Authorized(...) is false (or is not consulted on this path): rows of a table are touched without the matching grant")
		default:
			r.Discharge("R-C43-1", key, w.pos(in.Pos()), "behind {administrator | Authorized true}")
		}
	})

	if n == 0 {
		r.Info("R-C43-1", fnKey(fn)+"|no-db", w.pos(fn.Pos()), "handler executes no statement itself")
	}
}

func c43Authorized(w *World, r *Report, fn *ssa.Function) {
	key := "tables.Authorized|true-only-when-granted"

	nGrant := 0

	cuts := cutEdges(fn, func(f Fact) bool {
		switch f.Kind {
		case "true":
			// a grant flag of the permission record
			for _, g := range []string{"Read", "Write", "Update", "Delete"} {
				if isFieldNamed(f.V, g) {
					nGrant++

					return true
				}
			}

			if isFieldNamed(f.V, "Admin") {
				// both PermissionsObject.Admin and Session.Admin: the administrator bypass
				return true
			}
		case "false":
			if isFieldNamed(f.V, "Restricted") {
				return true
			}

			if c, ok := f.V.(*ssa.Call); ok && strings.HasSuffix(callID(c.Common()), "tables.initPermissions") {
				return true
			}
		}

		return false
	})

	if nGrant < 4 {
		r.Violate("R-C43-3", key, w.pos(fn.Pos()), "Authorized does not test the read/write/update/delete grant flags")

		return
	}

	// the loop over operations must iterate at least once
	var must []*loopInfo

	for _, li := range naturalLoops(fn) {
		for b := range li.body {
			for _, in := range b.Instrs {
				if ia, ok := in.(*ssa.IndexAddr); ok {
					if p, isP := ia.X.(*ssa.Parameter); isP && p.Name() == "operations" {
						must = append(must, li)
					}
				}
			}
		}
	}

	bad := ""

	walkPathsOpt(fn, cuts, walkOpts{mustIterate: must}, func(b *ssa.BasicBlock, facts pathFacts) bool {
		ret, ok := b.Instrs[len(b.Instrs)-1].(*ssa.Return)
		if !ok {
			return false
		}

		if absValue(retResult(ret, 0), facts) != 'F' {
			bad = w.pos(ret.Pos())

			return true
		}

		return false
	})

	if bad != "" {
		r.Violate("R-C43-3", key, bad, "Authorized can answer true for a non-administrator on a restricted DSN although a requested operation is not granted (or an unknown operation name is treated as granted)")
	} else {
		r.Discharge("R-C43-3", key, w.pos(fn.Pos()), "every requested operation must be granted; unknown operations deny")
	}

	// the grant lookup
	cols := map[string]bool{}

	allInstrs(fn, func(in ssa.Instruction) {
		if c, ok := in.(*ssa.Call); ok && callID(c.Common()) == "internal/resources.ResHandle.Equals" {
			if s, isC := constString(c.Call.Args[1]); isC {
				cols[strings.ToLower(s)] = true
			}
		}
	})

	k2 := "tables.Authorized|lookup keyed by user+dsn+table"
	if cols["user"] && cols["dsn"] && cols["table"] {
		r.Discharge("R-C43-3", k2, w.pos(fn.Pos()), "filters on user, dsn and table")
	} else {
		r.Violate("R-C43-3", k2, w.pos(fn.Pos()), "the grant lookup does not filter on all of user, dsn and table: a grant for one user, DSN or table authorizes another")
	}

	_ = token.NoPos
}

func callsFunc(fn, target *ssa.Function) bool {
	found := false

	allCalls(fn, func(ci ssa.CallInstruction) {
		if calleeFunction(ci.Common()) == target {
			found = true
		}
	})

	for _, a := range fn.AnonFuncs {
		if callsFunc(a, target) {
			found = true
		}
	}

	return found
}

// opensWithAdminAction: the handler's GetDatabase/database.Open call passes the DSN admin action.
func opensWithAdminAction(fn *ssa.Function) bool {
	found := false

	allCalls(fn, func(ci ssa.CallInstruction) {
		id := callID(ci.Common())
		if !strings.HasSuffix(id, "tables.GetDatabase") && !strings.HasSuffix(id, "database.Open") {
			return
		}

		args := ci.Common().Args
		if len(args) == 0 {
			return
		}

		// dsns.DSNAdminAction is an int constant; compare by name through the constant's value 1<<n is fragile, so accept only the named constant's value
		if v, ok := constInt(args[len(args)-1]); ok && v == dsnAdminActionValue {
			found = true
		}
	})

	return found
}

var dsnAdminActionValue int64 = -1

// c43TransactionOwner: R-C43-6. A REST transaction parks a database handle that
// carries the session of the user who opened it, and parts of package tables
// judge grants by that session (the table listing). The handle, and the power
// to commit or roll the transaction back, must therefore go only to that user
// (or an administrator): every use of a transaction looked up by the id in the
// request lies behind an ownership test of the handle against the request's
// session.
func c43TransactionOwner(w *World, r *Report) {
	r.Rule("R-C43-6", "a transaction handle is used only by its creator: in package tables every use of a transaction found by the id in the request (returning its database handle, Commit, Rollback, removing it) is reachable only through the true edge of a test that compares the user of the session stored in the handle with the user of the request's session", 3)

	tp := w.pkg("internal/server/tables")
	if tp == nil {
		return
	}

	// owner predicates: bool functions of package tables over (*Database, *Session)
	// whose result involves a comparison of the two User fields
	isUserOf := func(v ssa.Value, typeSuffix string) bool {
		return derivesFrom(v, func(s ssa.Value) bool {
			u, ok := s.(*ssa.UnOp)
			if !ok {
				return false
			}

			fa, ok := u.X.(*ssa.FieldAddr)

			return ok && fieldName(fa.X.Type(), fa.Field) == "User" && strings.HasSuffix(fa.X.Type().String(), typeSuffix)
		}, nil)
	}

	comparesUsers := func(fn *ssa.Function) bool {
		found := false

		allInstrs(fn, func(in ssa.Instruction) {
			switch x := in.(type) {
			case *ssa.BinOp:
				if x.Op == token.EQL && isUserOf(x.X, "router.Session") && isUserOf(x.Y, "router.Session") {
					found = true
				}
			case *ssa.Call:
				if callID(x.Common()) == "strings.EqualFold" && len(x.Call.Args) == 2 && isUserOf(x.Call.Args[0], "router.Session") && isUserOf(x.Call.Args[1], "router.Session") {
					found = true
				}
			}
		})

		return found
	}

	predicates := map[*ssa.Function]bool{}

	for _, fn := range w.srcFuncs(tp) {
		if fn.Signature.Results().Len() == 1 && isBoolType(fn.Signature.Results().At(0).Type()) && comparesUsers(fn) {
			predicates[fn] = true
		}
	}

	isOwnerTest := func(v ssa.Value) bool {
		c, ok := v.(*ssa.Call)

		return ok && predicates[c.Common().StaticCallee()]
	}

	n := 0

	for _, fn := range w.srcFuncs(tp) {
		hasSession := false

		for _, p := range fn.Params {
			if strings.HasSuffix(p.Type().String(), "router.Session") {
				hasSession = true
			}
		}

		if !hasSession || predicates[fn] {
			continue
		}

		// where does the function get hold of a transaction?
		var sources []ssa.Value

		allInstrs(fn, func(in ssa.Instruction) {
			switch x := in.(type) {
			case *ssa.Lookup:
				if u, ok := x.X.(*ssa.UnOp); ok {
					if g, ok := u.X.(*ssa.Global); ok && g.Name() == "transactions" {
						sources = append(sources, x)
					}
				}
			case *ssa.Call:
				if callID(x.Common()) == "internal/server/tables.GetTransactionDB" {
					sources = append(sources, x)
				}
			}
		})

		if len(sources) == 0 {
			continue
		}

		fromSource := func(v ssa.Value) bool {
			return derivesFrom(v, func(s ssa.Value) bool {
				for _, src := range sources {
					if s == src {
						return true
					}
				}

				return false
			}, nil)
		}

		cuts := cutEdges(fn, func(f Fact) bool {
			if f.Kind != "true" {
				return false
			}

			if isOwnerTest(f.V) {
				return true
			}

			// inline comparison
			if bo, ok := f.V.(*ssa.BinOp); ok && bo.Op == token.EQL && isUserOf(bo.X, "router.Session") && isUserOf(bo.Y, "router.Session") {
				return true
			}

			if c, ok := f.V.(*ssa.Call); ok && callID(c.Common()) == "strings.EqualFold" && isUserOf(c.Call.Args[0], "router.Session") && isUserOf(c.Call.Args[1], "router.Session") {
				return true
			}

			return false
		})

		// uses of the transaction
		allInstrs(fn, func(in ssa.Instruction) {
			what := ""

			switch x := in.(type) {
			case *ssa.Call:
				id := callID(x.Common())
				if (strings.HasSuffix(id, "database.Database.Commit") || strings.HasSuffix(id, "database.Database.Rollback")) && len(x.Call.Args) > 0 && fromSource(x.Call.Args[0]) {
					what = strings.TrimPrefix(id[strings.LastIndex(id, ".")+1:], ".")
				}
			case *ssa.Return:
				for _, res := range retResults(x) {
					if strings.HasSuffix(res.Type().String(), "database.Database") && !isNilConst(res) && fromSource(res) {
						what = "handle returned"
					}
				}
			}

			if what == "" {
				return
			}

			n++

			key := fnKey(fn) + "|" + what + " behind the ownership test"

			if len(cuts) == 0 || instrReachableAfterCut(fn, in, cuts) {
				r.Violate("R-C43-6", key, w.pos(in.Pos()), "a transaction found by the id in the request is used without the request's user being compared with the user who opened it: naming another user's transaction, a caller lists the tables only that user may read (the listing judges the session stored in the handle) and commits or rolls back that user's work")
			} else {
				r.Discharge("R-C43-6", key, w.pos(in.Pos()), "only behind the ownership test")
			}
		})
	}

	if n == 0 {
		r.Anchor("R-C43-6", "uses of a transaction looked up by id in package tables")
	}
}

// c43TransactionDSN: R-C43-7. The row handlers judge table grants by the DSN
// named in the request, and run the statement on the database handle
// GetDatabase gives them. For a request that names a transaction that handle
// is the transaction's: unless GetDatabase makes sure the transaction is one on
// the DSN the request names, a grant for the table of one DSN opens the table
// of that name in another.
func c43TransactionDSN(w *World, r *Report) {
	r.Rule("R-C43-7", "a transaction serves only requests addressed to its own DSN: tables.GetDatabase returns the handle of a transaction found by id only through the true edge of a comparison of the handle's DSN with the DSN name it was asked for", 1)

	tp := w.pkg("internal/server/tables")
	if tp == nil {
		return
	}

	fn := w.ssaFunc(tp, "GetDatabase")
	if fn == nil {
		r.Anchor("R-C43-7", "tables.GetDatabase")

		return
	}

	var dsnParam ssa.Value

	for _, p := range fn.Params {
		if b, ok := p.Type().Underlying().(*types.Basic); ok && b.Kind() == types.String {
			dsnParam = p
		}
	}

	var source *ssa.Call

	allInstrs(fn, func(in ssa.Instruction) {
		if c, ok := in.(*ssa.Call); ok && callID(c.Common()) == "internal/server/tables.GetTransactionDB" {
			source = c
		}
	})

	if dsnParam == nil || source == nil {
		r.Anchor("R-C43-7", "the DSN-name parameter and the GetTransactionDB call of tables.GetDatabase")

		return
	}

	isHandleDSN := func(v ssa.Value) bool {
		return derivesFrom(v, func(s ssa.Value) bool {
			u, ok := s.(*ssa.UnOp)
			if !ok {
				return false
			}

			fa, ok := u.X.(*ssa.FieldAddr)

			return ok && fieldName(fa.X.Type(), fa.Field) == "DSN" && strings.HasSuffix(fa.X.Type().String(), "database.Database")
		}, nil)
	}

	isAsked := func(v ssa.Value) bool {
		return v == dsnParam || derivesFrom(v, func(s ssa.Value) bool { return s == dsnParam }, func(string) bool { return true })
	}

	cuts := cutEdges(fn, func(f Fact) bool {
		if f.Kind != "true" {
			return false
		}

		switch x := f.V.(type) {
		case *ssa.BinOp:
			return x.Op == token.EQL && ((isHandleDSN(x.X) && isAsked(x.Y)) || (isHandleDSN(x.Y) && isAsked(x.X)))
		case *ssa.Call:
			if callID(x.Common()) == "strings.EqualFold" && len(x.Call.Args) == 2 {
				return (isHandleDSN(x.Call.Args[0]) && isAsked(x.Call.Args[1])) || (isHandleDSN(x.Call.Args[1]) && isAsked(x.Call.Args[0]))
			}
		}

		return false
	})

	key := "tables.GetDatabase|transaction on the DSN the request names"
	bad := ""

	for _, ret := range returnsOf(fn) {
		for _, res := range retResults(ret) {
			if strings.HasSuffix(res.Type().String(), "database.Database") && !isNilConst(res) && derivesFrom(res, func(s ssa.Value) bool { return s == ssa.Value(source) }, nil) {
				if len(cuts) == 0 || instrReachableAfterCut(fn, ret, cuts) {
					bad = w.pos(ret.Pos())
				}
			}
		}
	}

	if bad != "" {
		r.Violate("R-C43-7", key, bad, "the handle of a transaction is returned whatever DSN the request names: the caller judges the table grant by the request's DSN and runs the statement on the transaction's database, so a user with a grant for d2.t and an open transaction on d1 reads d1.t by sending the d2 request with the d1 transaction's id")
	} else {
		r.Discharge("R-C43-7", key, w.pos(fn.Pos()), "only behind the comparison of the handle's DSN with the requested DSN")
	}
}
