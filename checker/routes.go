package main

import (
	"go/ast"
	"go/constant"
	"go/types"
	"sort"

	"golang.org/x/tools/go/packages"
)

// Route table extraction (E7): every `router.New(path, handler, method)`
// builder chain in the repository, with its builder calls.

type builderCall struct {
	name string
	args []string // constant values (exact strings) or "" when not constant
	expr *ast.CallExpr
}

type routeDecl struct {
	pkg      *packages.Package
	call     *ast.CallExpr // the New call
	path     string        // constant value, or source text
	pathConst bool
	method   string
	handler  *types.Func // nil if not a named function
	handlerText string
	chain    []builderCall
}

func (rd *routeDecl) has(name string) *builderCall {
	for i := range rd.chain {
		if rd.chain[i].name == name {
			return &rd.chain[i]
		}
	}

	return nil
}

func extractRoutes(w *World) []routeDecl {
	rp := w.pkg("internal/router")
	if rp == nil {
		return nil
	}

	routerT, _ := lookupObj(rp, "Router").(*types.TypeName)
	routeT, _ := lookupObj(rp, "Route").(*types.TypeName)

	if routerT == nil || routeT == nil {
		return nil
	}

	isNew := func(info *types.Info, c *ast.CallExpr) bool {
		se, ok := ast.Unparen(c.Fun).(*ast.SelectorExpr)
		if !ok || se.Sel.Name != "New" {
			return false
		}

		sel, ok := info.Selections[se]
		if !ok {
			return false
		}

		return namedOf(sel.Recv()) != nil && namedOf(sel.Recv()).Obj() == routerT
	}

	constOf := func(info *types.Info, e ast.Expr) (string, bool) {
		if tv, ok := info.Types[e]; ok && tv.Value != nil {
			if tv.Value.Kind() == constant.String {
				return constant.StringVal(tv.Value), true
			}

			return tv.Value.ExactString(), true
		}

		return "", false
	}

	var out []routeDecl

	for _, p := range w.pkgs {
		info := p.TypesInfo

		for _, file := range p.Syntax {
			// collect maximal builder chains: a call whose receiver chain bottoms out in New
			consumed := map[*ast.CallExpr]bool{}

			ast.Inspect(file, func(n ast.Node) bool {
				top, ok := n.(*ast.CallExpr)
				if !ok || consumed[top] {
					return true
				}

				// unwrap
				var chain []builderCall

				cur := top

				for {
					if isNew(info, cur) {
						break
					}

					se, ok := ast.Unparen(cur.Fun).(*ast.SelectorExpr)
					if !ok {
						return true
					}

					inner, ok := ast.Unparen(se.X).(*ast.CallExpr)
					if !ok {
						return true
					}

					sel, ok := info.Selections[se]
					if !ok || namedOf(sel.Recv()) == nil || namedOf(sel.Recv()).Obj() != routeT {
						return true
					}

					bc := builderCall{name: se.Sel.Name, expr: cur}

					for _, a := range cur.Args {
						v, _ := constOf(info, a)
						bc.args = append(bc.args, v)
					}

					chain = append([]builderCall{bc}, chain...)
					consumed[cur] = true
					cur = inner
				}

				consumed[cur] = true

				if len(cur.Args) != 3 {
					return true
				}

				rd := routeDecl{pkg: p, call: cur, chain: chain}
				rd.path, rd.pathConst = constOf(info, cur.Args[0])

				if !rd.pathConst {
					rd.path = types.ExprString(cur.Args[0])
				}

				rd.method, _ = constOf(info, cur.Args[2])
				rd.handlerText = types.ExprString(cur.Args[1])

				switch h := ast.Unparen(cur.Args[1]).(type) {
				case *ast.Ident:
					rd.handler, _ = info.Uses[h].(*types.Func)
				case *ast.SelectorExpr:
					rd.handler, _ = info.Uses[h.Sel].(*types.Func)
				}

				out = append(out, rd)

				return true
			})
		}
	}

	sort.Slice(out, func(i, j int) bool {
		if out[i].call.Pos() != out[j].call.Pos() {
			return out[i].call.Pos() < out[j].call.Pos()
		}

		return out[i].path < out[j].path
	})

	return out
}
